#!/usr/bin/env python3
"""Regenerates MANIFEST.json from props_meta.json (one source of truth for per-property texts)."""
import json, os
V = os.path.dirname(os.path.abspath(__file__))
meta = json.load(open(os.path.join(V, "props_meta.json")))
props = [json.loads(l) for l in open(os.path.join(V, "properties.jsonl"))]
checks, na = [], []
for p in props:
    pid = p["id"]
    m = meta.get(pid, {})
    if m.get("claimed"):
        checks.append({
            "property_id": pid,
            "quick_cmd": "./check %s --tier quick" % pid,
            "thorough_cmd": "./check %s --tier thorough" % pid,
            "evidence_file": "/verif/evidence/%s.json" % pid,
            "replay_cmd_template": "./check %s --replay {path}" % pid,
            "engine": "lean+hx",
            "level_claimed": {"category": "proof", "text": m["level_text"], "design_ref": m.get("design_ref", "DESIGN.md §8 " + pid)},
            "level_note": m["level_note"],
            "technique": m.get("technique", "Lean 4 theorems about a hand-written executable model + differential correspondence check against /repo"),
        })
    else:
        na.append({"property_id": pid, "reason": m.get("na_reason", "not claimed yet: model/theorems for this property are still being built (no check registered)")})
man = {
    "version": 1,
    "setup_cmd": "cd /verif && ./check --setup",
    "hooks": {
        "guard": "verif",
        "enable": "go build -tags verif (the harness under /verif/harness is built with -tags verif against /repo via a replace directive)",
        "baseline_off_cmd": "for m in . ./internal/lint; do (cd /repo/$m && GOFLAGS=-mod=mod go test -json -vet=off -count=1 -timeout 25m ./...); done",
        "source_commits": json.load(open(os.path.join(V, "hooks.json"))) if os.path.exists(os.path.join(V, "hooks.json")) else [],
        "add_only": True,
    },
    "engines": [
        {"name": "lean", "path": "/verif/lean", "serves_properties": [c["property_id"] for c in checks],
         "kind_free_text": "Lean 4.33 core-only project: Model/ (executable model), Props/ (property theorems), Extracted/ (regenerated from /repo), native driver for the line protocol"},
        {"name": "hx", "path": "/verif/harness", "serves_properties": [c["property_id"] for c in checks],
         "kind_free_text": "Go harness: runs the real code in-process on generated cases, pipes the same cases to the Lean driver, diffs; direct oracles find replays; cmd/extract regenerates Lean facts from the Go sources"},
    ],
    "checks": checks,
    "not_applicable": na,
    "notes": "Family: machine-checked proof in Lean 4. See DESIGN.md. Each check = proof obligations (lake build + axiom audit) + correspondence (model vs /repo) + direct oracles for replays.",
}
json.dump(man, open(os.path.join(V, "MANIFEST.json"), "w"), indent=1)
print("claimed:", [c["property_id"] for c in checks])
