#!/usr/bin/env python3
import json,glob,sys,os
prop=sys.argv[1]
ps=sorted(glob.glob('/verif/.cache/t-*/work-%s/result.json'%prop), key=os.path.getmtime)
r=json.load(open(ps[-1]))
print(r['evaluations'],r['distinct_nontrivial'],r['model_calls'])
print({k:v for k,v in r['distribution'].items() if len(r['distribution'])<60 or k.startswith('finding') or k.startswith('outcome')})
seen={}
for f in r['findings']:
    seen.setdefault((f['kind'],f['class']),f)
for (k,c),f in seen.items():
    print('-',k,c,'::',f['what'][:400])
    if len(sys.argv)>2: print('   case:',json.dumps(f['case'])[:1500])
