package sup

import (
	"encoding/json"
	"testing"
	"time"
)

func TestRoundTrips(t *testing.T) {
	var d Date
	if err := json.Unmarshal([]byte(`"2024-02-29"`), &d); err != nil || d != (Date{2024, 2, 29}) {
		t.Fatalf("date: %v %v", d, err)
	}
	if b, _ := json.Marshal(d); string(b) != `"2024-02-29"` {
		t.Fatalf("date marshal %s", b)
	}
	var r Raw
	if err := json.Unmarshal([]byte(`{"a":[1,null]}`), &r); err != nil || string(r) != `{"a":[1,null]}` {
		t.Fatalf("raw: %s %v", r, err)
	}
	if b, _ := json.Marshal(struct{ R Raw }{r}); string(b) != `{"R":{"a":[1,null]}}` {
		t.Fatalf("raw marshal %s", b)
	}
	var s Stamp
	if err := UnmarshalStamp([]byte(`"2024-02-29T12:34:56Z"`), &s); err != nil || !s.Time().Equal(time.Date(2024, 2, 29, 12, 34, 56, 0, time.UTC)) {
		t.Fatalf("stamp: %v %v", s, err)
	}
	if b, _ := MarshalStamp(&s); string(b) != `"2024-02-29T12:34:56Z"` {
		t.Fatalf("stamp marshal %s", b)
	}
	var m Money
	if err := UnmarshalMoney([]byte(`"12.34"`), &m); err != nil || m != 1234 {
		t.Fatalf("money: %v %v", m, err)
	}
	bl := Blob{0xde, 0xad}
	if b, _ := MarshalBlob(&bl); string(b) != `"dead"` {
		t.Fatalf("blob %s", b)
	}
	var o Option[int]
	if err := json.Unmarshal([]byte(`null`), &o); err != nil || o.Set {
		t.Fatalf("option null: %v %v", o, err)
	}
	if err := json.Unmarshal([]byte(`7`), &o); err != nil || !o.Set || o.V != 7 {
		t.Fatalf("option 7: %v %v", o, err)
	}
	if b, _ := json.Marshal(struct{ A, B Option[string] }{Some("x"), None[string]()}); string(b) != `{"A":"x","B":null}` {
		t.Fatalf("option marshal %s", b)
	}
	SetClient(nil, nil)
	if _, err := GetClientMyCtx(NewMyContext(nil, "e")); err != nil {
		t.Fatal(err)
	}
	if n, ctx := GetterCalls(); n != 1 || ctx == nil {
		t.Fatalf("getter calls %d %v", n, ctx)
	}
}
