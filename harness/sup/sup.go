// Package sup is the support package that genqlient-generated code in the
// verification harness binds to: Go types for custom scalars (with and without
// custom (un)marshal functions), the generic Option type for
// `optional: generic`, a custom context type and client getters.
package sup

import (
	"bytes"
	"context"
	"encoding/json"
	"errors"
	"fmt"
	"strconv"
	"sync"
	"time"

	"github.com/Khan/genqlient/graphql"
)

// ---------- scalars that rely on their own JSON methods ----------

// Date is a calendar date, "YYYY-MM-DD" on the wire; bound WITHOUT
// marshaler/unmarshaler functions (it has its own JSON methods).
type Date struct{ Y, M, D int }

func (d Date) String() string { return fmt.Sprintf("%04d-%02d-%02d", d.Y, d.M, d.D) }

func (d Date) MarshalJSON() ([]byte, error) {
	return []byte(`"` + d.String() + `"`), nil
}

func (d *Date) UnmarshalJSON(b []byte) error {
	if string(b) == "null" {
		return nil
	}
	var s string
	if err := json.Unmarshal(b, &s); err != nil {
		return fmt.Errorf("sup.Date: %w", err)
	}
	if len(s) != 10 || s[4] != '-' || s[7] != '-' {
		return fmt.Errorf("sup.Date: bad date %q", s)
	}
	y, e1 := strconv.Atoi(s[0:4])
	m, e2 := strconv.Atoi(s[5:7])
	dd, e3 := strconv.Atoi(s[8:10])
	if e1 != nil || e2 != nil || e3 != nil {
		return fmt.Errorf("sup.Date: bad date %q", s)
	}
	*d = Date{y, m, dd}
	return nil
}

// Raw is a json.RawMessage look-alike (a defined type, so it needs its own
// methods): it keeps whatever JSON it is given.
type Raw []byte

func (r Raw) MarshalJSON() ([]byte, error) {
	if r == nil {
		return []byte("null"), nil
	}
	return r, nil
}

func (r *Raw) UnmarshalJSON(b []byte) error {
	if r == nil {
		return errors.New("sup.Raw: UnmarshalJSON on nil pointer")
	}
	if string(b) == "null" {
		// symmetric with MarshalJSON (nil <-> null), so that values round-trip
		*r = nil
		return nil
	}
	*r = append((*r)[0:0], b...)
	return nil
}

// ---------- plain kinds (default JSON behaviour) ----------

type (
	ID    string
	Text  string
	Count int64
	Real  float64
	Flag  bool
)

// ---------- scalars with free (un)marshal functions ----------

// Stamp is an instant; bound with BOTH MarshalStamp and UnmarshalStamp.  It
// deliberately has no JSON methods of its own, so that forgetting to call
// the functions shows (it would marshal as "{}").
type Stamp struct{ t time.Time }

func StampOf(t time.Time) Stamp    { return Stamp{t.UTC()} }
func (s Stamp) Time() time.Time    { return s.t }
func (s Stamp) IsZero() bool       { return s.t.IsZero() }
func (s Stamp) Equal(o Stamp) bool { return s.t.Equal(o.t) }

const stampFormat = "2006-01-02T15:04:05Z"

func MarshalStamp(s *Stamp) ([]byte, error) {
	if s == nil || s.t.IsZero() {
		return []byte("null"), nil
	}
	return []byte(`"` + s.t.UTC().Format(stampFormat) + `"`), nil
}

func UnmarshalStamp(b []byte, s *Stamp) error {
	if string(b) == "null" {
		return nil
	}
	t, err := time.Parse(`"`+stampFormat+`"`, string(b))
	if err != nil {
		return fmt.Errorf("sup.UnmarshalStamp: %w", err)
	}
	s.t = t
	return nil
}

// Money is an amount in cents; bound with an UNMARSHALER only (wire format
// for reading is a decimal string "12.34"; writing uses default JSON, a
// number of cents).
type Money int64

func UnmarshalMoney(b []byte, m *Money) error {
	if string(b) == "null" {
		return nil
	}
	var s string
	if err := json.Unmarshal(b, &s); err != nil {
		var n int64
		if err2 := json.Unmarshal(b, &n); err2 != nil {
			return fmt.Errorf("sup.UnmarshalMoney: %w", err)
		}
		*m = Money(n)
		return nil
	}
	f, err := strconv.ParseFloat(s, 64)
	if err != nil {
		return fmt.Errorf("sup.UnmarshalMoney: %w", err)
	}
	if f < 0 {
		*m = Money(f*100 - 0.5)
	} else {
		*m = Money(f*100 + 0.5)
	}
	return nil
}

// Blob is a byte string; bound with a MARSHALER only (written as a hex
// string; read with default JSON, i.e. base64).
type Blob []byte

func MarshalBlob(b *Blob) ([]byte, error) {
	if b == nil || *b == nil {
		return []byte("null"), nil
	}
	const hexd = "0123456789abcdef"
	out := make([]byte, 0, 2+2*len(*b))
	out = append(out, '"')
	for _, c := range *b {
		out = append(out, hexd[c>>4], hexd[c&15])
	}
	return append(out, '"'), nil
}

// ---------- optional: generic ----------

// Option is the generic optional type: JSON null <-> unset.
type Option[T any] struct {
	V   T
	Set bool
}

func Some[T any](v T) Option[T] { return Option[T]{V: v, Set: true} }
func None[T any]() Option[T]    { return Option[T]{} }

func (o Option[T]) Get() (T, bool) { return o.V, o.Set }

func (o Option[T]) MarshalJSON() ([]byte, error) {
	if !o.Set {
		return []byte("null"), nil
	}
	return json.Marshal(o.V)
}

func (o *Option[T]) UnmarshalJSON(b []byte) error {
	if bytes.Equal(bytes.TrimSpace(b), []byte("null")) {
		var zero T
		o.V, o.Set = zero, false
		return nil
	}
	var v T
	if err := json.Unmarshal(b, &v); err != nil {
		return err
	}
	o.V, o.Set = v, true
	return nil
}

// ---------- context type ----------

// MyContext is a custom context type for `context_type`.
type MyContext interface {
	context.Context
	Extra() string
}

type myCtx struct {
	context.Context
	extra string
}

func (c myCtx) Extra() string { return c.extra }

// NewMyContext wraps ctx.
func NewMyContext(ctx context.Context, extra string) MyContext {
	if ctx == nil {
		ctx = context.Background()
	}
	return myCtx{ctx, extra}
}

// ---------- client getters ----------

var (
	mu        sync.Mutex
	client    graphql.Client
	clientErr error
	getCalls  int
	lastCtx   context.Context
)

// SetClient sets what the getters return.
func SetClient(c graphql.Client, err error) {
	mu.Lock()
	defer mu.Unlock()
	client, clientErr = c, err
	getCalls = 0
	lastCtx = nil
}

// GetterCalls reports how many times a getter ran since SetClient, and the
// context the last call received (nil for GetClientNoCtx).
func GetterCalls() (int, context.Context) {
	mu.Lock()
	defer mu.Unlock()
	return getCalls, lastCtx
}

func get(ctx context.Context) (graphql.Client, error) {
	mu.Lock()
	defer mu.Unlock()
	getCalls++
	lastCtx = ctx
	if clientErr != nil {
		return nil, clientErr
	}
	return client, nil
}

// GetClient is a `client_getter` for the default context type.
func GetClient(ctx context.Context) (graphql.Client, error) { return get(ctx) }

// GetClientMyCtx is a `client_getter` for context_type MyContext.
func GetClientMyCtx(ctx MyContext) (graphql.Client, error) { return get(ctx) }

// GetClientNoCtx is a `client_getter` for context_type "-".
func GetClientNoCtx() (graphql.Client, error) { return get(nil) }
