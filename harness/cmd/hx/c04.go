package main

import (
	"regexp"
	"encoding/base64"
	"encoding/hex"
	"encoding/json"
	"fmt"
	"reflect"
	"strings"

	"github.com/vektah/gqlparser/v2/ast"
	"github.com/vektah/gqlparser/v2/validator"
	"verifharness/internal/gen"
	"verifharness/internal/proto"
)

func init() {
	register("C04", "every query/mutation helper of G_prog programs (all optional/pointer/omitempty/use_struct_references settings, bound scalars with "+
		"and without marshalers) is called in a probe binary with argument values built from a PRNG per declared variable type (null / empty / "+
		"non-empty at every nullable or list position, zero and non-zero scalars, input objects incl. recursive) and a recording client; oracle: "+
		"exactly one request with the operation's name and emitted document, keys only for declared variables, a key omitted exactly when marked "+
		"omitempty and empty, values equal to the arguments, and the object coerces (gqlparser VariableValues); "+
		"non-trivial = distinct (program, operation, shapes of the argument tuple)", runC04)
}

type c04Case struct {
	Seed   uint64            `json:"gprog_seed"`
	Schema map[string]string `json:"schema"`
	Ops    map[string]string `json:"ops"`
	Cfg    ProgCfg           `json:"cfg"`
	Op     string            `json:"operation,omitempty"`
	Args   []string          `json:"args,omitempty"`
	// OpOmitFalse: the program has no @genqlient comment except `# @genqlient(omitempty: false)` in front of EVERY
	// operation: no variable and no input-object field may then be tagged omitempty, whatever the configuration
	OpOmitFalse bool `json:"op_omitempty_false,omitempty"`
	// ExpectOmit (hand-picked programs): "GoStruct.jsonName" -> whether the documented rules give that field omitempty
	ExpectOmit map[string]bool `json:"expect_omitempty,omitempty"`
}

func runC04(c *Ctx) {
	n := c.N(60, 1200)
	per := c.N(8, 60)
	var cases []c04Case
	if c.Replay != "" {
		var wrap struct{ Case c04Case `json:"case"` }
		b, err := osReadFile(c.Replay)
		if err == nil {
			err = json.Unmarshal(b, &wrap)
		}
		if err != nil {
			c.Res.Notes = append(c.Res.Notes, "replay unreadable")
			return
		}
		c04Batch(c, []c04Case{wrap.Case}, per)
		return
	}
	files, _ := filepathGlob(verifRoot + "/harness/corpus/C04/*.json")
	for _, f := range files {
		var wrap struct{ Case c04Case `json:"case"` }
		b, err := osReadFile(f)
		if err == nil && json.Unmarshal(b, &wrap) == nil {
			cases = append(cases, wrap.Case)
		}
	}
	for i := 0; i < n; i++ {
		seed := c.Seed*67867967 + uint64(i)
		o := safeOpts
		o.NoSubscriptions = true
		o.NoDirectives = i%4 == 3 // every fourth program: no comments (i%8 == 3) or only operation-level omitempty: false (i%8 == 7)
		p := gen.GenerateSeed(seed, o)
		pr := progFromGen(p)
		if p.Config.ClientGetter != "" {
			pr.Cfg.ClientGetter = p.Config.ClientGetter
		}
		if i%8 == 7 {
			for k, t := range pr.Ops {
				pr.Ops[k] = c04OpLineRe.ReplaceAllString(t, "# @genqlient(omitempty: false)\n$1")
			}
			if i%16 == 15 {
				pr.Cfg.StructReferences = true
			}
			cases = append(cases, c04Case{Seed: seed, Schema: pr.Schema, Ops: pr.Ops, Cfg: pr.Cfg, OpOmitFalse: true})
			continue
		}
		cases = append(cases, c04Case{Seed: seed, Schema: pr.Schema, Ops: pr.Ops, Cfg: pr.Cfg})
		if len(cases) >= 60 {
			c04Batch(c, cases, per)
			cases = nil
		}
	}
	if len(cases) > 0 {
		c04Batch(c, cases, per)
	}
}

func c04Batch(c *Ctx, cases []c04Case, per int) {
	srcs := map[string][]byte{}
	byPkg := map[string]c04Case{}
	for i, cs := range cases {
		out := runGenerate(c.Work, &Program{Schema: cs.Schema, Ops: cs.Ops, Cfg: cs.Cfg}, false)
		if out.Panic != nil || out.TimedOut || out.Err != nil {
			c.Res.Count("skipped:not-accepted")
			continue
		}
		name := fmt.Sprintf("p%03d", i)
		srcs[name] = out.Files["generated.go"]
		byPkg[name] = cs
	}
	if len(srcs) == 0 {
		return
	}
	b, err := buildBatch(c.Work, srcs)
	if b != nil {
		defer b.Close()
	}
	if err != nil || b == nil {
		c.Res.Notes = append(c.Res.Notes, "batch build failed: "+firstLine(fmt.Sprint(err)))
		return
	}
	for _, name := range sortedPkgNames(b) {
		if !b.Pkgs[name].OK {
			c.Res.Count("skipped:does-not-compile (C01)")
			continue
		}
		c04Program(c, b, name, byPkg[name], string(b.Pkgs[name].Src), per)
	}
}

// c04gen builds argument values directed by the generated Go types (so that every value is one the Go parameter
// type can hold) and computes what must be sent for them
type c04gen struct {
	incompatible bool // some builtin GraphQL scalar is bound to a Go type whose values are not of that GraphQL type (the user's choice)
	schema   *ast.Schema
	decls    *goDecls
	bindings map[string]map[string]string
	r        *proto.Rng
}

func goBase(goType string) string {
	t := strings.TrimLeft(goType, "*[]")
	if i := strings.IndexByte(t, '['); i >= 0 && !strings.HasPrefix(t, "map[") {
		t = t[:i]
	}
	return t[strings.LastIndex(t, ".")+1:]
}

// optionInner: "sup.Option[X]" -> X
func optionInner(goType string) (string, bool) {
	i := strings.Index(goType, "Option[")
	if i < 0 || strings.HasPrefix(goType, "*") || strings.HasPrefix(goType, "[]") || strings.HasPrefix(goType, "map[") {
		return "", false
	}
	return goType[i+7 : len(goType)-1], true
}

// goKind classifies a non-pointer, non-slice, non-Option Go type text
func (g *c04gen) goKind(goType string, t *ast.Type) string {
	switch {
	case strings.HasPrefix(goType, "map["):
		return "object"
	case goType == "interface{}" || goType == "any":
		return "raw"
	case goType == "string":
		return "string"
	case goType == "bool":
		return "bool"
	case strings.HasPrefix(goType, "int") || strings.HasPrefix(goType, "uint"):
		return "int"
	case strings.HasPrefix(goType, "float"):
		return "float"
	case goType == "time.Time":
		return "time"
	case goType == "json.RawMessage" || goType == "[]byte":
		return "raw"
	}
	base := goBase(goType)
	if strings.Contains(goType, ".") {
		if k := supKinds[base]; k != "" {
			if base == "Time" {
				return "time"
			}
			return k
		}
		return "string"
	}
	if _, ok := g.decls.structs[base]; ok {
		return "struct"
	}
	if def := g.schema.Types[t.Name()]; def != nil && def.Kind == ast.Enum {
		return "enum"
	}
	if u, ok := g.decls.named[base]; ok && u != goType {
		return g.goKind(u, t)
	}
	return "string"
}

func (g *c04gen) gen(goType string, t *ast.Type, omit bool, depth int) any {
	r := g.r
	if strings.HasPrefix(goType, "*") {
		if !t.NonNull && (r.Chance(1, 3) || depth > 5) {
			return nil
		}
		return g.gen(goType[1:], t, false, depth)
	}
	if inner, ok := optionInner(goType); ok {
		if !t.NonNull && (r.Chance(1, 3) || depth > 5) {
			return nil
		}
		return g.gen(inner, t, false, depth)
	}
	if strings.HasPrefix(goType, "[]") && t.Elem != nil {
		if !t.NonNull && r.Chance(1, 4) {
			return nil
		}
		n := r.Intn(3)
		if depth > 5 {
			n = 0
		}
		out := make([]any, n)
		for i := range out {
			out[i] = g.gen(goType[2:], t.Elem, false, depth+1)
		}
		return out
	}
	kind := g.goKind(goType, t)
	if want := map[string]string{"Int": "int float raw", "Float": "float int raw", "String": "string raw", "Boolean": "bool raw", "ID": "string int raw"}[t.Name()]; want != "" {
		if !strings.Contains(want, kind) {
			g.incompatible = true
		} else if kind == "raw" {
			switch t.Name() {
			case "Int":
				kind = "int"
			case "Float":
				kind = "float"
			case "Boolean":
				kind = "bool"
			default:
				kind = "string"
			}
		}
	}
	if kind == "stamp" && t.NonNull {
		g.incompatible = true // the zero sup.Stamp (all that JSON arguments can produce) marshals as null
	}
	switch kind {
	case "struct":
		def := g.schema.Types[t.Name()]
		obj := map[string]any{}
		base := goBase(goType)
		for _, f := range g.decls.structs[base] {
			name, om := g.fieldJSON(base, f)
			gf := def.Fields.ForName(name)
			if gf == nil {
				continue
			}
			obj[name] = g.gen(f.Type, gf.Type, om, depth+1)
		}
		return obj
	case "enum":
		def := g.schema.Types[t.Name()]
		if omit && r.Chance(1, 4) {
			return ""
		}
		return proto.Pick(r, def.EnumValues).Name
	case "int":
		if t.Name() == "Float" || t.Name() == "Int" || true {
			return proto.Pick(r, []any{0, 1, -7, 2147483647})
		}
	case "money":
		return proto.Pick(r, []any{0, 1234})
	case "float":
		return proto.Pick(r, []any{0.0, 1.5, -2.25})
	case "bool":
		return r.Bool()
	case "date":
		return proto.Pick(r, []any{"2024-02-29", "1999-12-31"})
	case "time":
		return "2024-05-06T07:08:09Z"
	case "stamp":
		return nil // cannot be set through JSON: the zero Stamp
	case "raw":
		if !t.NonNull && r.Chance(1, 4) {
			return nil
		}
		return proto.Pick(r, []any{map[string]any{"k": 1.0}, "s", 3.0})
	case "object":
		if !t.NonNull && r.Chance(1, 4) {
			return nil
		}
		return proto.Pick(r, []any{map[string]any{"k": 1.0}, map[string]any{}})
	case "base64":
		if !t.NonNull && r.Chance(1, 4) {
			return nil
		}
		return proto.Pick(r, []any{"", "aGVsbG8="})
	}
	if t.Name() == "ID" || t.Name() == "String" || true {
		return proto.Pick(r, []any{"", "x", "id-1", "héllo \"q\" \\ 日本"})
	}
	return nil
}

// fieldJSON: the JSON name and omitempty flag of a struct field (taken from the __premarshal struct for json:"-" fields)
func (g *c04gen) fieldJSON(owner string, f goField) (string, bool) {
	if f.JSON == "-" {
		if pf, ok := g.decls.premarshalFields[owner][f.Name]; ok {
			return pf.JSON, pf.Omit
		}
		// hidden and not re-exposed: its GraphQL name is the Go name with a lower-case first letter at best; report by Go name
		return "-" + f.Name, false
	}
	return f.JSON, f.Omit
}

// marshaled: the value at this leaf goes through a configured marshaler function
func (g *c04gen) marshaled(goType string, t *ast.Type) bool {
	b := g.bindings[t.Name()]
	if b == nil || b["marshaler"] == "" {
		return false
	}
	bt := b["type"]
	return goBase(bt) == goBase(goType)
}

// anyMarshalFn: the leaf is handled by generated code (marshaler or unmarshaler configured): json:"-" + __premarshal
func (g *c04gen) special(goType string, t *ast.Type) bool {
	b := g.bindings[t.Name()]
	if b == nil || (b["marshaler"] == "" && b["unmarshaler"] == "") {
		return false
	}
	return goBase(b["type"]) == goBase(goType)
}

// expect: what must be sent for arg, and whether the Go value is empty in the encoding/json sense
func (g *c04gen) expect(goType string, t *ast.Type, arg any) (any, bool) {
	if strings.HasPrefix(goType, "*") {
		if arg == nil {
			return nil, true
		}
		v, _ := g.expect(goType[1:], t, arg)
		return v, false
	}
	if inner, ok := optionInner(goType); ok {
		if arg == nil {
			return nil, false
		}
		v, _ := g.expect(inner, t, arg)
		return v, false
	}
	if strings.HasPrefix(goType, "[]") && t.Elem != nil {
		if arg == nil {
			leaf, lt := goType, t
			for strings.HasPrefix(leaf, "[]") && lt.Elem != nil {
				leaf, lt = leaf[2:], lt.Elem
			}
			if g.special(strings.TrimPrefix(leaf, "*"), lt) {
				return nilSpecialList{}, true
			}
			return nil, true
		}
		xs, _ := arg.([]any)
		out := make([]any, len(xs))
		for i, x := range xs {
			out[i], _ = g.expect(goType[2:], t.Elem, x)
		}
		return out, len(xs) == 0
	}
	switch g.goKind(goType, t) {
	case "struct":
		def := g.schema.Types[t.Name()]
		in, _ := arg.(map[string]any)
		out := map[string]any{}
		base := goBase(goType)
		for _, f := range g.decls.structs[base] {
			name, om := g.fieldJSON(base, f)
			gf := def.Fields.ForName(name)
			if gf == nil {
				if strings.HasPrefix(name, "-") {
					out[name] = "<hidden field without a premarshal entry>"
				}
				continue
			}
			v, empty := g.expect(f.Type, gf.Type, in[name])
			if om {
				if g.special(f.Type, gf.Type) && !strings.HasPrefix(f.Type, "[]") {
					// documented exception: only a nil pointer leaves the RawMessage empty
					empty = strings.HasPrefix(f.Type, "*") && in[name] == nil
				}
				if empty {
					continue
				}
			}
			out[name] = v
		}
		return out, false
	case "enum", "string":
		return arg, arg == "" || arg == nil
	case "int", "float", "money":
		f, _ := arg.(float64)
		return arg, f == 0
	case "bool":
		return arg, arg == false
	case "date", "time":
		return arg, false
	case "stamp":
		return nil, false
	case "raw":
		return arg, arg == nil
	case "object":
		m, _ := arg.(map[string]any)
		return arg, len(m) == 0
	case "base64":
		if arg == nil {
			return nil, true
		}
		s, _ := arg.(string)
		raw, _ := base64.StdEncoding.DecodeString(s)
		if g.marshaled(goType, t) {
			return hex.EncodeToString(raw), len(raw) == 0
		}
		return arg, len(raw) == 0
	}
	return arg, false
}

func c04Program(c *Ctx, b *Batch, pkg string, cs c04Case, src string, per int) {
	schemaDocs := []string{}
	for _, k := range sortedKeys(cs.Schema) {
		schemaDocs = append(schemaDocs, cs.Schema[k])
	}
	schema, err := loadSchema(schemaDocs)
	if err != nil {
		return
	}
	consts, _ := c03Constants([]byte(src))
	decls := parseGoDecls([]byte(src))
	for _, key := range sortedKeysB(cs.ExpectOmit) {
		want := cs.ExpectOmit[key]
		parts := strings.SplitN(key, ".", 2)
		found := false
		for _, f := range decls.structs[parts[0]] {
			j, omit := f.JSON, f.Omit
			if j == "-" {
				j = decls.premarshalGo[parts[0]][f.Name]
				if pf, ok := decls.premarshalFields[parts[0]][f.Name]; ok {
					omit = pf.Omit
				}
			}
			if j == parts[1] {
				found = true
				c.Res.Count("documented-omitempty:hand-picked-compared")
				if omit != want {
					c.Res.Add(proto.Finding{Kind: "violation", Class: "omitempty-not-documented", What: fmt.Sprintf("%s is tagged omitempty=%v; by the documented rules (the options of the operation that declares this type, nothing else) it is %v", key, omit, want), Case: cs})
				}
			}
		}
		if !found {
			c.Res.Add(proto.Finding{Kind: "violation", Class: "input-struct-shape", What: "hand-picked program: no field " + key + " in the generated code", Case: cs})
		}
	}
	for _, m := range dataTypeRe.FindAllStringSubmatch(src, -1) {
		opName := m[1]
		if cs.Op != "" && cs.Op != opName {
			continue
		}
		doc, err := parseAndValidate(schema, consts[opName])
		if err != nil || len(doc.Operations) != 1 {
			continue
		}
		op := doc.Operations[0]
		if len(op.VariableDefinitions) == 0 {
			continue
		}
		inputName := "__" + opName + "Input"
		fields := decls.structs[inputName]
		if len(fields) != len(op.VariableDefinitions) {
			c.Res.Add(proto.Finding{Kind: "violation", Class: "input-struct-shape", What: fmt.Sprintf("%s: %s has %d fields for %d declared variables", opName, inputName, len(fields), len(op.VariableDefinitions)), Case: cs})
			continue
		}
		// programs without any @genqlient comment: which variables and input-object fields are omitempty is then a
		// function of the configuration alone (documented: only input-object-typed ones under use_struct_references)
		if noDirectives(cs.Ops) || cs.OpOmitFalse {
			c04DocumentedOmitempty(c, cs, schema, decls, inputName, op, fields)
		}
		for k := 0; k < per; k++ {
			g := &c04gen{schema: schema, decls: decls, bindings: cs.Cfg.Bindings, r: proto.NewRng(c.Seed^cs.Seed, "c04/"+opName, uint64(k))}
			var args []string
			var argVals []any
			if cs.Args != nil && cs.Op == opName {
				if k > 0 {
					break
				}
				args = cs.Args
				for _, a := range args {
					var v any
					json.Unmarshal([]byte(a), &v)
					argVals = append(argVals, v)
				}
			} else {
				for i, v := range op.VariableDefinitions {
					_, om := g.fieldJSON(inputName, fields[i])
					val := g.gen(fields[i].Type, v.Type, om, 0)
					bs, _ := json.Marshal(val)
					var back any
					json.Unmarshal(bs, &back) // normalise numbers to float64
					args = append(args, string(bs))
					argVals = append(argVals, back)
				}
			}
			c.Res.Eval()
			one := cs
			one.Op, one.Args = opName, args
			fail := func(kind, class, what string, impl, model any) {
				c.Res.Add(proto.Finding{Kind: kind, Class: class, What: what, Case: one, Impl: impl, Model: model})
			}
			anyArgs := make([]any, len(args))
			for i, a := range args {
				anyArgs[i] = a
			}
			res := b.Call(map[string]any{"cmd": "call", "pkg": pkg, "func": opName, "args": anyArgs})
			if cr, ok := res["crash"]; ok {
				fail("violation", "probe-crash", fmt.Sprint(cr), nil, nil)
				return
			}
			if p, ok := res["panic"]; ok {
				fail("violation", "helper-panic", fmt.Sprintf("helper %s panicked: %v", opName, p), res["stack"], nil)
				continue
			}
			if ae, ok := res["argErr"]; ok {
				c.Res.Count("skipped:argument-not-decodable: " + errSignature(fmt.Sprint(ae)))
				if len(c.Res.Notes) < 6 {
					c.Res.Notes = append(c.Res.Notes, fmt.Sprintf("undecodable argument for %s %v: %v (input struct %+v)", opName, args, ae, fields))
				}
				continue
			}
			if nreq := fmt.Sprint(res["nreq"]); nreq != "1" {
				fail("violation", "request-count", fmt.Sprintf("helper %s made %s requests", opName, nreq), nil, nil)
				continue
			}
			if res["opName"] != opName || res["query"] != consts[opName] {
				fail("violation", "request-name-or-document", fmt.Sprintf("helper %s sent operation name %v / a document other than %s_Operation", opName, res["opName"], opName), nil, nil)
			}
			if ve, ok := res["varsErr"]; ok {
				fail("violation", "variables-not-marshalable", fmt.Sprintf("marshaling the variables of %s failed: %v", opName, ve), nil, nil)
				continue
			}
			varsText, _ := res["vars"].(string)
			if cs.Cfg.Optional != "generic" {
				codecVarsCompare(c, g.decls, inputName, args, varsText, one)
			}
			var vars map[string]any
			if err := json.Unmarshal([]byte(varsText), &vars); err != nil {
				fail("violation", "variables-not-an-object", "variables: "+varsText, nil, nil)
				continue
			}
			declared := map[string]bool{}
			for _, v := range op.VariableDefinitions {
				declared[v.Variable] = true
			}
			for k := range vars {
				if !declared[k] {
					fail("violation", "undeclared-variable-key", fmt.Sprintf("variables object has key %q, not a declared variable of %s", k, opName), varsText, nil)
				}
			}
			shapes := []string{}
			var modelVars []any
			for i, v := range op.VariableDefinitions {
				f := fields[i]
				_, om := g.fieldJSON(inputName, f)
				want, empty := g.expect(f.Type, v.Type, argVals[i])
				special := g.special(f.Type, v.Type) && !strings.HasPrefix(f.Type, "[]")
				shape := "nonEmpty"
				switch {
				case !empty:
				case strings.HasPrefix(f.Type, "*"):
					shape = "nilPointer"
				case strings.HasPrefix(f.Type, "[]"):
					shape = "nilOrEmptySlice"
				default:
					shape = "zeroScalar"
				}
				shapes = append(shapes, shape)
				c.Res.Count(fmt.Sprintf("variable:%s omitempty=%v custom-marshaled=%v", shape, om, special))
				c.Res.Count("variable-go-type:" + c04TypeClass(f.Type, g.goKind(strings.TrimLeft(strings.TrimPrefix(f.Type, "*"), "[]*"), v.Type)))
				modelVars = append(modelVars, map[string]any{"name": v.Variable, "omitempty": om, "special": special, "shape": shape})
				got, present := vars[v.Variable]
				if special {
					empty = shape == "nilPointer"
				}
				mayOmit := om && empty
				if !present && !mayOmit {
					fail("violation", "variable-dropped", fmt.Sprintf("%s: declared variable $%s (argument %s, omitempty=%v) is missing from the variables object %s", opName, v.Variable, trunc(args[i], 100), om, trunc(varsText, 200)), nil, nil)
					continue
				}
				if present && mayOmit {
					fail("violation", "omitempty-not-applied", fmt.Sprintf("%s: $%s is marked omitempty and empty (%s) but was sent", opName, v.Variable, args[i]), nil, nil)
				}
				if !present {
					continue
				}
				if msg := c04Diff(want, got, "$"+v.Variable); strings.HasPrefix(msg, "KNOWN ") {
					fail("violation", "nil-list-of-custom-marshaled-elements-sent-as-empty-list", fmt.Sprintf("%s: %s (argument %s; sent %s)", opName, msg[6:], trunc(args[i], 200), trunc(varsText, 300)), nil, nil)
				} else if msg != "" && strings.Contains(msg, ": dropped") && cs.Cfg.Optional == "generic" && genericWrapsMarshaledStruct(src) {
					// F-06g on the input side: a struct held BY VALUE in the generic optional type is marshaled without
					// its generated pointer-receiver MarshalJSON, so its json:"-" fields never reach the request
					fail("violation", "input-field-dropped:generic-optional-wraps-struct-by-value", fmt.Sprintf("%s: %s (argument %s; sent %s)", opName, msg, trunc(args[i], 200), trunc(varsText, 300)), nil, nil)
				} else if msg != "" {
					fail("violation", "variable-value-differs", fmt.Sprintf("%s: %s (argument %s; sent %s)", opName, msg, trunc(args[i], 200), trunc(varsText, 300)), nil, nil)
				}
			}
			c.Res.NonTrivial(fmt.Sprintf("%d|%s|%v", cs.Seed, opName, shapes))
			if c.Res.Evaluations%200 == 1 {
				c.Res.Sample(map[string]any{"gprog_seed": cs.Seed, "operation": opName, "arguments": args, "variables_sent": trunc(varsText, 300)})
			}
			// coercion against the schema: own predicate (GraphQL input coercion) and gqlparser's
			coerceOK := !g.incompatible
			if g.incompatible {
				c.Res.Count("observation:coercion-not-judged (builtin scalar bound to a Go type of another kind)")
			}
			for i, v := range op.VariableDefinitions {
				val, present := vars[v.Variable]
				if !present {
					_, om := g.fieldJSON(inputName, fields[i])
					if v.Type.NonNull && v.DefaultValue == nil && !om {
						coerceOK = false
						fail("violation", "variables-do-not-coerce: required-variable-absent", fmt.Sprintf("%s: required $%s absent from %s", opName, v.Variable, trunc(varsText, 200)), nil, nil)
					} else if v.Type.NonNull && v.DefaultValue == nil {
						coerceOK = false // the caller passed the empty value of a required variable they marked omitempty
						c.Res.Count("observation:required-variable-marked-omitempty-passed-empty")
					}
					continue
				}
				if msg := c04Coerces(schema, v.Type, val, "$"+v.Variable); msg != "" && !g.incompatible {
					coerceOK = false
					if strings.Contains(msg, "required field") && strings.Contains(msg, "absent") {
						// same: an input field the user marked omitempty although it is required, passed empty
						c.Res.Count("observation:required-input-field-marked-omitempty-passed-empty")
						continue
					}
					fail("violation", "variables-do-not-coerce: "+errSignature(msg), fmt.Sprintf("%s: variables %s do not coerce: %s", opName, trunc(varsText, 200), msg), nil, nil)
				}
			}
			if gerr := safeVariableValues(schema, op, vars); gerr != nil && coerceOK {
				fail("violation", "variables-do-not-coerce (gqlparser): "+errSignature(gerr.Error()), fmt.Sprintf("%s: variables %s do not coerce: %v", opName, trunc(varsText, 200), gerr), nil, nil)
			}
			// ---- model correspondence: which keys are present ----
			mres := c.Model(map[string]any{"op": "vars.keys", "vars": modelVars})
			want := []string{}
			if xs, ok := mres["out"].([]any); ok {
				for _, x := range xs {
					want = append(want, x.(string))
				}
			}
			gotKeys := []string{}
			for _, v := range op.VariableDefinitions {
				if _, ok := vars[v.Variable]; ok {
					gotKeys = append(gotKeys, v.Variable)
				}
			}
			if !reflect.DeepEqual(want, gotKeys) {
				fail("mismatch", "vars-keys-model", fmt.Sprintf("%s: keys sent %v, model %v (shapes %v)", opName, gotKeys, want, shapes), nil, nil)
			}
		}
	}
}

func c04TypeClass(goType, leafKind string) string {
	out := ""
	t := goType
	for {
		switch {
		case strings.HasPrefix(t, "*"):
			out, t = out+"*", t[1:]
			continue
		case strings.HasPrefix(t, "[]"):
			out, t = out+"[]", t[2:]
			continue
		}
		break
	}
	if _, ok := optionInner(t); ok {
		return out + "Option[…]"
	}
	return out + leafKind
}

// nilSpecialList: a nil slice whose elements go through generated (un)marshaling code
type nilSpecialList struct{}

// c04Diff compares what was sent with what must be sent, exactly (object keys included)
func c04Diff(want, got any, path string) string {
	switch w := want.(type) {
	case nilSpecialList:
		if xs, ok := got.([]any); ok && len(xs) == 0 {
			return "KNOWN " + path + ": a nil slice (null) of custom-marshaled elements was sent as []"
		}
		return c04Diff(nil, got, path)
	case nil:
		if got != nil {
			return fmt.Sprintf("%s: must be null, sent %v", path, got)
		}
	case []any:
		g, ok := got.([]any)
		if !ok || len(g) != len(w) {
			return fmt.Sprintf("%s: list differs (want %d elements)", path, len(w))
		}
		for i := range w {
			if m := c04Diff(w[i], g[i], fmt.Sprintf("%s[%d]", path, i)); m != "" {
				return m
			}
		}
	case map[string]any:
		g, ok := got.(map[string]any)
		if !ok {
			return fmt.Sprintf("%s: must be an object, sent %v", path, got)
		}
		for k := range g {
			if _, ok := w[k]; !ok {
				return fmt.Sprintf("%s.%s: sent but must be omitted (or is not a field)", path, k)
			}
		}
		for k, wv := range w {
			gv, ok := g[k]
			if !ok {
				return fmt.Sprintf("%s.%s: dropped (must be %v)", path, k, wv)
			}
			if m := c04Diff(wv, gv, path+"."+k); m != "" {
				return m
			}
		}
	default:
		if !reflect.DeepEqual(want, got) {
			return fmt.Sprintf("%s: must be %v, sent %v", path, want, got)
		}
	}
	return ""
}

// safeVariableValues runs gqlparser's own coercion; the library panics on a null inside a nested list
// (reflect.Value.Type on a zero Value), which is not genqlient's doing, so a panic counts as "no verdict"
func safeVariableValues(schema *ast.Schema, op *ast.OperationDefinition, vars map[string]any) (err error) {
	defer func() {
		if recover() != nil {
			err = nil
		}
	}()
	_, gerr := validator.VariableValues(schema, op, vars)
	if gerr != nil {
		return gerr
	}
	return nil
}

// c04Coerces is the GraphQL spec's input coercion (section 3.x "Input Coercion") as a predicate on decoded JSON
func c04Coerces(schema *ast.Schema, t *ast.Type, v any, path string) string {
	if v == nil {
		if t.NonNull {
			return path + ": null for non-null type " + t.String()
		}
		return ""
	}
	if t.Elem != nil {
		xs, ok := v.([]any)
		if !ok {
			return c04Coerces(schema, t.Elem, v, path) // single value coerces to a list of one
		}
		for i, x := range xs {
			if m := c04Coerces(schema, t.Elem, x, fmt.Sprintf("%s[%d]", path, i)); m != "" {
				return m
			}
		}
		return ""
	}
	def := schema.Types[t.NamedType]
	if def == nil {
		return path + ": unknown type"
	}
	switch def.Kind {
	case ast.Enum:
		s, ok := v.(string)
		if !ok || def.EnumValues.ForName(s) == nil {
			return fmt.Sprintf("%s: %v is not a value of enum %s", path, v, def.Name)
		}
	case ast.InputObject:
		o, ok := v.(map[string]any)
		if !ok {
			return path + ": not an object for input type " + def.Name
		}
		for k := range o {
			if def.Fields.ForName(k) == nil {
				return fmt.Sprintf("%s: unknown field %q of input type %s", path, k, def.Name)
			}
		}
		for _, f := range def.Fields {
			fv, present := o[f.Name]
			if !present {
				if f.Type.NonNull && f.DefaultValue == nil {
					return fmt.Sprintf("%s: required field %s absent", path, f.Name)
				}
				continue
			}
			if m := c04Coerces(schema, f.Type, fv, path+"."+f.Name); m != "" {
				return m
			}
		}
	case ast.Scalar:
		switch def.Name {
		case "Int":
			f, ok := v.(float64)
			if !ok || f != float64(int32(f)) {
				return fmt.Sprintf("%s: %v is not an Int", path, v)
			}
		case "Float":
			if _, ok := v.(float64); !ok {
				return fmt.Sprintf("%s: %v is not a Float", path, v)
			}
		case "String":
			if _, ok := v.(string); !ok {
				return fmt.Sprintf("%s: %v is not a String", path, v)
			}
		case "Boolean":
			if _, ok := v.(bool); !ok {
				return fmt.Sprintf("%s: %v is not a Boolean", path, v)
			}
		case "ID":
			_, isS := v.(string)
			f, isF := v.(float64)
			if !isS && !(isF && f == float64(int64(f))) {
				return fmt.Sprintf("%s: %v is not an ID", path, v)
			}
		}
	}
	return ""
}



var c04OpLineRe = regexp.MustCompile(`(?m)^((?:query|mutation) )`)

func noDirectives(ops map[string]string) bool {
	for _, t := range ops {
		if strings.Contains(t, "@genqlient") {
			return false
		}
	}
	return true
}

// c04DocumentedOmitempty: without @genqlient comments, a variable or input-object field is tagged omitempty exactly
// when use_struct_references is on and its (unwrapped) type is an input object; anything else would make the helper
// drop a value the caller passed.
func c04DocumentedOmitempty(c *Ctx, cs c04Case, schema *ast.Schema, decls *goDecls, inputName string, op *ast.OperationDefinition, fields []goField) {
	omitOf := func(owner string, f goField) bool {
		if f.JSON == "-" {
			if pf, ok := decls.premarshalFields[owner][f.Name]; ok {
				return pf.Omit
			}
		}
		return f.Omit
	}
	check := func(where, gqlType string, got bool) {
		d := schema.Types[gqlType]
		want := cs.Cfg.StructReferences && d != nil && d.Kind == ast.InputObject
		how := "with no @genqlient comment in the program"
		if cs.OpOmitFalse {
			want, how = false, "with `omitempty: false` on every operation and no other @genqlient comment"
			c.Res.Count("documented-omitempty:explicit-false-compared")
		}
		c.Res.Count("documented-omitempty:compared")
		if got != want {
			c.Res.Add(proto.Finding{Kind: "violation", Class: "omitempty-not-documented", What: fmt.Sprintf("%s (GraphQL type %s) is tagged omitempty=%v; %s and use_struct_references=%v the documented value is %v",
				where, gqlType, got, how, cs.Cfg.StructReferences, want), Case: cs})
		}
	}
	for i, v := range op.VariableDefinitions {
		check("variable $"+v.Variable+" of "+op.Name, v.Type.Name(), omitOf(inputName, fields[i]))
	}
	// input objects reachable from the variables, by their Go names
	seen := map[string]bool{}
	var visit func(name string)
	visit = func(name string) {
		d := schema.Types[name]
		if d == nil || d.Kind != ast.InputObject || seen[name] {
			return
		}
		seen[name] = true
		goName := strings.ToUpper(name[:1]) + name[1:]
		fs, ok := decls.structs[goName]
		if ok && len(fs) == len(d.Fields) {
			for i, f := range d.Fields {
				check("field "+name+"."+f.Name, f.Type.Name(), omitOf(goName, fs[i]))
			}
		}
		for _, f := range d.Fields {
			visit(f.Type.Name())
		}
	}
	for _, v := range op.VariableDefinitions {
		visit(v.Type.Name())
	}
}

func sortedKeysB(m map[string]bool) []string {
	ks := []string{}
	for k := range m {
		ks = append(ks, k)
	}
	sortStrings(ks)
	return ks
}
