package main

// Correspondence between the Lean model of the generated (un)marshalers (lean/Genq/Model/Codec.lean, driver op
// codec.run) and the compiled generated code: for one response type and one input text, the value the real
// UnmarshalJSON produced (probe dump), what the real MarshalJSON wrote for it, and whether the real round trip
// was the identity are compared with the model's dec / enc / dec∘enc.
//
// The model's type tree is derived from the generated Go source (godecls.go), not from the schema: it is the
// emitted declarations that are being modelled.

import (
	"bytes"
	"io"
	"encoding/json"
	"fmt"
	"sort"
	"strings"

	"verifharness/internal/proto"
)

type codecTy = map[string]any

type codecDeriver struct {
	tagOmit  bool   // input types: keep `,omitempty` as a suffix of the field name instead of giving up
	maxDepth int    // recursion bound for (recursive) input types; 0 = 40
	d        *goDecls
	opaque   bool   // some leaf is a bound type whose JSON behaviour the model does not know
	unsupp   string // reason the type is outside the model
	depth    int
	truncated bool
}

func leafTy(k string) codecTy { return codecTy{"k": "leaf", "leaf": k} }

func (cd *codecDeriver) ty(text string, hidden bool) codecTy {
	text = strings.TrimSpace(text)
	switch {
	case strings.HasPrefix(text, "[]"):
		return codecTy{"k": "slice", "t": cd.ty(text[2:], hidden)}
	case strings.HasPrefix(text, "*"):
		return codecTy{"k": "ptr", "t": cd.ty(text[1:], hidden)}
	}
	switch text {
	case "string":
		if hidden {
			return leafTy("custom")
		}
		return leafTy("str")
	case "int", "int32", "int64":
		if hidden {
			return leafTy("custom")
		}
		return leafTy("int")
	case "float64", "float32":
		if hidden {
			return leafTy("custom")
		}
		return leafTy("float")
	case "bool":
		if hidden {
			return leafTy("custom")
		}
		return leafTy("bool")
	case "interface{}", "any":
		if hidden {
			return leafTy("custom")
		}
		return leafTy("any")
	case "map[string]interface{}", "map[string]any":
		if hidden {
			return leafTy("custom")
		}
		return leafTy("map") // a Go map: accepts objects (and null) only; an EMPTY map is empty for omitempty
	}
	if strings.Contains(text, "Option[") {
		cd.unsupp = "generic optional type"
		return leafTy("any")
	}
	if _, ok := cd.d.ifaceImpls[text]; ok {
		impls := []any{}
		for _, tn := range cd.d.ifaceOrder[text] {
			impls = append(impls, map[string]any{"tn": tn, "t": cd.structTy(cd.d.ifaceImpls[text][tn])})
		}
		return codecTy{"k": "iface", "impls": impls}
	}
	if _, ok := cd.d.structs[text]; ok && !hidden {
		return cd.structTy(text)
	}
	if u, ok := cd.d.named[text]; ok && !hidden {
		return cd.ty(u, false) // e.g. `type Color string`
	}
	// a bound type (package-qualified) or anything else
	if hidden {
		return leafTy("custom")
	}
	if strings.HasPrefix(text, "sup.") {
		// the harness's own support types without methods behave as their underlying kind
		switch supKinds[strings.TrimPrefix(text, "sup.")] {
		case "string":
			return leafTy("str")
		case "int":
			return leafTy("int")
		case "float":
			return leafTy("float")
		case "bool":
			return leafTy("bool")
		}
	}
	cd.opaque = true
	return leafTy("any")
}

func (cd *codecDeriver) structTy(name string) codecTy {
	cd.depth++
	defer func() { cd.depth-- }()
	fs := []any{}
	lim := cd.maxDepth
	if lim == 0 {
		lim = 40
	}
	if cd.depth > lim {
		if cd.tagOmit {
			cd.truncated = true // recursive input type cut off below the depth any argument of this run reaches
			return leafTy("any")
		}
		cd.unsupp = "recursive type"
		return codecTy{"k": "struct", "fs": fs}
	}
	for _, f := range cd.d.structs[name] {
		if f.Embedded {
			en := strings.TrimPrefix(f.Type, "*")
			if strings.Contains(en, ".") {
				continue // graphql.NoUnmarshalJSON etc.
			}
			fs = append(fs, map[string]any{"json": en, "emb": true, "t": cd.structTy(en)})
			continue
		}
		jn, hidden := f.JSON, false
		if jn == "-" {
			hidden = true
			j, ok := cd.d.premarshalGo[name][f.Name]
			if !ok {
				cd.unsupp = "hidden field without a __premarshal entry"
			}
			jn = j
		}
		if jn == "" {
			cd.unsupp = "field without a json tag"
		}
		omit := f.Omit
		if hidden {
			// a specially handled field is tagged "-" in the struct itself; its omitempty is on the __premarshal struct
			if pf, ok := cd.d.premarshalFields[name][f.Name]; ok {
				omit = pf.Omit
			}
		}
		if omit {
			if cd.tagOmit {
				jn += ",omitempty"
			} else {
				cd.unsupp = "omitempty (input type)"
			}
		}
		fs = append(fs, map[string]any{"json": jn, "emb": false, "t": cd.ty(f.Type, hidden)})
	}
	return codecTy{"k": "struct", "fs": fs}
}

// taggedJSON reads one JSON value keeping object key order, duplicate keys and number tokens.
func taggedJSON(dec *json.Decoder) (any, bool, error) {
	tok, err := dec.Token()
	if err != nil {
		return nil, false, err
	}
	dup := false
	switch t := tok.(type) {
	case json.Delim:
		switch t {
		case '{':
			kvs := []any{}
			seen := map[string]bool{}
			for dec.More() {
				kt, err := dec.Token()
				if err != nil {
					return nil, false, err
				}
				k, _ := kt.(string)
				v, d, err := taggedJSON(dec)
				if err != nil {
					return nil, false, err
				}
				lk := strings.ToLower(k)
				dup = dup || d || seen[lk]
				seen[lk] = true
				kvs = append(kvs, []any{k, v})
			}
			if _, err := dec.Token(); err != nil {
				return nil, false, err
			}
			return map[string]any{"o": kvs}, dup, nil
		case '[':
			xs := []any{}
			for dec.More() {
				v, d, err := taggedJSON(dec)
				if err != nil {
					return nil, false, err
				}
				dup = dup || d
				xs = append(xs, v)
			}
			if _, err := dec.Token(); err != nil {
				return nil, false, err
			}
			return map[string]any{"a": xs}, dup, nil
		}
		return nil, false, fmt.Errorf("unexpected delimiter")
	case bool:
		return map[string]any{"b": t}, false, nil
	case json.Number:
		return map[string]any{"n": t.String()}, false, nil
	case string:
		return map[string]any{"s": t}, false, nil
	case nil:
		return nil, false, nil
	}
	return nil, false, fmt.Errorf("unexpected token")
}

func parseTagged(text string) (v any, dup bool, ok bool) {
	dec := json.NewDecoder(strings.NewReader(text))
	dec.UseNumber()
	v, dup, err := taggedJSON(dec)
	if err != nil {
		return nil, false, false
	}
	if _, err := dec.Token(); err != io.EOF {
		return nil, false, false // trailing data (or garbage) after the top-level value
	}
	return v, dup, true
}

// untag turns tagged JSON into the plain Go representation (objects as maps; the caller made sure there are no duplicates)
func untag(v any) any {
	m, ok := v.(map[string]any)
	if !ok {
		return nil
	}
	if b, ok := m["b"]; ok {
		return b
	}
	if n, ok := m["n"]; ok {
		return json.Number(n.(string))
	}
	if s, ok := m["s"]; ok {
		return s
	}
	if a, ok := m["a"]; ok {
		out := []any{}
		for _, x := range a.([]any) {
			out = append(out, untag(x))
		}
		return out
	}
	if o, ok := m["o"]; ok {
		out := map[string]any{}
		for _, kv := range o.([]any) {
			p := kv.([]any)
			out[p[0].(string)] = untag(p[1])
		}
		return out
	}
	return nil
}

func leafSame(kind string, mv, iv any) bool {
	switch kind {
	case "any", "custom", "map":
		return true // opaque
	case "float":
		a, ok1 := mv.(json.Number)
		b, ok2 := iv.(json.Number)
		if ok1 && ok2 {
			fa, _ := a.Float64()
			fb, _ := b.Float64()
			return fa == fb
		}
	}
	ja, _ := json.Marshal(mv)
	jb, _ := json.Marshal(iv)
	return bytes.Equal(ja, jb)
}

// cmpVal compares the model's value with the probe's dump along the type tree; returns "" or where they differ.
func (cd *codecDeriver) cmpVal(ty codecTy, mv any, dump dumpNode, path string) string {
	if dump == nil {
		return path + ": no dump"
	}
	switch ty["k"] {
	case "leaf":
		kind := ty["leaf"].(string)
		if kind == "any" || kind == "custom" || kind == "map" {
			return ""
		}
		if dump["t"] != "val" {
			return fmt.Sprintf("%s: model leaf, Go %v", path, dump["t"])
		}
		m, _ := mv.(map[string]any)
		var iv any
		if raw, ok := dump["v"]; ok {
			bs, _ := json.Marshal(raw)
			d := json.NewDecoder(bytes.NewReader(bs))
			d.UseNumber()
			d.Decode(&iv)
		}
		if m == nil || !leafSame(kind, untag(m["leaf"]), iv) {
			return fmt.Sprintf("%s: model %v, Go %v", path, compact(mv), compact(dump["v"]))
		}
		return ""
	case "ptr":
		if mv == "nilPtr" || dump["t"] == "nil-ptr" {
			if mv == "nilPtr" && dump["t"] == "nil-ptr" {
				return ""
			}
			return fmt.Sprintf("%s: model %v, Go %v", path, compact(mv), dump["t"])
		}
		m, _ := mv.(map[string]any)
		inner, _ := dump["v"].(map[string]any)
		if m == nil || dump["t"] != "ptr" {
			return fmt.Sprintf("%s: model %v, Go %v", path, compact(mv), dump["t"])
		}
		return cd.cmpVal(ty["t"].(codecTy), m["ptr"], inner, path)
	case "slice":
		if mv == "nilSlice" || dump["t"] == "nil-slice" {
			if mv == "nilSlice" && dump["t"] == "nil-slice" {
				return ""
			}
			return fmt.Sprintf("%s: model %v, Go %v", path, compact(mv), dump["t"])
		}
		m, _ := mv.(map[string]any)
		if m == nil || dump["t"] != "slice" {
			return fmt.Sprintf("%s: model %v, Go %v", path, compact(mv), dump["t"])
		}
		ms, _ := m["slice"].([]any)
		ds, _ := dump["v"].([]any)
		if len(ms) != len(ds) {
			return fmt.Sprintf("%s: model slice of %d, Go slice of %d", path, len(ms), len(ds))
		}
		for i := range ms {
			if r := cd.cmpVal(ty["t"].(codecTy), ms[i], ds[i].(map[string]any), fmt.Sprintf("%s[%d]", path, i)); r != "" {
				return r
			}
		}
		return ""
	case "iface":
		if mv == "nilIface" || dump["t"] == "nil-iface" {
			if mv == "nilIface" && dump["t"] == "nil-iface" {
				return ""
			}
			return fmt.Sprintf("%s: model %v, Go %v", path, compact(mv), dump["t"])
		}
		m, _ := mv.(map[string]any)
		if m == nil || dump["t"] != "iface" {
			return fmt.Sprintf("%s: model %v, Go %v", path, compact(mv), dump["t"])
		}
		tn, _ := m["iface"].(string)
		dyn, _ := dump["dyn"].(string)
		goImpl := strings.TrimPrefix(dyn[strings.LastIndex(dyn, ".")+1:], "*")
		var implTy codecTy
		wantImpl := ""
		for _, im := range ty["impls"].([]any) {
			e := im.(map[string]any)
			if e["tn"] == tn {
				implTy = e["t"].(codecTy)
			}
		}
		for _, mm := range cd.d.ifaceImpls {
			if g, ok := mm[tn]; ok && g == goImpl {
				wantImpl = g
			}
		}
		if implTy == nil || wantImpl == "" {
			return fmt.Sprintf("%s: model dispatches __typename %q, Go value is a %s", path, tn, dyn)
		}
		inner, _ := dump["v"].(map[string]any)
		if inner != nil && inner["t"] == "ptr" {
			inner, _ = inner["v"].(map[string]any)
		}
		return cd.cmpVal(implTy, m["v"], inner, path+"("+tn+")")
	case "struct":
		m, _ := mv.(map[string]any)
		if m == nil || dump["t"] != "struct" {
			return fmt.Sprintf("%s: model %v, Go %v", path, compact(mv), dump["t"])
		}
		ms, _ := m["struct"].([]any)
		fs, _ := ty["fs"].([]any)
		dfs, _ := dump["f"].([]any)
		if len(ms) != len(fs) || len(dfs) != len(fs) {
			return fmt.Sprintf("%s: %d type fields, %d model values, %d Go fields", path, len(fs), len(ms), len(dfs))
		}
		for i := range fs {
			f := fs[i].(map[string]any)
			df := dfs[i].([]any)
			val, _ := df[3].(map[string]any)
			if r := cd.cmpVal(f["t"].(codecTy), ms[i], val, path+"."+fmt.Sprint(f["json"])); r != "" {
				return r
			}
		}
		return ""
	}
	return path + ": unknown type kind"
}

func fullJSON(v any) string {
	b, _ := json.Marshal(v)
	return string(b)
}

func compact(v any) string {
	b, _ := json.Marshal(v)
	if len(b) > 160 {
		return string(b[:160]) + "…"
	}
	return string(b)
}

// fieldTyByName: the type of the field that supplies JSON name n when the struct is marshaled (own fields, then
// embedded structs breadth first)
func fieldTyByName(ty codecTy, n string) codecTy {
	queue := []codecTy{ty}
	for len(queue) > 0 {
		var next []codecTy
		for _, st := range queue {
			fs, _ := st["fs"].([]any)
			for _, x := range fs {
				f := x.(map[string]any)
				if f["emb"] == true {
					next = append(next, f["t"].(codecTy))
				} else if f["json"] == n {
					return f["t"].(codecTy)
				}
			}
		}
		queue = next
	}
	return nil
}

// cmpJSON compares what the model marshals with what the implementation marshaled, along the type tree.
func cmpJSON(ty codecTy, mj, ij any, path string) string {
	if ty == nil {
		return ""
	}
	switch ty["k"] {
	case "leaf":
		if !leafSame(ty["leaf"].(string), mj, ij) {
			return fmt.Sprintf("%s: model %s, Go %s", path, compact(mj), compact(ij))
		}
		return ""
	case "ptr":
		if mj == nil || ij == nil {
			if mj == nil && ij == nil {
				return ""
			}
			return fmt.Sprintf("%s: model %s, Go %s", path, compact(mj), compact(ij))
		}
		return cmpJSON(ty["t"].(codecTy), mj, ij, path)
	case "slice":
		ms, ok1 := mj.([]any)
		is, ok2 := ij.([]any)
		if !ok1 || !ok2 {
			if mj == nil && ij == nil {
				return ""
			}
			return fmt.Sprintf("%s: model %s, Go %s", path, compact(mj), compact(ij))
		}
		if len(ms) != len(is) {
			return fmt.Sprintf("%s: model list of %d, Go list of %d", path, len(ms), len(is))
		}
		for i := range ms {
			if r := cmpJSON(ty["t"].(codecTy), ms[i], is[i], fmt.Sprintf("%s[%d]", path, i)); r != "" {
				return r
			}
		}
		return ""
	case "iface":
		mo, ok1 := mj.(map[string]any)
		io, ok2 := ij.(map[string]any)
		if !ok1 || !ok2 {
			if mj == nil && ij == nil {
				return ""
			}
			return fmt.Sprintf("%s: model %s, Go %s", path, compact(mj), compact(ij))
		}
		tn, _ := mo["__typename"].(string)
		if itn, _ := io["__typename"].(string); itn != tn {
			return fmt.Sprintf("%s: model __typename %q, Go %q", path, tn, itn)
		}
		for _, im := range ty["impls"].([]any) {
			e := im.(map[string]any)
			if e["tn"] == tn {
				return cmpObj(e["t"].(codecTy), mo, io, path+"("+tn+")", true)
			}
		}
		return fmt.Sprintf("%s: no implementation for %q", path, tn)
	case "struct":
		mo, ok1 := mj.(map[string]any)
		io, ok2 := ij.(map[string]any)
		if !ok1 || !ok2 {
			return fmt.Sprintf("%s: model %s, Go %s", path, compact(mj), compact(ij))
		}
		return cmpObj(ty, mo, io, path, false)
	}
	return ""
}

func cmpObj(ty codecTy, mo, io map[string]any, path string, typenameAdded bool) string {
	mk, ik := []string{}, []string{}
	for k := range mo {
		mk = append(mk, k)
	}
	for k := range io {
		ik = append(ik, k)
	}
	sort.Strings(mk)
	sort.Strings(ik)
	if fmt.Sprint(mk) != fmt.Sprint(ik) {
		return fmt.Sprintf("%s: model writes keys %v, Go wrote %v", path, mk, ik)
	}
	for _, k := range mk {
		ft := fieldTyByName(ty, k)
		if ft == nil && k == "__typename" && typenameAdded {
			ft = leafTy("str")
		}
		if r := cmpJSON(ft, mo[k], io[k], path+"."+k); r != "" {
			return r
		}
	}
	return ""
}

// codecCompare runs the model on (type, text) and compares with the probe's result `res` of the same input.
func codecCompare(c *Ctx, decls *goDecls, cs respCase, respType, text string, res map[string]any) {
	if _, ok := res["crash"]; ok {
		return
	}
	if _, ok := res["panic"]; ok {
		return
	}
	cd := &codecDeriver{d: decls}
	ty := cd.structTy(respType)
	if cd.unsupp != "" {
		c.Res.Count("codec:skipped:" + cd.unsupp)
		return
	}
	tagged, dup, ok := parseTagged(text)
	if !ok {
		c.Res.Count("codec:skipped:input-not-json")
		return
	}
	if dup {
		c.Res.Count("codec:skipped:duplicate-keys")
		return
	}
	m := c.Model(map[string]any{"op": "codec.run", "ty": ty, "json": tagged})
	if e, bad := m["error"]; bad {
		c.Res.Count("codec:driver-error:" + firstLine(fmt.Sprint(e)))
		return
	}
	if m["supported"] != true {
		c.Res.Count("codec:skipped:fold-twins")
		return
	}
	mism := func(class, what string) {
		one := cs
		one.Response = text
		c.Res.Add(proto.Finding{Kind: "mismatch", Class: class, What: what, Case: one, Model: m})
	}
	_, implErr := res["err"]
	modelOK := m["ok"] == true
	if implErr || !modelOK {
		if implErr != !modelOK {
			if cd.opaque || strings.Contains(fullJSON(ty), `"custom"`) {
				c.Res.Count("codec:outcome-not-judged (bound types)")
				return
			}
			mism("codec-model-outcome", fmt.Sprintf("%s: implementation error=%v (%v), model ok=%v (%v) on %s", respType, implErr, res["err"], modelOK, m["err"], trunc(text, 200)))
			return
		}
		c.Res.Count("codec:both-reject")
		return
	}
	c.Res.Count("codec:decoded-compared")
	dump, _ := res["dump"].(map[string]any)
	if r := cd.cmpVal(ty, m["val"], dump, "$"); r != "" {
		mism("codec-model-decode", fmt.Sprintf("%s: decoded value differs from the model at %s", respType, r))
		return
	}
	if rm, ok := res["remarshal"].(string); ok {
		var ij any
		d := json.NewDecoder(strings.NewReader(rm))
		d.UseNumber()
		d.Decode(&ij)
		if r := cmpJSON(ty, untag(m["enc"]), ij, "$"); r != "" {
			if cs.Cfg.Optional == "generic" {
				c.Res.Count("codec:encode-not-judged (generic optional)")
			} else {
				mism("codec-model-encode", fmt.Sprintf("%s: marshaled JSON differs from the model at %s", respType, r))
			}
			return
		}
		c.Res.Count("codec:encoded-compared")
	}
	if eq, ok := res["roundtripEqual"].(bool); ok {
		again, _ := m["again"].(map[string]any)
		modelEq := again != nil && again["ok"] == true && fullJSON(again["val"]) == fullJSON(m["val"])
		// opaque leaves: the model keeps the JSON it saw, so its verdict is about structure only
		if eq != modelEq && !cd.opaque && !strings.Contains(fullJSON(ty), `"custom"`) {
			mism("codec-model-roundtrip", fmt.Sprintf("%s: implementation round trip equal=%v, model equal=%v", respType, eq, modelEq))
			return
		}
		c.Res.Count("codec:roundtrip-compared")
	}
}


// sameKeyDifferentTypes: somewhere in the type tree, a struct and its embedded fragments (or two of its fragments)
// carry one JSON name with different Go types.
func sameKeyDifferentTypes(ty codecTy) bool {
	switch ty["k"] {
	case "ptr", "slice":
		return sameKeyDifferentTypes(ty["t"].(codecTy))
	case "iface":
		for _, im := range ty["impls"].([]any) {
			if sameKeyDifferentTypes(im.(map[string]any)["t"].(codecTy)) {
				return true
			}
		}
		return false
	case "struct":
		byName := map[string]string{}
		var closure func(st codecTy) bool
		closure = func(st codecTy) bool {
			fs, _ := st["fs"].([]any)
			for _, x := range fs {
				f := x.(map[string]any)
				ft := f["t"].(codecTy)
				if f["emb"] == true {
					if closure(ft) {
						return true
					}
					continue
				}
				n := f["json"].(string)
				txt := fullJSON(ft)
				if o, ok := byName[n]; ok && o != txt {
					return true
				}
				byName[n] = txt
			}
			return false
		}
		if closure(ty) {
			return true
		}
		var sub func(st codecTy) bool
		sub = func(st codecTy) bool {
			fs, _ := st["fs"].([]any)
			for _, x := range fs {
				f := x.(map[string]any)
				ft := f["t"].(codecTy)
				if f["emb"] == true {
					if sub(ft) {
						return true
					}
				} else if sameKeyDifferentTypes(ft) {
					return true
				}
			}
			return false
		}
		return sub(ty)
	}
	return false
}


func jsonDepth(v any) int {
	switch x := v.(type) {
	case map[string]any:
		m := 0
		for _, y := range x {
			if d := jsonDepth(y); d > m {
				m = d
			}
		}
		return m + 1
	case []any:
		m := 0
		for _, y := range x {
			if d := jsonDepth(y); d > m {
				m = d
			}
		}
		return m + 1
	}
	return 0
}

// stripTags: the type with ",omitempty" removed from the field names (for navigating the marshaled JSON)
func stripTags(ty codecTy) codecTy {
	out := codecTy{}
	for k, v := range ty {
		out[k] = v
	}
	switch ty["k"] {
	case "ptr", "slice":
		out["t"] = stripTags(ty["t"].(codecTy))
	case "struct":
		fs := []any{}
		for _, x := range ty["fs"].([]any) {
			f := x.(map[string]any)
			fs = append(fs, map[string]any{"json": strings.Split(f["json"].(string), ",")[0], "emb": f["emb"], "t": stripTags(f["t"].(codecTy))})
		}
		out["fs"] = fs
	}
	return out
}

// codecVarsCompare: the variables object a helper call sent vs the model (driver op codec.vars): arguments decoded by
// plain encoding/json into the parameter types, put into the __<Op>Input struct, marshaled with omitempty.
func codecVarsCompare(c *Ctx, decls *goDecls, inputStruct string, args []string, sentVars string, cs any) {
	maxd := 0
	for _, a := range args {
		var v any
		json.Unmarshal([]byte(a), &v)
		if d := jsonDepth(v); d > maxd {
			maxd = d
		}
	}
	cd := &codecDeriver{d: decls, tagOmit: true, maxDepth: 2*maxd + 4}
	ty := cd.structTy(inputStruct)
	if cd.unsupp != "" {
		c.Res.Count("codec-vars:skipped:" + cd.unsupp)
		return
	}
	fs, _ := ty["fs"].([]any)
	if len(fs) != len(args) {
		c.Res.Count("codec-vars:skipped:arity")
		return
	}
	var targs []any
	for _, a := range args {
		t, dup, ok := parseTagged(a)
		if !ok || dup {
			c.Res.Count("codec-vars:skipped:argument-json")
			return
		}
		targs = append(targs, t)
	}
	m := c.Model(map[string]any{"op": "codec.vars", "fs": fs, "args": targs})
	if e, bad := m["error"]; bad {
		c.Res.Count("codec-vars:driver-error:" + firstLine(fmt.Sprint(e)))
		return
	}
	if m["ok"] != true {
		// the model could not decode an argument the real code decoded: only bound (opaque) leaves may explain that
		if cd.opaque || strings.Contains(fullJSON(ty), `"custom"`) {
			c.Res.Count("codec-vars:not-judged (bound types)")
			return
		}
		c.Res.Add(proto.Finding{Kind: "mismatch", Class: "codec-vars-model-decode", What: fmt.Sprintf("%s: the model cannot decode arguments %v (%v) that the implementation decoded", inputStruct, args, m["err"]), Case: cs, Model: m})
		return
	}
	var ij any
	d := json.NewDecoder(strings.NewReader(sentVars))
	d.UseNumber()
	d.Decode(&ij)
	c.Res.Count("codec-vars:compared")
	if r := cmpJSON(stripTags(ty), untag(m["enc"]), ij, "$"); r != "" {
		c.Res.Add(proto.Finding{Kind: "mismatch", Class: "codec-vars-model-encode", What: fmt.Sprintf("%s: the variables sent differ from the model at %s (arguments %v; sent %s)", inputStruct, r, args, trunc(sentVars, 300)), Case: cs, Model: m})
	}
}
