package main

import (
	"bytes"
	"context"
	"encoding/json"
	"fmt"
	"io"
	"net/http"
	"net/url"
	"reflect"
	"strings"

	"github.com/Khan/genqlient/graphql"
	"verifharness/internal/proto"
)

func init() {
	register("C11", "sequences of 1-4 requests on one GET/POST client (query text from a grammar of emitted-style documents, "+
		"adversarial prefixes, Unicode/URL/JSON-significant characters; variables nil/map/struct; endpoints with and without "+
		"existing parameters); non-trivial = distinct (method, gate outcome, variables kind, endpoint-has-query, #reserved bytes bucket)",
		runC11)
}

type recDoer struct {
	reqs []*http.Request
	body [][]byte
}

func (d *recDoer) Do(r *http.Request) (*http.Response, error) {
	var b []byte
	if r.Body != nil {
		b, _ = io.ReadAll(r.Body)
	}
	d.reqs = append(d.reqs, r)
	d.body = append(d.body, b)
	return &http.Response{StatusCode: 200, Body: io.NopCloser(strings.NewReader(`{"data":null}`))}, nil
}

type ctxKey struct{}

type c11Req struct {
	Query   string `json:"query"`
	OpName  string `json:"opName"`
	VarKind string `json:"varKind"` // nil | map | struct | ptrnil
	VarJSON string `json:"varJSON"` // what json.Marshal(Variables) gives (computed by the harness)
	Kind    string `json:"kind"`    // by construction: query|mutation|subscription|unknown
	Shape   string `json:"shape"`   // how the text was built
}
type c11Case struct {
	Method   string   `json:"method"`
	Endpoint string   `json:"endpoint"`
	Reqs     []c11Req `json:"reqs"`
}

var c11Specials = []string{"&", "=", "+", "%", "#", ";", "?", "/", " ", "\"", "\\", "\n", "\t", "é", "日本", "😀", " ", "<", ">", "'", "{", "}", "$", "~", ".", "-", "_", "\x00", "\x7f"}

func c11RandText(r *proto.Rng, n int) string {
	var sb strings.Builder
	for i := 0; i < n; i++ {
		if r.Chance(1, 3) {
			sb.WriteString(proto.Pick(r, c11Specials))
		} else {
			sb.WriteByte(byte('a' + r.Intn(26)))
		}
	}
	return sb.String()
}

func c11GenReq(r *proto.Rng) c11Req {
	kinds := []string{"query", "mutation", "subscription"}
	kind := proto.Pick(r, kinds)
	name := "Op" + c11RandIdent(r)
	body := "{ f(a: \"" + strings.NewReplacer("\"", "", "\\", "", "\n", " ").Replace(c11RandText(r, r.Intn(6))) + "\") }"
	core := kind + " " + name + " " + body
	q := c11Req{Kind: kind, OpName: name}
	switch r.Intn(12) {
	case 0, 1, 2, 3, 4: // exactly what the generator emits: "\n" + formatter output
		q.Shape = "emitted"
		q.Query = "\n" + core + "\n"
	case 5:
		q.Shape = "leading-space"
		q.Query = proto.Pick(r, []string{" ", "\t", "\r\n", " ", " ", "\v\f"}) + core
	case 6:
		q.Shape = "leading-comment"
		q.Query = "# c " + c11RandText(r, 3) + "\n" + core
	case 7:
		q.Shape = "leading-comma-or-bom"
		q.Query = proto.Pick(r, []string{",", "\ufeff", ", ,"}) + core
	case 8:
		q.Shape = "fragment-first"
		q.Query = "fragment F on T { x }\n" + core
	case 9:
		q.Shape = "shorthand"
		q.Kind = "query"
		q.Query = body
	case 10:
		q.Shape = "empty"
		q.Kind = "unknown"
		q.Query = ""
	default:
		q.Shape = "kw-prefix-name" // a query whose *name* looks like a keyword; kind stays query
		q.Kind = "query"
		q.Query = "query mutation" + name + " " + body
	}
	if r.Chance(1, 6) {
		q.OpName = ""
	} else if r.Chance(1, 4) {
		q.OpName = c11RandText(r, 1+r.Intn(5))
	}
	switch r.Intn(4) {
	case 0:
		q.VarKind = "nil"
	case 1:
		q.VarKind = "map"
	case 2:
		q.VarKind = "struct"
	default:
		q.VarKind = "ptrnil"
	}
	return q
}

func c11RandIdent(r *proto.Rng) string {
	n := 1 + r.Intn(5)
	b := make([]byte, n)
	for i := range b {
		b[i] = byte('A' + r.Intn(26))
	}
	return string(b)
}

type c11Vars struct {
	ID   string   `json:"id"`
	N    int      `json:"n"`
	Tags []string `json:"tags"`
}

func c11MakeVars(q c11Req, r *proto.Rng) any {
	switch q.VarKind {
	case "map":
		return map[string]any{"k" + c11RandText(r, 2): c11RandText(r, 4), "n": r.Intn(100), "z": nil}
	case "struct":
		return &c11Vars{ID: c11RandText(r, 5), N: r.Intn(1000), Tags: []string{c11RandText(r, 2)}}
	case "ptrnil":
		return (*c11Vars)(nil)
	}
	return nil
}

func c11GenEndpoint(r *proto.Rng) string {
	base := proto.Pick(r, []string{"http://h.example/graphql", "https://h.example:8443/a/b%20c/gql", "http://h.example", "http://h.example/p/"})
	switch r.Intn(5) {
	case 0, 1:
		return base
	case 2:
		return base + "?token=" + url.QueryEscape(c11RandText(r, 4))
	case 3:
		return base + "?b=2&a=1&a=3&query=old&variables=x&" + url.QueryEscape(c11RandText(r, 2)+"k") + "=" + url.QueryEscape(c11RandText(r, 3))
	default:
		return base + "?z=%zz&ok=1&&=v&novalue&x=1+2"
	}
}

func runC11(c *Ctx) {
	cases := c.N(1500, 60000)
	if c.Replay != "" {
		var cs c11Case
		b, err := readFile(c.Replay)
		if err == nil {
			err = json.Unmarshal(b, &cs)
		}
		if err != nil {
			c.Res.Notes = append(c.Res.Notes, "replay unreadable: "+err.Error())
			return
		}
		c11Run(c, cs, nil)
		return
	}
	files, _ := filepathGlob(verifRoot + "/harness/corpus/C11/*.json")
	for _, f := range files {
		var wrap struct{ Case c11Case `json:"case"` }
		b, err := readFile(f)
		if err == nil && json.Unmarshal(b, &wrap) == nil && len(wrap.Case.Reqs) > 0 {
			c11Run(c, wrap.Case, nil)
		}
	}
	for i := 0; i < cases; i++ {
		r := c.Rng("case", i)
		cs := c11Case{Method: proto.Pick(r, []string{"GET", "POST"}), Endpoint: c11GenEndpoint(r)}
		n := 1 + r.Intn(4)
		for k := 0; k < n; k++ {
			cs.Reqs = append(cs.Reqs, c11GenReq(r))
		}
		c11Run(c, cs, r)
	}
	// re-entrant use: the Doer issues another request through the SAME client before it reads the body of the
	// request it was handed (a token refresh, a retrying transport); each request must still go out as itself
	for i := 0; i < c.N(120, 4000); i++ {
		c11Reentrant(c, c.Rng("reentrant", i))
	}
}

type nestDoer struct {
	cl     graphql.Client
	inner  *graphql.Request
	depth  int
	bodies map[string][]byte // by the marker the harness put into the context
}

func (d *nestDoer) Do(r *http.Request) (*http.Response, error) {
	tag, _ := r.Context().Value(ctxKey{}).(int)
	if d.depth == 0 && d.inner != nil {
		d.depth++
		var resp graphql.Response
		d.cl.MakeRequest(context.WithValue(context.Background(), ctxKey{}, 1), d.inner, &resp)
		d.depth--
	}
	var b []byte
	if r.Method == "GET" {
		b = []byte(r.URL.RawQuery)
	} else if r.Body != nil {
		b, _ = io.ReadAll(r.Body)
	}
	d.bodies[fmt.Sprint(tag)] = b
	return &http.Response{StatusCode: 200, Body: io.NopCloser(strings.NewReader(`{"data":null}`))}, nil
}

func c11Reentrant(c *Ctx, r *proto.Rng) {
	c.Res.Eval()
	method := proto.Pick(r, []string{"POST", "POST", "GET"})
	mk := func(tag string, n int) *graphql.Request {
		return &graphql.Request{Query: "query " + tag + " { f(a: \"" + strings.Repeat("x", n) + "\") }", OpName: tag, Variables: map[string]any{"id": tag + strings.Repeat("y", n)}}
	}
	n := r.Intn(6)
	outer := mk("Outer", n)
	innerLen := n
	switch r.Intn(3) {
	case 0:
		innerLen = n + 1 + r.Intn(5)
	case 1:
		if n > 0 {
			innerLen = r.Intn(n)
		}
	}
	inner := mk("Inner", innerLen) // "Inner"/"Outer": same length, so innerLen == n gives byte strings of equal length
	d := &nestDoer{inner: inner, bodies: map[string][]byte{}}
	if method == "GET" {
		d.cl = graphql.NewClientUsingGet("http://example.com/graphql", d)
	} else {
		d.cl = graphql.NewClient("http://example.com/graphql", d)
	}
	var resp graphql.Response
	err := d.cl.MakeRequest(context.WithValue(context.Background(), ctxKey{}, 0), outer, &resp)
	c.Res.Count("reentrant:" + method)
	c.Res.NonTrivial(fmt.Sprintf("reentrant|%s|%d|%d", method, n, innerLen))
	check := func(tag string, want *graphql.Request) {
		b := d.bodies[tag]
		var gq, gn, gv string
		if method == "POST" {
			var m map[string]json.RawMessage
			if json.Unmarshal(b, &m) != nil {
				c.Res.Add(proto.Finding{Kind: "violation", Class: "reentrant-body-not-json", What: fmt.Sprintf("request %s went out with a body that is not JSON when another request was built before its body was read: %q", tag, trunc(string(b), 200)), Case: map[string]any{"method": method, "outer": outer, "inner": inner}})
				return
			}
			json.Unmarshal(m["query"], &gq)
			json.Unmarshal(m["operationName"], &gn)
			gv = string(m["variables"])
		} else {
			vals, _ := url.ParseQuery(string(b))
			gq, gn, gv = vals.Get("query"), vals.Get("operationName"), vals.Get("variables")
		}
		wv, _ := json.Marshal(want.Variables)
		if gq != want.Query || gn != want.OpName || gv != string(wv) {
			c.Res.Add(proto.Finding{Kind: "violation", Class: "reentrant-request-differs", What: fmt.Sprintf("request %s (%s) was transmitted as query=%q operationName=%q variables=%s when another request was built before its body was read", tag, want.OpName, gq, gn, gv), Case: map[string]any{"method": method, "outer": outer, "inner": inner}})
		}
	}
	if err != nil {
		c.Res.Add(proto.Finding{Kind: "violation", Class: "legit-request-not-sent", What: "re-entrant request failed: " + err.Error(), Case: map[string]any{"method": method}})
		return
	}
	check("0", outer)
	check("1", inner)
}

func readFile(p string) ([]byte, error) { return osReadFile(p) }

// c11Run executes one request sequence on ONE client (state must not leak between requests).
func c11Run(c *Ctx, cs c11Case, r *proto.Rng) {
	if r == nil {
		r = proto.NewRng(c.Seed, "replay", 0)
	}
	doer := &recDoer{}
	var cl graphql.Client
	if cs.Method == "GET" {
		cl = graphql.NewClientUsingGet(cs.Endpoint, doer)
	} else {
		cl = graphql.NewClient(cs.Endpoint, doer)
	}
	epURL, epErr := url.Parse(cs.Endpoint)
	for i := range cs.Reqs {
		q := &cs.Reqs[i]
		c.Res.Eval()
		vars := c11MakeVars(*q, r)
		var varJSON []byte
		if vars != nil {
			varJSON, _ = json.Marshal(vars)
			q.VarJSON = string(varJSON)
		}
		req := &graphql.Request{Query: q.Query, OpName: q.OpName, Variables: vars}
		ctx := context.WithValue(context.Background(), ctxKey{}, i)
		before := len(doer.reqs)
		var resp graphql.Response
		err := cl.MakeRequest(ctx, req, &resp)
		sent := len(doer.reqs) - before
		fail := func(kind, class, what string, impl, model any) {
			c.Res.Add(proto.Finding{Kind: kind, Class: class, What: what, Case: map[string]any{"case": cs, "failing_request_index": i}, Impl: impl, Model: model})
		}

		// ---- model: gate ----
		m := c.Model(map[string]any{"op": "http.gate", "method": cs.Method, "q": q.Query})
		mg := m["out"].(string)
		ig := "pass"
		if err != nil && sent == 0 {
			switch {
			case strings.Contains(err.Error(), "does not support mutations"):
				ig = "refuseMutation"
			case strings.Contains(err.Error(), "does not support subscriptions"):
				ig = "refuseSubscription"
			default:
				ig = "error:" + err.Error()
			}
		}
		if mg != ig {
			fail("mismatch", "gate-model", fmt.Sprintf("gate: impl=%s model=%s for %q", ig, mg, q.Query), ig, mg)
		}
		c.Res.Count("gate:" + cs.Method + ":" + ig)
		c.Res.Count("shape:" + q.Shape)

		// ---- direct oracle: refused kinds never reach Do ----
		mustRefuse := (cs.Method == "GET" && (q.Kind == "mutation" || q.Kind == "subscription")) || (cs.Method == "POST" && q.Kind == "subscription")
		if mustRefuse && (sent > 0 || err == nil) {
			class := "gate-bypass:" + q.Shape
			fail("violation", class, fmt.Sprintf("%s client transmitted a %s (document shape %s): %q", cs.Method, q.Kind, q.Shape, q.Query), nil, nil)
		}
		if !mustRefuse && q.Kind != "unknown" && (sent != 1 || err != nil) {
			fail("violation", "legit-request-not-sent", fmt.Sprintf("%s client did not send a %s exactly once: sent=%d err=%v", cs.Method, q.Kind, sent, err), nil, nil)
		}
		if sent == 0 {
			continue
		}
		if sent > 1 {
			fail("violation", "multiple-sends", fmt.Sprintf("%d HTTP requests for one MakeRequest", sent), nil, nil)
		}
		hr := doer.reqs[len(doer.reqs)-1]
		body := doer.body[len(doer.body)-1]
		if ct := hr.Header.Get("Content-Type"); ct != "application/json" {
			fail("violation", "content-type", "Content-Type = "+ct, nil, nil)
		}
		if v, _ := hr.Context().Value(ctxKey{}).(int); hr.Context().Value(ctxKey{}) == nil || v != i {
			fail("violation", "context", "caller's context not attached to the HTTP request", nil, nil)
		}
		if hr.Method != cs.Method {
			fail("violation", "method", "HTTP method "+hr.Method, nil, nil)
		}
		nres := 0
		for _, ch := range []byte(q.Query + q.OpName + q.VarJSON) {
			if !(ch >= 'a' && ch <= 'z' || ch >= 'A' && ch <= 'Z' || ch >= '0' && ch <= '9') {
				nres++
			}
		}
		c.Res.NonTrivial(fmt.Sprintf("%s|%s|%s|%v|%d", cs.Method, ig, q.VarKind, strings.Contains(cs.Endpoint, "?"), min(nres/8, 6)))
		if i == 0 {
			c.Res.Sample(map[string]any{"method": cs.Method, "endpoint": cs.Endpoint, "request": q, "sent_url": hr.URL.String(), "sent_body": string(body)})
		}

		if cs.Method == "POST" {
			if hr.URL.String() != cs.Endpoint && epErr == nil && hr.URL.String() != epURL.String() {
				fail("violation", "post-url", "POST URL "+hr.URL.String()+" != endpoint", nil, nil)
			}
			var gotm map[string]json.RawMessage
			if e := json.Unmarshal(body, &gotm); e != nil {
				fail("violation", "post-body-not-json", e.Error(), string(body), nil)
				continue
			}
			var gq, gn string
			if e := json.Unmarshal(gotm["query"], &gq); e != nil || gq != q.Query {
				fail("violation", "post-query", "decoded query differs", gq, q.Query)
			}
			if e := json.Unmarshal(gotm["operationName"], &gn); e != nil || gn != q.OpName {
				fail("violation", "post-opname", "decoded operationName differs", gn, q.OpName)
			}
			for k := range gotm {
				if k != "query" && k != "operationName" && k != "variables" {
					fail("violation", "post-extra-key", "unexpected key "+k, nil, nil)
				}
			}
			var gv *json.RawMessage
			if v, ok := gotm["variables"]; ok {
				gv = &v
			}
			c11CompareVars(fail, vars, gv)
			continue
		}

		// ---- GET ----
		if len(body) != 0 {
			fail("violation", "get-has-body", "GET request carries a body", string(body), nil)
		}
		if epErr == nil {
			if hr.URL.Scheme != epURL.Scheme || hr.URL.Host != epURL.Host || hr.URL.EscapedPath() != epURL.EscapedPath() {
				fail("violation", "get-path", "endpoint scheme/host/path not preserved: "+hr.URL.String(), nil, nil)
			}
		}
		// model correspondence on the raw query string
		existing := ""
		if epErr == nil {
			existing = epURL.RawQuery
		}
		mreq := map[string]any{"op": "http.getRawQuery", "existing": proto.Hex([]byte(existing)), "query": proto.Hex([]byte(q.Query)), "opName": proto.Hex([]byte(q.OpName))}
		if vars != nil {
			mreq["vars"] = proto.Hex(varJSON)
		} else {
			mreq["vars"] = nil
		}
		mm := c.Model(mreq)
		if mraw := string(proto.UnHex(mm["out"].(string))); mraw != hr.URL.RawQuery {
			fail("mismatch", "rawquery-model", "RawQuery differs from model", hr.URL.RawQuery, mraw)
		}
		// direct oracle: decode with the standard library
		vals, perr := url.ParseQuery(hr.URL.RawQuery)
		if perr != nil && !strings.Contains(existing, "%zz") {
			fail("violation", "get-query-unparseable", perr.Error(), hr.URL.RawQuery, nil)
		}
		expect1 := func(key, want string, present bool) {
			got, ok := vals[key]
			if !present {
				// an absent request field must not be invented (endpoint's own value may remain)
				if ok && epErr == nil && !reflect.DeepEqual(got, epURL.Query()[key]) {
					fail("violation", "get-stale-"+key, fmt.Sprintf("URL carries %s=%q although the request has none", key, got), nil, nil)
				}
				return
			}
			if !ok || len(got) != 1 || got[0] != want {
				fail("violation", "get-"+key, fmt.Sprintf("decoded %s = %q, want %q", key, got, want), nil, nil)
			}
		}
		expect1("query", q.Query, q.Query != "")
		expect1("operationName", q.OpName, q.OpName != "")
		if vars != nil {
			got, ok := vals["variables"]
			if !ok || len(got) != 1 {
				fail("violation", "get-variables", fmt.Sprintf("decoded variables = %q", got), nil, nil)
			} else {
				raw := json.RawMessage(got[0])
				c11CompareVars(fail, vars, &raw)
			}
		} else {
			expect1("variables", "", false)
		}
		if epErr == nil && !strings.ContainsAny(existing, ";") {
			for k, v := range epURL.Query() {
				if k == "query" || k == "operationName" || k == "variables" {
					continue
				}
				if !reflect.DeepEqual(vals[k], v) {
					fail("violation", "get-other-param", fmt.Sprintf("endpoint parameter %q: %q became %q", k, v, vals[k]), nil, nil)
				}
			}
		}
	}
}

func c11CompareVars(fail func(kind, class, what string, impl, model any), vars any, got *json.RawMessage) {
	if vars == nil {
		if got != nil {
			fail("violation", "vars-invented", "variables present although request has none", string(*got), nil)
		}
		return
	}
	if got == nil {
		fail("violation", "vars-missing", "variables missing", nil, nil)
		return
	}
	want, _ := json.Marshal(vars)
	var a, b any
	da := json.NewDecoder(bytes.NewReader(want))
	da.UseNumber()
	db := json.NewDecoder(bytes.NewReader(*got))
	db.UseNumber()
	if da.Decode(&a) != nil || db.Decode(&b) != nil || !reflect.DeepEqual(a, b) {
		fail("violation", "vars-differ", "decoded variables differ from the request's", string(*got), string(want))
	}
}
