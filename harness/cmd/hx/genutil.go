package main

import (
	"fmt"
	"os"
	"path/filepath"
	"runtime/debug"
	"sort"
	"time"

	"github.com/Khan/genqlient/generate"
)

// Program is a fully expanded generator input: files + configuration.
type Program struct {
	Schema  map[string]string `json:"schema"`  // relative filename -> content
	Ops     map[string]string `json:"ops"`     // relative filename -> content (.graphql or .go)
	Cfg     ProgCfg           `json:"cfg"`
}

type ProgCfg struct {
	Package          string                       `json:"package"`
	ContextType      string                       `json:"contextType,omitempty"`
	ClientGetter     string                       `json:"clientGetter,omitempty"`
	Optional         string                       `json:"optional,omitempty"`
	OptionalGeneric  string                       `json:"optionalGeneric,omitempty"`
	StructReferences bool                         `json:"structReferences,omitempty"`
	Extensions       bool                         `json:"extensions,omitempty"`
	ExportOperations bool                         `json:"exportOperations,omitempty"`
	CasingDefault    string                       `json:"casingDefault,omitempty"`
	CasingAllEnums   string                       `json:"casingAllEnums,omitempty"`
	CasingEnums      map[string]string            `json:"casingEnums,omitempty"`
	Bindings         map[string]map[string]string `json:"bindings,omitempty"` // gql -> {type, marshaler, unmarshaler, expect_exact_fields}
}

type GenOut struct {
	Files    map[string][]byte // keyed by relative name: generated.go, operations.json
	Err      error
	Panic    any
	Stack    string
	TimedOut bool
	Dir      string
	Events   []generate.VerifTypeMapEvent // accesses to the generator's type map, in order
}

var genDirCounter int

// forceSlot names the directory the next reusable programs are laid out in (a path no earlier program used)
var forceSlot string

// writeProgram lays the program out under a fresh directory and returns it.
func writeProgram(work string, p *Program) (string, error) { return writeProgramAt(work, p, false) }

// writeProgramAt: with reuse, the program is laid out at ONE fixed path that successive programs of this
// process overwrite (a user regenerating in place): any state the generator keeps across calls keyed by
// file name (a cache of parsed schemas, of source lines, ...) then meets different contents under the same name.
func writeProgramAt(work string, p *Program, reuse bool) (string, error) {
	genDirCounter++
	dir := filepath.Join(work, fmt.Sprintf("p%d-%d", os.Getpid(), genDirCounter))
	if reuse {
		dir = filepath.Join(work, fmt.Sprintf("p%d-slot", os.Getpid()))
		if forceSlot != "" {
			dir = filepath.Join(work, fmt.Sprintf("p%d-%s", os.Getpid(), forceSlot))
		}
	}
	os.RemoveAll(dir)
	for name, content := range p.Schema {
		fp := filepath.Join(dir, name)
		os.MkdirAll(filepath.Dir(fp), 0o755)
		if err := os.WriteFile(fp, []byte(content), 0o644); err != nil {
			return dir, err
		}
	}
	for name, content := range p.Ops {
		fp := filepath.Join(dir, name)
		os.MkdirAll(filepath.Dir(fp), 0o755)
		if err := os.WriteFile(fp, []byte(content), 0o644); err != nil {
			return dir, err
		}
	}
	return dir, nil
}

func sortedKeys(m map[string]string) []string {
	ks := make([]string, 0, len(m))
	for k := range m {
		ks = append(ks, k)
	}
	sort.Strings(ks)
	return ks
}

func makeConfig(dir string, p *Program) *generate.Config {
	cfg := &generate.Config{
		Generated:   filepath.Join(dir, "generated.go"),
		Package:     p.Cfg.Package,
		ContextType: p.Cfg.ContextType,
		ClientGetter: p.Cfg.ClientGetter,
		Optional:    p.Cfg.Optional,
		OptionalGenericType: p.Cfg.OptionalGeneric,
		StructReferences: p.Cfg.StructReferences,
		Extensions:  p.Cfg.Extensions,
	}
	if cfg.Package == "" {
		cfg.Package = "gen"
	}
	if cfg.ContextType == "" {
		cfg.ContextType = "context.Context"
	}
	for _, k := range sortedKeys(p.Schema) {
		cfg.Schema = append(cfg.Schema, filepath.Join(dir, k))
	}
	for _, k := range sortedKeys(p.Ops) {
		cfg.Operations = append(cfg.Operations, filepath.Join(dir, k))
	}
	if p.Cfg.ExportOperations {
		cfg.ExportOperations = filepath.Join(dir, "operations.json")
	}
	cfg.Casing.Default = generate.CasingAlgorithm(p.Cfg.CasingDefault)
	cfg.Casing.AllEnums = generate.CasingAlgorithm(p.Cfg.CasingAllEnums)
	if len(p.Cfg.CasingEnums) > 0 {
		cfg.Casing.Enums = map[string]generate.CasingAlgorithm{}
		for k, v := range p.Cfg.CasingEnums {
			cfg.Casing.Enums[k] = generate.CasingAlgorithm(v)
		}
	}
	if len(p.Cfg.Bindings) > 0 {
		cfg.Bindings = map[string]*generate.TypeBinding{}
		for k, b := range p.Cfg.Bindings {
			cfg.Bindings[k] = &generate.TypeBinding{Type: b["type"], Marshaler: b["marshaler"], Unmarshaler: b["unmarshaler"], ExpectExactFields: b["expect_exact_fields"]}
		}
	}
	generate.VerifSetBaseDir(cfg, dir)
	return cfg
}

// runGenerate runs the real generator in-process with panic recovery and a watchdog.
func runGenerate(work string, p *Program, keepDir bool) *GenOut {
	dir, err := writeProgramAt(work, p, !keepDir)
	out := &GenOut{Dir: dir}
	if !keepDir {
		defer os.RemoveAll(dir)
	}
	if err != nil {
		out.Err = err
		return out
	}
	cfg := makeConfig(dir, p)
	done := make(chan struct{})
	var events []generate.VerifTypeMapEvent
	generate.VerifTypeMapLog = func(ev generate.VerifTypeMapEvent) { events = append(events, ev) }
	defer func() { generate.VerifTypeMapLog = nil }()
	go func() {
		defer close(done)
		defer func() { out.Events = events }()
		defer func() {
			if r := recover(); r != nil {
				out.Panic = r
				out.Stack = string(debug.Stack())
			}
		}()
		files, err := generate.Generate(cfg)
		out.Err = err
		if err == nil {
			out.Files = map[string][]byte{}
			for k, v := range files {
				rel, _ := filepath.Rel(dir, k)
				out.Files[rel] = v
			}
		}
	}()
	select {
	case <-done:
	case <-time.After(20 * time.Second):
		out.TimedOut = true
	}
	return out
}
