// hx: correspondence + direct-oracle harness. One sub-command per property.
//   hx -prop C11 -tier quick -seed 1 -driver /verif/lean/.lake/build/bin/driver -out result.json [-replay file]
package main

import (
	"encoding/json"
	"flag"
	"fmt"
	"os"
	"sort"
	"time"

	"verifharness/internal/proto"
)

type Ctx struct {
	Prop   string
	Tier   string
	Seed   uint64
	Drv    *proto.Driver
	Res    *proto.Result
	Replay string // path of a case file to replay, or ""
	Work   string // scratch directory (under /verif/.cache)
	Repo   string
	Budget time.Duration
	start  time.Time
}

func (c *Ctx) Thorough() bool { return c.Tier == "thorough" }
func (c *Ctx) N(quick, thorough int) int {
	if c.Thorough() {
		return thorough
	}
	return quick
}
func (c *Ctx) Rng(stream string, n int) *proto.Rng { return proto.NewRng(c.Seed, c.Prop+"/"+stream, uint64(n)) }

// Model calls the driver; a driver failure is fatal (it is machinery, not a finding).
func (c *Ctx) Model(req map[string]any) map[string]any {
	m, err := c.Drv.Call(req)
	if err != nil {
		fmt.Fprintln(os.Stderr, "hx: driver failure:", err)
		os.Exit(3)
	}
	return m
}

type runner struct {
	rule string
	run  func(*Ctx)
}

var runners = map[string]runner{}

func register(prop, rule string, f func(*Ctx)) { runners[prop] = runner{rule, f} }

// verifRoot and repoRoot are where the framework and the repository under test live; they differ from
// the defaults only when a seeded change is evaluated on scratch copies of both.
var verifRoot, repoRoot = "/verif", "/repo"

func main() {
	prop := flag.String("prop", "", "property id")
	tier := flag.String("tier", "quick", "quick|thorough")
	seed := flag.Uint64("seed", 1, "seed")
	driver := flag.String("driver", "/verif/lean/.lake/build/bin/driver", "lean driver")
	out := flag.String("out", "", "result json")
	replay := flag.String("replay", "", "replay case file")
	work := flag.String("work", "", "scratch dir")
	repo := flag.String("repo", "/repo", "repository root")
	list := flag.Bool("list", false, "list properties")
	flag.StringVar(&verifRoot, "verif", "/verif", "root of the verification framework (corpus, flags, harness module)")
	flag.Parse()
	repoRoot = *repo
	if *list {
		ks := []string{}
		for k := range runners {
			ks = append(ks, k)
		}
		sort.Strings(ks)
		for _, k := range ks {
			fmt.Println(k)
		}
		return
	}
	r, ok := runners[*prop]
	if !ok {
		fmt.Fprintln(os.Stderr, "hx: no runner for", *prop)
		os.Exit(2)
	}
	if *work != "" {
		// generated files are written below the scratch directory; x/tools/imports (run by the generator)
		// resolves package names through the enclosing module, as it would in a user's project
		os.MkdirAll(*work, 0o755)
		gomod := "module scratch\n\ngo 1.23\n\nrequire (\n\tgithub.com/Khan/genqlient v0.0.0\n\tverifharness v0.0.0\n)\n\nreplace github.com/Khan/genqlient => " + *repo + "\n\nreplace verifharness => " + verifRoot + "/harness\n"
		os.WriteFile(*work+"/go.mod", []byte(gomod), 0o644)
		if sum, err := os.ReadFile(*repo + "/go.sum"); err == nil {
			os.WriteFile(*work+"/go.sum", sum, 0o644)
		}
	}
	drv, err := proto.StartDriver(*driver)
	if err != nil {
		fmt.Fprintln(os.Stderr, "hx: cannot start driver:", err)
		os.Exit(3)
	}
	ctx := &Ctx{Prop: *prop, Tier: *tier, Seed: *seed, Drv: drv, Replay: *replay, Work: *work, Repo: *repo,
		Res: proto.NewResult(*prop, *tier, *seed, r.rule), start: time.Now()}
	r.run(ctx)
	ctx.Res.ModelCalls = drv.Calls
	drv.Close()
	if *out != "" {
		if err := ctx.Res.Write(*out); err != nil {
			fmt.Fprintln(os.Stderr, "hx:", err)
			os.Exit(3)
		}
	} else {
		b, _ := json.MarshalIndent(ctx.Res, "", " ")
		fmt.Println(string(b))
	}
}
