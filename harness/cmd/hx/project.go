package main

import (
	"fmt"
	"os"
	"os/exec"
	"path/filepath"
	"runtime/debug"
	"strings"

	"github.com/Khan/genqlient/generate"

	"verifharness/internal/proto"
)

// A "project" run: genqlient used the way a user's repository uses it — a Go module of its own, a genqlient.yaml
// read from disk through ReadAndValidateConfig (go/packages resolves the generated package's path and loads
// package_bindings), the process standing inside the module — then `go build ./...` of the whole module.
type projectOut struct {
	Err      error  // config or generation error
	Panic    any
	Src      string // generated Go file
	BuildErr string // output of go build when it fails
}

// runProject writes files (paths relative to the module root; one of them is cfgRel, the genqlient.yaml) into a
// fresh module `module <mod>` that requires genqlient (replaced by the repository under test) and runs the generator
// from inside it.
func runProject(work, mod string, files map[string]string, cfgRel string) *projectOut {
	return runProjectFrom(work, mod, files, cfgRel, false)
}

// runProjectFrom: with fromRoot, the process stands in the MODULE ROOT and names the config by its relative path
// (`genqlient svc/api/genqlient.yaml`), so the config's directory is a relative path too; no `go build` afterwards.
func runProjectFrom(work, mod string, files map[string]string, cfgRel string, fromRoot bool) *projectOut {
	dir := filepath.Join(work, "project-"+mod)
	os.RemoveAll(dir)
	defer os.RemoveAll(dir)
	out := &projectOut{}
	gomod := "module " + mod + "\n\ngo 1.23\n\nrequire github.com/Khan/genqlient v0.0.0\n\nreplace github.com/Khan/genqlient => " + repoRoot + "\n"
	files = copyMap(files)
	files["go.mod"] = gomod
	if sum, err := os.ReadFile(repoRoot + "/go.sum"); err == nil {
		files["go.sum"] = string(sum)
	}
	for rel, text := range files {
		p := filepath.Join(dir, rel)
		os.MkdirAll(filepath.Dir(p), 0o755)
		if err := os.WriteFile(p, []byte(text), 0o644); err != nil {
			out.Err = err
			return out
		}
	}
	wd, _ := os.Getwd()
	cfgPath := filepath.Join(dir, cfgRel)
	os.Setenv("GOFLAGS", "-mod=mod")
	func() {
		defer func() {
			if r := recover(); r != nil {
				out.Panic = fmt.Sprintf("%v\n%s", r, debug.Stack())
			}
		}()
		cd, arg := filepath.Dir(cfgPath), cfgPath
		if fromRoot {
			cd, arg = dir, cfgRel
		}
		if err := os.Chdir(cd); err != nil {
			out.Err = err
			return
		}
		defer os.Chdir(wd)
		cfg, err := generate.ReadAndValidateConfig(arg)
		if err != nil {
			out.Err = err
			return
		}
		m, err := generate.Generate(cfg)
		if err != nil {
			out.Err = err
			return
		}
		for name, b := range m {
			if strings.HasSuffix(name, ".go") {
				out.Src = string(b)
			}
			os.MkdirAll(filepath.Dir(name), 0o755)
			os.WriteFile(name, b, 0o644)
		}
	}()
	if out.Err != nil || out.Panic != nil || fromRoot {
		return out
	}
	cmd := exec.Command("go", "build", "./...")
	cmd.Dir = dir
	cmd.Env = append(os.Environ(), "GOFLAGS=-mod=mod", "GOPROXY=off", "GOSUMDB=off")
	if b, err := cmd.CombinedOutput(); err != nil {
		out.BuildErr = strings.TrimSpace(string(b))
		if out.BuildErr == "" {
			out.BuildErr = err.Error()
		}
	}
	return out
}

func copyMap(m map[string]string) map[string]string {
	o := map[string]string{}
	for k, v := range m {
		o[k] = v
	}
	return o
}

const projSchema = "scalar DateTime\nscalar Text\ntype Event { id: ID! at: DateTime note: Text tags: [Text!] }\ntype Query { event(after: DateTime): Event }\n"
const projOps = "query GetEvent($after: DateTime) {\n  event(after: $after) {\n    id\n    at\n    note\n    tags\n  }\n}\n"

// c01OwnPackage: bindings that point INTO the package the code is generated into, with and without an explicit
// `package:` — the generated file must refer to those types unqualified and build (C01).
func c01OwnPackage(c *Ctx) {
	for _, explicitPkg := range []bool{false, true} {
		for _, withMarshaler := range []bool{false, true} {
			c.Res.Eval()
			yaml := "schema: schema.graphql\noperations:\n- ops.graphql\ngenerated: generated.go\n"
			if explicitPkg {
				yaml += "package: gen\n"
			}
			yaml += "bindings:\n  DateTime:\n    type: c01own/gen.DateTime\n"
			if withMarshaler {
				yaml += "    marshaler: c01own/gen.MarshalDateTime\n    unmarshaler: c01own/gen.UnmarshalDateTime\n"
			}
			yaml += "  Text:\n    type: string\n"
			scal := "package gen\n\nimport \"encoding/json\"\n\ntype DateTime string\n\nfunc MarshalDateTime(d *DateTime) ([]byte, error) { return json.Marshal(string(*d)) }\n\nfunc UnmarshalDateTime(b []byte, d *DateTime) error { var s string; err := json.Unmarshal(b, &s); *d = DateTime(s); return err }\n"
			files := map[string]string{"gen/genqlient.yaml": yaml, "gen/schema.graphql": projSchema, "gen/ops.graphql": projOps, "gen/scalars.go": scal}
			out := runProject(c.Work, "c01own", files, "gen/genqlient.yaml")
			cs := map[string]any{"leg": "own-package-binding", "explicit_package": explicitPkg, "marshaler": withMarshaler, "files": files}
			c.Res.NonTrivial(fmt.Sprintf("own-package|%v|%v", explicitPkg, withMarshaler))
			switch {
			case out.Panic != nil:
				c.Res.Add(proto.Finding{Kind: "violation", Class: "panic", What: fmt.Sprintf("generator panicked on a project that binds a type of its own package: %v", out.Panic), Case: cs})
			case out.Err != nil:
				c.Res.Add(proto.Finding{Kind: "violation", Class: "rejected: own-package binding", What: "a valid project whose binding points into the generated package was rejected: " + firstLine(out.Err.Error()), Case: cs})
			case out.BuildErr != "":
				c.Res.Add(proto.Finding{Kind: "violation", Class: "does-not-compile: own-package binding", What: "the generated file of a project whose binding points into the generated package does not build: " + trunc(out.BuildErr, 500), Case: cs})
			default:
				c.Res.Count("own-package-binding:builds")
			}
		}
	}
}

// c10PackageBindings: `bindings` and `package_bindings` together — documented: explicit entries in bindings take
// precedence over all package bindings; types only a bound package exports are bound to it (C10).
func c10PackageBindings(c *Ctx) {
	for _, order := range []int{0, 1} {
		c.Res.Eval()
		yaml := "schema: schema.graphql\noperations:\n- ops.graphql\ngenerated: generated.go\npackage: gen\n"
		b := "bindings:\n  DateTime:\n    type: time.Time\n"
		pb := "package_bindings:\n- package: c10proj/models\n"
		if order == 0 {
			yaml += b + pb
		} else {
			yaml += pb + b
		}
		models := "package models\n\ntype DateTime string\n\ntype Text string\n"
		files := map[string]string{"gen/genqlient.yaml": yaml, "gen/schema.graphql": projSchema, "gen/ops.graphql": projOps, "models/models.go": models, "gen/doc.go": "package gen\n"}
		out := runProject(c.Work, "c10proj", files, "gen/genqlient.yaml")
		cs := map[string]any{"leg": "package-bindings", "yaml": yaml, "files": files}
		c.Res.NonTrivial(fmt.Sprintf("package-bindings|%d", order))
		if out.Panic != nil || out.Err != nil {
			c.Res.Add(proto.Finding{Kind: "violation", Class: "documented-combination-rejected", What: fmt.Sprintf("bindings + package_bindings rejected: %v %v", out.Err, out.Panic), Case: cs})
			continue
		}
		decls := parseGoDecls([]byte(out.Src))
		want := map[string]string{"at": "time.Time", "note": "models.Text", "tags": "[]models.Text"}
		for _, f := range decls.structs["GetEventEvent"] {
			if w, ok := want[f.JSON]; ok {
				c.Res.Count("package-bindings:field-compared")
				if f.Type != w {
					c.Res.Add(proto.Finding{Kind: "violation", Class: "documented-type-rule", What: fmt.Sprintf("field %s of GetEventEvent has Go type %s; with `bindings: DateTime: time.Time` and `package_bindings: models` (which exports DateTime and Text) the documented type is %s (explicit bindings take precedence over package bindings)", f.JSON, f.Type, w), Case: cs})
				}
				delete(want, f.JSON)
			}
		}
		if len(want) > 0 {
			c.Res.Add(proto.Finding{Kind: "violation", Class: "field-missing", What: fmt.Sprintf("GetEventEvent lacks fields %v", want), Case: cs})
		}
		if out.BuildErr != "" {
			c.Res.Count("package-bindings:does-not-build (C01)")
		}
	}
}

// c18RelativeConfig: genqlient run from a directory ABOVE the config's (`genqlient svc/api/genqlient.yaml`), with a
// single-fault operation in a .graphql file and in a Go literal: the diagnostic starts with the file's path
// relative to the config and the line in that file (C18).
func c18RelativeConfig(c *Ctx) {
	yamlFor := func(opsFile string) string {
		return "schema: schema.graphql\noperations:\n- " + opsFile + "\ngenerated: generated.go\npackage: api\n"
	}
	schema := "type Query { user: User }\ntype User { id: ID! name: String }\n"
	goFile := "package api\n\n// some lines first\n\nvar _ = `# @genqlient\n\nquery GetUser {\n  user {\n    id\n    nope\n  }\n}\n`\n"
	gqlFile := "# a comment\n\nquery GetUser {\n  user {\n    id\n    nope\n  }\n}\n"
	for _, cse := range []struct{ file, text, want string }{
		{"queries.go", goFile, "queries.go:10: "},
		{"queries.graphql", gqlFile, "queries.graphql:6: "},
	} {
		c.Res.Eval()
		files := map[string]string{"svc/api/genqlient.yaml": yamlFor(cse.file), "svc/api/schema.graphql": schema, "svc/api/" + cse.file: cse.text, "svc/api/doc.go": "package api\n"}
		out := runProjectFrom(c.Work, "c18rel", files, "svc/api/genqlient.yaml", true)
		cs := map[string]any{"leg": "relative-config", "files": files, "run_from": "module root", "config": "svc/api/genqlient.yaml"}
		c.Res.NonTrivial("relative-config|" + cse.file)
		switch {
		case out.Panic != nil:
			c.Res.Add(proto.Finding{Kind: "violation", Class: "panic", What: fmt.Sprintf("generator panicked: %v", out.Panic), Case: cs})
		case out.Err == nil:
			c.Res.Add(proto.Finding{Kind: "violation", Class: "invalid-operation-accepted", What: "an operation selecting an unknown field was accepted", Case: cs})
		default:
			msg := out.Err.Error()
			c.Res.Count("relative-config:compared")
			if !strings.HasPrefix(msg, cse.want) {
				c.Res.Add(proto.Finding{Kind: "violation", Class: "wrong-or-missing-position:relative-config-directory", What: fmt.Sprintf("genqlient run as `genqlient svc/api/genqlient.yaml`: the diagnostic for the unknown field in svc/api/%s must start with %q (path relative to the config, line of the field), it reads: %s", cse.file, cse.want, firstLine(msg)), Case: cs})
			}
		}
	}
}
