package main

import (
	"fmt"
	"reflect"
	"sort"
	"strings"

	"github.com/Khan/genqlient/generate"
	"verifharness/internal/proto"
)

type c01RefsCase struct {
	Leg   string   `json:"leg"`
	Own   string   `json:"own"`
	Names []string `json:"names"`
}

// c01RefsLeg: generator.ref over PRNG sequences of Go type names whose package paths share base names, are not
// identifiers, end in digits that look like allocated suffixes, or are the generated package itself
func c01RefsLeg(c *Ctx) {
	n := c.N(600, 15000)
	ascii := []string{"a/sup", "b/sup", "c/sup", "sup", "x/sup2", "y/sup2", "z/sup3", "github.com/u/go-pkg", "github.com/u/gopkg", "x/123abc", "x/abc",
		"x/---", "y/+++", "x/alias", "x/alias2", "time", "encoding/json", "x/v2", "y/v2", "x/type", "x/_", "x/a.b", "me/own", "x/Sup"}
	unicodePaths := []string{"x/пакет", "y/пакет", "x/日本", "x/é-1", "x/٣abc"}
	prefixes := []string{"", "", "*", "[]", "[3]", "map[string]", "[]*", "map[string][]", "**", "[][]*", "[]map[string]*"}
	builtins := []string{"string", "int", "interface{}", "[]byte", "map[string]interface{}", "*float64", "nosuchtype", "bool x"}
	for i := 0; i < n; i++ {
		r := proto.NewRng(c.Seed, "c01/refs", uint64(i))
		useUnicode := r.Chance(1, 6)
		k := 1 + r.Intn(10)
		cs := c01RefsCase{Leg: "refs", Own: "me/own"}
		for j := 0; j < k; j++ {
			switch {
			case r.Chance(1, 6):
				cs.Names = append(cs.Names, proto.Pick(r, builtins))
			case useUnicode && r.Chance(1, 3):
				cs.Names = append(cs.Names, proto.Pick(r, prefixes)+proto.Pick(r, unicodePaths)+"."+proto.Pick(r, []string{"T", "U"}))
			default:
				cs.Names = append(cs.Names, proto.Pick(r, prefixes)+proto.Pick(r, ascii)+"."+proto.Pick(r, []string{"T", "U", "v"}))
			}
		}
		c01Refs(c, cs, !useUnicode)
	}
}

func c01Refs(c *Ctx, cs c01RefsCase, withModel bool) {
	c.Res.Eval()
	refs, imports := generate.VerifRefs(cs.Own, cs.Names)
	fail := func(kind, class, what string, impl, model any) {
		c.Res.Add(proto.Finding{Kind: kind, Class: class, What: what, Case: cs, Impl: impl, Model: model})
	}
	// ---- direct oracle ----
	byAlias := map[string]string{}
	paths := make([]string, 0, len(imports))
	for p := range imports {
		paths = append(paths, p)
	}
	sort.Strings(paths)
	for _, p := range paths {
		a := imports[p]
		if q, dup := byAlias[a]; dup {
			fail("violation", "import-alias-shared", fmt.Sprintf("packages %q and %q are both imported as %s", q, p, a), imports, nil)
		}
		byAlias[a] = p
	}
	collide := 0
	bases := map[string]int{}
	for _, p := range paths {
		bases[p[strings.LastIndex(p, "/")+1:]]++
	}
	for _, v := range bases {
		if v > 1 {
			collide++
		}
	}
	for i, name := range cs.Names {
		ref := refs[i]
		if strings.HasPrefix(ref, "error: ") {
			c.Res.Count("ref:rejected")
			continue
		}
		dot := strings.LastIndex(name, ".")
		if dot < 0 || !strings.Contains(name, "/") && !strings.Contains(name[:dot], "e") && false {
			continue
		}
		// locate the package path: after the wrapper prefix
		rest := name
		for {
			switch {
			case strings.HasPrefix(rest, "*"):
				rest = rest[1:]
				continue
			case strings.HasPrefix(rest, "map[string]"):
				rest = rest[len("map[string]"):]
				continue
			case strings.HasPrefix(rest, "["):
				if j := strings.Index(rest, "]"); j >= 0 {
					rest = rest[j+1:]
					continue
				}
			}
			break
		}
		prefix := name[:len(name)-len(rest)]
		d := strings.LastIndex(rest, ".")
		if d < 0 {
			if ref != name {
				fail("violation", "builtin-reference-changed", fmt.Sprintf("%q resolved to %q", name, ref), nil, nil)
			}
			continue
		}
		pkg, local := rest[:d], rest[d+1:]
		want := prefix + local
		if pkg != cs.Own {
			a, ok := imports[pkg]
			if !ok {
				fail("violation", "referenced-package-not-imported", fmt.Sprintf("%q resolved to %q but %q is not in the import table", name, ref, pkg), imports, nil)
				continue
			}
			want = prefix + a + "." + local
		}
		if ref != want {
			fail("violation", "reference-does-not-use-declared-alias", fmt.Sprintf("%q resolved to %q; the import table says %q", name, ref, want), imports, nil)
		}
	}
	c.Res.NonTrivial(fmt.Sprintf("refs|imports=%d|shared-base=%d|model=%v", min(len(imports), 6), min(collide, 3), withModel))
	if c.Res.Evaluations%400 == 1 {
		c.Res.Sample(map[string]any{"leg": "refs", "names": cs.Names, "refs": refs, "imports": imports})
	}
	if !withModel {
		c.Res.Count("refs:non-ascii (direct oracle only)")
		return
	}
	// ---- model ----
	m := c.Model(map[string]any{"op": "imports.refs", "own": cs.Own, "names": cs.Names})
	var wantRefs []string
	if xs, ok := m["out"].([]any); ok {
		for _, x := range xs {
			wantRefs = append(wantRefs, x.(string))
		}
	}
	got := make([]string, len(refs))
	for i, r := range refs {
		got[i] = r
		if strings.HasPrefix(r, "error: ") {
			got[i] = "error"
		}
	}
	if !reflect.DeepEqual(got, wantRefs) {
		fail("mismatch", "refs-model", fmt.Sprintf("references %v, model %v", got, wantRefs), got, wantRefs)
	}
	wantImports := map[string]string{}
	if xs, ok := m["imports"].([]any); ok {
		for _, x := range xs {
			pa := x.([]any)
			wantImports[pa[0].(string)] = pa[1].(string)
		}
	}
	if !reflect.DeepEqual(wantImports, imports) && !(len(wantImports) == 0 && len(imports) == 0) {
		fail("mismatch", "imports-model", fmt.Sprintf("import table %v, model %v", imports, wantImports), imports, wantImports)
	}
}
