package main

import (
	"encoding/json"
	"fmt"
	"go/ast"
	goparser "go/parser"
	"go/token"
	"reflect"
	"sort"
	"strconv"
	"strings"

	"verifharness/internal/gen"
	"verifharness/internal/proto"
)

func init() {
	register("C03", "G_prog programs (type-directed, valid by construction: fragments shared between operations and nested in fragments, "+
		"literals of every value kind, directives at every location, abstract fields with and without __typename) run through the real "+
		"generator; every emitted document (generated constant and exported-operations entry) is re-parsed and re-validated with "+
		"gqlparser and compared, as an AST, with the model's assembled document and with the user's source by the Spec relation; "+
		"non-trivial = distinct (#operations, #fragments emitted, #typename insertions, has nested/shared fragment, has directives)", runC03)
}

type c03Case struct {
	Seed    uint64   `json:"gprog_seed"`
	Schema  []string `json:"schema"`
	Ops     string   `json:"operations"`
	Corpus  string   `json:"corpus,omitempty"`
	// Bindings (hand-picked programs): extra genqlient.yaml bindings, gql type -> {type, expect_exact_fields, …}
	Bindings map[string]map[string]string `json:"bindings,omitempty"`
}

func runC03(c *Ctx) {
	if c.Replay != "" {
		var wrap struct{ Case c03Case `json:"case"` }
		b, err := osReadFile(c.Replay)
		if err == nil {
			err = json.Unmarshal(b, &wrap)
		}
		if err != nil {
			c.Res.Notes = append(c.Res.Notes, "replay unreadable")
			return
		}
		c03Run(c, wrap.Case, nil)
		return
	}
	files, _ := filepathGlob(verifRoot + "/harness/corpus/C03/*.json")
	for _, f := range files {
		var wrap struct{ Case c03Case `json:"case"` }
		b, err := osReadFile(f)
		if err == nil && json.Unmarshal(b, &wrap) == nil {
			wrap.Case.Corpus = f
			c03Run(c, wrap.Case, nil)
		}
	}
	n := c.N(150, 6000)
	for i := 0; i < n; i++ {
		seed := c.Seed*1000003 + uint64(i)
		p := gen.GenerateSeed(seed, gen.Options{RateNoTypeCond: 5, RateIfaceIface: 8, RateInvalidDir: -1, RateBacktick: -1, RateSubGetter: -1, RateGenericAbstract: -1})
		c03Run(c, c03Case{Seed: seed, Schema: p.Schema, Ops: p.OperationsText()}, p)
	}
}

// constants `<Op>_Operation` of the generated file
func c03Constants(src []byte) (map[string]string, error) {
	fset := token.NewFileSet()
	f, err := goparser.ParseFile(fset, "generated.go", src, 0)
	if err != nil {
		return nil, err
	}
	out := map[string]string{}
	for _, d := range f.Decls {
		gd, ok := d.(*ast.GenDecl)
		if !ok || gd.Tok != token.CONST {
			continue
		}
		for _, sp := range gd.Specs {
			vs := sp.(*ast.ValueSpec)
			if len(vs.Names) == 1 && strings.HasSuffix(vs.Names[0].Name, "_Operation") && len(vs.Values) == 1 {
				if bl, ok := vs.Values[0].(*ast.BasicLit); ok {
					s, err := strconv.Unquote(bl.Value)
					if err == nil {
						out[strings.TrimSuffix(vs.Names[0].Name, "_Operation")] = s
					}
				}
			}
		}
	}
	return out, nil
}

func c03Run(c *Ctx, cs c03Case, gp *gen.Program) {
	c.Res.Eval()
	fail := func(kind, class, what string, impl, model any) {
		c.Res.Add(proto.Finding{Kind: kind, Class: class, What: what, Case: cs, Impl: impl, Model: model})
	}
	schema, err := loadSchema(cs.Schema)
	if err != nil {
		c.Res.Count("generator-bug:schema-invalid")
		return
	}
	srcDoc, err := parseAndValidate(schema, cs.Ops)
	if err != nil {
		c.Res.Count("generator-bug:ops-invalid")
		return
	}
	prog := &Program{Schema: map[string]string{}, Ops: map[string]string{"ops.graphql": cs.Ops}}
	for i, s := range cs.Schema {
		prog.Schema[fmt.Sprintf("schema%d.graphql", i)] = s
	}
	if gp != nil {
		prog.Cfg = cfgFromGen(gp.Config)
	} else {
		prog.Cfg = ProgCfg{Bindings: map[string]map[string]string{}}
		for name, def := range schema.Types {
			if def.Kind == "SCALAR" && !def.BuiltIn {
				prog.Cfg.Bindings[name] = map[string]string{"type": "string"}
			}
		}
	}
	for k, v := range cs.Bindings {
		if prog.Cfg.Bindings == nil {
			prog.Cfg.Bindings = map[string]map[string]string{}
		}
		prog.Cfg.Bindings[k] = v
	}
	prog.Cfg.ExportOperations = true
	out := runGenerate(c.Work, prog, false)
	if out.Panic != nil || out.TimedOut {
		c.Res.Count("skipped:generator-panic")
		return
	}
	if out.Err != nil {
		c.Res.Count("skipped:rejected")
		return
	}
	consts, err := c03Constants(out.Files["generated.go"])
	if err != nil {
		fail("violation", "generated-go-unparseable", err.Error(), nil, nil)
		return
	}
	var exported struct {
		Operations []struct {
			Name  string `json:"operationName"`
			Query string `json:"query"`
		} `json:"operations"`
	}
	if err := json.Unmarshal(out.Files["operations.json"], &exported); err != nil {
		fail("violation", "operations-json-unparseable", err.Error(), nil, nil)
		return
	}
	// model input: all source fragments + each operation
	var fragsJ []any
	for _, f := range srcDoc.Fragments {
		fragsJ = append(fragsJ, fragJSON(schema, f))
	}
	if fragsJ == nil {
		fragsJ = []any{}
	}
	nTypename, nFrags := 0, 0
	for _, ex := range exported.Operations {
		srcOp := srcDoc.Operations.ForName(ex.Name)
		if srcOp == nil {
			fail("violation", "unknown-operation-exported", "exported operation "+ex.Name+" is not in the source", nil, nil)
			continue
		}
		if consts[ex.Name] != ex.Query {
			fail("violation", "constant-vs-export-differ", "the query embedded in the generated code differs from the exported-operations entry for "+ex.Name, consts[ex.Name], ex.Query)
		}
		if strings.Contains(ex.Query, "@genqlient") {
			fail("violation", "directive-on-wire", "@genqlient comment directive reached the emitted document of "+ex.Name, ex.Query, nil)
		}
		emDoc, err := parseAndValidate(schema, ex.Query)
		if err != nil {
			cls := "emitted-does-not-validate"
			if emDoc == nil {
				cls = "emitted-does-not-parse"
			}
			if strings.Contains(cs.Corpus, "f03b") || strings.ContainsAny(cs.Ops, "\a\v\x7f") || strings.Contains(cs.Ops, `\u00`) {
				cls += ":control-character-string"
			}
			fail("violation", cls, fmt.Sprintf("emitted document of %s: %v", ex.Name, err), ex.Query, nil)
			continue
		}
		if len(emDoc.Operations) != 1 || emDoc.Operations[0].Name != ex.Name {
			fail("violation", "emitted-operation-count", "emitted document does not hold exactly the operation "+ex.Name, ex.Query, nil)
			continue
		}
		emOp := emDoc.Operations[0]
		// ---- direct oracles (Spec) ----
		srcOpJ, emOpJ := opJSON(schema, srcOp), opJSON(schema, emOp)
		if srcOpJ["header"] != emOpJ["header"] || srcOpJ["kind"] != emOpJ["kind"] {
			cls := "header-changed"
			for _, v := range srcOp.VariableDefinitions {
				if len(v.Directives) > 0 {
					cls = "header-changed:variable-directives-dropped"
				}
			}
			fail("violation", cls, fmt.Sprintf("%s: variable definitions/directives changed: %q -> %q", ex.Name, srcOpJ["header"], emOpJ["header"]), nil, nil)
		}
		ok := c.Model(map[string]any{"op": "doc.onlyTypenameAdded", "src": srcOpJ["sel"], "emitted": emOpJ["sel"]})["out"].(bool)
		if !ok {
			fail("violation", "operation-changed", ex.Name+": emitted selection is not the source selection plus leading __typename on abstract fields", emOpJ["sel"], srcOpJ["sel"])
		}
		want := reachableFragments(srcDoc, srcOp)
		var got []string
		for _, f := range emDoc.Fragments {
			got = append(got, f.Name)
		}
		gs := append([]string{}, got...)
		sort.Strings(gs)
		if !reflect.DeepEqual(append([]string{}, want...), append([]string{}, gs...)) && !(len(want) == 0 && len(gs) == 0) {
			fail("violation", "fragment-closure", fmt.Sprintf("%s: emitted fragments %v, transitively spread %v", ex.Name, gs, want), nil, nil)
		}
		for _, f := range emDoc.Fragments {
			sf := srcDoc.Fragments.ForName(f.Name)
			if sf == nil {
				continue
			}
			sj, ej := fragJSON(schema, sf), fragJSON(schema, f)
			if sj["on"] != ej["on"] || sj["header"] != ej["header"] ||
				!c.Model(map[string]any{"op": "doc.onlyTypenameAdded", "src": sj["sel"], "emitted": ej["sel"]})["out"].(bool) {
				fail("violation", "fragment-changed", ex.Name+": emitted fragment "+f.Name+" differs from the source beyond __typename", ej, sj)
			}
		}
		// ---- model correspondence ----
		m := c.Model(map[string]any{"op": "doc.assemble", "frags": fragsJ, "operation": srcOpJ})
		if !jsonEqual(m["op"], emOpJ["sel"]) {
			fail("mismatch", "doc-model-operation", ex.Name+": emitted operation differs from the model's", emOpJ["sel"], m["op"])
		}
		mfr, _ := m["frags"].([]any)
		if len(mfr) != len(emDoc.Fragments) {
			fail("mismatch", "doc-model-fragment-list", fmt.Sprintf("%s: model emits %d fragments, implementation %v", ex.Name, len(mfr), got), got, m["frags"])
		} else {
			for i, f := range emDoc.Fragments {
				mf := mfr[i].(map[string]any)
				if mf["name"] != f.Name {
					fail("mismatch", "doc-model-fragment-order", fmt.Sprintf("%s: fragment #%d is %s, model %v", ex.Name, i, f.Name, mf["name"]), got, nil)
					break
				}
				if !jsonEqual(mf["sel"], fragJSON(schema, f)["sel"]) {
					fail("mismatch", "doc-model-fragment", ex.Name+": emitted fragment "+f.Name+" differs from the model's", nil, nil)
				}
			}
		}
		nFrags += len(emDoc.Fragments)
		nTypename += strings.Count(ex.Query, "__typename") - strings.Count(srcOpText(cs.Ops), "__typename")*0
	}
	c.Res.Count("outcome:accepted")
	c.Res.NonTrivial(fmt.Sprintf("ops=%d|frags=%d|tn=%d|nested=%v|dirs=%v", len(exported.Operations), min(nFrags, 6), min(nTypename, 6),
		gp != nil && gp.Features["nestedFragment"] > 0, strings.Contains(cs.Ops, "@skip") || strings.Contains(cs.Ops, "@include")))
	if c.Res.Evaluations%40 == 1 && len(exported.Operations) > 0 {
		c.Res.Sample(map[string]any{"gprog_seed": cs.Seed, "operation": exported.Operations[0].Name, "emitted": exported.Operations[0].Query})
	}
}

func srcOpText(s string) string { return s }

func jsonEqual(a, b any) bool {
	ja, _ := json.Marshal(a)
	jb, _ := json.Marshal(b)
	var x, y any
	json.Unmarshal(ja, &x)
	json.Unmarshal(jb, &y)
	return reflect.DeepEqual(x, y)
}
