package main

import (
	"encoding/json"
	"fmt"
	"regexp"
	"strings"

	"verifharness/internal/proto"
)

// ---------- C06: round trip ----------

var optionOfRe = regexp.MustCompile(`Option\[(\w+)\]`)

// genericWrapsMarshaledStruct: the generated source holds, BY VALUE inside the generic optional type, a struct
// that has a generated pointer-receiver MarshalJSON (the trigger of F-06g)
func genericWrapsMarshaledStruct(src string) bool {
	for _, m := range optionOfRe.FindAllStringSubmatch(src, -1) {
		if strings.Contains(src, "func (v *"+m[1]+") MarshalJSON(") {
			return true
		}
	}
	return false
}

func c06One(c *Ctx, b *Batch, pkg string, cs respCase, respType string, ex *executor, js []byte) {
	c.Res.Eval()
	fail := func(class, what string, impl any) {
		if class == "remarshal-lost-key" || class == "roundtrip-not-equal" || class == "remarshal-differs" {
			cd := &codecDeriver{d: parseGoDecls(b.Pkgs[pkg].Src)}
			if ty := cd.structTy(respType); sameKeyDifferentTypes(ty) {
				// one response key carried by the struct and by an embedded fragment (or by two fragments) with
				// DIFFERENT sub-selections: MarshalJSON writes only the first of them (known finding F-06k)
				class += ":same-key-different-subselections"
			} else if hasFoldTwinKeys(string(js)) {
				class += ":fold-twin-keys"
			}
		}
		if cs.Cfg.Optional == "generic" && (class == "remarshal-lost-key" || class == "roundtrip-not-equal") && genericWrapsMarshaledStruct(string(b.Pkgs[pkg].Src)) {
			// a struct wrapped BY VALUE in the generic optional type is marshaled without its generated
			// (pointer-receiver) MarshalJSON: keys of fields handled by generated marshalers are lost
			class += ":generic-optional-wraps-struct-by-value"
		}
		c.Res.Add(proto.Finding{Kind: "violation", Class: class, What: what, Case: cs, Impl: impl})
	}
	r := b.Call(map[string]any{"cmd": "unmarshal", "pkg": pkg, "type": respType, "json": string(js)})
	codecCompare(c, parseGoDecls(b.Pkgs[pkg].Src), cs, respType, string(js), r)
	if _, ok := r["crash"]; ok {
		return
	}
	if _, ok := r["err"]; ok {
		c.Res.Count("skipped:decode-failed (C02)")
		return
	}
	if p, ok := r["panic"]; ok {
		fail("marshal-panic", fmt.Sprintf("round trip panicked: %v", p), r["stack"])
		return
	}
	if e, ok := r["marshalErr"]; ok {
		fail("marshal-error", fmt.Sprintf("marshaling a decoded value failed: %v", e), nil)
		return
	}
	if _, ok := r["reunmarshalErr"]; ok && cs.Asym {
		delete(r, "reunmarshalErr") // what a marshaler-only binding wrote need not be readable by default JSON
		r["roundtripEqual"] = true
	}
	if cs.Asym {
		r["roundtripEqual"] = true // value equality is not claimed for asymmetric bindings
	}
	if e, ok := r["reunmarshalErr"]; ok {
		fail("remarshaled-does-not-decode", fmt.Sprintf("Unmarshal(Marshal(v)) failed: %v", e), r["remarshal"])
		return
	}
	c.Res.Count("responses")
	if ex.stats["abstract"] > 0 || ex.stats["null"] > 0 {
		c.Res.NonTrivial(fmt.Sprintf("%d|%s|abs=%d|null=%d", cs.Seed, cs.Op, min(ex.stats["abstract"], 3), min(ex.stats["null"], 3)))
	}
	if eq, _ := r["roundtripEqual"].(bool); !eq {
		// is the only difference nil slice -> empty slice (the F-02 template loop: make(..., len(src)) on a nil source)?
		a, _ := json.Marshal(normNilSlices(r["dump"]))
		b2, _ := json.Marshal(normNilSlices(r["dump2"]))
		if string(a) == string(b2) {
			fail("null-list-remarshaled-as-empty-list", "Unmarshal(Marshal(v)) differs from v only in nil slices that came back as empty slices", map[string]any{"remarshal": r["remarshal"]})
		} else {
			fail("roundtrip-not-equal", "Unmarshal(Marshal(v)) is not deeply equal to v", map[string]any{"remarshal": r["remarshal"]})
		}
	}
	rm, _ := r["remarshal"].(string)
	if c.Res.Evaluations%150 == 1 {
		c.Res.Sample(map[string]any{"gprog_seed": cs.Seed, "operation": cs.Op, "response": trunc(string(js), 300), "remarshaled": trunc(rm, 300)})
	}
	// key multiplicity on the raw bytes + equality up to null-vs-zero loss
	var orig any
	d := json.NewDecoder(strings.NewReader(string(js)))
	d.UseNumber()
	d.Decode(&orig)
	dupKey, tree, err := parseCountingKeys(rm)
	if err != nil {
		fail("remarshal-not-json", err.Error(), rm)
		return
	}
	if dupKey != "" {
		fail("duplicate-key", fmt.Sprintf("marshaled value carries key %q twice in one object", dupKey), rm)
	}
	c06StructuralOnly = cs.Asym
	defer func() { c06StructuralOnly = false }()
	if msg := sameUpToNullLoss(orig, tree, "$"); msg != "" {
		cls := "remarshal-differs"
		switch {
		case strings.Contains(msg, "null became []"):
			cls = "null-list-remarshaled-as-empty-list"
		case strings.Contains(msg, "key missing"):
			cls = "remarshal-lost-key"
		}
		fail(cls, "Marshal(Unmarshal(r)) differs from r beyond the documented null-vs-zero loss: "+msg, map[string]any{"remarshal": trunc(rm, 600)})
	}
}

// parseCountingKeys parses JSON text keeping duplicate keys visible.
func parseCountingKeys(s string) (dup string, v any, err error) {
	dec := json.NewDecoder(strings.NewReader(s))
	dec.UseNumber()
	var parse func() (any, error)
	parse = func() (any, error) {
		tok, err := dec.Token()
		if err != nil {
			return nil, err
		}
		switch t := tok.(type) {
		case json.Delim:
			if t == '{' {
				m := map[string]any{}
				for dec.More() {
					kt, err := dec.Token()
					if err != nil {
						return nil, err
					}
					k := kt.(string)
					val, err := parse()
					if err != nil {
						return nil, err
					}
					if _, seen := m[k]; seen && dup == "" {
						dup = k
					}
					m[k] = val
				}
				dec.Token()
				return m, nil
			}
			if t == '[' {
				xs := []any{}
				for dec.More() {
					val, err := parse()
					if err != nil {
						return nil, err
					}
					xs = append(xs, val)
				}
				dec.Token()
				return xs, nil
			}
		}
		return tok, nil
	}
	v, err = parse()
	return
}

// sameUpToNullLoss: b is a re-marshaling of a: equal up to key order; where a has null, b may have null or
// the zero value of a non-pointer type ("" / 0 / false / {} / zero struct with null-ish members); nothing else
// c06StructuralOnly: compare shapes and keys, not scalar values (programs with asymmetric bindings)
var c06StructuralOnly bool

func sameUpToNullLoss(a, b any, path string) string {
	if a == nil {
		switch x := b.(type) {
		case nil:
			return ""
		case string:
			// "" and the zero values of the bound struct types (time.Time, sup.Date)
			if x == "" || strings.HasPrefix(x, "0001-01-01") || x == "0000-00-00" {
				return ""
			}
		case json.Number:
			if f, _ := x.Float64(); f == 0 {
				return ""
			}
		case bool:
			if !x {
				return ""
			}
		case map[string]any:
			return "" // zero struct of a nullable object (optional: value)
		case []any:
			if len(x) == 0 {
				return path + ": null became []"
			}
		}
		bj, _ := json.Marshal(b)
		return fmt.Sprintf("%s: null became %s", path, trunc(string(bj), 80))
	}
	switch x := a.(type) {
	case map[string]any:
		y, ok := b.(map[string]any)
		if !ok {
			return path + ": object became something else"
		}
		for k, v := range x {
			w, ok := y[k]
			if !ok {
				return fmt.Sprintf("%s.%s: key missing", path, k)
			}
			if m := sameUpToNullLoss(v, w, path+"."+k); m != "" {
				return m
			}
		}
		for k := range y {
			if _, ok := x[k]; !ok && k != "__typename" {
				// keys the response did not have (skipped by @skip/@include) re-appear with zero values: allowed
				_ = k
			}
		}
	case []any:
		y, ok := b.([]any)
		if !ok || len(x) != len(y) {
			return path + ": list changed"
		}
		for i := range x {
			if m := sameUpToNullLoss(x[i], y[i], fmt.Sprintf("%s[%d]", path, i)); m != "" {
				return m
			}
		}
	default:
		if c06StructuralOnly {
			return ""
		}
		if !sameScalar(a, b, true) {
			aj, _ := json.Marshal(a)
			bj, _ := json.Marshal(b)
			return fmt.Sprintf("%s: %s became %s", path, aj, bj)
		}
	}
	return ""
}

// c06Flatten: the model's flattened field list vs the real __premarshal struct (driver op types.flatten)
func c06Flatten(c *Ctx, cs respCase, src string) {
	decls := parseGoDecls([]byte(src))
	for name, pm := range decls.premarshal {
		st, ok := decls.structs[name]
		if !ok {
			continue
		}
		tree := decls.fieldTreeOf(name, st, 0)
		m := c.Model(map[string]any{"op": "types.flatten", "fields": tree})
		var want []string
		for _, x := range m["out"].([]any) {
			want = append(want, x.(string))
		}
		if fmt.Sprint(want) != fmt.Sprint(pm) {
			c.Res.Add(proto.Finding{Kind: "mismatch", Class: "flatten-model", What: fmt.Sprintf("__premarshal%s carries JSON names %v, model's flattened list %v", name, pm, want), Case: cs})
		}
		c.Res.Count("flatten-compared")
	}
}

// normNilSlices maps nil slices to empty slices in a probe dump (and drops getter sub-dumps)
func normNilSlices(v any) any {
	switch x := v.(type) {
	case map[string]any:
		if x["t"] == "nil-slice" {
			return map[string]any{"t": "slice", "v": []any{}}
		}
		out := map[string]any{}
		for k, y := range x {
			if k == "g" {
				continue
			}
			out[k] = normNilSlices(y)
		}
		return out
	case []any:
		out := make([]any, len(x))
		for i, y := range x {
			out[i] = normNilSlices(y)
		}
		return out
	}
	return v
}
