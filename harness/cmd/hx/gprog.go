package main

import (
	"regexp"
	"fmt"
	"sort"
	"strings"

	"github.com/vektah/gqlparser/v2"
	"github.com/vektah/gqlparser/v2/ast"
	"github.com/vektah/gqlparser/v2/parser"
	"github.com/vektah/gqlparser/v2/validator"
	"verifharness/internal/gen"
)

// progFromGen lays a generated program out as files: all definitions in one .graphql file.
func progFromGen(p *gen.Program) *Program {
	out := &Program{Schema: map[string]string{}, Ops: map[string]string{}}
	for i, s := range p.Schema {
		out.Schema[fmt.Sprintf("schema%d.graphql", i)] = s
	}
	out.Ops["ops.graphql"] = p.OperationsText()
	out.Cfg = cfgFromGen(p.Config)
	return out
}

func cfgFromGen(c gen.Config) ProgCfg {
	pc := ProgCfg{Package: "gen", ContextType: c.ContextType, ClientGetter: c.ClientGetter, Optional: c.Optional,
		OptionalGeneric: c.OptionalGenericType, StructReferences: c.StructReferences, Extensions: c.Extensions,
		ExportOperations: c.ExportOperations, CasingDefault: c.CasingDefault, CasingAllEnums: c.CasingAllEnums, CasingEnums: c.CasingEnums}
	if len(c.Bindings) > 0 {
		pc.Bindings = map[string]map[string]string{}
		for k, b := range c.Bindings {
			pc.Bindings[k] = map[string]string{"type": b.Type, "marshaler": b.Marshaler, "unmarshaler": b.Unmarshaler}
		}
	}
	return pc
}

// loadSchema parses+validates schema documents the way genqlient does (prelude added).
func loadSchema(docs []string) (*ast.Schema, error) {
	var srcs []*ast.Source
	for i, d := range docs {
		srcs = append(srcs, &ast.Source{Name: fmt.Sprintf("schema%d.graphql", i), Input: d})
	}
	s, err := gqlparser.LoadSchema(srcs...)
	if err != nil {
		return nil, err
	}
	return s, nil
}

// parseAndValidate parses a query document and validates it (filling Definition pointers).
func parseAndValidate(schema *ast.Schema, text string) (*ast.QueryDocument, error) {
	doc, err := parser.ParseQuery(&ast.Source{Name: "q.graphql", Input: text})
	if err != nil {
		return nil, err
	}
	if errs := validator.Validate(schema, doc); errs != nil {
		return doc, errs
	}
	return doc, nil
}

func dirsString(ds ast.DirectiveList) string {
	var parts []string
	for _, d := range ds {
		parts = append(parts, "@"+d.Name+"("+argsString(d.Arguments)+")")
	}
	return strings.Join(parts, " ")
}

func argsString(as ast.ArgumentList) string {
	var parts []string
	for _, a := range as {
		parts = append(parts, a.Name+":"+valueString(a.Value))
	}
	return strings.Join(parts, ",")
}

// valueString: a canonical rendering of a GraphQL value that keeps every distinction of the
// value kinds (it does not go through gqlparser's formatter).
func valueString(v *ast.Value) string {
	if v == nil {
		return "<nil>"
	}
	switch v.Kind {
	case ast.Variable:
		return "$" + v.Raw
	case ast.IntValue:
		return "int(" + v.Raw + ")"
	case ast.FloatValue:
		return "float(" + v.Raw + ")"
	case ast.StringValue:
		return fmt.Sprintf("str(%q)", v.Raw)
	case ast.BlockValue:
		return fmt.Sprintf("str(%q)", v.Raw) // block strings and ordinary strings denote the same value
	case ast.BooleanValue:
		return "bool(" + v.Raw + ")"
	case ast.NullValue:
		return "null"
	case ast.EnumValue:
		return "enum(" + v.Raw + ")"
	case ast.ListValue:
		var parts []string
		for _, c := range v.Children {
			parts = append(parts, valueString(c.Value))
		}
		return "[" + strings.Join(parts, ",") + "]"
	case ast.ObjectValue:
		var parts []string
		for _, c := range v.Children {
			parts = append(parts, c.Name+":"+valueString(c.Value))
		}
		return "{" + strings.Join(parts, ",") + "}"
	}
	return "?"
}

func varsString(vs ast.VariableDefinitionList) string {
	var parts []string
	for _, v := range vs {
		s := "$" + v.Variable + ":" + v.Type.String()
		if v.DefaultValue != nil {
			s += "=" + valueString(v.DefaultValue)
		}
		if len(v.Directives) > 0 {
			s += " " + dirsString(v.Directives)
		}
		parts = append(parts, s)
	}
	return strings.Join(parts, ";")
}

func isAbstractField(schema *ast.Schema, f *ast.Field) bool {
	if f.Definition == nil || f.Definition.Type == nil {
		return false
	}
	t := schema.Types[f.Definition.Type.Name()]
	return t != nil && (t.Kind == ast.Interface || t.Kind == ast.Union)
}

func selJSON(schema *ast.Schema, ss ast.SelectionSet) []any {
	out := []any{}
	for _, s := range ss {
		switch s := s.(type) {
		case *ast.Field:
			out = append(out, map[string]any{"k": "f", "a": s.Alias, "n": s.Name, "args": argsString(s.Arguments),
				"dirs": dirsString(s.Directives), "ab": isAbstractField(schema, s), "sub": selJSON(schema, s.SelectionSet)})
		case *ast.InlineFragment:
			out = append(out, map[string]any{"k": "i", "tc": s.TypeCondition, "dirs": dirsString(s.Directives), "sub": selJSON(schema, s.SelectionSet)})
		case *ast.FragmentSpread:
			out = append(out, map[string]any{"k": "s", "n": s.Name, "dirs": dirsString(s.Directives)})
		}
	}
	return out
}

func opJSON(schema *ast.Schema, op *ast.OperationDefinition) map[string]any {
	return map[string]any{"kind": string(op.Operation), "name": op.Name, "header": varsString(op.VariableDefinitions) + "|" + dirsString(op.Directives),
		"sel": selJSON(schema, op.SelectionSet)}
}

func fragJSON(schema *ast.Schema, f *ast.FragmentDefinition) map[string]any {
	return map[string]any{"name": f.Name, "on": f.TypeCondition, "header": varsString(f.VariableDefinition) + "|" + dirsString(f.Directives),
		"sel": selJSON(schema, f.SelectionSet)}
}

// reachableFragments: independent BFS over the source AST (names, sorted).
func reachableFragments(doc *ast.QueryDocument, op *ast.OperationDefinition) []string {
	seen := map[string]bool{}
	var walk func(ss ast.SelectionSet)
	walk = func(ss ast.SelectionSet) {
		for _, s := range ss {
			switch s := s.(type) {
			case *ast.Field:
				walk(s.SelectionSet)
			case *ast.InlineFragment:
				walk(s.SelectionSet)
			case *ast.FragmentSpread:
				if !seen[s.Name] {
					seen[s.Name] = true
					if f := doc.Fragments.ForName(s.Name); f != nil {
						walk(f.SelectionSet)
					}
				}
			}
		}
	}
	walk(op.SelectionSet)
	out := []string{}
	for k := range seen {
		out = append(out, k)
	}
	sort.Strings(out)
	return out
}

// sharedInputMismatch reports whether two operations use a common input-object type while carrying
// different operation-level @genqlient directives.  docs/genqlient_directive.graphql ("for"): "all
// operations and fragments in the same package which use this type should have matching directives
// ... This is not currently validated" — such programs are outside the supported usage, because the
// shape of the shared Go type then depends on which operation is converted first.
var typenameArgRe = regexp.MustCompile(`,?\s*typename:\s*"[^"]*"`)

func sharedInputMismatch(schema *ast.Schema, defs []gen.Def) bool {
	doc, err := parser.ParseQuery(&ast.Source{Name: "q", Input: (&gen.Program{Defs: defs}).OperationsText()})
	if err != nil {
		return false
	}
	inputsOf := func(op *ast.OperationDefinition) map[string]bool {
		seen := map[string]bool{}
		var visit func(name string)
		visit = func(name string) {
			d := schema.Types[name]
			if d == nil || d.Kind != ast.InputObject || seen[name] {
				return
			}
			seen[name] = true
			for _, f := range d.Fields {
				visit(f.Type.Name())
			}
		}
		for _, v := range op.VariableDefinitions {
			visit(v.Type.Name())
		}
		return seen
	}
	sig := map[string]string{}
	for _, d := range defs {
		if d.Kind == "fragment" {
			continue
		}
		var lines []string
		for _, l := range strings.Split(d.Comment, "\n") {
			l = strings.TrimSpace(l)
			if strings.HasPrefix(l, "# @genqlient") {
				// the operation's own typename does not reach its input types; every other option does
				l = typenameArgRe.ReplaceAllString(l, "")
				l = strings.ReplaceAll(strings.ReplaceAll(l, "(, ", "("), ", )", ")")
				if l != "# @genqlient()" {
					lines = append(lines, l)
				}
			}
		}
		sort.Strings(lines)
		sig[d.Name] = strings.Join(lines, "|")
	}
	ops := doc.Operations
	for i := 0; i < len(ops); i++ {
		for j := i + 1; j < len(ops); j++ {
			a, b := inputsOf(ops[i]), inputsOf(ops[j])
			shared := false
			for k := range a {
				shared = shared || b[k]
			}
			if shared && sig[ops[i].Name] != sig[ops[j].Name] {
				return true
			}
		}
	}
	return false
}
