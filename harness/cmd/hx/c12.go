package main

import (
	"context"
	"encoding/json"
	"errors"
	"fmt"
	"io"
	"net/http"
	"strings"

	"github.com/Khan/genqlient/graphql"
	"github.com/vektah/gqlparser/v2/gqlerror"
	"verifharness/internal/proto"
)

func init() {
	register("C12", "(status, body kind, fault) triples against a stub Doer with an instrumented body: statuses of every class, "+
		"bodies = valid responses (data / data+errors / errors / extensions), valid JSON of the wrong shape, truncated JSON, non-JSON, "+
		"trailing garbage; faults = Do fails, read error after k bytes, truncation after k bytes; "+
		"non-trivial = distinct (status class, body kind, fault kind, outcome)", runC12)
}

type c12Body struct {
	data      []byte
	pos       int
	failAfter int // -1: no read fault; else return error once pos reaches failAfter
	closes    int
	readAfterClose bool
}

var errC12Read = errors.New("injected read fault")

func (b *c12Body) Read(p []byte) (int, error) {
	if b.closes > 0 {
		b.readAfterClose = true
	}
	limit := len(b.data)
	if b.failAfter >= 0 && b.failAfter < limit {
		limit = b.failAfter
	}
	if b.pos >= limit {
		if b.failAfter >= 0 && b.pos >= b.failAfter {
			return 0, errC12Read
		}
		return 0, io.EOF
	}
	n := copy(p, b.data[b.pos:limit])
	// deliver in small chunks so that faults land mid-stream
	if n > 7 {
		n = 7
	}
	b.pos += n
	return n, nil
}
func (b *c12Body) Close() error { b.closes++; return nil }

type c12Doer struct {
	fail bool
	resp *http.Response
	n    int
}

var errC12Do = errors.New("injected transport failure")

func (d *c12Doer) Do(*http.Request) (*http.Response, error) {
	d.n++
	if d.fail {
		return nil, errC12Do
	}
	return d.resp, nil
}

type c12Data struct {
	A int `json:"a"`
}

type c12Case struct {
	Status    int    `json:"status"`
	BodyKind  string `json:"bodyKind"`
	Body      string `json:"body"`
	DoFails   bool   `json:"doFails"`
	FailAfter int    `json:"failAfter"` // -1 none
	TruncAt   int    `json:"truncAt"`   // -1 none (body cut, clean EOF)
	NilCtx    bool   `json:"nilCtx,omitempty"` // the call passes a nil context, as helpers generated with context_type "-" do
	UseGet    bool   `json:"useGet,omitempty"` // NewClientUsingGet instead of NewClient
}

var c12Bodies = [][2]string{
	{"data", `{"data":{"a":1}}`},
	{"data+errors", `{"data":{"a":7},"errors":[{"message":"boom","path":["a"]}]}`},
	{"errors", `{"errors":[{"message":"denied","extensions":{"code":"FORBIDDEN"}},{"message":"second"}]}`},
	{"data+ext", `{"data":{"a":2},"extensions":{"k":"v"}}`},
	{"wrong-shape-object", `{"message":"rate limited","code":429}`},
	{"wrong-shape-array", `[1,2,3]`},
	{"wrong-shape-number", `42`},
	{"wrong-shape-string", `"just text"`},
	{"json-null", `null`},
	{"empty-errors", `{"data":{"a":3},"errors":[]}`},
	{"errors-not-list", `{"errors":"oops"}`},
	{"data-wrong-type", `{"data":{"a":"str"}}`},
	{"html", `<html><body>502 Bad Gateway</body></html>`},
	{"plain", `upstream connect error`},
	{"empty", ``},
	{"trailing-garbage", `{"data":{"a":4}} trailing`},
	{"errors-null-data", `{"data":null,"errors":[{"message":"all failed"}]}`},
	{"whitespace-newline", "\n"},
	{"whitespace-mixed", "\t \r\n"},
	{"leading-whitespace-data", "\r\n\t {\"data\":{\"a\":5}}"},
	{"leading-whitespace-errors", " \n{\"errors\":[{\"message\":\"ws\"}]}"},
	{"large-errors", c12LargeErrors(60)},   // > 4 KiB
	{"huge-errors", c12LargeErrors(1200)},  // > 64 KiB
}
var c12Statuses = []int{200, 200, 200, 200, 200, 200, 200, 200, 200, 200, 201, 204, 301, 400, 401, 404, 429, 500, 502, 503, 0, 599}

func runC12(c *Ctx) {
	if c.Replay != "" {
		var cs c12Case
		b, err := osReadFile(c.Replay)
		if err == nil {
			var wrap struct{ Case c12Case `json:"case"` }
			if json.Unmarshal(b, &wrap) == nil && wrap.Case.BodyKind != "" {
				cs = wrap.Case
			} else {
				err = json.Unmarshal(b, &cs)
			}
		}
		if err != nil {
			c.Res.Notes = append(c.Res.Notes, "replay unreadable: "+err.Error())
			return
		}
		c12Run(c, cs)
		return
	}
	files, _ := filepathGlob(verifRoot + "/harness/corpus/C12/*.json")
	for _, f := range files {
		var wrap struct{ Case c12Case `json:"case"` }
		b, err := osReadFile(f)
		if err == nil && json.Unmarshal(b, &wrap) == nil && wrap.Case.BodyKind != "" {
			c12Run(c, wrap.Case)
		}
	}
	c12HelperLeg(c)
	if c.Thorough() {
		// exhaustive grid: every status 100..599 (+0) x every body kind x {no fault, Do fails, read fault at 0, mid, end-1, trunc mid}
		c.Res.Exhaustive = true
		for st := 100; st <= 599; st++ {
			for _, bk := range c12Bodies {
				n := len(bk[1])
				for _, f := range [][2]int{{-1, -1}, {0, -1}, {n / 2, -1}, {max(n-1, 0), -1}, {-1, n / 2}} {
					c12Run(c, c12Case{Status: st, BodyKind: bk[0], Body: bk[1], FailAfter: f[0], TruncAt: f[1]})
				}
			}
		}
		c12Run(c, c12Case{Status: 200, BodyKind: "data", Body: c12Bodies[0][1], DoFails: true, FailAfter: -1, TruncAt: -1})
		return
	}
	for i := 0; i < 3000; i++ {
		r := c.Rng("case", i)
		bk := proto.Pick(r, c12Bodies)
		cs := c12Case{Status: proto.Pick(r, c12Statuses), BodyKind: bk[0], Body: bk[1], FailAfter: -1, TruncAt: -1}
		switch r.Intn(6) {
		case 0:
			cs.DoFails = true
		case 1, 2:
			cs.FailAfter = r.Intn(len(bk[1]) + 1)
		case 3:
			cs.TruncAt = r.Intn(len(bk[1]) + 1)
		}
		cs.NilCtx = r.Intn(4) == 0
		cs.UseGet = r.Intn(4) == 0
		c12Run(c, cs)
	}
}

func c12MkBody(cs c12Case) *c12Body {
	data := []byte(cs.Body)
	if cs.TruncAt >= 0 && cs.TruncAt < len(data) {
		data = data[:cs.TruncAt]
	}
	return &c12Body{data: data, failAfter: cs.FailAfter}
}

func c12Run(c *Ctx, cs c12Case) {
	c.Res.Eval()
	fail := func(kind, class, what string, impl, model any) {
		c.Res.Add(proto.Finding{Kind: kind, Class: class, What: what, Case: cs, Impl: impl, Model: model})
	}
	body := c12MkBody(cs)
	doer := &c12Doer{fail: cs.DoFails, resp: &http.Response{StatusCode: cs.Status, Body: body}}
	cl := graphql.NewClient("http://h.example/q", doer)
	if cs.UseGet {
		cl = graphql.NewClientUsingGet("http://h.example/q", doer)
	}
	var ctx context.Context = context.Background()
	if cs.NilCtx {
		ctx = nil
	}
	data := &c12Data{A: -1}
	resp := &graphql.Response{Data: data}
	var err error
	panicked := any(nil)
	func() {
		defer func() { panicked = recover() }()
		err = cl.MakeRequest(ctx, &graphql.Request{Query: "query Q { a }", OpName: "Q"}, resp)
	}()
	if panicked != nil {
		fail("violation", "panic", fmt.Sprintf("MakeRequest (nil context: %v, GET: %v) panicked: %v", cs.NilCtx, cs.UseGet, panicked), nil, nil)
		return
	}

	// ---- facts, computed with the standard library independently of the client ----
	var fReadAllFails, fUnmarshalOk, fUnmarshalErrors, fDecodeOk, fDecodeErrors bool
	var stdErrors gqlerror.List
	var stdData c12Data
	var stdExt map[string]interface{}
	rawText := ""
	{
		b2 := c12MkBody(cs)
		all, rerr := io.ReadAll(b2)
		fReadAllFails = rerr != nil
		rawText = string(all)
		var g graphql.Response
		if rerr == nil && json.Unmarshal(all, &g) == nil {
			fUnmarshalOk = true
			fUnmarshalErrors = len(g.Errors) > 0
			if cs.Status != 200 {
				stdErrors = g.Errors
			}
		}
		b3 := c12MkBody(cs)
		g2 := graphql.Response{Data: &stdData}
		stdData.A = -1
		if json.NewDecoder(b3).Decode(&g2) == nil {
			fDecodeOk = true
			fDecodeErrors = len(g2.Errors) > 0
			if cs.Status == 200 {
				stdErrors = g2.Errors
			}
			stdExt = g2.Extensions
		}
	}

	// ---- implementation's observable outcome ----
	var he *graphql.HTTPError
	var gl gqlerror.List
	outcome, carry, status := "", "", 0
	switch {
	case err == nil:
		outcome = "ok"
	case errors.Is(err, errC12Do):
		outcome = "transport"
	case errors.As(err, &he):
		outcome = "httpError"
		status = he.StatusCode
		switch {
		case len(he.Response.Errors) == 1 && strings.HasPrefix(he.Response.Errors[0].Message, "<unreadable: "):
			carry = "unreadableText"
		case len(he.Response.Errors) == 1 && he.Response.Errors[0].Message == rawText && !fUnmarshalOk:
			carry = "rawText"
		case len(he.Response.Errors) > 0:
			carry = "decoded+errors"
		default:
			carry = "decoded"
		}
	case errors.As(err, &gl):
		outcome = "gqlErrors"
	default:
		outcome = "decodeError"
	}
	dataDecoded := data.A != -1 || (outcome == "ok" || outcome == "gqlErrors") && stdData.A == -1
	if outcome == "ok" || outcome == "gqlErrors" {
		if data.A != stdData.A {
			dataDecoded = false
		}
	} else {
		dataDecoded = false
	}

	// ---- direct oracles (the property's own words) ----
	sc := "non200"
	if cs.Status == 200 {
		sc = "200"
	}
	fk := "none"
	switch {
	case cs.DoFails:
		fk = "do"
	case cs.FailAfter >= 0:
		fk = "read"
	case cs.TruncAt >= 0:
		fk = "trunc"
	}
	c.Res.Count("outcome:" + outcome + ":" + carry)
	c.Res.Count("fault:" + fk)
	c.Res.NonTrivial(sc + "|" + cs.BodyKind + "|" + fk + "|" + outcome + carry)
	if c.Res.Evaluations%500 == 1 {
		c.Res.Sample(map[string]any{"case": cs, "outcome": outcome, "carry": carry, "closes": body.closes, "err": fmt.Sprint(err)})
	}
	wantCloses := 1
	if cs.DoFails {
		wantCloses = 0
	}
	if body.closes != wantCloses {
		fail("violation", "body-close-count", fmt.Sprintf("response body closed %d times, want %d (status %d, fault %s)", body.closes, wantCloses, cs.Status, fk), body.closes, wantCloses)
	}
	if doer.n != 1 {
		fail("violation", "do-count", fmt.Sprintf("Do called %d times", doer.n), nil, nil)
	}
	switch {
	case cs.DoFails:
		if outcome != "transport" {
			fail("violation", "transport-misclassified", "Do failed but outcome is "+outcome, nil, nil)
		}
	case cs.Status != 200:
		if outcome != "httpError" || status != cs.Status {
			fail("violation", "non200-not-httperror", fmt.Sprintf("status %d yielded %s (status %d): %v", cs.Status, outcome, status, err), nil, nil)
		} else if fUnmarshalOk && fUnmarshalErrors {
			if !c12SameErrors(he.Response.Errors, stdErrors) {
				fail("violation", "non200-errors-lost", "HTTPError does not carry the body's errors", fmt.Sprint(he.Response.Errors), fmt.Sprint(stdErrors))
			}
		} else if !fReadAllFails {
			// no errors in the body: the raw text must be carried
			carriesContent := fUnmarshalOk && (he.Response.Data != nil || len(he.Response.Extensions) > 0)
			if !(len(he.Response.Errors) == 1 && he.Response.Errors[0].Message == rawText) && !carriesContent {
				cls := "non200-rawtext-lost:" + map[bool]string{true: "valid-json-wrong-shape", false: "undecodable"}[fUnmarshalOk]
				fail("violation", cls, fmt.Sprintf("status %d body %q: HTTPError carries neither errors nor the raw text (errors=%v)", cs.Status, rawText, he.Response.Errors), nil, nil)
			}
		}
	default: // 200
		switch {
		case !fDecodeOk:
			if outcome != "decodeError" {
				fail("violation", "undecodable-200-misclassified", "undecodable 200 body yielded "+outcome, nil, nil)
			}
		case fDecodeErrors:
			if outcome != "gqlErrors" || !c12SameErrors(gl, stdErrors) {
				fail("violation", "200-errors-misclassified", "200 with errors yielded "+outcome, fmt.Sprint(err), fmt.Sprint(stdErrors))
			}
			if data.A != stdData.A {
				fail("violation", "partial-data-lost", fmt.Sprintf("data that arrived was not decoded: a=%d want %d", data.A, stdData.A), nil, nil)
			}
		default:
			if outcome != "ok" {
				fail("violation", "200-ok-misclassified", "200 without errors yielded "+outcome+": "+fmt.Sprint(err), nil, nil)
			}
			if data.A != stdData.A || fmt.Sprint(resp.Extensions) != fmt.Sprint(stdExt) {
				fail("violation", "data-not-decoded", "data/extensions not fully decoded", nil, nil)
			}
		}
	}

	// ---- model correspondence ----
	m := c.Model(map[string]any{"op": "resp.classify", "transport": cs.DoFails, "status": max(cs.Status, 0), "readAllFails": fReadAllFails,
		"unmarshalOk": fUnmarshalOk, "unmarshalErrors": fUnmarshalErrors, "decodeOk": fDecodeOk, "decodeErrors": fDecodeErrors})
	mo, _ := m["outcome"].(string)
	mc, _ := m["carry"].(string)
	mcl, _ := m["closes"].(json.Number).Int64()
	md, _ := m["dataDecoded"].(bool)
	mst, _ := m["status"].(json.Number).Int64()
	if mo != outcome || mc != carry || int(mcl) != body.closes || (outcome == "httpError" && int(mst) != status) {
		fail("mismatch", "classify-model", fmt.Sprintf("impl=(%s,%s,closes %d,status %d) model=(%s,%s,closes %d,status %d)", outcome, carry, body.closes, status, mo, mc, mcl, mst), nil, m)
	}
	if (outcome == "ok" || outcome == "gqlErrors") && md != dataDecoded {
		fail("mismatch", "dataDecoded-model", fmt.Sprintf("impl dataDecoded=%v model=%v", dataDecoded, md), nil, m)
	}
}

func c12SameErrors(a, b gqlerror.List) bool {
	if len(a) != len(b) {
		return false
	}
	for i := range a {
		if a[i].Message != b[i].Message || fmt.Sprint(a[i].Extensions) != fmt.Sprint(b[i].Extensions) || fmt.Sprint(a[i].Path) != fmt.Sprint(b[i].Path) {
			return false
		}
	}
	return true
}

// c12LargeErrors: a well-formed error document with n errors (each ~80 bytes): bodies far beyond any small buffer
func c12LargeErrors(n int) string {
	var sb strings.Builder
	sb.WriteString(`{"errors":[`)
	for i := 0; i < n; i++ {
		if i > 0 {
			sb.WriteString(",")
		}
		fmt.Fprintf(&sb, `{"message":"error number %04d of a long list, padded to a fixed width ......","path":["a"]}`, i)
	}
	sb.WriteString(`]}`)
	return sb.String()
}
