package main

import (
	"bytes"
	"encoding/json"
	"fmt"
	"os"
	"path/filepath"
	"regexp"
	"strings"

	"github.com/Khan/genqlient/generate"
	"verifharness/internal/gen"
	"verifharness/internal/proto"
)

func init() {
	register("C17", "each G_prog program is generated under 8 layouts of the same definitions (one .graphql file, file per definition, random "+
		"partition, Go raw literals with the marker on the first or second line, Go interpreted literals, literals nested in expressions, two "+
		"literals on one line) and, for a subset, under 3 spellings of the config's paths (relative, ./-prefixed, absolute) through "+
		"ReadAndValidateConfig; generated.go must be byte-identical and operations.json identical up to sourceLocation; "+
		"non-trivial = distinct (layout, #definitions, has fragments shared across files, has directives)", runC17)
}

type c17Case struct {
	Seed   uint64     `json:"gprog_seed"`
	Schema []string   `json:"schema"`
	Defs   []gen.Def  `json:"defs"`
	Cfg    ProgCfg    `json:"cfg"`
	Only   layoutKind `json:"only_layout,omitempty"`
}

var sourceLocRe = regexp.MustCompile(`"sourceLocation": "[^"]*"`)

func runC17(c *Ctx) {
	if c.Replay != "" {
		var wrap struct{ Case c17Case `json:"case"` }
		b, err := osReadFile(c.Replay)
		if err == nil {
			err = json.Unmarshal(b, &wrap)
		}
		if err != nil {
			c.Res.Notes = append(c.Res.Notes, "replay unreadable")
			return
		}
		c17Run(c, wrap.Case, 0)
		return
	}
	n := c.N(45, 1500)
	for i := 0; i < n; i++ {
		seed := c.Seed*15485863 + uint64(i)
		p := gen.GenerateSeed(seed, safeOpts)
		cs := c17Case{Seed: seed, Schema: p.Schema, Defs: p.Defs, Cfg: cfgFromGen(p.Config)}
		cs.Cfg.ExportOperations = true
		if sch, err := loadSchema(p.Schema); err == nil && sharedInputMismatch(sch, p.Defs) {
			// documented limitation: operations sharing an input type must carry matching directives
			c.Res.Count("excluded:shared-input-type-configured-differently")
			continue
		}
		c17Run(c, cs, i)
	}
	c17Lines(c)
}

func c17Run(c *Ctx, cs c17Case, idx int) {
	fail := func(kind, class, what string, impl, model any) {
		c.Res.Add(proto.Finding{Kind: kind, Class: class, What: what, Case: cs, Impl: impl, Model: model})
	}
	schema := map[string]string{}
	for i, s := range cs.Schema {
		schema[fmt.Sprintf("schema%d.graphql", i)] = s
	}
	var ref *GenOut
	var refLayout layoutKind
	hasDir := false
	for _, d := range cs.Defs {
		hasDir = hasDir || strings.Contains(d.Comment+d.Text, "@genqlient")
	}
	for li, lay := range allLayouts {
		if cs.Only != "" && lay != cs.Only && lay != layOneFile {
			continue
		}
		c.Res.Eval()
		files, _ := layout(cs.Defs, lay, c.Rng("lay", idx*16+li))
		out := runGenerate(c.Work, &Program{Schema: schema, Ops: files, Cfg: cs.Cfg}, false)
		if out.Panic != nil || out.TimedOut {
			c.Res.Count("skipped:panic")
			return
		}
		if lay == layOneFile {
			if out.Err != nil {
				c.Res.Count("skipped:rejected")
				return
			}
			ref, refLayout = out, lay
			continue
		}
		c.Res.Count("layout:" + string(lay))
		c.Res.NonTrivial(fmt.Sprintf("%s|defs=%d|dirs=%v", lay, min(len(cs.Defs), 8), hasDir))
		if out.Err != nil {
			fail("violation", "layout-rejected:"+string(lay), fmt.Sprintf("accepted as one .graphql file, rejected in layout %s: %s", lay, firstLine(out.Err.Error())), nil, nil)
			continue
		}
		if !bytes.Equal(out.Files["generated.go"], ref.Files["generated.go"]) {
			only := cs
			only.Only = lay
			c.Res.Add(proto.Finding{Kind: "violation", Class: "layout-changes-code:" + string(lay),
				What: fmt.Sprintf("generated.go differs between layouts %s and %s: %s", refLayout, lay, firstDifference(ref.Files["generated.go"], out.Files["generated.go"])), Case: only})
		}
		a := sourceLocRe.ReplaceAll(ref.Files["operations.json"], []byte(`"sourceLocation": ""`))
		b := sourceLocRe.ReplaceAll(out.Files["operations.json"], []byte(`"sourceLocation": ""`))
		if !bytes.Equal(a, b) {
			fail("violation", "layout-changes-export:"+string(lay), "operations.json differs (beyond sourceLocation): "+firstDifference(a, b), nil, nil)
		}
		// sourceLocation must name the file the operation is in
		var ex struct {
			Operations []struct {
				Name string `json:"operationName"`
				Loc  string `json:"sourceLocation"`
			} `json:"operations"`
		}
		json.Unmarshal(out.Files["operations.json"], &ex)
		for _, o := range ex.Operations {
			if _, ok := files[o.Loc]; !ok {
				fail("violation", "source-location", fmt.Sprintf("sourceLocation %q of %s is not one of the operation files %v", o.Loc, o.Name, sortedFileNames(files)), nil, nil)
				break
			}
		}
	}
	if c.Res.Evaluations%80 < 8 && ref != nil {
		c.Res.Sample(map[string]any{"gprog_seed": cs.Seed, "definitions": len(cs.Defs), "layouts": allLayouts, "generated_bytes": len(ref.Files["generated.go"])})
	}
	// path spellings through the real config loader (slow: runs `go list`), for a subset
	if ref != nil && idx%9 == 0 && cs.Only == "" {
		c17Spellings(c, cs, schema, ref, fail)
	}
}

func c17Spellings(c *Ctx, cs c17Case, schema map[string]string, ref *GenOut, fail func(kind, class, what string, impl, model any)) {
	dir := filepath.Join(c.Work, fmt.Sprintf("c17sp-%d", c.Res.Evaluations))
	os.RemoveAll(dir)
	defer os.RemoveAll(dir)
	os.MkdirAll(filepath.Join(dir, "q"), 0o755)
	for n, s := range schema {
		os.WriteFile(filepath.Join(dir, n), []byte(s), 0o644)
	}
	files, _ := layout(cs.Defs, layOneFile, c.Rng("lay", 0))
	for n, s := range files {
		os.WriteFile(filepath.Join(dir, "q", n), []byte(s), 0o644)
	}
	spell := map[string]func(string) string{
		"relative": func(p string) string { return p },
		"dot-slash": func(p string) string { return "./" + p },
		"absolute": func(p string) string { return filepath.Join(dir, p) },
	}
	var outs = map[string]map[string][]byte{}
	for name, f := range spell {
		c.Res.Eval()
		var y strings.Builder
		y.WriteString("schema:\n")
		for _, n := range sortedFileNames(schema) {
			fmt.Fprintf(&y, "- %s\n", f(n))
		}
		fmt.Fprintf(&y, "operations:\n- %s\n", f("q/*.graphql"))
		fmt.Fprintf(&y, "generated: %s\nexport_operations: %s\npackage: gen\n", f("generated.go"), f("operations.json"))
		y.WriteString(c17YamlCfg(cs.Cfg))
		cfgPath := filepath.Join(dir, "genqlient-"+name+".yaml")
		os.WriteFile(cfgPath, []byte(y.String()), 0o644)
		cfg, err := generate.ReadAndValidateConfig(cfgPath)
		if err != nil {
			c.Res.Count("skipped:config-rejected")
			return
		}
		m, err := generate.Generate(cfg)
		if err != nil {
			fail("violation", "spelling-rejected:"+name, "accepted with direct configuration, rejected with "+name+" paths: "+firstLine(err.Error()), nil, nil)
			return
		}
		outs[name] = map[string][]byte{}
		for k, v := range m {
			rel, _ := filepath.Rel(dir, k)
			outs[name][rel] = v
		}
		c.Res.Count("spelling:" + name)
	}
	for name, o := range outs {
		if !bytes.Equal(o["generated.go"], ref.Files["generated.go"]) {
			fail("violation", "spelling-changes-code:"+name, "generated.go differs under "+name+" path spelling: "+firstDifference(ref.Files["generated.go"], o["generated.go"]), nil, nil)
		}
		if !bytes.Equal(o["operations.json"], outs["relative"]["operations.json"]) {
			fail("violation", "spelling-changes-export:"+name, "operations.json differs between path spellings (sourceLocation must be relative to the config): "+firstDifference(outs["relative"]["operations.json"], o["operations.json"]), nil, nil)
		}
	}
}

func c17YamlCfg(cfg ProgCfg) string {
	var y strings.Builder
	if cfg.ContextType != "" {
		fmt.Fprintf(&y, "context_type: %q\n", cfg.ContextType)
	}
	if cfg.ClientGetter != "" {
		fmt.Fprintf(&y, "client_getter: %q\n", cfg.ClientGetter)
	}
	if cfg.Optional != "" {
		fmt.Fprintf(&y, "optional: %s\n", cfg.Optional)
	}
	if cfg.OptionalGeneric != "" {
		fmt.Fprintf(&y, "optional_generic_type: %q\n", cfg.OptionalGeneric)
	}
	if cfg.StructReferences {
		y.WriteString("use_struct_references: true\n")
	}
	if cfg.Extensions {
		y.WriteString("use_extensions: true\n")
	}
	if cfg.CasingDefault != "" || cfg.CasingAllEnums != "" || len(cfg.CasingEnums) > 0 {
		y.WriteString("casing:\n")
		if cfg.CasingDefault != "" {
			fmt.Fprintf(&y, "  default: %s\n", cfg.CasingDefault)
		}
		if cfg.CasingAllEnums != "" {
			fmt.Fprintf(&y, "  all_enums: %s\n", cfg.CasingAllEnums)
		}
		if len(cfg.CasingEnums) > 0 {
			y.WriteString("  enums:\n")
			for _, k := range sortedKeys(cfg.CasingEnums) {
				fmt.Fprintf(&y, "    %s: %s\n", k, cfg.CasingEnums[k])
			}
		}
	}
	if len(cfg.Bindings) > 0 {
		y.WriteString("bindings:\n")
		ks := []string{}
		for k := range cfg.Bindings {
			ks = append(ks, k)
		}
		sortStrings(ks)
		for _, k := range ks {
			b := cfg.Bindings[k]
			fmt.Fprintf(&y, "  %s:\n    type: %q\n", k, b["type"])
			if b["marshaler"] != "" {
				fmt.Fprintf(&y, "    marshaler: %q\n", b["marshaler"])
			}
			if b["unmarshaler"] != "" {
				fmt.Fprintf(&y, "    unmarshaler: %q\n", b["unmarshaler"])
			}
		}
	}
	return y.String()
}
