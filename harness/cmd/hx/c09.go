package main

import (
	"bytes"
	"encoding/json"
	"fmt"
	goast "go/ast"
	goformat "go/format"
	goparser "go/parser"
	gotoken "go/token"
	"reflect"
	"sort"
	"strconv"
	"strings"

	"github.com/Khan/genqlient/generate"
	"github.com/vektah/gqlparser/v2/ast"
	"verifharness/internal/gen"
	"verifharness/internal/proto"
)

func init() {
	register("C09", "three legs. (1) selectionsMatch itself against the model on PRNG pairs of selection trees (identical, strict prefix either way, "+
		"permuted, alias/name/type-condition changed at any depth incl. inside inline fragments, kinds swapped). (2) every access of the generator's "+
		"type map (hook, tag verif) while generating G_prog programs (adversarial names) and targeted naming attacks (shared typename with "+
		"same/prefix/extended/permuted selections in one or two operations, alias concatenations that coincide, typename or fragment named like an "+
		"auto-generated type, one typename on two GraphQL types): a reuse or overwrite for a different GraphQL type or selection is a violation; "+
		"the access sequence is replayed through the model. (3) each operation generated alone vs together with the others: its declarations "+
		"must be identical up to import aliases; non-trivial = distinct (attack kind | shape) or distinct program", runC09)
}

// ---------- selection trees ----------

type selT struct {
	K string  `json:"k"` // f, i, s
	A string  `json:"a"`
	N string  `json:"n"`
	C string  `json:"c"`
	S []*selT `json:"s"`
}

func (t *selT) toAST() ast.Selection {
	switch t.K {
	case "f":
		return &ast.Field{Alias: t.A, Name: t.N, SelectionSet: selsToAST(t.S), Position: c09Pos}
	case "i":
		return &ast.InlineFragment{TypeCondition: t.C, SelectionSet: selsToAST(t.S), Position: c09Pos}
	}
	return &ast.FragmentSpread{Name: t.N, Position: c09Pos}
}

func selsToAST(ts []*selT) ast.SelectionSet {
	out := ast.SelectionSet{}
	for _, t := range ts {
		out = append(out, t.toAST())
	}
	return out
}

func selsFromAST(ss ast.SelectionSet) []*selT {
	out := []*selT{}
	for _, s := range ss {
		switch s := s.(type) {
		case *ast.Field:
			out = append(out, &selT{K: "f", A: s.Alias, N: s.Name, S: selsFromAST(s.SelectionSet)})
		case *ast.InlineFragment:
			out = append(out, &selT{K: "i", C: s.TypeCondition, S: selsFromAST(s.SelectionSet)})
		case *ast.FragmentSpread:
			out = append(out, &selT{K: "s", N: s.Name, S: []*selT{}})
		}
	}
	return out
}

func cloneSels(ts []*selT) []*selT {
	b, _ := json.Marshal(ts)
	var out []*selT
	json.Unmarshal(b, &out)
	fixNil(out)
	return out
}

func fixNil(ts []*selT) {
	for _, t := range ts {
		if t.S == nil {
			t.S = []*selT{}
		}
		fixNil(t.S)
	}
}

func selsString(ts []*selT) string {
	var sb strings.Builder
	for i, t := range ts {
		if i > 0 {
			sb.WriteByte(' ')
		}
		switch t.K {
		case "f":
			if t.A != t.N {
				sb.WriteString(t.A + ":")
			}
			sb.WriteString(t.N)
		case "i":
			sb.WriteString("...on " + t.C)
		default:
			sb.WriteString("..." + t.N)
		}
		if len(t.S) > 0 {
			sb.WriteString("{" + selsString(t.S) + "}")
		}
	}
	return sb.String()
}

func genSels(r *proto.Rng, depth int) []*selT {
	names := []string{"id", "name", "a", "b", "user"}
	n := 1 + r.Intn(3)
	out := []*selT{}
	for i := 0; i < n; i++ {
		switch {
		case depth < 3 && r.Chance(1, 4):
			out = append(out, &selT{K: "i", C: proto.Pick(r, []string{"User", "Node", "Bc"}), S: genSels(r, depth+1)})
		case r.Chance(1, 8):
			out = append(out, &selT{K: "s", N: proto.Pick(r, []string{"F", "G"}), S: []*selT{}})
		default:
			nm := proto.Pick(r, names)
			al := nm
			if r.Chance(1, 4) {
				al = proto.Pick(r, []string{"x", "y", nm + "2"})
			}
			f := &selT{K: "f", A: al, N: nm, S: []*selT{}}
			if depth < 3 && r.Chance(1, 3) {
				f.S = genSels(r, depth+1)
			}
			out = append(out, f)
		}
	}
	return out
}

// all positions (pointer to a slice of selections) in a tree
func selLists(ts *[]*selT, out *[]*[]*selT) {
	*out = append(*out, ts)
	for _, t := range *ts {
		if t.K != "s" {
			selLists(&t.S, out)
		}
	}
}

func mutateSels(r *proto.Rng, base []*selT) ([]*selT, string) {
	b := cloneSels(base)
	var lists []*[]*selT
	selLists(&b, &lists)
	l := proto.Pick(r, lists)
	kind := proto.Pick(r, []string{"identical", "prefix", "extended", "permuted", "alias", "name", "cond", "kind", "deep-in-inline"})
	switch kind {
	case "prefix":
		if len(*l) == 0 {
			return b, "identical"
		}
		*l = (*l)[:len(*l)-1-r.Intn(len(*l))]
	case "extended":
		*l = append(*l, &selT{K: "f", A: "extra", N: "extra", S: []*selT{}})
	case "permuted":
		if len(*l) < 2 {
			return b, "identical"
		}
		(*l)[0], (*l)[len(*l)-1] = (*l)[len(*l)-1], (*l)[0]
		if reflect.DeepEqual(b, base) {
			return b, "identical"
		}
	case "alias", "name", "cond", "kind":
		if len(*l) == 0 {
			return b, "identical"
		}
		t := proto.Pick(r, *l)
		switch {
		case kind == "alias" && t.K == "f":
			t.A += "Z"
		case kind == "name" && t.K != "i":
			t.N += "Z"
			if t.K == "f" && t.A+"Z" == t.N {
				t.A = t.N
			}
		case kind == "cond" && t.K == "i":
			t.C += "Z"
		case kind == "kind":
			if t.K == "f" {
				*t = selT{K: "i", C: "User", S: t.S}
			} else {
				*t = selT{K: "f", A: "k", N: "k", S: []*selT{}}
			}
		default:
			return b, "identical"
		}
	case "deep-in-inline":
		// change something strictly inside an inline fragment
		for _, t := range b {
			if t.K == "i" && len(t.S) > 0 {
				t.S = t.S[:len(t.S)-1]
				return b, "deep-in-inline"
			}
		}
		return b, "identical"
	}
	return b, kind
}

func c09MatchLeg(c *Ctx) {
	n := c.N(1500, 40000)
	for i := 0; i < n; i++ {
		r := proto.NewRng(c.Seed, "c09/match", uint64(i))
		a := genSels(r, 0)
		b, kind := mutateSels(r, a)
		if r.Bool() {
			a, b = b, a
		}
		c.Res.Eval()
		same := reflect.DeepEqual(a, b)
		if same {
			kind = "identical"
		}
		c.Res.Count("match-pair:" + kind)
		c.Res.NonTrivial("match|" + kind + "|" + strconv.Itoa(len(a)) + "|" + strconv.Itoa(len(b)))
		err := generate.VerifSelectionsMatch(selsToAST(a), selsToAST(b))
		got := err == nil
		cs := map[string]any{"leg": "match", "a": a, "b": b, "a_text": selsString(a), "b_text": selsString(b)}
		if got && !same {
			c.Res.Add(proto.Finding{Kind: "violation", Class: "selectionsMatch-accepts-different-selections",
				What: fmt.Sprintf("selectionsMatch({%s}, {%s}) reports a match (%s)", selsString(a), selsString(b), kind), Case: cs})
		}
		if !got && same {
			c.Res.Add(proto.Finding{Kind: "mismatch", Class: "selectionsMatch-rejects-identical-selections",
				What: fmt.Sprintf("selectionsMatch rejects identical selections {%s}: %v", selsString(a), err), Case: cs})
		}
		m := c.Model(map[string]any{"op": "tm.match", "a": a, "b": b})
		if mv, _ := m["out"].(bool); mv != got {
			c.Res.Add(proto.Finding{Kind: "mismatch", Class: "selectionsMatch-model", What: fmt.Sprintf("selectionsMatch({%s}, {%s}) = %v, model %v", selsString(a), selsString(b), got, mv), Case: cs, Impl: got, Model: mv})
		}
		if i%500 == 0 {
			c.Res.Sample(map[string]any{"leg": "match", "a": selsString(a), "b": selsString(b), "relation": kind, "match": got})
		}
	}
}

// ---------- type-map events ----------

type c09Case struct {
	Leg    string            `json:"leg"`
	Attack string            `json:"attack,omitempty"`
	Seed   uint64            `json:"gprog_seed,omitempty"`
	Schema map[string]string `json:"schema"`
	Ops    map[string]string `json:"ops"`
	Cfg    ProgCfg           `json:"cfg"`
}

func sameNeed(g1 string, s1 ast.SelectionSet, g2 string, s2 ast.SelectionSet) bool {
	return g1 == g2 && reflect.DeepEqual(selsFromAST(s1), selsFromAST(s2))
}

// c09Events judges the access log of one generation and replays it through the model
func c09Events(c *Ctx, cs c09Case, out *GenOut) {
	fail := func(kind, class, what string, impl, model any) {
		c.Res.Add(proto.Finding{Kind: kind, Class: class, What: what, Case: cs, Impl: impl, Model: model})
	}
	var reqs []any
	var kinds []string
	for _, ev := range out.Events {
		need := fmt.Sprintf("%s {%s}", ev.GraphQLName, selsString(selsFromAST(ev.Selection)))
		have := fmt.Sprintf("%s {%s}", ev.ExistingGraphQLName, selsString(selsFromAST(ev.ExistingSelection)))
		same := ev.Existing && sameNeed(ev.GraphQLName, ev.Selection, ev.ExistingGraphQLName, ev.ExistingSelection)
		c.Res.Count("typemap-access:" + ev.Kind)
		switch ev.Kind {
		case "get:reuse":
			if !same {
				fail("violation", "wrong-type-reused", fmt.Sprintf("Go type %s, declared for %s, was reused for a place that needs %s", ev.GoName, have, need), nil, nil)
			}
		case "get:conflict":
			if same {
				fail("mismatch", "conflict-reported-for-identical-need", fmt.Sprintf("a second visit of %s (%s) was reported as a conflicting definition", ev.GoName, need), nil, nil)
			}
		case "insert":
			if ev.Existing {
				fail("violation", "insert-over-existing", fmt.Sprintf("Go type %s inserted although present", ev.GoName), nil, nil)
			}
		case "peek":
			if ev.Existing && !same {
				fail("violation", "fragment-spread-uses-generated-type", fmt.Sprintf("fragment spread ...%s (fragment on %s) was given the existing Go type %s, declared for %s", ev.GoName, need, ev.GoName, have), nil, nil)
			}
		case "write":
			if ev.Existing && !same {
				cls := "fragment-write-replaces-generated-type"
				fail("violation", cls, fmt.Sprintf("the type map entry %s (declared for %s) was overwritten without a check by the declaration for %s", ev.GoName, have, need), nil, nil)
			}
		}
		k := map[string]string{"get:absent": "get", "get:reuse": "get", "get:conflict": "get", "insert": "add", "write": "write", "peek": "peek"}[ev.Kind]
		reqs = append(reqs, map[string]any{"kind": k, "name": ev.GoName, "gql": ev.GraphQLName, "sel": selsFromAST(ev.Selection)})
		kd := map[string]string{"get:absent": "absent", "get:reuse": "reuse", "get:conflict": "conflict", "insert": "inserted", "write": "written"}[ev.Kind]
		if ev.Kind == "peek" {
			kd = "absent"
			if ev.Existing {
				kd = "reuse"
			}
		}
		kinds = append(kinds, kd)
	}
	if len(reqs) == 0 {
		return
	}
	m := c.Model(map[string]any{"op": "tm.run", "reqs": reqs})
	var want []string
	if xs, ok := m["out"].([]any); ok {
		for _, x := range xs {
			want = append(want, x.(string))
		}
	}
	// the model stops at the first conflict, as generation does
	got := kinds
	for i, k := range kinds {
		if k == "conflict" {
			got = kinds[:i+1]
			break
		}
	}
	if !reflect.DeepEqual(want, got) {
		i := 0
		for i < len(want) && i < len(got) && want[i] == got[i] {
			i++
		}
		what := fmt.Sprintf("type-map access #%d", i)
		if i < len(out.Events) {
			ev := out.Events[i]
			what += fmt.Sprintf(" (%s %s for %s {%s})", ev.Kind, ev.GoName, ev.GraphQLName, selsString(selsFromAST(ev.Selection)))
		}
		g, w := "<none>", "<none>"
		if i < len(got) {
			g = got[i]
		}
		if i < len(want) {
			w = want[i]
		}
		fail("mismatch", "typemap-model", fmt.Sprintf("%s: implementation %s, model %s", what, g, w), got, want)
	}
}

// ---------- targeted naming attacks ----------

const c09Schema = `
type Query { user: User, friend: User, users: [User], node: Node, other: Node, a: Bc, aBc: Bc, pet: Pet, viewer: CurrentUser, currentUser: User }
interface Node { id: ID! }
type User implements Node { id: ID! name: String email: String friend: User bc: Bc role: Role }
enum Role { ADMIN MEMBER }
type CurrentUser { id: ID! name: String }
type Pet implements Node { id: ID! name: String email: String owner: User }
type Bc { id: ID! name: String email: String friend: Bc bc: Bc user: User }
`

func c09Targeted(r *proto.Rng) (c09Case, string) {
	// one selection per line: a @genqlient comment applies to every node on the line below it
	sels := map[string]string{
		"base":     "id\nname",
		"same":     "id\nname",
		"prefix":   "id",
		"extended": "id\nname\nemail",
		"permuted": "name\nid",
		"alias":    "id\nn: name",
		"inlineA":  "id\n... on User {\nname\nemail\n}",
		"inlineB":  "id\n... on User {\nname\n}",
		"nestedA":  "id\nfriend {\nid\nname\n}",
		"nestedB":  "id\nfriend {\nid\n}",
	}
	pairs := [][2]string{{"base", "same"}, {"base", "prefix"}, {"prefix", "base"}, {"base", "extended"}, {"extended", "base"}, {"base", "permuted"}, {"base", "alias"},
		{"inlineA", "inlineB"}, {"inlineB", "inlineA"}, {"inlineA", "inlineA"}, {"nestedA", "nestedB"}, {"nestedB", "nestedA"}, {"nestedA", "nestedA"}}
	pr := proto.Pick(r, pairs)
	s1, s2 := "\n"+sels[pr[0]]+"\n", "\n"+sels[pr[1]]+"\n"
	shape := pr[0] + "/" + pr[1]
	attack := proto.Pick(r, []string{"shared-typename-one-op", "shared-typename-two-ops", "shared-typename-two-types", "alias-concatenation",
		"typename-like-generated", "fragment-like-generated", "fragment-impl-like-fragment", "nested-abstract-inline", "fragment-or-typename-like-enum", "shortened-name-coincidence", "name-registered-while-converting", "shared-typename-spread-vs-inline", "shared-typename-below-unbound-field"})
	ops := ""
	cfgBindUser := false
	switch attack {
	case "shared-typename-one-op":
		ops = fmt.Sprintf("query Q {\n  # @genqlient(typename: \"T\")\n  user { %s }\n  # @genqlient(typename: \"T\")\n  friend { %s }\n}\n", s1, s2)
	case "shared-typename-two-ops":
		ops = fmt.Sprintf("query Wide {\n  # @genqlient(typename: \"T\")\n  user { %s }\n}\nquery Narrow {\n  # @genqlient(typename: \"T\")\n  user { %s }\n}\n", s1, s2)
	case "shared-typename-two-types":
		// same selection text on two different GraphQL types
		s := proto.Pick(r, []string{"\nid\nname\n", "\nid\n", "\nid\nname\nemail\n"})
		shape = strings.ReplaceAll(s, "\n", " ")
		ops = fmt.Sprintf("query Q {\n  # @genqlient(typename: \"T\")\n  user { %s }\n  # @genqlient(typename: \"T\")\n  pet { %s }\n}\n", s, s)
	case "alias-concatenation":
		ops = fmt.Sprintf("query Q {\n  a { %s }\n  aBc { %s }\n}\n", s1, s2)
	case "typename-like-generated":
		ops = fmt.Sprintf("query Q {\n  user { %s }\n  # @genqlient(typename: \"QUser\")\n  friend { %s }\n}\n", s1, s2)
	case "fragment-like-generated":
		first := r.Bool()
		shape += fmt.Sprint("/fragment-first=", first)
		// Q.user's auto-generated type is QUser (field and type name coincide), Q.friend's is QFriendUser
		nm := proto.Pick(r, []string{"QUser", "QFriendUser"})
		shape += "/" + nm
		other := map[string]string{"QUser": "users", "QFriendUser": "users"}[nm]
		q := fmt.Sprintf("query Q {\n  user { %s }\n  friend { %s }\n  %s { ...%s }\n}\n", s1, s1, other, nm)
		f := fmt.Sprintf("fragment %s on User { %s }\n", nm, s2)
		if first {
			q = fmt.Sprintf("query Q {\n  %s { ...%s }\n  user { %s }\n  friend { %s }\n}\n", other, nm, s1, s1)
		}
		ops = q + f
	case "fragment-impl-like-fragment":
		// fragment F on Node generates FUser / FPet; another fragment is called FUser
		ops = fmt.Sprintf("query Q {\n  node { ...F }\n  user { ...FUser }\n}\nfragment F on Node { %s }\nfragment FUser on User { %s }\n", "\nid\n", s2)
	case "fragment-or-typename-like-enum":
		// a fragment (or a typename option) called like a schema enum that the operations also use: the enum's Go type
		// and the struct need the same name — an unavoidable clash, in whichever order the two are first needed
		first := r.Bool()
		viaTypename := r.Bool()
		shape = fmt.Sprint("struct-first=", first, "/typename=", viaTypename)
		var a, b string
		if viaTypename {
			a = "  # @genqlient(typename: \"Role\")\n  friend {\n id\n }\n"
		} else {
			a = "  friend {\n ...Role\n }\n"
		}
		b = "  user {\n role\n }\n"
		if first {
			ops = "query Q {\n" + a + b + "}\n"
		} else {
			ops = "query Q {\n" + b + a + "}\n"
		}
		if !viaTypename {
			ops += "fragment Role on User {\n id\n name\n}\n"
		}
	case "name-registered-while-converting":
		// a Go name that gets registered BETWEEN a place's own look-up and its insertion: by its own sub-selection (the
		// same typename on a field and on a field nested inside it), by a fragment spread inside it that is called
		// like its auto-generated name, or by an earlier operation's typename equal to a later operation's response type
		switch r.Intn(3) {
		case 0:
			shape = "typename-on-field-and-nested-field"
			ops = "query Q {\n  # @genqlient(typename: \"U\")\n  user {\n name\n # @genqlient(typename: \"U\")\n friend {\n id\n }\n }\n}\n"
		case 1:
			shape = "fragment-called-like-the-enclosing-auto-name"
			ops = "query Q {\n  user {\n id\n ...QUser\n }\n}\nfragment QUser on User {\n name\n}\n"
		default:
			shape = "typename-equals-a-later-response-type"
			ops = "query A {\n  # @genqlient(typename: \"BResponse\")\n  user {\n id\n }\n}\nquery B {\n  user {\n id\n }\n}\n"
		}
	case "shared-typename-spread-vs-inline":
		// the same typename on two fields of one GraphQL type whose selections request the same fields — once through a
		// named fragment (the Go struct EMBEDS the fragment's struct), once inline (the Go struct has the fields), or
		// through two differently named fragments: different declarations, so a clash that must be reported
		first := r.Bool()
		twoFrags := r.Bool()
		shape = fmt.Sprint("spread-first=", first, "/two-fragments=", twoFrags)
		x, y := "...UF", "id\nname"
		if twoFrags {
			y = "...UF2"
		}
		if !first {
			x, y = y, x
		}
		ops = fmt.Sprintf("query Q {\n  # @genqlient(typename: \"T\")\n  user {\n%s\n }\n  # @genqlient(typename: \"T\")\n  friend {\n%s\n }\n}\nfragment UF on User {\n id\n name\n}\n", x, y)
		if twoFrags {
			ops += "fragment UF2 on User {\n id\n name\n}\n"
		}
	case "shared-typename-below-unbound-field":
		// User is bound in genqlient.yaml; both places override the binding (`bind: "-"`), so structs ARE generated for
		// them — with different fields below the same typename: a clash that must be reported
		first := r.Bool()
		shape = fmt.Sprint("wide-first=", first)
		x, y := "id\nname", "id"
		if !first {
			x, y = y, x
		}
		ops = fmt.Sprintf("query Q {\n  # @genqlient(typename: \"T\")\n  pet {\n id\n # @genqlient(bind: \"-\")\n owner {\n%s\n }\n }\n}\nquery R {\n  # @genqlient(typename: \"T\")\n  pet {\n id\n # @genqlient(bind: \"-\")\n owner {\n%s\n }\n }\n}\n", x, y)
		cfgBindUser = true
	case "shortened-name-coincidence":
		// `query Get { viewer {…} }` (viewer: CurrentUser) and `query GetViewer { currentUser {…} }` (currentUser: User):
		// Get+Viewer+CurrentUser and GetViewer+CurrentUser(+User, shortened away) are the same Go name for two GraphQL types
		first := r.Bool()
		shape = fmt.Sprint("get-first=", first)
		a := "query Get {\n  viewer {\n id\n }\n}\n"
		b := "query GetViewer {\n  currentUser {\n name\n }\n}\n"
		if first {
			ops = a + b
		} else {
			ops = b + a
		}
	case "nested-abstract-inline":
		// a composite field below an abstract field is converted once per implementation: must be recognised as the same
		ops = fmt.Sprintf("query Q {\n  node {\n    id\n    ... on Node {\n ... on User {\n friend { %s }\n }\n ... on Pet {\n owner { %s }\n }\n }\n  }\n  other {\n ... on User {\n bc {\n id\n user { %s }\n }\n }\n }\n}\n", s1, s2, s1)
	}
	cfg := ProgCfg{Package: "gen"}
	if cfgBindUser {
		cfg.Bindings = map[string]map[string]string{"User": {"type": "map[string]interface{}"}}
	}
	return c09Case{Leg: "targeted", Attack: attack, Schema: map[string]string{"schema.graphql": c09Schema}, Ops: map[string]string{"ops.graphql": ops}, Cfg: cfg}, attack + "|" + shape
}

func c09TargetedLeg(c *Ctx) {
	n := c.N(400, 6000)
	for i := 0; i < n; i++ {
		r := proto.NewRng(c.Seed, "c09/targeted", uint64(i))
		cs, key := c09Targeted(r)
		c09One(c, cs, key)
	}
}

func c09One(c *Ctx, cs c09Case, key string) {
	c.Res.Eval()
	c.Res.NonTrivial(key)
	out := runGenerate(c.Work, &Program{Schema: cs.Schema, Ops: cs.Ops, Cfg: cs.Cfg}, false)
	switch {
	case out.Panic != nil || out.TimedOut:
		c.Res.Count("outcome:panic (C07)")
		return
	case out.Err != nil && strings.Contains(out.Err.Error(), "conflicting definition"):
		c.Res.Count("outcome:" + cs.Attack + ":clash-reported")
	case out.Err != nil:
		c.Res.Count("outcome:" + cs.Attack + ":rejected: " + errSignature(stripPos(out.Err.Error())))
	default:
		c.Res.Count("outcome:" + cs.Attack + ":generated")
		if cs.Attack == "name-registered-while-converting" || cs.Attack == "shared-typename-spread-vs-inline" || cs.Attack == "shared-typename-below-unbound-field" {
			c.Res.Add(proto.Finding{Kind: "violation", Class: "wrong-type-reused", What: "two places that need different Go declarations under one name (" + key + "): generation succeeded, so one of them uses the other's type:\n" + cs.Ops["ops.graphql"], Case: cs})
		}
		if cs.Attack == "fragment-or-typename-like-enum" {
			// the enum Role and a struct Role cannot both be declared: success means one of the two places was given the
			// other's Go type
			d := parseGoDecls(out.Files["generated.go"])
			_, isStruct := d.structs["Role"]
			_, isNamed := d.named["Role"]
			c.Res.Add(proto.Finding{Kind: "violation", Class: "wrong-type-reused", What: fmt.Sprintf("a fragment/typename called Role and the enum Role both need the Go type name Role; generation succeeded (Role is a struct: %v, a string type: %v), so one of the two places uses the other's type", isStruct, isNamed), Case: cs})
		}
	}
	if cs.Attack == "shortened-name-coincidence" && out.Err == nil && out.Panic == nil {
		// both operations were generated together: then each must get exactly the declarations it gets alone
		together, _ := goDeclTexts(out.Files["generated.go"])
		for _, opText := range []string{"query Get {\n  viewer {\n id\n }\n}\n", "query GetViewer {\n  currentUser {\n name\n }\n}\n"} {
			alone := runGenerate(c.Work, &Program{Schema: cs.Schema, Ops: map[string]string{"ops.graphql": opText}, Cfg: cs.Cfg}, false)
			if alone.Err != nil || alone.Panic != nil {
				continue
			}
			decls, _ := goDeclTexts(alone.Files["generated.go"])
			for k, t := range decls {
				if tt, ok := together[k]; !ok || tt != t {
					c.Res.Add(proto.Finding{Kind: "violation", Class: "declaration-differs-alone-vs-together",
						What: fmt.Sprintf("two places need the Go name GetViewerCurrentUser for different GraphQL types; generation succeeded and declaration %q of %s differs alone vs together:\n--- alone\n%s\n--- together\n%s", k, firstLine(opText), trunc(t, 400), trunc(tt, 400)), Case: cs})
					break
				}
			}
		}
	}
	c09Events(c, cs, out)
	if c.Res.Evaluations%150 == 1 {
		c.Res.Sample(map[string]any{"leg": cs.Leg, "attack": cs.Attack, "ops": cs.Ops, "accesses": len(out.Events), "error": fmt.Sprint(out.Err)})
	}
}

// ---------- alone vs together ----------

// goDeclTexts: top-level declarations keyed by "type X" / "func (X) m" / "func f" / "const|var X", with package
// qualifiers replaced by import paths so that import aliases do not matter
func goDeclTexts(src []byte) (map[string]string, error) {
	fset := gotoken.NewFileSet()
	f, err := goparser.ParseFile(fset, "generated.go", src, goparser.ParseComments)
	if err != nil {
		return nil, err
	}
	imports := map[string]string{}
	for _, im := range f.Imports {
		path, _ := strconv.Unquote(im.Path.Value)
		name := path[strings.LastIndex(path, "/")+1:]
		if im.Name != nil {
			name = im.Name.Name
		}
		imports[name] = path
	}
	goast.Inspect(f, func(n goast.Node) bool {
		if se, ok := n.(*goast.SelectorExpr); ok {
			if id, ok := se.X.(*goast.Ident); ok && id.Obj == nil {
				if p, ok := imports[id.Name]; ok {
					id.Name = "«" + p + "»"
				}
			}
		}
		return true
	})
	out := map[string]string{}
	render := func(n any) string {
		var buf bytes.Buffer
		goformat.Node(&buf, fset, n)
		return buf.String()
	}
	for _, d := range f.Decls {
		switch d := d.(type) {
		case *goast.FuncDecl:
			key := "func " + d.Name.Name
			if d.Recv != nil && len(d.Recv.List) > 0 {
				key = "func (" + render(d.Recv.List[0].Type) + ") " + d.Name.Name
			}
			d.Doc = nil
			out[key] = render(d)
		case *goast.GenDecl:
			if d.Tok == gotoken.IMPORT {
				continue
			}
			for _, sp := range d.Specs {
				switch sp := sp.(type) {
				case *goast.TypeSpec:
					sp.Doc, sp.Comment = nil, nil
					out["type "+sp.Name.Name] = render(sp)
				case *goast.ValueSpec:
					sp.Doc, sp.Comment = nil, nil
					for _, n := range sp.Names {
						out[d.Tok.String()+" "+n.Name] = render(sp)
					}
				}
			}
		}
	}
	return out, nil
}

func c09AloneLeg(c *Ctx) {
	n := c.N(40, 800)
	for i := 0; i < n; i++ {
		seed := c.Seed*15485863 + uint64(i)
		o := safeOpts
		o.Adversarial = i%3 == 0
		p := gen.GenerateSeed(seed, o)
		pr := progFromGen(p)
		cs := c09Case{Leg: "alone-vs-together", Seed: seed, Schema: pr.Schema, Ops: pr.Ops, Cfg: pr.Cfg}
		if i%2 == 1 {
			// "together" in another source layout (the operations share Go literals, lines, files in new ways); "alone"
			// stays one .graphql file per operation
			lay := []layoutKind{layGoSameLine, layGoOneLit, layGoSameLine, layGoRaw, layGoSameLine, layPerDef, layGoNested, layCR}[(i/2)%8]
			defs := p.Defs
			if lay == layGoSameLine {
				// pairs of literals on one Go line, the LONGER definition first: a generator that reads the second literal's
				// comments from the first literal's text then finds other lines there instead of running off its end
				defs = append([]gen.Def{}, p.Defs...)
				sort.SliceStable(defs, func(a, b int) bool {
					return strings.Count(defs[a].Comment+defs[a].Text, "\n") > strings.Count(defs[b].Comment+defs[b].Text, "\n")
				})
			}
			if files, _ := layout(defs, lay, c.Rng("c09/lay", i)); len(files) > 0 {
				cs.Ops = files
				c.Res.Count("alone:together-layout:" + string(lay))
			}
		}
		c09Alone(c, cs, p)
	}
}

// c09OpWithFragments: the text of one operation and of the fragments it reaches, in the original order
func c09OpWithFragments(p *gen.Program, d gen.Def) string {
	byName := map[string]gen.Def{}
	for _, x := range p.Defs {
		byName[x.Name] = x
	}
	need := map[string]bool{d.Name: true}
	var visit func(x gen.Def)
	visit = func(x gen.Def) {
		for _, u := range x.Uses {
			if !need[u] {
				need[u] = true
				visit(byName[u])
			}
		}
	}
	visit(d)
	var sub []gen.Def
	for _, x := range p.Defs {
		if need[x.Name] {
			sub = append(sub, x)
		}
	}
	return (&gen.Program{Defs: sub}).OperationsText()
}

func c09Alone(c *Ctx, cs c09Case, p *gen.Program) {
	schema, err := loadSchema(p.Schema)
	if err != nil {
		return
	}
	all := runGenerate(c.Work, &Program{Schema: cs.Schema, Ops: cs.Ops, Cfg: cs.Cfg}, false)
	c.Res.Eval()
	if all.Err != nil || all.Panic != nil || all.TimedOut {
		c.Res.Count("alone:skipped-together-not-generated")
		// the operations are valid by construction: together they may only be refused for a clash of generated names
		// (which the property wants reported).  Anything else — while every operation generates alone — means that
		// combining independently valid operations broke one of them.
		msg := fmt.Sprint(all.Err, all.Panic)
		if all.TimedOut || !strings.Contains(strings.ToLower(msg), "conflict") {
			okAlone := 0
			for _, d := range p.Defs {
				if d.Kind == "fragment" {
					continue
				}
				text := c09OpWithFragments(p, d)
				one := runGenerate(c.Work, &Program{Schema: cs.Schema, Ops: map[string]string{"ops.graphql": text}, Cfg: cs.Cfg}, false)
				if one.Err != nil || one.Panic != nil || one.TimedOut {
					okAlone = -1
					break
				}
				okAlone++
			}
			if okAlone > 0 {
				c.Res.Add(proto.Finding{Kind: "violation", Class: "operations-generate-alone-but-not-together",
					What: fmt.Sprintf("each of the %d operations is generated alone; together (same definitions, laid out as in the case) generation fails without reporting a name clash: %s", okAlone, firstLine(msg)), Case: cs})
			}
		}
		return
	}
	c09Events(c, cs, all)
	if sharedInputMismatch(schema, p.Defs) {
		c.Res.Count("alone:excluded-shared-input-configured-differently")
		return
	}
	together, err := goDeclTexts(all.Files["generated.go"])
	if err != nil {
		return
	}
	byName := map[string]gen.Def{}
	for _, d := range p.Defs {
		byName[d.Name] = d
	}
	nops := 0
	for _, d := range p.Defs {
		if d.Kind == "fragment" {
			continue
		}
		nops++
		// the operation and the fragments it reaches, in the original order
		need := map[string]bool{d.Name: true}
		var visit func(x gen.Def)
		visit = func(x gen.Def) {
			for _, u := range x.Uses {
				if !need[u] {
					need[u] = true
					visit(byName[u])
				}
			}
		}
		visit(d)
		var sub []gen.Def
		for _, x := range p.Defs {
			if need[x.Name] {
				sub = append(sub, x)
			}
		}
		text := (&gen.Program{Defs: sub}).OperationsText()
		one := cs
		one.Ops = map[string]string{"ops.graphql": text}
		alone := runGenerate(c.Work, &Program{Schema: cs.Schema, Ops: one.Ops, Cfg: cs.Cfg}, false)
		c.Res.Eval()
		if alone.Err != nil || alone.Panic != nil || alone.TimedOut {
			c.Res.Count("alone:operation-alone-not-generated")
			c.Res.Add(proto.Finding{Kind: "violation", Class: "operation-generates-together-but-not-alone", What: fmt.Sprintf("operation %s is generated together with the others but alone: %v", d.Name, alone.Err), Case: cs})
			continue
		}
		decls, err := goDeclTexts(alone.Files["generated.go"])
		if err != nil {
			continue
		}
		keys := make([]string, 0, len(decls))
		for k := range decls {
			keys = append(keys, k)
		}
		sort.Strings(keys)
		c.Res.Count("alone:operations-compared")
		for _, k := range keys {
			t, ok := together[k]
			if !ok {
				c.Res.Add(proto.Finding{Kind: "violation", Class: "declaration-missing-together", What: fmt.Sprintf("operation %s alone declares %q; generated together with the other operations that declaration is missing", d.Name, k),
					Case: map[string]any{"case": cs, "operation": d.Name}})
				break
			}
			if t != decls[k] {
				c.Res.Add(proto.Finding{Kind: "violation", Class: "declaration-differs-alone-vs-together",
					What: fmt.Sprintf("operation %s: declaration %q differs when generated alone vs together:\n--- alone\n%s\n--- together\n%s", d.Name, k, trunc(decls[k], 600), trunc(t, 600)), Case: cs})
				break
			}
		}
	}
	c.Res.NonTrivial(fmt.Sprintf("alone|%d|ops=%d", cs.Seed, nops))
}

func runC09(c *Ctx) {
	if c.Replay != "" {
		var wrap struct{ Case json.RawMessage `json:"case"` }
		b, err := osReadFile(c.Replay)
		if err == nil {
			err = json.Unmarshal(b, &wrap)
		}
		var cs c09Case
		if err == nil {
			err = json.Unmarshal(wrap.Case, &cs)
		}
		if err != nil {
			c.Res.Notes = append(c.Res.Notes, "replay unreadable")
			return
		}
		switch cs.Leg {
		case "alone-vs-together":
			o := safeOpts
			p := gen.GenerateSeed(cs.Seed, o)
			if !reflect.DeepEqual(progFromGen(p).Ops, cs.Ops) {
				o.Adversarial = true
				p = gen.GenerateSeed(cs.Seed, o)
			}
			c09Alone(c, cs, p)
		case "match":
			var mc struct {
				A, B []*selT
			}
			json.Unmarshal(wrap.Case, &mc)
			fixNil(mc.A)
			fixNil(mc.B)
			err := generate.VerifSelectionsMatch(selsToAST(mc.A), selsToAST(mc.B))
			c.Res.Eval()
			if (err == nil) != reflect.DeepEqual(mc.A, mc.B) {
				c.Res.Add(proto.Finding{Kind: "violation", Class: "selectionsMatch-replay", What: fmt.Sprintf("selectionsMatch({%s},{%s}) err=%v", selsString(mc.A), selsString(mc.B), err), Case: mc})
			}
		default:
			c09One(c, cs, "replay")
		}
		return
	}
	files, _ := filepathGlob(verifRoot + "/harness/corpus/C09/*.json")
	for _, f := range files {
		var wrap struct{ Case c09Case `json:"case"` }
		b, err := osReadFile(f)
		if err == nil && json.Unmarshal(b, &wrap) == nil && wrap.Case.Leg == "targeted" {
			c09One(c, wrap.Case, "corpus|"+f)
		}
	}
	c09MatchLeg(c)
	c09TargetedLeg(c)
	c09AloneLeg(c)
	c09NamesLeg(c)
}

var c09Pos = &ast.Position{Src: &ast.Source{Name: "sel.graphql", Input: "\n"}, Line: 1, Column: 1}


// ---------- the naming rule (Model/TypeNames.lean) against the generated type names ----------

// c09NamesLeg: programs without @genqlient comments; for every composite-typed field of every operation the Go type
// of the generated struct field must be the name the model of names.go computes for its path.
func c09NamesLeg(c *Ctx) {
	n := c.N(40, 1500)
	for i := 0; i < n; i++ {
		o := safeOpts
		o.NoDirectives = true
		o.Adversarial = i%3 == 0
		p := gen.GenerateSeed(c.Seed*86028121+uint64(i), o)
		c09NamesOne(c, progFromGen(p), c.Seed*86028121+uint64(i), fmt.Sprintf("names|%d", i))
	}
	// directed stream: type names, field names, aliases and operation names put together from a few words, so that
	// "the name so far ends with the type name" holds across part boundaries in every way
	m := c.N(60, 2500)
	for i := 0; i < m; i++ {
		r := proto.NewRng(c.Seed, "c09/names-words", uint64(i))
		c09NamesOne(c, c09WordsProgram(r), uint64(i), fmt.Sprintf("names-words|%d", i))
	}
}

// c09WordsProgram: a small schema and operations whose every name is a concatenation of one to three words of
// a tiny vocabulary (types UpperCamel, fields and aliases lowerCamel).
func c09WordsProgram(r *proto.Rng) *Program {
	words := []string{"User", "Current", "Item", "A", "B", "Get"}
	name := func() string {
		k := 1 + r.Intn(3)
		s := ""
		for j := 0; j < k; j++ {
			s += words[r.Intn(len(words))]
		}
		return s
	}
	lower := func(s string) string { return strings.ToLower(s[:1]) + s[1:] }
	nt := 3 + r.Intn(4)
	var types []string
	seen := map[string]bool{"Query": true}
	for len(types) < nt {
		t := name()
		if !seen[t] {
			seen[t] = true
			types = append(types, t)
		}
	}
	type fld struct{ name, typ string }
	fields := map[string][]fld{}
	var sb strings.Builder
	decl := func(tn string) {
		fs := map[string]bool{"id": true}
		nf := 1 + r.Intn(3)
		fmt.Fprintf(&sb, "type %s {\n  id: ID!\n", tn)
		for j := 0; j < nf; j++ {
			f := lower(name())
			if fs[f] {
				continue
			}
			fs[f] = true
			ft := types[r.Intn(len(types))]
			fields[tn] = append(fields[tn], fld{f, ft})
			wrap := []string{"%s", "%s!", "[%s]", "[%s!]!"}[r.Intn(4)]
			fmt.Fprintf(&sb, "  %s: "+wrap+"\n", f, ft)
		}
		sb.WriteString("}\n")
	}
	decl("Query")
	for _, t := range types {
		decl(t)
	}
	var ops strings.Builder
	var sel func(tn string, depth int, ind string)
	sel = func(tn string, depth int, ind string) {
		ops.WriteString(ind + "id\n")
		if depth <= 0 {
			return
		}
		used := map[string]bool{"id": true}
		for _, f := range fields[tn] {
			if r.Intn(4) == 0 {
				continue
			}
			key := f.name
			line := f.name
			if r.Intn(2) == 0 {
				a := lower(name())
				key, line = a, a+": "+f.name
			}
			if used[key] {
				continue
			}
			used[key] = true
			ops.WriteString(ind + line + " {\n")
			sel(f.typ, depth-1, ind+"  ")
			ops.WriteString(ind + "}\n")
		}
	}
	nOps := 1 + r.Intn(3)
	opSeen := map[string]bool{}
	for j := 0; j < nOps; j++ {
		on := name()
		if opSeen[on] || len(fields["Query"]) == 0 {
			continue
		}
		opSeen[on] = true
		fmt.Fprintf(&ops, "query %s {\n", on)
		used := map[string]bool{}
		for _, f := range fields["Query"] {
			key, line := f.name, f.name
			if r.Intn(2) == 0 {
				a := lower(name())
				key, line = a, a+": "+f.name
			}
			if used[key] {
				continue
			}
			used[key] = true
			ops.WriteString("  " + line + " {\n")
			sel(f.typ, 1+r.Intn(3), "    ")
			ops.WriteString("  }\n")
		}
		ops.WriteString("}\n")
	}
	casing := []string{"", "", "raw", "auto_camel_case"}[r.Intn(4)]
	return &Program{Schema: map[string]string{"schema.graphql": sb.String()}, Ops: map[string]string{"ops.graphql": ops.String()},
		Cfg: ProgCfg{Package: "gen", CasingDefault: casing}}
}

func c09NamesOne(c *Ctx, pr *Program, seed uint64, tag string) {
	{
		out := runGenerate(c.Work, &Program{Schema: pr.Schema, Ops: pr.Ops, Cfg: pr.Cfg}, false)
		c.Res.Eval()
		if out.Err != nil || out.Panic != nil || out.TimedOut {
			c.Res.Count("names:skipped-not-generated")
			return
		}
		var texts []string
		for _, k := range sortedKeys(pr.Schema) {
			texts = append(texts, pr.Schema[k])
		}
		schema, err := loadSchema(texts)
		if err != nil {
			return
		}
		var ops strings.Builder
		for _, k := range sortedKeys(pr.Ops) {
			ops.WriteString(pr.Ops[k] + "\n")
		}
		doc, err := parseAndValidate(schema, ops.String())
		if err != nil {
			return
		}
		decls := parseGoDecls(out.Files["generated.go"])
		cs := c09Case{Leg: "names", Seed: seed, Schema: pr.Schema, Ops: pr.Ops, Cfg: pr.Cfg}
		bad := false
		fieldGoType := func(structName, key string) (string, bool) {
			for _, f := range decls.structs[structName] {
				j := f.JSON
				if j == "-" {
					j = decls.premarshalGo[structName][f.Name]
				}
				if !f.Embedded && j == key {
					t := f.Type
					for strings.HasPrefix(t, "[]") || strings.HasPrefix(t, "*") || (strings.HasPrefix(t, "sup.Option[") && strings.HasSuffix(t, "]")) {
						if strings.HasPrefix(t, "sup.Option[") {
							t = t[len("sup.Option[") : len(t)-1]
							continue
						}
						t = strings.TrimPrefix(strings.TrimPrefix(t, "[]"), "*")
					}
					return t, true
				}
			}
			return "", false
		}
		var walk func(root string, steps [][]any, ss ast.SelectionSet, structs []string, depth int)
		walk = func(root string, steps [][]any, ss ast.SelectionSet, structs []string, depth int) {
			if bad || depth > 12 {
				return
			}
			for _, sel := range ss {
				switch x := sel.(type) {
				case *ast.InlineFragment:
					walk(root, steps, x.SelectionSet, structs, depth+1) // inline fragments do not contribute to the name
				case *ast.Field:
					if x.Definition == nil || x.ObjectDefinition == nil {
						continue
					}
					td := schema.Types[x.Definition.Type.Name()]
					if td == nil || (td.Kind != ast.Object && td.Kind != ast.Interface && td.Kind != ast.Union) {
						continue
					}
					st := append(append([][]any{}, steps...), []any{x.ObjectDefinition.Name, x.Alias})
					var stepsAny []any
					for _, e := range st {
						stepsAny = append(stepsAny, e)
					}
					m := c.Model(map[string]any{"op": "names.typeName", "root": root, "steps": stepsAny, "typeName": td.Name, "casing": pr.Cfg.CasingDefault})
					if _, isErr := m["error"]; isErr {
						c.Res.Count("names:skipped-non-ascii")
						continue
					}
					want, _ := m["name"].(string)
					// the field lives in whichever of the candidate structs (the parent, or the parent's implementations)
					// declares the key
					found := false
					var next []string
					for _, sn := range structs {
						got, ok := fieldGoType(sn, x.Alias)
						if !ok {
							continue
						}
						found = true
						c.Res.Count("names:compared")
						if got != want {
							bad = true
							c.Res.Add(proto.Finding{Kind: "mismatch", Class: "type-name-model", What: fmt.Sprintf("field %s.%s (alias %s) of type %s: generated Go type %s, the model of names.go gives %s (root %s, steps %v)", x.ObjectDefinition.Name, x.Name, x.Alias, td.Name, got, want, root, st), Case: cs})
							return
						}
					}
					if !found {
						continue
					}
					if td.Kind == ast.Object {
						next = []string{want}
					} else {
						for _, impl := range decls.ifaceImpls[want] {
							next = append(next, impl)
						}
						sortStrings(next)
					}
					walk(root, st, x.SelectionSet, next, depth+1)
				}
			}
		}
		for _, op := range doc.Operations {
			respType := op.Name + "Response"
			if _, ok := decls.structs[respType]; !ok {
				rt := strings.ToUpper(op.Name[:1]) + op.Name[1:] + "Response"
				if _, ok2 := decls.structs[rt]; !ok2 {
					continue
				}
				respType = rt
			}
			walk(op.Name, nil, op.SelectionSet, []string{respType}, 0)
		}
		c.Res.NonTrivial(tag)
	}
}
