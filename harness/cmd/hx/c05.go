package main

import (
	"path/filepath"
	"os"
	"encoding/json"
	"fmt"
	"regexp"
	"strings"

	"verifharness/internal/gen"
	"verifharness/internal/proto"
)

func init() {
	register("C05", "single-fault mutations (G_bad) of valid G_prog programs: 14 validation-rule classes + anonymous/keyword operations, "+
		"fault kind and position known by construction (never by asking gqlparser), placed in every layout (one .graphql file, file per "+
		"definition, random partition, Go raw / interpreted literals, literals nested in expressions, two literals on one line); "+
		"the real generator must return an error and no output; non-trivial = distinct (fault class, layout, definition kind)", func(c *Ctx) { runBad(c, "C05") })
	register("C18", "the same G_bad mutants with the fault's file and line known by construction; the diagnostic must start with "+
		"`<path relative to the config>:<line>: `; .graphql layouts and Go raw-string layouts (marker on the literal's first or second line); "+
		"non-trivial = distinct (fault class, layout)", func(c *Ctx) { runBad(c, "C18"); c18Errorf(c); c18RelativeConfig(c) })
}

type badCase struct {
	Seed   uint64            `json:"gprog_seed"`
	Schema []string          `json:"schema"`
	Files  map[string]string `json:"files"`
	ValidTwin map[string]string `json:"valid_twin,omitempty"`
	PrevSchema []string         `json:"prev_schema,omitempty"` // schema-side fault: the schema before the change (same file names)
	Fault  fault             `json:"fault"`
	Layout layoutKind        `json:"layout"`
	File   string            `json:"fault_file"`
	Line   int               `json:"fault_line"`
	AltLine int              `json:"fault_alt_line"`
	Cfg    ProgCfg           `json:"cfg"`
}

var safeOpts = gen.Options{RateNoTypeCond: -1, RateIfaceIface: -1, RateInvalidDir: -1, RateBacktick: -1, RateSubGetter: -1, RateGenericAbstract: -1}

func runBad(c *Ctx, prop string) {
	if c.Replay != "" {
		var wrap struct{ Case badCase `json:"case"` }
		b, err := osReadFile(c.Replay)
		if err == nil {
			err = json.Unmarshal(b, &wrap)
		}
		if err != nil {
			c.Res.Notes = append(c.Res.Notes, "replay unreadable")
			return
		}
		badRun(c, prop, wrap.Case)
		return
	}
	files, _ := filepathGlob(verifRoot + "/harness/corpus/" + prop + "/*.json")
	for _, f := range files {
		var wrap struct{ Case badCase `json:"case"` }
		b, err := osReadFile(f)
		if err == nil && json.Unmarshal(b, &wrap) == nil {
			badRun(c, prop, wrap.Case)
		}
	}
	n := c.N(220, 12000)
	layouts := allLayouts
	if prop == "C18" {
		layouts = []layoutKind{layOneFile, layPerDef, layPartition, layGoRaw, layGoRawNL, layGoNested, laySameBase, layOutside, layCRLF, layCR, layMixedEnds, layGoOneLit, layGoConcat, layGoRawBlank}
	}
	// after the cross of fault classes and layouts: the faults the CONVERTER reports (after earlier definitions of the
	// same source were converted), with every definition in one Go literal
	convClasses := []string{"keyword-variable", "bogus-directive-argument", "omitempty-on-field", "malformed-directive", "directive-wrong-value-type"}
	extra := 0
	if prop == "C18" {
		extra = c.N(4*len(convClasses), 40*len(convClasses))
	}
	for i := 0; i < n+extra; i++ {
		r := c.Rng("bad", i)
		seed := c.Seed*7919 + uint64(i)
		bo := safeOpts
		bo.NoDirectives = true // an inserted node must not invalidate a struct/flatten directive of the host program (second fault)
		p := gen.GenerateSeed(seed, bo)
		schema, err := loadSchema(p.Schema)
		if err != nil {
			c.Res.Count("generator-bug:schema-invalid")
			continue
		}
		var objs []string
		for name, d := range schema.Types {
			if d.Kind == "OBJECT" && !strings.HasPrefix(name, "__") {
				objs = append(objs, name)
			}
		}
		sortStrings(objs)
		faultRootFields = nil
		if schema.Query != nil {
			for _, fd := range schema.Query.Fields {
				td := schema.Types[fd.Type.Name()]
				needsArg := false
				for _, a := range fd.Arguments {
					needsArg = needsArg || (a.Type.NonNull && a.DefaultValue == nil)
				}
				if td == nil || needsArg || strings.HasPrefix(fd.Name, "__") {
					continue
				}
				switch td.Kind {
				case "OBJECT":
					faultRootFields = append(faultRootFields, fd.Name)
				case "INTERFACE", "UNION":
					faultRootFields = append(faultRootFields, fd.Name, fd.Name)
				}
			}
		}
		class := faultClasses[i%len(faultClasses)]
		if i >= n {
			class = convClasses[(i-n)%len(convClasses)]
		}
		// faults are inserted into non-subscription definitions (a second root field in a subscription
		// would be a different fault)
		var defs []gen.Def
		for _, d := range p.Defs {
			if d.Kind != "subscription" {
				defs = append(defs, d)
			}
		}
		hasOp := false
		for _, d := range defs {
			hasOp = hasOp || d.Kind != "fragment"
		}
		if !hasOp {
			c.Res.Count("skipped:only-subscriptions")
			continue
		}
		// drop fragments that were used only by the removed subscriptions (they would be unused = a second fault)
		defs = dropUnusedFragments(defs)
		mut, f, ok := injectFault(defs, class, objs, r)
		if !ok {
			c.Res.Count("skipped:class-not-applicable:" + class)
			continue
		}
		lay := layouts[(i/len(faultClasses)+3*(i%len(faultClasses)))%len(layouts)]
		if i >= n {
			lay = layGoOneLit
		}
		if prop == "C05" && i%9 == 4 {
			// schema-side fault: the operations stay exactly those of the valid twin, a field they select is renamed in
			// the SCHEMA (same file names, regenerated in place) — the operations no longer validate and must be rejected
			if sc, fname, ok := renameSelectedField(p.Schema, defs, r); ok {
				if s2, err := loadSchema(sc); err == nil {
					vf, _ := layout(defs, layOneFile, c.Rng("lay", i))
					if _, verr := parseAndValidate(s2, vf["ops.graphql"]); verr != nil {
						cs := badCase{Seed: seed, Schema: sc, Files: vf, Fault: fault{Class: "unknown-field-by-schema-change", Def: 0, Line: 1, Validation: true}, Layout: layOneFile, Cfg: cfgFromGen(p.Config)}
						cs.PrevSchema = p.Schema
						cs.File, cs.Line = "ops.graphql", 1
						_ = fname
						badRun(c, prop, cs)
						continue
					}
				}
			}
			c.Res.Count("skipped:class-not-applicable:unknown-field-by-schema-change")
		}
		if (lay == layGoInterp || lay == laySameBase) && i%2 == 0 {
			layoutEscapeOnly = f.Def // only the faulty definition's literal has the escaped prefix
		}
		files, where := layout(mut, lay, c.Rng("lay", i))
		validFiles, _ := layout(defs, lay, c.Rng("lay", i))
		layoutEscapeOnly = -1
		cs := badCase{Seed: seed, Schema: p.Schema, Files: files, ValidTwin: validFiles, Fault: f, Layout: lay, Cfg: cfgFromGen(p.Config)}
		cs.File = where[f.Def].File
		cs.Line = where[f.Def].StartLine + f.Line - 1
		if f.AltLine > 0 {
			cs.AltLine = where[f.Def].StartLine + f.AltLine - 1
		}
		badRun(c, prop, cs)
	}
	// the harness validated every host program with gqlparser itself; if the generator rejects a large share of
	// them, its validation no longer corresponds to the reference validator and the rejections of the faulty
	// programs certify nothing
	if rej, tot := c.Res.Distribution["skipped:valid-twin-rejected"], c.Res.Evaluations; prop == "C05" && tot >= 40 && rej*4 > tot {
		c.Res.Add(proto.Finding{Kind: "mismatch", Class: "reference-validator-disagrees", What: fmt.Sprintf("%d of %d host programs that the reference validator accepts were rejected by the generator", rej, tot)})
	}
}

func dropUnusedFragments(defs []gen.Def) []gen.Def {
	for {
		used := map[string]bool{}
		for _, d := range defs {
			for _, u := range d.Uses {
				used[u] = true
			}
		}
		var out []gen.Def
		changed := false
		for _, d := range defs {
			if d.Kind == "fragment" && !used[d.Name] {
				changed = true
				continue
			}
			out = append(out, d)
		}
		defs = out
		if !changed {
			return defs
		}
	}
}

var posPrefixRe = regexp.MustCompile(`^([^\s:]+):(\d+): `)

func badRun(c *Ctx, prop string, cs badCase) {
	c.Res.Eval()
	fail := func(kind, class, what string, impl, model any) {
		c.Res.Add(proto.Finding{Kind: kind, Class: class, What: what, Case: cs, Impl: impl, Model: model})
	}
	prog := &Program{Schema: map[string]string{}, Ops: cs.Files, Cfg: cs.Cfg}
	for i, s := range cs.Schema {
		prog.Schema[fmt.Sprintf("schema%d.graphql", i)] = s
	}
	if cs.PrevSchema != nil {
		// both runs of the pair use one directory that no earlier program used
		forceSlot = fmt.Sprintf("pair%d", c.Res.Evaluations)
		defer func() { os.RemoveAll(filepath.Join(c.Work, fmt.Sprintf("p%d-%s", os.Getpid(), forceSlot))); forceSlot = "" }()
		// the same operations against the schema as it was before the change, at the same path: must be accepted
		prev := &Program{Schema: map[string]string{}, Ops: cs.Files, Cfg: cs.Cfg}
		for i, s := range cs.PrevSchema {
			prev.Schema[fmt.Sprintf("schema%d.graphql", i)] = s
		}
		if pout := runGenerate(c.Work, prev, false); pout.Err != nil || pout.Panic != nil {
			c.Res.Count("skipped:valid-twin-rejected")
			return
		}
	}
	if cs.ValidTwin != nil {
		// the unmutated program in the same layout must be accepted, otherwise a rejection of the
		// mutant says nothing about the fault (and the model's merged list must be what was generated)
		twin := &Program{Schema: prog.Schema, Ops: cs.ValidTwin, Cfg: cs.Cfg}
		twin.Cfg.ExportOperations = true
		tout := runGenerate(c.Work, twin, false)
		if tout.Err != nil || tout.Panic != nil {
			c.Res.Count("skipped:valid-twin-rejected")
			return
		}
		if prop == "C05" {
			mergedModelCheck(c, cs, tout, fail)
		}
	}
	out := runGenerate(c.Work, prog, false)
	c.Res.Count("class:" + cs.Fault.Class)
	c.Res.Count("layout:" + string(cs.Layout))
	c.Res.NonTrivial(cs.Fault.Class + "|" + string(cs.Layout))
	if c.Res.Evaluations%60 == 1 {
		msg := ""
		if out.Err != nil {
			msg = firstLine(out.Err.Error())
		}
		c.Res.Sample(map[string]any{"fault": cs.Fault, "layout": cs.Layout, "fault_file": cs.File, "fault_line": cs.Line, "diagnostic": msg})
	}
	if out.Panic != nil || out.TimedOut {
		if prop == "C05" {
			// a crash is not a rejection with an error value; C07 owns the finding, C05 records that no code was produced
			c.Res.Count("panicked-instead-of-error")
		}
		return
	}
	if prop == "C05" {
		if out.Err == nil && !(cs.Fault.Validation || cs.Fault.Class == "anonymous-operation" || cs.Fault.Class == "keyword-operation-name" || cs.Fault.Class == "keyword-variable") {
			// an invalid @genqlient comment directive is not a GraphQL validation fault; genqlient ignores
			// directives inside inline fragments that cannot match the enclosing type (recorded, not a C05 matter)
			c.Res.Count("note:invalid-genqlient-directive-ignored")
		} else if out.Err == nil {
			fail("violation", "invalid-operation-accepted:"+cs.Fault.Class, fmt.Sprintf("operation set with fault %q (layout %s) was accepted and %d bytes of code were generated",
				cs.Fault.Class, cs.Layout, len(out.Files["generated.go"])), nil, nil)
		} else if len(out.Files) != 0 {
			fail("violation", "error-with-output", "generator returned an error together with output", nil, nil)
		}
		// model: every definition of every file reaches the validator (Files.collect) — correspondence on the merged list
		return
	}
	// ---- C18 ----
	if out.Err == nil {
		c.Res.Count("skipped:accepted (C05's finding)")
		return
	}
	msg := out.Err.Error()
	m := posPrefixRe.FindStringSubmatch(msg)
	// model: the position string for (file, line) in this layout
	wantFile := cs.File
	accept := func(line int) bool {
		return m != nil && m[1] == wantFile && (m[2] == fmt.Sprint(line))
	}
	ok := accept(cs.Line) || (cs.AltLine > 0 && accept(cs.AltLine))
	if cs.Fault.AltLine == -1 && m != nil {
		// duplicate/anonymous operation: any definition of that name/any anonymous one is an offending node;
		// require the right file and a line inside it
		ok = true
	}
	if !ok {
		got := "no position prefix"
		if m != nil {
			got = m[1] + ":" + m[2]
		}
		cls := "wrong-or-missing-position:" + cs.Fault.Class
		fail("violation", cls, fmt.Sprintf("fault %s at %s:%d (layout %s) reported as [%s]: %s", cs.Fault.Class, cs.File, cs.Line, cs.Layout, got, firstLine(msg)), msg, nil)
	}
	// model correspondence: errorPos.String on the pseudo filename the parser assigned
	if m != nil && strings.HasSuffix(cs.File, ".go") {
		// the literal's pseudo file is "<file>:<L>"; gqlparser's line l inside it must render as L-1+l
		// (checked through the driver in c18model below)
		c18Model(c, cs, m[1], m[2], fail)
	}
}

var opNameRe = regexp.MustCompile(`(?m)^\s*(query|mutation|subscription)\s+([A-Za-z_][A-Za-z0-9_]*)`)

// mergedModelCheck: the operations the real generator produced for the valid twin are exactly the
// operations of Files.merged on the same files (every .graphql file whole, every selected literal of
// every .go file) — the model side of C05_all_reach_validator / C17_collect.
func mergedModelCheck(c *Ctx, cs badCase, tout *GenOut, fail func(kind, class, what string, impl, model any)) {
	var filesJ []any
	for _, name := range sortedFileNames(cs.ValidTwin) {
		content := cs.ValidTwin[name]
		fj := map[string]any{"name": name, "defs": []any{}, "lits": []any{}}
		opsOf := func(text string) []any {
			out := []any{}
			text = strings.NewReplacer("\r\n", "\n", "\r", "\n").Replace(text) // every line-ending convention the lexer knows
			for _, m := range opNameRe.FindAllStringSubmatch(text, -1) {
				out = append(out, m[2])
			}
			return out
		}
		switch {
		case strings.HasSuffix(name, ".graphql"):
			fj["kind"] = "graphql"
			fj["defs"] = opsOf(content)
		case strings.HasSuffix(name, ".go"):
			fj["kind"] = "go"
			lits := []any{}
			for _, v := range goStringLiterals(content) {
				lits = append(lits, map[string]any{"value": v, "defs": opsOf(v)})
			}
			fj["lits"] = lits
		default:
			fj["kind"] = "other"
		}
		filesJ = append(filesJ, fj)
	}
	m := c.Model(map[string]any{"op": "files.merged", "files": filesJ})
	var want []string
	for _, x := range m["out"].([]any) {
		want = append(want, x.(string))
	}
	sortStrings(want)
	var exported struct {
		Operations []struct{ Name string `json:"operationName"` } `json:"operations"`
	}
	json.Unmarshal(tout.Files["operations.json"], &exported)
	var got []string
	for _, o := range exported.Operations {
		got = append(got, o.Name)
	}
	sortStrings(got)
	if fmt.Sprint(got) != fmt.Sprint(want) {
		fail("mismatch", "merged-model", fmt.Sprintf("operations generated %v, model's merged document has %v (layout %s)", got, want, cs.Layout), got, want)
	}
}


var schemaFieldRe = regexp.MustCompile(`(?m)^(\s+)([A-Za-z_][A-Za-z0-9_]*)(\(|:)`)

// renameSelectedField renames, in the schema text, one field (of any type) whose name occurs as a word in the
// operations; returns the changed schema files.
func renameSelectedField(schema []string, defs []gen.Def, r *proto.Rng) ([]string, string, bool) {
	var ops strings.Builder
	for _, d := range defs {
		ops.WriteString(d.Text)
	}
	words := map[string]bool{}
	for _, w := range regexp.MustCompile(`[A-Za-z_][A-Za-z0-9_]*`).FindAllString(ops.String(), -1) {
		words[w] = true
	}
	type cand struct{ file int; name string }
	var cands []cand
	for fi, text := range schema {
		for _, m := range schemaFieldRe.FindAllStringSubmatch(text, -1) {
			if words[m[2]] {
				cands = append(cands, cand{fi, m[2]})
			}
		}
	}
	if len(cands) == 0 {
		return nil, "", false
	}
	cd := cands[r.Intn(len(cands))]
	out := append([]string{}, schema...)
	re := regexp.MustCompile(`(?m)^(\s+)` + regexp.QuoteMeta(cd.name) + `(\(|:)`)
	out[cd.file] = re.ReplaceAllString(out[cd.file], "${1}"+cd.name+"RenamedZz${2}")
	return out, cd.name, true
}
