package main

import (
	"github.com/vektah/gqlparser/v2/parser"
	"github.com/vektah/gqlparser/v2/ast"
	"sort"
	"encoding/json"
	"fmt"
	"os"
	"path/filepath"
	"regexp"
	"runtime/debug"
	"strings"
	"time"

	"github.com/Khan/genqlient/generate"
	"verifharness/internal/gen"
	"verifharness/internal/proto"
)

func init() {
	register("C07", "seven input streams run through the real generator with panic recovery and a 20 s watchdog: valid G_prog programs incl. "+
		"unusual constructs (untyped inline fragments, interfaces implementing interfaces, adversarial names); G_bad single-fault mutants in all "+
		"layouts; byte-level mutations (truncate, splice, bit-flip, NUL/BOM/invalid UTF-8) of schema, operation and YAML files; fuzzed text "+
		"after `# @genqlient`; hand-written unusual-but-valid documents; valid programs in all eight source layouts; YAML configurations (blank/null/bogus casing entries, bindings, "+
		"optional) through ReadAndValidateConfig; non-trivial = distinct (stream, mutation kind, outcome class)", runC07)
}

type c07Case struct {
	Stream string            `json:"stream"`
	Kind   string            `json:"kind"`
	Schema map[string]string `json:"schema"`
	Ops    map[string]string `json:"ops"`
	Cfg    ProgCfg           `json:"cfg"`
	Yaml   string            `json:"yaml,omitempty"` // when set, the configuration goes through ReadAndValidateConfig
	Casing map[string]any    `json:"casing,omitempty"`
}

var panicSiteRe = regexp.MustCompile(`github.com/Khan/genqlient/generate\.(\(?\*?[A-Za-z]*\)?\.?[A-Za-z0-9_]+)`)

func panicSite(stack string) string {
	// first genqlient frame below the runtime's panic frames
	for _, m := range panicSiteRe.FindAllStringSubmatch(stack, -1) {
		return m[1]
	}
	return "unknown"
}

func c07Unusual() []c07Case {
	sch := "type Query { node: Node, u: User, s: SearchResult, f(i: In): Int }\ninterface Node { id: ID! }\ninterface Named implements Node { id: ID! name: String }\n" +
		"type User implements Named & Node { id: ID! name: String friends: [User!] }\ntype Post implements Node { id: ID! title: String }\nunion SearchResult = User | Post\n" +
		"input In { a: Int, child: In, list: [In!] }\nextend type Query { extra: Int }\nextend union SearchResult = Comment\ntype Comment { body: String }\n" +
		"directive @tag(n: Int) repeatable on FIELD | QUERY | FRAGMENT_DEFINITION | INLINE_FRAGMENT | FRAGMENT_SPREAD | VARIABLE_DEFINITION\n"
	mk := func(kind, ops string) c07Case {
		return c07Case{Stream: "unusual", Kind: kind, Schema: map[string]string{"schema.graphql": sch}, Ops: map[string]string{"ops.graphql": ops}, Cfg: ProgCfg{Package: "gen"}}
	}
	return []c07Case{
		mk("untyped-inline-fragment", "query Q {\n  u {\n    ... {\n      id\n    }\n  }\n}\n"),
		mk("untyped-inline-fragment-with-directive", "query Q {\n  u {\n    ... @include(if: true) {\n      name\n    }\n  }\n}\n"),
		mk("untyped-inline-fragment-on-interface", "query Q {\n  node {\n    ... {\n      id\n    }\n  }\n}\n"),
		mk("interface-implements-interface", "query Q {\n  node {\n    id\n    ... on Named { name }\n  }\n}\n"),
		mk("recursive-input", "query Q($i: In) {\n  f(i: $i)\n}\n"),
		mk("schema-extension", "query Q {\n  extra\n  s { ... on Comment { body } }\n}\n"),
		mk("directives-everywhere", "query Q($i: In @tag(n: 1)) @tag(n: 2) {\n  f(i: $i) @tag @tag(n: 3)\n  u { ...F @tag }\n  node { ... on User @tag { id } }\n}\nfragment F on User @tag { id }\n"),
		mk("only-typename", "query Q {\n  __typename\n}\n"),
		mk("deep-recursion", "query Q {\n  u { friends { friends { friends { friends { friends { id } } } } } }\n}\n"),
		mk("fragment-on-union-member-interface", "query Q {\n  s { ... on Node { id } }\n}\n"),
		mk("empty-operations-file", ""),
		mk("comment-only", "# nothing\n"),
		mk("directive-garbage", "# @genqlient(\nquery Q { extra }\n"),
		mk("directive-two-ops", "# @genqlient query X { a }\nquery Q { extra }\n"),
		mk("directive-no-parens-junk", "# @genqlient) {\nquery Q { extra }\n"),
		mk("directive-nested-for", "# @genqlient(for: \"Query.extra\", for: \"Query.f\")\nquery Q { extra }\n"),
		mk("directive-for-unknown", "# @genqlient(for: \"Nope.x\", pointer: true)\nquery Q { extra }\n"),
		mk("directive-for-malformed", "# @genqlient(for: \"noDot\", pointer: true)\nquery Q { extra }\n"),
		mk("bind-garbage", "query Q {\n  # @genqlient(bind: \"[]map[string]*.\")\n  extra\n}\n"),
		mk("typename-weird", "query Q {\n  # @genqlient(typename: \"a b-c\")\n  u { id }\n}\n"),
		mk("subscription-without-type", "subscription S { x }\n"),
		mk("mutation-without-type", "mutation M { x }\n"),
	}
}

func c07Mutate(r *proto.Rng, s string) (string, string) {
	b := []byte(s)
	if len(b) == 0 {
		return "\x00", "nul-only"
	}
	switch r.Intn(8) {
	case 0:
		return string(b[:r.Intn(len(b))]), "truncate"
	case 1:
		i, j := r.Intn(len(b)), r.Intn(len(b))
		if i > j {
			i, j = j, i
		}
		return string(append(append([]byte{}, b[:i]...), b[j:]...)), "splice-out"
	case 2:
		i := r.Intn(len(b))
		c := append([]byte{}, b...)
		c[i] ^= 1 << uint(r.Intn(8))
		return string(c), "bit-flip"
	case 3:
		i := r.Intn(len(b))
		return string(b[:i]) + "\x00" + string(b[i:]), "insert-nul"
	case 4:
		return "\xef\xbb\xbf" + s, "bom"
	case 5:
		i := r.Intn(len(b))
		return string(b[:i]) + "\xff\xfe" + string(b[i:]), "invalid-utf8"
	case 6:
		i, j := r.Intn(len(b)), r.Intn(len(b))
		if i > j {
			i, j = j, i
		}
		return string(b[:j]) + string(b[i:j]) + string(b[j:]), "duplicate-span"
	default:
		toks := []string{"{", "}", "(", ")", "...", "@", "$", ":", "!", "[", "]", "\"", "\"\"\"", "#", "on", "fragment", "query", "extend", "implements", "&", "|", "="}
		i := r.Intn(len(b))
		return string(b[:i]) + proto.Pick(r, toks) + string(b[i:]), "insert-token"
	}
}

func runC07(c *Ctx) {
	if c.Replay != "" {
		var wrap struct{ Case c07Case `json:"case"` }
		b, err := osReadFile(c.Replay)
		if err == nil {
			err = json.Unmarshal(b, &wrap)
		}
		if err != nil {
			c.Res.Notes = append(c.Res.Notes, "replay unreadable")
			return
		}
		c07Run(c, wrap.Case)
		return
	}
	files, _ := filepathGlob(verifRoot + "/harness/corpus/C07/*.json")
	for _, f := range files {
		var wrap struct{ Case c07Case `json:"case"` }
		b, err := osReadFile(f)
		if err == nil && json.Unmarshal(b, &wrap) == nil {
			c07Run(c, wrap.Case)
		}
	}
	for _, cs := range c07Unusual() {
		c07Run(c, cs)
	}
	n := c.N(300, 21000)
	for i := 0; i < n; i++ {
		r := c.Rng("c07", i)
		seed := c.Seed*32452843 + uint64(i)
		stream := i % 7
		opts := gen.Options{Adversarial: r.Chance(1, 3)}
		if stream != 0 {
			opts = safeOpts
		}
		p := gen.GenerateSeed(seed, opts)
		base := progFromGen(p)
		cs := c07Case{Schema: base.Schema, Ops: base.Ops, Cfg: base.Cfg}
		switch stream {
		case 0:
			cs.Stream, cs.Kind = "gprog", "valid"
			if p.Features["inlineFragmentNoTypeCond"] > 0 {
				cs.Kind = "valid+untyped-inline-fragment"
			} else if p.Features["ifaceImplementsIface"] > 0 {
				cs.Kind = "valid+iface-implements-iface"
			}
		case 1:
			cs.Stream = "gbad"
			class := faultClasses[(i/7)%len(faultClasses)]
			mut, _, ok := injectFault(p.Defs, class, []string{"Query"}, r)
			if !ok {
				continue
			}
			files, _ := layout(mut, allLayouts[(i/7)%len(allLayouts)], r)
			cs.Ops, cs.Kind = files, class
		case 2:
			cs.Stream = "bytes-ops"
			k := sortedFileNames(cs.Ops)[0]
			cs.Ops[k], cs.Kind = c07Mutate(r, cs.Ops[k])
		case 3:
			cs.Stream = "bytes-schema"
			k := sortedFileNames(cs.Schema)[0]
			cs.Schema[k], cs.Kind = c07Mutate(r, cs.Schema[k])
		case 4:
			cs.Stream = "directive-fuzz"
			k := sortedFileNames(cs.Ops)[0]
			junk := []string{"(", ")", "pointer: true", "for: \"", "\"", ":", ",", "typename: \"X\"", "bind: \"-\"", "struct: true", "flatten: true", "omitempty: 1", "{", "}", "query", "@x", "\\", "\t", "alias: \"a b\"", "for: \"A.b\""}
			var sb strings.Builder
			sb.WriteString("# @genqlient")
			for t := r.Intn(6); t >= 0; t-- {
				sb.WriteString(proto.Pick(r, junk))
			}
			lines := strings.Split(cs.Ops[k], "\n")
			at := r.Intn(len(lines))
			lines = append(lines[:at], append([]string{sb.String()}, lines[at:]...)...)
			cs.Ops[k], cs.Kind = strings.Join(lines, "\n"), "fuzzed-directive-line"
		case 6:
			// valid programs in every source layout (several .graphql files, Go raw / interpreted literals, literals
			// nested in expressions, two literals starting on one Go line)
			lay := allLayouts[(i/7)%len(allLayouts)]
			defs := p.Defs
			if (i/7)%2 == 1 {
				// every other case: pairs of literals on one Go line, the shorter definition first (a generator that
				// confuses the two literals then reads past the end of the shorter one)
				lay = layGoSameLine
				defs = append([]gen.Def{}, p.Defs...)
				sort.SliceStable(defs, func(a, b int) bool {
					return strings.Count(defs[a].Comment+defs[a].Text, "\n") < strings.Count(defs[b].Comment+defs[b].Text, "\n")
				})
			}
			files, _ := layout(defs, lay, r)
			cs.Stream, cs.Kind, cs.Ops = "layouts", "valid:"+string(lay), files
		case 5:
			cs.Stream = "yaml"
			cs.Yaml, cs.Kind, cs.Casing = c07Yaml(r, p, &cs)
		}
		c07Run(c, cs)
	}
	// programs without @genqlient comments: the input structs keep their GraphQL names, so the model of the
	// (recursive) input-object walk can be compared with what was declared
	for i := 0; i < c.N(60, 3000); i++ {
		o := safeOpts
		o.NoDirectives = true
		p := gen.GenerateSeed(c.Seed*7368787+uint64(i), o)
		base := progFromGen(p)
		c07Run(c, c07Case{Schema: base.Schema, Ops: base.Ops, Cfg: base.Cfg, Stream: "gprog", Kind: "valid-no-directives"})
	}
}

var c07YamlValueRe = regexp.MustCompile(`^(\s*(?:[\w-]+:|-)) \S.*$`)
var c07YamlEntryRe = regexp.MustCompile(`^  \w+:$`)

// c07Yaml builds a genqlient.yaml (string) with a perturbed casing/optional/bindings section.
func c07Yaml(r *proto.Rng, p *gen.Program, cs *c07Case) (string, string, map[string]any) {
	// an enum used by the operations, if any
	enumName := ""
	if sch, err := loadSchema(p.Schema); err == nil {
		text := p.OperationsText()
		for name, d := range sch.Types {
			if d.Kind == "ENUM" && !strings.HasPrefix(name, "__") && strings.Contains(p.SchemaText(), "enum "+name) {
				_ = text
				if enumName == "" || name < enumName {
					enumName = name
				}
			}
		}
	}
	vals := []string{"", "default", "raw", "auto_camel_case", "bogus", "RAW", " raw", "null"}
	def, all := proto.Pick(r, vals), proto.Pick(r, vals)
	enums := map[string]string{}
	kind := "casing"
	if enumName != "" && r.Chance(3, 4) {
		enums[enumName] = proto.Pick(r, vals)
	}
	if r.Chance(1, 3) {
		enums["Unused"] = proto.Pick(r, vals)
	}
	var y strings.Builder
	y.WriteString("schema:\n")
	for _, n := range sortedFileNames(cs.Schema) {
		fmt.Fprintf(&y, "- %s\n", n)
	}
	y.WriteString("operations:\n")
	for _, n := range sortedFileNames(cs.Ops) {
		fmt.Fprintf(&y, "- %s\n", n)
	}
	y.WriteString("generated: generated.go\npackage: gen\n")
	base := cs.Cfg
	base.CasingDefault, base.CasingAllEnums, base.CasingEnums = "", "", nil
	cfgText := c17YamlCfg(base)
	switch r.Intn(6) {
	case 0:
		// one scalar value becomes a YAML null (`key:`), one list item an empty one (`- `)
		lines := strings.Split(cfgText, "\n")
		var idx []int
		for i, l := range lines {
			if c07YamlValueRe.MatchString(l) {
				idx = append(idx, i)
			}
		}
		if len(idx) > 0 {
			i := idx[r.Intn(len(idx))]
			lines[i] = c07YamlValueRe.ReplaceAllString(lines[i], "$1")
			cfgText, kind = strings.Join(lines, "\n"), "null-value"
		}
	case 1:
		// a whole bindings entry becomes null: `  Date:` with nothing under it
		lines := strings.Split(cfgText, "\n")
		var out []string
		done := false
		for i := 0; i < len(lines); i++ {
			out = append(out, lines[i])
			if !done && c07YamlEntryRe.MatchString(lines[i]) && i+1 < len(lines) && strings.HasPrefix(lines[i+1], "    ") {
				for i+1 < len(lines) && strings.HasPrefix(lines[i+1], "    ") {
					i++
				}
				done = true
			}
		}
		if done {
			cfgText, kind = strings.Join(out, "\n"), "null-binding-entry"
		}
	case 2:
		cfgText += "package_bindings:\n- \n"
		kind = "null-package-binding-entry"
	}
	y.WriteString(cfgText)
	y.WriteString("casing:\n")
	wr := func(k, v string, indent string) {
		switch v {
		case "null":
			fmt.Fprintf(&y, "%s%s:\n", indent, k) // YAML null
		case "":
			fmt.Fprintf(&y, "%s%s: \"\"\n", indent, k)
		default:
			fmt.Fprintf(&y, "%s%s: %q\n", indent, k, v)
		}
	}
	wr("default", def, "  ")
	wr("all_enums", all, "  ")
	if len(enums) > 0 {
		y.WriteString("  enums:\n")
		for _, k := range sortedKeys(enums) {
			wr(k, enums[k], "    ")
		}
	}
	norm := func(v string) string {
		if v == "null" {
			return ""
		}
		return v
	}
	me := map[string]string{}
	for k, v := range enums {
		me[k] = norm(v)
	}
	return y.String(), kind, map[string]any{"default": norm(def), "allEnums": norm(all), "enums": me, "enum": enumName}
}

func c07Run(c *Ctx, cs c07Case) {
	c.Res.Eval()
	fail := func(kind, class, what string, impl, model any) {
		c.Res.Add(proto.Finding{Kind: kind, Class: class, What: what, Case: cs, Impl: impl, Model: model})
	}
	prog := &Program{Schema: cs.Schema, Ops: cs.Ops, Cfg: cs.Cfg}
	var out *GenOut
	cfgAccepted := true
	if cs.Yaml == "" {
		out = runGenerate(c.Work, prog, false)
	} else {
		dir, err := writeProgram(c.Work, prog)
		defer os.RemoveAll(dir)
		if err != nil {
			return
		}
		os.WriteFile(filepath.Join(dir, "genqlient.yaml"), []byte(cs.Yaml), 0o644)
		out = &GenOut{}
		done := make(chan struct{})
		go func() {
			defer close(done)
			defer func() {
				if r := recover(); r != nil {
					out.Panic = r
					out.Stack = string(debug.Stack())
				}
			}()
			cfg, err := generate.ReadAndValidateConfig(filepath.Join(dir, "genqlient.yaml"))
			if err != nil {
				cfgAccepted = false
				out.Err = err
				return
			}
			_, out.Err = generate.Generate(cfg)
		}()
		select {
		case <-done:
		case <-time.After(30 * time.Second):
			out.TimedOut = true
		}
	}
	outcome := "ok"
	switch {
	case out.TimedOut:
		outcome = "hang"
	case out.Panic != nil:
		outcome = "panic"
	case out.Err != nil:
		outcome = "error"
	}
	if outcome == "ok" && (cs.Stream == "gprog" || cs.Stream == "layouts") && out.Files != nil {
		c07InputClosure(c, cs, out)
	}
	c.Res.Count("stream:" + cs.Stream)
	c.Res.Count("outcome:" + outcome)
	c.Res.NonTrivial(cs.Stream + "|" + cs.Kind + "|" + outcome)
	if c.Res.Evaluations%45 == 1 {
		msg := ""
		if out.Err != nil {
			msg = firstLine(out.Err.Error())
		}
		c.Res.Sample(map[string]any{"stream": cs.Stream, "kind": cs.Kind, "outcome": outcome, "error": msg})
	}
	if out.TimedOut {
		fail("violation", "hang", "generation did not terminate within the watchdog ("+cs.Stream+"/"+cs.Kind+")", nil, nil)
	}
	if out.Panic != nil {
		site := panicSite(out.Stack)
		fail("violation", "panic:"+site, fmt.Sprintf("generator panicked (%s/%s): %v", cs.Stream, cs.Kind, out.Panic), firstLines(out.Stack, 14), nil)
	}
	// model correspondence for the casing logic
	if cs.Casing != nil {
		m := c.Model(map[string]any{"op": "config.casing", "default": cs.Casing["default"], "allEnums": cs.Casing["allEnums"], "enums": cs.Casing["enums"], "enum": cs.Casing["enum"]})
		mv := m["validate"].(bool)
		casingErr := out.Err != nil && !cfgAccepted && strings.Contains(out.Err.Error(), "unknown casing algorithm")
		otherCfgErr := out.Err != nil && !cfgAccepted && !casingErr
		if !otherCfgErr && mv == casingErr {
			fail("mismatch", "casing-validate-model", fmt.Sprintf("Casing.validate: model %v, implementation rejected-for-casing=%v (%v)", mv, casingErr, out.Err), nil, m)
		}
	}
}

func firstLines(s string, n int) string {
	l := strings.Split(s, "\n")
	if len(l) > n {
		l = l[:n]
	}
	return strings.Join(l, "\n")
}


// c07InputClosure: correspondence for the model of the (recursive) input-object walk (Model/InputClosure.lean):
// the input types the model's walk enters into the type map, from each operation variable, are the input structs
// the real generator declared.
func c07InputClosure(c *Ctx, cs c07Case, out *GenOut) {
	var texts []string
	for _, k := range sortedFileNames(cs.Schema) {
		texts = append(texts, cs.Schema[k])
	}
	schema, err := loadSchema(texts)
	if err != nil {
		return
	}
	var opsText strings.Builder
	for _, k := range sortedFileNames(cs.Ops) {
		if strings.HasSuffix(k, ".graphql") {
			opsText.WriteString(cs.Ops[k] + "\n")
		}
	}
	if opsText.Len() == 0 || strings.Contains(opsText.String(), "typename:") || strings.Contains(opsText.String(), "bind:") {
		c.Res.Count("input-closure:not-compared (go literals / typename / bind options)")
		return
	}
	doc, perr := parser.ParseQuery(&ast.Source{Name: "q", Input: opsText.String()})
	if perr != nil {
		return
	}
	var types []any
	isInput := map[string]bool{}
	for name, d := range schema.Types {
		if d.Kind == ast.InputObject {
			isInput[name] = true
		}
	}
	names := make([]string, 0, len(isInput))
	for n := range isInput {
		names = append(names, n)
	}
	sortStrings(names)
	for _, n := range names {
		fs := []any{}
		for _, f := range schema.Types[n].Fields {
			if isInput[f.Type.Name()] {
				fs = append(fs, f.Type.Name())
			}
		}
		types = append(types, []any{n, fs})
	}
	want := map[string]bool{}
	roots := 0
	for _, op := range doc.Operations {
		for _, v := range op.VariableDefinitions {
			if !isInput[v.Type.Name()] {
				continue
			}
			roots++
			m := c.Model(map[string]any{"op": "inputs.closure", "types": types, "root": v.Type.Name()})
			if m["ok"] != true {
				c.Res.Add(proto.Finding{Kind: "mismatch", Class: "input-closure-model-out-of-fuel", What: "the model's walk ran out of fuel although the generator terminated", Case: cs})
				return
			}
			for _, x := range m["visited"].([]any) {
				want[x.(string)] = true
			}
		}
	}
	if roots == 0 {
		return
	}
	d := parseGoDecls(out.Files["generated.go"])
	var missing, extra []string
	// ApplyCasing(def.Name, <default casing>, true): upperFirst without leading underscores, or snake → Camel
	declared := func(n string) bool {
		t := strings.TrimLeft(n, "_")
		if t == "" {
			return false
		}
		up := strings.ToUpper(t[:1]) + t[1:]
		var camel strings.Builder
		nextUp := true
		for _, r := range n {
			if r == '_' {
				nextUp = true
				continue
			}
			if nextUp {
				camel.WriteString(strings.ToUpper(string(r)))
				nextUp = false
			} else {
				camel.WriteRune(r)
			}
		}
		_, a := d.structs[up]
		_, b := d.structs[camel.String()]
		return a || b
	}
	for n := range want {
		if !declared(n) {
			missing = append(missing, n)
		}
	}
	for _, n := range names {
		if declared(n) && !want[n] {
			extra = append(extra, n)
		}
	}
	sortStrings(missing)
	sortStrings(extra)
	c.Res.Count("input-closure:compared")
	if len(missing)+len(extra) > 0 {
		c.Res.Add(proto.Finding{Kind: "mismatch", Class: "input-closure-model", What: fmt.Sprintf("input types entered by the model's walk but not declared: %v; declared but not entered: %v", missing, extra), Case: cs})
	}
}
