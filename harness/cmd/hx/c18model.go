package main

import (
	"fmt"
	"strings"
)

// c18Model: correspondence of errors.go's position rendering with the Lean model
// (Genq.Files.posString) on the pseudo file names genqlient builds for Go literals.
func c18Model(c *Ctx, cs badCase, gotFile, gotLine string, fail func(kind, class, what string, impl, model any)) {
	// recover the literal's starting line: the Go layouts put `# @genqlient` markers; the pseudo filename is
	// "<file>:<line of the literal's opening quote>". We know where the definition block starts; the literal
	// starts StartOffset lines above, depending on the layout.
	off := map[layoutKind]int{layGoRaw: 2, layGoRawNL: 3, layGoNested: 2, layGoRawBlank: 4}[cs.Layout]
	if off == 0 {
		return
	}
	// line inside the literal of the offending node
	defStart := cs.Line - (cs.Fault.Line - 1)
	litStart := defStart - off
	inner := cs.Line - litStart + 1
	m := c.Model(map[string]any{"op": "files.posString", "filename": fmt.Sprintf("%s:%d", cs.File, litStart), "line": inner})
	want := m["out"].(string)
	if want != fmt.Sprintf("%s:%d", cs.File, cs.Line) {
		fail("mismatch", "posString-model", fmt.Sprintf("model renders pseudo-file %s:%d line %d as %q, construction says %s:%d", cs.File, litStart, inner, want, cs.File, cs.Line), nil, nil)
	}
	_ = strings.TrimSpace
}
