package main

// G_bad: single-fault mutations of valid G_prog programs with the fault's kind and position known
// by construction, and layouts of a definition list into files (.graphql files, Go files with raw or
// interpreted `# @genqlient` string literals).

import (
	"fmt"
	goast "go/ast"
	goparser "go/parser"
	gotoken "go/token"
	"sort"
	"strconv"
	"strings"

	"verifharness/internal/gen"
	"verifharness/internal/proto"
)

type layoutKind string

const (
	layOneFile   layoutKind = "one-graphql"
	layPerDef    layoutKind = "file-per-definition"
	layPartition layoutKind = "random-partition"
	layGoRaw     layoutKind = "go-raw-literals"
	layGoRawNL   layoutKind = "go-raw-literals-marker-on-second-line"
	layGoInterp  layoutKind = "go-interpreted-literals"
	layGoNested  layoutKind = "go-literals-in-expressions"
	layGoSameLine layoutKind = "go-two-literals-on-one-line"
	laySameBase   layoutKind = "same-file-name-in-two-directories"
	layOutside    layoutKind = "operations-outside-the-config-directory"
	layCRLF       layoutKind = "one-graphql-crlf-line-endings"
	layCR         layoutKind = "one-graphql-bare-cr-line-endings"
	layMixedEnds  layoutKind = "one-graphql-mixed-line-endings"
	layGoOneLit   layoutKind = "go-all-definitions-in-one-literal"
	layGoConcat   layoutKind = "go-literal-as-operand-of-plus"
	layGoRawBlank layoutKind = "go-raw-literals-blank-indented-line-before-marker"
)

var allLayouts = []layoutKind{layOneFile, layPerDef, layPartition, layGoRaw, layGoRawNL, layGoInterp, layGoNested, layGoSameLine, laySameBase, layOutside, layCRLF, layCR, layMixedEnds, layGoOneLit, layGoConcat, layGoRawBlank}

type placed struct {
	File      string // relative file name
	StartLine int    // line in File of the first line of the definition's Comment+Text block
}

// layoutEscapeOnly: when >= 0, the interpreted-literal layout writes escaped leading white space in front of the
// marker of that definition's literal only (set and reset by the caller)
var layoutEscapeOnly = -1

// layout places the definitions into files. Returns files and, per definition, where it landed.
func layout(defs []gen.Def, kind layoutKind, r *proto.Rng) (map[string]string, []placed) {
	files := map[string]string{}
	where := make([]placed, len(defs))
	block := func(d gen.Def) string { return d.Comment + d.Text }
	nlines := func(s string) int { return strings.Count(s, "\n") }
	if kind == layMixedEnds {
		// every line of one .graphql file ends in its own way: "\n", "\r\n" or a bare "\r" (never a bare "\r" directly
		// before a "\n", which would be ONE line end)
		files, where = layout(defs, layOneFile, r)
		for k, v := range files {
			var sb strings.Builder
			lastCR := false
			for _, ch := range v {
				if ch != '\n' {
					sb.WriteRune(ch)
					lastCR = false
					continue
				}
				e := []string{"\n", "\r\n", "\r"}[r.Intn(3)]
				if lastCR && e == "\n" {
					e = "\r\n"
				}
				sb.WriteString(e)
				lastCR = e == "\r"
			}
			files[k] = sb.String()
		}
		return files, where
	}
	if kind == layCRLF || kind == layCR {
		// one .graphql file whose lines end in "\r\n" / a bare "\r" (the GraphQL lexer counts both as line ends)
		files, where = layout(defs, layOneFile, r)
		end := map[layoutKind]string{layCRLF: "\r\n", layCR: "\r"}[kind]
		for k, v := range files {
			files[k] = strings.ReplaceAll(v, "\n", end)
		}
		return files, where
	}
	switch kind {
	case layOneFile:
		var sb strings.Builder
		line := 1
		for i, d := range defs {
			if i > 0 {
				sb.WriteString("\n")
				line++
			}
			where[i] = placed{"ops.graphql", line}
			sb.WriteString(block(d))
			line += nlines(block(d))
		}
		files["ops.graphql"] = sb.String()
	case layPerDef:
		for i, d := range defs {
			name := fmt.Sprintf("ops/d%02d_%s.graphql", i, d.Name)
			where[i] = placed{name, 1}
			files[name] = block(d)
		}
	case laySameBase, layOutside:
		// two files with the SAME base name in different directories, named by separate `operations:` entries
		// (laySameBase), or one of them outside the config file's directory (layOutside: "../<dir>/…", the relative
		// path a diagnostic must then start with)
		names := []string{"users/queries.graphql", "teams/queries.graphql"}
		if kind == layOutside {
			names = []string{"queries.graphql", "../zz-outside-config-dir/queries.graphql"}
		}
		bufs := make([]strings.Builder, 2)
		lines := []int{1, 1}
		for i, d := range defs {
			f := i % 2
			if layoutEscapeOnly >= 0 {
				// directed: the definition holding the fault is ALONE in the second file
				f = 0
				if i == layoutEscapeOnly {
					f = 1
				}
			}
			if lines[f] > 1 {
				bufs[f].WriteString("\n")
				lines[f]++
			}
			where[i] = placed{names[f], lines[f]}
			bufs[f].WriteString(block(d))
			lines[f] += nlines(block(d))
		}
		for f := range bufs {
			if bufs[f].Len() > 0 {
				files[names[f]] = bufs[f].String()
			}
		}
	case layPartition:
		k := 1 + r.Intn(3)
		bufs := make([]strings.Builder, k)
		lines := make([]int, k)
		for i := range lines {
			lines[i] = 1
		}
		for i, d := range defs {
			f := r.Intn(k)
			if lines[f] > 1 {
				bufs[f].WriteString("\n")
				lines[f]++
			}
			name := fmt.Sprintf("part%d.graphql", f)
			where[i] = placed{name, lines[f]}
			bufs[f].WriteString(block(d))
			lines[f] += nlines(block(d))
		}
		for f := range bufs {
			if bufs[f].Len() > 0 {
				files[fmt.Sprintf("part%d.graphql", f)] = bufs[f].String()
			}
		}
	default: // Go files
		var sb strings.Builder
		sb.WriteString("package queries\n\n// generated layout: " + string(kind) + "\n\n")
		line := 5
		for i, d := range defs {
			b := block(d)
			switch kind {
			case layGoRaw:
				// `# @genqlient\n\n<block>`
				fmt.Fprintf(&sb, "var _ = `# @genqlient\n\n%s`\n\n", b)
				where[i] = placed{"queries.go", line + 2}
				line += 2 + nlines(b) + 2
			case layGoConcat:
				// every other definition's (complete, marked) literal is the right operand of a `+` whose left operand is
				// an ordinary string: still a string literal of the file, so still an operation
				if i%2 == 0 {
					fmt.Fprintf(&sb, "var _ = \"sending: \" + `# @genqlient\n\n%s`\n\n", b)
				} else {
					fmt.Fprintf(&sb, "var _ = `# @genqlient\n\n%s`\n\n", b)
				}
				where[i] = placed{"queries.go", line + 2}
				line += 2 + nlines(b) + 2
			case layGoRawBlank:
				// a whitespace-only (indented) line between the opening quote and the marker
				fmt.Fprintf(&sb, "var _ = `\n\t\t\n\t\t# @genqlient\n\n%s`\n\n", b)
				where[i] = placed{"queries.go", line + 4}
				line += 4 + nlines(b) + 2
			case layGoRawNL:
				fmt.Fprintf(&sb, "var _ = `\n\t# @genqlient\n\n%s`\n\n", b)
				where[i] = placed{"queries.go", line + 3}
				line += 3 + nlines(b) + 2
			case layGoInterp:
				// the marker may be preceded by white space written as escapes ("\n\t# @genqlient…"): the literal's VALUE
				// starts with the marker after trimming, which is what the documentation asks for
				pre := proto.Pick(r, []string{"", "", "\n", "\t", "\n  \t"})
				if layoutEscapeOnly >= 0 {
					// directed: exactly ONE literal (the one holding the fault) starts with escaped white space
					pre = ""
					if i == layoutEscapeOnly {
						pre = "\n\t"
					}
				}
				fmt.Fprintf(&sb, "var _ = %s\n\n", strconv.Quote(pre+"# @genqlient\n\n"+b))
				where[i] = placed{"queries.go", line} // positions inside interpreted literals are not claimed by C18
				line += 2
			case layGoNested:
				fmt.Fprintf(&sb, "func f%d() []string {\n\treturn append([]string{\"x\"}, map[string]string{\"k\": `# @genqlient\n\n%s`}[\"k\"])\n}\n\n", i, b)
				where[i] = placed{"queries.go", line + 1 + 2}
				line += 1 + 2 + nlines(b) + 1 + 2
			case layGoSameLine, layGoOneLit:
				// handled below
			}
		}
		if kind == layGoOneLit {
			// ONE raw literal holds every definition: all of them share one source (and its pseudo file name)
			sb.Reset()
			sb.WriteString("package queries\n\n// generated layout: " + string(kind) + "\n\n")
			sb.WriteString("var _ = `# @genqlient\n\n")
			line = 5 + 2
			for i, d := range defs {
				if i > 0 {
					sb.WriteString("\n")
					line++
				}
				where[i] = placed{"queries.go", line}
				sb.WriteString(block(d))
				line += nlines(block(d))
			}
			sb.WriteString("`\n")
		}
		if kind == layGoSameLine {
			sb.Reset()
			sb.WriteString("package queries\n\n// generated layout: " + string(kind) + "\n\n")
			line = 5
			for i := 0; i < len(defs); i += 2 {
				if i+1 < len(defs) {
					a, b := block(defs[i]), block(defs[i+1])
					fmt.Fprintf(&sb, "var _ = []string{%s, %s}\n\n", strconv.Quote("# @genqlient\n\n"+a), strconv.Quote("# @genqlient\n\n"+b))
					where[i] = placed{"queries.go", line}
					where[i+1] = placed{"queries.go", line}
				} else {
					fmt.Fprintf(&sb, "var _ = %s\n\n", strconv.Quote("# @genqlient\n\n"+block(defs[i])))
					where[i] = placed{"queries.go", line}
				}
				line += 2
			}
		}
		files["queries.go"] = sb.String()
	}
	return files, where
}

func sortedFileNames(m map[string]string) []string {
	ks := []string{}
	for k := range m {
		ks = append(ks, k)
	}
	sort.Strings(ks)
	return ks
}

// ---- fault injection ----

type fault struct {
	Class    string `json:"class"`
	Def      int    `json:"def"`      // index of the definition that carries the fault (-1: appended definition)
	Line     int    `json:"line"`     // 1-based line inside that definition's Comment+Text block of the offending node
	AltLine  int    `json:"altLine"`  // another acceptable line (e.g. the node a directive comment is attached to), 0 if none
	Validation bool `json:"validation"` // a GraphQL validation rule (C05) vs a genqlient-specific error
}

var faultClasses = []string{"unknown-field", "unknown-fragment", "unknown-argument", "unknown-type-condition", "impossible-spread",
	"selection-on-leaf", "undefined-variable", "unused-variable", "variable-type-mismatch", "unused-fragment",
	"duplicate-operation", "anonymous-operation", "unknown-variable-type", "missing-selection",
	"keyword-variable", "bogus-directive-argument", "omitempty-on-field", "keyword-operation-name",
	"malformed-directive", "directive-wrong-value-type", "duplicate-fragment"}

// insertion points: indices of lines (within Text) that end with "{" (a selection set opens)
func openLines(text string) []int {
	var out []int
	for i, l := range strings.Split(text, "\n") {
		if strings.HasSuffix(strings.TrimSpace(l), "{") {
			out = append(out, i)
		}
	}
	return out
}

func insertAfter(text string, idx int, newLine string) string {
	lines := strings.Split(text, "\n")
	ind := ""
	for _, ch := range lines[idx] {
		if ch == ' ' || ch == '\t' {
			ind += string(ch)
		} else {
			break
		}
	}
	out := append([]string{}, lines[:idx+1]...)
	out = append(out, ind+"  "+newLine)
	out = append(out, lines[idx+1:]...)
	return strings.Join(out, "\n")
}

// injectFault returns a mutated copy of defs with exactly one fault of the given class, or ok=false if
// the class cannot be applied to this program.
// faultRootFields: fields of the Query type whose type is an object, an interface or a union and which need no
// arguments (set by runBad from the program's schema; abstract-typed ones listed twice)
var faultRootFields []string

func injectFault(defs []gen.Def, class string, objectTypes []string, r *proto.Rng) ([]gen.Def, fault, bool) {
	out := append([]gen.Def{}, defs...)
	commentLines := func(d gen.Def) int { return strings.Count(d.Comment, "\n") }
	pickDef := func(pred func(gen.Def) bool) int {
		var cands []int
		for i, d := range out {
			if pred(d) {
				cands = append(cands, i)
			}
		}
		if len(cands) == 0 {
			return -1
		}
		return proto.Pick(r, cands)
	}
	anyDef := func(gen.Def) bool { return true }
	isOp := func(d gen.Def) bool { return d.Kind != "fragment" }
	insertLine := func(di int, newLine string) fault {
		d := out[di]
		ols := openLines(d.Text)
		at := proto.Pick(r, ols)
		d.Text = insertAfter(d.Text, at, newLine)
		out[di] = d
		return fault{Def: di, Line: commentLines(d) + at + 2}
	}
	f := fault{Class: class, Validation: true}
	switch class {
	case "unknown-field":
		di := pickDef(anyDef)
		g := insertLine(di, "zzzNoSuchField9")
		f.Def, f.Line = g.Def, g.Line
	case "unknown-fragment":
		di := pickDef(anyDef)
		g := insertLine(di, "...ZzzNoSuchFragment")
		f.Def, f.Line = g.Def, g.Line
	case "unknown-argument":
		di := pickDef(anyDef)
		g := insertLine(di, "__typename(zzz: 1)")
		f.Def, f.Line = g.Def, g.Line
	case "unknown-type-condition":
		di := pickDef(anyDef)
		g := insertLine(di, "... on ZzzNoSuchType { __typename }")
		f.Def, f.Line = g.Def, g.Line
	case "selection-on-leaf":
		di := pickDef(anyDef)
		g := insertLine(di, "zzAlias: __typename { x }")
		f.Def, f.Line = g.Def, g.Line
	case "undefined-variable":
		di := pickDef(anyDef)
		g := insertLine(di, "zzAlias: __typename @include(if: $zzzUndefined)")
		f.Def, f.Line = g.Def, g.Line
	case "impossible-spread":
		// at the top level of an operation (parent = root object type) spread another object type
		di := pickDef(isOp)
		if di < 0 || len(objectTypes) == 0 {
			return nil, f, false
		}
		d := out[di]
		root := map[string]string{"query": "Query", "mutation": "Mutation", "subscription": "Subscription"}[d.Kind]
		var others []string
		for _, t := range objectTypes {
			if t != root {
				others = append(others, t)
			}
		}
		if len(others) == 0 || d.Kind == "subscription" {
			return nil, f, false
		}
		ols := openLines(d.Text)
		// the operation's own selection set opens at the first line that ends with "{" at depth 0
		at := ols[0]
		for _, o := range ols {
			l := strings.Split(d.Text, "\n")[o]
			if !strings.HasPrefix(l, " ") && !strings.HasPrefix(l, "\t") {
				at = o
			}
		}
		d.Text = insertAfter(d.Text, at, "... on "+proto.Pick(r, others)+" { __typename }")
		out[di] = d
		f.Def, f.Line = di, commentLines(d)+at+2
	case "unused-variable", "variable-type-mismatch", "unknown-variable-type", "keyword-variable":
		di := pickDef(func(d gen.Def) bool { return isOp(d) && !strings.Contains(strings.SplitN(d.Text, "\n", 2)[0], "(") && strings.HasSuffix(strings.TrimSpace(strings.SplitN(d.Text, "\n", 2)[0]), "{") })
		if di < 0 {
			return nil, f, false
		}
		d := out[di]
		first := strings.SplitN(d.Text, "\n", 2)
		hdr := strings.TrimSuffix(strings.TrimSpace(first[0]), "{")
		hdr = strings.TrimSpace(hdr)
		// hdr = "query Name" possibly with directives; only handle the plain form
		if len(strings.Fields(hdr)) != 2 {
			return nil, f, false
		}
		switch class {
		case "unused-variable":
			d.Text = hdr + "($zzzUnused: Int) {\n" + first[1]
			f.Line = commentLines(d) + 1
		case "unknown-variable-type":
			d.Text = hdr + "($zzzV: ZzzNoSuchInput) {\n" + first[1]
			d.Text = insertAfter(d.Text, 0, "zzAlias: __typename @include(if: $zzzV)")
			f.Line = commentLines(d) + 1
			f.AltLine = commentLines(d) + 2
		case "variable-type-mismatch":
			d.Text = hdr + "($zzzS: String) {\n" + first[1]
			d.Text = insertAfter(d.Text, 0, "zzAlias: __typename @include(if: $zzzS)")
			f.Line = commentLines(d) + 2
			f.AltLine = commentLines(d) + 1
		case "keyword-variable":
			d.Text = hdr + "($type: Boolean!) {\n" + first[1]
			d.Text = insertAfter(d.Text, 0, "zzAlias: __typename @include(if: $type)")
			f.Line = commentLines(d) + 1
			f.Validation = false
		}
		out[di] = d
		f.Def = di
	case "unused-fragment":
		out = append(out, gen.Def{Kind: "fragment", Name: "ZzzUnusedFragment", Text: "fragment ZzzUnusedFragment on Query {\n  __typename\n}\n"})
		f.Def, f.Line = len(out)-1, 1
	case "duplicate-operation":
		di := pickDef(isOp)
		d := out[di]
		out = append(out, gen.Def{Kind: d.Kind, Name: d.Name, Text: d.Kind + " " + d.Name + " {\n  __typename\n}\n"})
		if d.Kind == "subscription" {
			return nil, f, false
		}
		f.Def, f.Line = len(out)-1, 1
		f.AltLine = -1 // the first definition is acceptable too (checked separately)
	case "duplicate-fragment":
		// a second definition of a fragment's name — a verbatim copy, so the repeated name is the ONLY fault
		// (UniqueFragmentNames; seeded change C05-r11 kept the first definition and dropped the rest before validating)
		di := pickDef(func(d gen.Def) bool { return d.Kind == "fragment" })
		if di < 0 {
			return nil, f, false
		}
		out = append(out, out[di])
		f.Def, f.Line = len(out)-1, 1
		f.AltLine = -1
	case "anonymous-operation":
		out = append(out, gen.Def{Kind: "query", Name: "", Text: "query {\n  __typename\n}\n"})
		f.Def, f.Line = len(out)-1, 1
		f.AltLine = -1
	case "missing-selection":
		// a composite-typed root field of Query selected WITHOUT a sub-selection (ScalarLeafs): object-, interface- and
		// union-typed fields alike (for an abstract type the generator itself would add `{ __typename }` later — the
		// operation as the user wrote it is invalid all the same).  Needs the schema: faultRootFields, set by the caller.
		if len(faultRootFields) == 0 {
			return nil, f, false
		}
		rf := proto.Pick(r, faultRootFields)
		out = append(out, gen.Def{Kind: "query", Name: "ZzMissingSelection", Text: "query ZzMissingSelection {\n  " + rf + "\n}\n"})
		f.Def, f.Line = len(out)-1, 2
	case "bogus-directive-argument":
		di := pickDef(anyDef)
		d := out[di]
		ols := openLines(d.Text)
		at := proto.Pick(r, ols)
		d.Text = insertAfter(insertAfter(d.Text, at, "zzAlias: __typename"), at, "# @genqlient(zzzbogus: true)")
		out[di] = d
		f.Def, f.Line, f.AltLine = di, commentLines(d)+at+3, commentLines(d)+at+2
		f.Validation = false
	case "malformed-directive", "directive-wrong-value-type":
		// a `# @genqlient(...)` comment that does not parse (or whose argument has the wrong kind of value): the
		// diagnostic must still carry the file and the line of the comment or of the node it is attached to
		di := pickDef(anyDef)
		d := out[di]
		ols := openLines(d.Text)
		at := proto.Pick(r, ols)
		txt := proto.Pick(r, []string{"# @genqlient(pointer: )", "# @genqlient(pointer true)", "# @genqlient(pointer: true", "# @genqlient(typename: \"x)",
			"# @genqlient(pointer: true,, omitempty: true)", "# @genqlient(: true)", "# @genqlient(pointer: [)"})
		if class == "directive-wrong-value-type" {
			txt = proto.Pick(r, []string{"# @genqlient(pointer: \"yes\")", "# @genqlient(typename: true)", "# @genqlient(pointer: 1)", "# @genqlient(bind: 3)", "# @genqlient(pointer: null)"})
		}
		d.Text = insertAfter(insertAfter(d.Text, at, "zzAlias: __typename"), at, txt)
		out[di] = d
		f.Def, f.Line, f.AltLine = di, commentLines(d)+at+3, commentLines(d)+at+2
		f.Validation = false
	case "omitempty-on-field":
		di := pickDef(anyDef)
		d := out[di]
		ols := openLines(d.Text)
		at := proto.Pick(r, ols)
		d.Text = insertAfter(insertAfter(d.Text, at, "zzAlias: __typename"), at, "# @genqlient(omitempty: true)")
		out[di] = d
		f.Def, f.Line, f.AltLine = di, commentLines(d)+at+3, commentLines(d)+at+2
		f.Validation = false
	case "keyword-operation-name":
		out = append(out, gen.Def{Kind: "query", Name: "func", Text: "query func {\n  __typename\n}\n"})
		f.Def, f.Line = len(out)-1, 1
		f.Validation = false
	default:
		return nil, f, false
	}
	return out, f, true
}

// goStringLiterals: unquoted values of every STRING literal of a Go file (ast.Inspect order).
func goStringLiterals(src string) []string {
	fset := gotoken.NewFileSet()
	f, err := goparser.ParseFile(fset, "x.go", src, 0)
	if err != nil {
		return nil
	}
	var out []string
	goast.Inspect(f, func(n goast.Node) bool {
		if bl, ok := n.(*goast.BasicLit); ok && bl.Kind == gotoken.STRING {
			if v, err := strconv.Unquote(bl.Value); err == nil {
				out = append(out, v)
			}
		}
		return true
	})
	return out
}
