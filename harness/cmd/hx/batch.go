package main

// Batch: many generated packages + one probe binary per `go build`.

import (
	"bufio"
	"encoding/json"
	"fmt"
	goast "go/ast"
	goparser "go/parser"
	gotoken "go/token"
	"io"
	"os"
	"os/exec"
	"path/filepath"
	"regexp"
	"sort"
	"strings"
)

type batchPkg struct {
	Name        string
	Src         []byte
	OK          bool
	CompileErrs []string
	Types       []string
	Funcs       []string
}

type Batch struct {
	Dir   string
	Pkgs  map[string]*batchPkg
	cmd   *exec.Cmd
	in    io.WriteCloser
	out   *bufio.Reader
	Calls int
}

func topLevelNames(src []byte) (types, funcs []string) {
	fset := gotoken.NewFileSet()
	f, err := goparser.ParseFile(fset, "generated.go", src, 0)
	if err != nil {
		return nil, nil
	}
	for _, d := range f.Decls {
		switch d := d.(type) {
		case *goast.GenDecl:
			if d.Tok == gotoken.TYPE {
				for _, sp := range d.Specs {
					ts := sp.(*goast.TypeSpec)
					if ts.TypeParams == nil {
						types = append(types, ts.Name.Name)
					}
				}
			}
		case *goast.FuncDecl:
			if d.Recv == nil && d.Name.IsExported() || (d.Recv == nil && !strings.HasPrefix(d.Name.Name, "__")) {
				funcs = append(funcs, d.Name.Name)
			}
		}
	}
	sort.Strings(types)
	sort.Strings(funcs)
	return
}

var compileErrRe = regexp.MustCompile(`(?m)^(?:\./)?(p\d+)/[^:]+:\d+:\d+: (.*)$`)

// buildBatch writes the packages into a scratch module under work, compiles them, and starts the
// probe binary over the packages that compiled.
func buildBatch(work string, srcs map[string][]byte) (*Batch, error) {
	dir := filepath.Join(work, "batch")
	os.RemoveAll(dir)
	os.MkdirAll(filepath.Join(dir, "cmd", "probe"), 0o755)
	b := &Batch{Dir: dir, Pkgs: map[string]*batchPkg{}}
	gomod := "module batch\n\ngo 1.23\n\nrequire (\n\tgithub.com/Khan/genqlient v0.0.0\n\tverifharness v0.0.0\n)\n\nreplace github.com/Khan/genqlient => " + repoRoot + "\n\nreplace verifharness => " + verifRoot + "/harness\n"
	os.WriteFile(filepath.Join(dir, "go.mod"), []byte(gomod), 0o644)
	sum, _ := os.ReadFile(repoRoot + "/go.sum")
	os.WriteFile(filepath.Join(dir, "go.sum"), sum, 0o644)
	names := []string{}
	for n := range srcs {
		names = append(names, n)
	}
	sort.Strings(names)
	for _, n := range names {
		p := &batchPkg{Name: n, Src: srcs[n], OK: true}
		p.Types, p.Funcs = topLevelNames(p.Src)
		b.Pkgs[n] = p
		pd := filepath.Join(dir, n)
		os.MkdirAll(pd, 0o755)
		os.WriteFile(filepath.Join(pd, "generated.go"), p.Src, 0o644)
		var reg strings.Builder
		reg.WriteString("package gen\n\nimport \"verifharness/probe\"\n\nfunc init() {\n\tprobe.Register(\"" + n + "\", map[string]any{\n")
		for _, t := range p.Types {
			fmt.Fprintf(&reg, "\t\t%q: (*%s)(nil),\n", t, t)
		}
		reg.WriteString("\t}, map[string]any{\n")
		for _, f := range p.Funcs {
			fmt.Fprintf(&reg, "\t\t%q: %s,\n", f, f)
		}
		reg.WriteString("\t})\n}\n")
		os.WriteFile(filepath.Join(pd, "zz_register.go"), []byte(reg.String()), 0o644)
	}
	env := append(os.Environ(), "GOFLAGS=-mod=mod", "GOPROXY=off", "GOSUMDB=off")
	// 1. compile every package on its own; collect per-package errors
	args := []string{"build", "-gcflags=-e"}
	for _, n := range names {
		args = append(args, "./"+n)
	}
	cmd := exec.Command("go", args...)
	cmd.Dir = dir
	cmd.Env = env
	out, _ := cmd.CombinedOutput()
	for _, m := range compileErrRe.FindAllStringSubmatch(string(out), -1) {
		if p := b.Pkgs[m[1]]; p != nil {
			p.OK = false
			if len(p.CompileErrs) < 12 {
				p.CompileErrs = append(p.CompileErrs, m[2])
			}
		}
	}
	// packages mentioned in "# batch/pNN" headers without a parsed line
	for _, m := range regexp.MustCompile(`(?m)^# batch/(p\d+)`).FindAllStringSubmatch(string(out), -1) {
		if p := b.Pkgs[m[1]]; p != nil && p.OK {
			p.OK = false
			p.CompileErrs = append(p.CompileErrs, "compile failed (see go build output)")
		}
	}
	// 2. the probe binary over the good packages
	var mainSrc strings.Builder
	mainSrc.WriteString("package main\n\nimport (\n\t\"verifharness/probe\"\n")
	for _, n := range names {
		if b.Pkgs[n].OK {
			fmt.Fprintf(&mainSrc, "\t_ \"batch/%s\"\n", n)
		}
	}
	mainSrc.WriteString(")\n\nfunc main() { probe.Main() }\n")
	os.WriteFile(filepath.Join(dir, "cmd", "probe", "main.go"), []byte(mainSrc.String()), 0o644)
	cmd = exec.Command("go", "build", "-o", filepath.Join(dir, "probe.bin"), "./cmd/probe")
	cmd.Dir = dir
	cmd.Env = env
	if out, err := cmd.CombinedOutput(); err != nil {
		return b, fmt.Errorf("probe binary did not build: %v\n%s", err, trunc(string(out), 3000))
	}
	b.cmd = exec.Command(filepath.Join(dir, "probe.bin"))
	b.cmd.Stderr = os.Stderr
	b.in, _ = b.cmd.StdinPipe()
	so, _ := b.cmd.StdoutPipe()
	b.out = bufio.NewReaderSize(so, 1<<22)
	if err := b.cmd.Start(); err != nil {
		return b, err
	}
	return b, nil
}

func trunc(s string, n int) string {
	if len(s) > n {
		return s[:n] + "…"
	}
	return s
}

// Call sends one command to the probe; a crash of the probe is reported as {"crash": ...}.
func (b *Batch) Call(req map[string]any) map[string]any {
	b.Calls++
	js, _ := json.Marshal(req)
	if _, err := b.in.Write(append(js, '\n')); err != nil {
		return map[string]any{"crash": "write: " + err.Error()}
	}
	line, err := b.out.ReadBytes('\n')
	if err != nil {
		return map[string]any{"crash": "probe died: " + err.Error()}
	}
	var m map[string]any
	dec := json.NewDecoder(strings.NewReader(string(line)))
	dec.UseNumber()
	if err := dec.Decode(&m); err != nil {
		return map[string]any{"crash": "bad reply: " + err.Error()}
	}
	return m
}

func (b *Batch) Close() {
	if b.in != nil {
		b.in.Close()
	}
	if b.cmd != nil {
		b.cmd.Wait()
	}
	os.RemoveAll(b.Dir)
}
