package main

import (
	"bytes"
	"crypto/sha256"
	"encoding/json"
	"fmt"
	"os"
	"path/filepath"
	"sort"
	"strings"

	"github.com/Khan/genqlient/generate"

	"verifharness/internal/gen"
	"verifharness/internal/proto"
)

func init() {
	register("C08", "G_prog programs laid out over several schema files (with `extend`) and several operation files, with scalars bound to two "+
		"packages of the same base name (numbered import aliases) and interfaces/unions with several implementations; each program is "+
		"generated k times in one process (Go randomises map iteration per run) and the bytes of both output files are compared; "+
		"non-trivial = distinct (#schema files, #operation files, twin-package bindings used, has union/interface)", runC08)
}

type c08Case struct {
	Seed   uint64            `json:"gprog_seed"`
	Schema map[string]string `json:"schema"`
	Ops    map[string]string `json:"ops"`
	Cfg    ProgCfg           `json:"cfg"`
	Reps   int               `json:"reps"`
}

// c08Rebind: bind up to one string-kind scalar to the twin package so that two packages named `sup` are imported
func c08Rebind(cfg *ProgCfg, r *proto.Rng) bool {
	var cands []string
	for k, b := range cfg.Bindings {
		if (strings.HasSuffix(b["type"], "sup.Text") || strings.HasSuffix(b["type"], "sup.ID")) && b["marshaler"] == "" && b["unmarshaler"] == "" {
			cands = append(cands, k)
		}
	}
	sort.Strings(cands)
	if len(cands) == 0 {
		return false
	}
	k := proto.Pick(r, cands)
	cfg.Bindings[k] = map[string]string{"type": "verifharness/altsup/sup.Tag"}
	return true
}

func runC08(c *Ctx) {
	if c.Replay != "" {
		var wrap struct{ Case c08Case `json:"case"` }
		b, err := osReadFile(c.Replay)
		if err == nil {
			err = json.Unmarshal(b, &wrap)
		}
		if err != nil {
			c.Res.Notes = append(c.Res.Notes, "replay unreadable")
			return
		}
		if len(wrap.Case.Schema) == 0 {
			var w2 struct {
				Case struct {
					Case c08Case `json:"case"`
					Leg  string  `json:"leg"`
				} `json:"case"`
			}
			if json.Unmarshal(b, &w2) == nil && len(w2.Case.Case.Schema) > 0 {
				if w2.Case.Leg == "working-directory" {
					c08Cwd(c, w2.Case.Case)
				} else {
					c08Run(c, w2.Case.Case, "replay")
				}
				return
			}
		}
		c08Run(c, wrap.Case, "replay")
		return
	}
	files, _ := filepathGlob(verifRoot + "/harness/corpus/C08/*.json")
	for _, f := range files {
		var wrap struct{ Case c08Case `json:"case"` }
		b, err := osReadFile(f)
		if err == nil && json.Unmarshal(b, &wrap) == nil {
			c08Run(c, wrap.Case, "corpus")
		}
	}
	n := c.N(40, 1500)
	reps := c.N(12, 32)
	for i := 0; i < n; i++ {
		r := c.Rng("c08", i)
		seed := c.Seed*104729 + uint64(i)
		p := gen.GenerateSeed(seed, safeOpts)
		cs := c08Case{Seed: seed, Schema: map[string]string{}, Ops: map[string]string{}, Cfg: cfgFromGen(p.Config), Reps: reps}
		cs.Cfg.ExportOperations = true
		// schema: the generator's documents, and additionally the first document split so that type
		// extensions live in files of their own
		for k, s := range p.Schema {
			cs.Schema[fmt.Sprintf("schema/s%d.graphql", k)] = s
		}
		// operations: one file per definition (maximises the effect of enumeration order)
		files, _ := layout(p.Defs, layPerDef, r)
		if r.Chance(1, 3) {
			files, _ = layout(p.Defs, layPartition, r)
		}
		cs.Ops = files
		twin := c08Rebind(&cs.Cfg, r)
		c08Run(c, cs, fmt.Sprintf("schemaFiles=%d|opFiles=%d|twin=%v|abstract=%v", len(cs.Schema), min(len(cs.Ops), 6), twin, p.Features["union"]+p.Features["interface"] > 0))
		if i%5 == 0 {
			c08Cwd(c, cs)
		}
	}
}

// c08Cwd: the same configuration and files, addressed from different working directories and with
// different spellings of the config path, with the operation files OUTSIDE the config's directory
// (a shared-queries layout); both outputs must be byte-identical ("irrespective of process, working
// directory").
func c08Cwd(c *Ctx, cs c08Case) {
	c.Res.Eval()
	root := filepath.Join(c.Work, fmt.Sprintf("c08cwd-%d", c.Res.Evaluations))
	os.RemoveAll(root)
	defer os.RemoveAll(root)
	proj := filepath.Join(root, "proj")
	shared := filepath.Join(root, "shared", "queries")
	os.MkdirAll(proj, 0o755)
	os.MkdirAll(shared, 0o755)
	var y strings.Builder
	y.WriteString("schema:\n")
	for _, n := range sortedFileNames(cs.Schema) {
		fp := filepath.Join(proj, n)
		os.MkdirAll(filepath.Dir(fp), 0o755)
		os.WriteFile(fp, []byte(cs.Schema[n]), 0o644)
		fmt.Fprintf(&y, "- %s\n", n)
	}
	for _, n := range sortedFileNames(cs.Ops) {
		os.WriteFile(filepath.Join(shared, strings.ReplaceAll(n, "/", "_")), []byte(cs.Ops[n]), 0o644)
	}
	y.WriteString("operations:\n- ../shared/queries/*.graphql\ngenerated: generated.go\nexport_operations: operations.json\npackage: gen\n")
	base := cs.Cfg
	y.WriteString(c17YamlCfg(base))
	os.WriteFile(filepath.Join(proj, "genqlient.yaml"), []byte(y.String()), 0o644)
	// every working directory lies inside the Go module that contains the generated package (c.Work has the go.mod):
	// outside it the Go tooling genqlient runs on its output (goimports) cannot resolve packages at all, which is a
	// property of the environment, not of config and files
	type inv struct{ cwd, cfg string }
	invs := []inv{{root, "proj/genqlient.yaml"}, {proj, "genqlient.yaml"}, {filepath.Join(root, "shared"), "../proj/genqlient.yaml"}, {c.Work, filepath.Join(proj, "genqlient.yaml")}, {proj, "./genqlient.yaml"}}
	old, _ := os.Getwd()
	defer os.Chdir(old)
	var ref map[string][]byte
	var refInv inv
	for _, iv := range invs {
		os.Chdir(iv.cwd)
		var m map[string][]byte
		var err error
		func() {
			defer func() {
				if r := recover(); r != nil {
					err = fmt.Errorf("panic: %v", r)
				}
			}()
			var cfg *generate.Config
			cfg, err = generate.ReadAndValidateConfig(iv.cfg)
			if err == nil {
				m, err = generate.Generate(cfg)
			}
		}()
		os.Chdir(old)
		if err != nil {
			c.Res.Count("cwd:skipped-rejected")
			return
		}
		files := map[string][]byte{}
		for k, v := range m {
			files[filepath.Base(k)] = v
		}
		if ref == nil {
			ref, refInv = files, iv
			continue
		}
		for _, n := range []string{"generated.go", "operations.json"} {
			if !bytes.Equal(ref[n], files[n]) {
				if d := os.Getenv("C08_DUMP"); d != "" {
					os.WriteFile(filepath.Join(d, "a-"+n), ref[n], 0o644)
					os.WriteFile(filepath.Join(d, "b-"+n), files[n], 0o644)
				}
				c.Res.Add(proto.Finding{Kind: "violation", Class: "working-directory-changes-output:" + n,
					What: fmt.Sprintf("%s differs between (cwd=%s, config=%s) and (cwd=%s, config=%s): %s", n, relTo(root, refInv.cwd), refInv.cfg, relTo(root, iv.cwd), iv.cfg, firstDifference(ref[n], files[n])),
					Case: map[string]any{"case": cs, "leg": "working-directory", "invocations": invs}})
				return
			}
		}
	}
	c.Res.Count("cwd:compared")
	c.Res.NonTrivial("cwd-leg")
}

func relTo(root, p string) string {
	if r, err := filepath.Rel(root, p); err == nil {
		return r
	}
	return p
}

func c08Run(c *Ctx, cs c08Case, key string) {
	c.Res.Eval()
	prog := &Program{Schema: cs.Schema, Ops: cs.Ops, Cfg: cs.Cfg}
	var first *GenOut
	variants := map[string]int{}
	var firstDiff string
	reps := cs.Reps
	if reps == 0 {
		reps = 12
	}
	for k := 0; k < reps; k++ {
		out := runGenerate(c.Work, prog, false)
		if out.Panic != nil || out.TimedOut {
			c.Res.Count("skipped:panic")
			return
		}
		if out.Err != nil {
			if first == nil && k == 0 {
				c.Res.Count("skipped:rejected")
				return
			}
			c.Res.Add(proto.Finding{Kind: "violation", Class: "nondeterministic-outcome", What: "the same input was accepted in one run and rejected in another: " + firstLine(out.Err.Error()), Case: cs})
			return
		}
		h := sha256.New()
		for _, n := range []string{"generated.go", "operations.json"} {
			h.Write(out.Files[n])
		}
		variants[fmt.Sprintf("%x", h.Sum(nil))[:12]]++
		if first == nil {
			first = out
		} else if firstDiff == "" {
			for _, n := range []string{"generated.go", "operations.json"} {
				if !bytes.Equal(first.Files[n], out.Files[n]) {
					firstDiff = n + ": " + firstDifference(first.Files[n], out.Files[n])
				}
			}
		}
	}
	c.Res.Count("outcome:accepted")
	c.Res.NonTrivial(key)
	if c.Res.Evaluations%10 == 1 {
		c.Res.Sample(map[string]any{"gprog_seed": cs.Seed, "schema_files": sortedFileNames(cs.Schema), "operation_files": sortedFileNames(cs.Ops), "repetitions": reps, "distinct_outputs": len(variants)})
	}
	if len(variants) > 1 {
		cls := "nondeterministic-output"
		c.Res.Add(proto.Finding{Kind: "violation", Class: cls, What: fmt.Sprintf("%d distinct outputs in %d runs on identical input (%v); first difference in %s", len(variants), reps, variants, firstDiff), Case: cs})
	}
}

func firstDifference(a, b []byte) string {
	la, lb := strings.Split(string(a), "\n"), strings.Split(string(b), "\n")
	for i := 0; i < len(la) && i < len(lb); i++ {
		if la[i] != lb[i] {
			return fmt.Sprintf("line %d: %q vs %q", i+1, la[i], lb[i])
		}
	}
	return fmt.Sprintf("length %d vs %d lines", len(la), len(lb))
}
