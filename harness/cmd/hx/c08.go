package main

import (
	"bytes"
	"crypto/sha256"
	"encoding/json"
	"fmt"
	"sort"
	"strings"

	"verifharness/internal/gen"
	"verifharness/internal/proto"
)

func init() {
	register("C08", "G_prog programs laid out over several schema files (with `extend`) and several operation files, with scalars bound to two "+
		"packages of the same base name (numbered import aliases) and interfaces/unions with several implementations; each program is "+
		"generated k times in one process (Go randomises map iteration per run) and the bytes of both output files are compared; "+
		"non-trivial = distinct (#schema files, #operation files, twin-package bindings used, has union/interface)", runC08)
}

type c08Case struct {
	Seed   uint64            `json:"gprog_seed"`
	Schema map[string]string `json:"schema"`
	Ops    map[string]string `json:"ops"`
	Cfg    ProgCfg           `json:"cfg"`
	Reps   int               `json:"reps"`
}

// c08Rebind: bind up to one string-kind scalar to the twin package so that two packages named `sup` are imported
func c08Rebind(cfg *ProgCfg, r *proto.Rng) bool {
	var cands []string
	for k, b := range cfg.Bindings {
		if (strings.HasSuffix(b["type"], "sup.Text") || strings.HasSuffix(b["type"], "sup.ID")) && b["marshaler"] == "" && b["unmarshaler"] == "" {
			cands = append(cands, k)
		}
	}
	sort.Strings(cands)
	if len(cands) == 0 {
		return false
	}
	k := proto.Pick(r, cands)
	cfg.Bindings[k] = map[string]string{"type": "verifharness/internal/alt/sup.Tag"}
	return true
}

func runC08(c *Ctx) {
	if c.Replay != "" {
		var wrap struct{ Case c08Case `json:"case"` }
		b, err := osReadFile(c.Replay)
		if err == nil {
			err = json.Unmarshal(b, &wrap)
		}
		if err != nil {
			c.Res.Notes = append(c.Res.Notes, "replay unreadable")
			return
		}
		c08Run(c, wrap.Case, "replay")
		return
	}
	files, _ := filepathGlob("/verif/harness/corpus/C08/*.json")
	for _, f := range files {
		var wrap struct{ Case c08Case `json:"case"` }
		b, err := osReadFile(f)
		if err == nil && json.Unmarshal(b, &wrap) == nil {
			c08Run(c, wrap.Case, "corpus")
		}
	}
	n := c.N(40, 1500)
	reps := c.N(12, 32)
	for i := 0; i < n; i++ {
		r := c.Rng("c08", i)
		seed := c.Seed*104729 + uint64(i)
		p := gen.GenerateSeed(seed, safeOpts)
		cs := c08Case{Seed: seed, Schema: map[string]string{}, Ops: map[string]string{}, Cfg: cfgFromGen(p.Config), Reps: reps}
		cs.Cfg.ExportOperations = true
		// schema: the generator's documents, and additionally the first document split so that type
		// extensions live in files of their own
		for k, s := range p.Schema {
			cs.Schema[fmt.Sprintf("schema/s%d.graphql", k)] = s
		}
		// operations: one file per definition (maximises the effect of enumeration order)
		files, _ := layout(p.Defs, layPerDef, r)
		if r.Chance(1, 3) {
			files, _ = layout(p.Defs, layPartition, r)
		}
		cs.Ops = files
		twin := c08Rebind(&cs.Cfg, r)
		c08Run(c, cs, fmt.Sprintf("schemaFiles=%d|opFiles=%d|twin=%v|abstract=%v", len(cs.Schema), min(len(cs.Ops), 6), twin, p.Features["union"]+p.Features["interface"] > 0))
	}
}

func c08Run(c *Ctx, cs c08Case, key string) {
	c.Res.Eval()
	prog := &Program{Schema: cs.Schema, Ops: cs.Ops, Cfg: cs.Cfg}
	var first *GenOut
	variants := map[string]int{}
	var firstDiff string
	reps := cs.Reps
	if reps == 0 {
		reps = 12
	}
	for k := 0; k < reps; k++ {
		out := runGenerate(c.Work, prog, false)
		if out.Panic != nil || out.TimedOut {
			c.Res.Count("skipped:panic")
			return
		}
		if out.Err != nil {
			if first == nil && k == 0 {
				c.Res.Count("skipped:rejected")
				return
			}
			c.Res.Add(proto.Finding{Kind: "violation", Class: "nondeterministic-outcome", What: "the same input was accepted in one run and rejected in another: " + firstLine(out.Err.Error()), Case: cs})
			return
		}
		h := sha256.New()
		for _, n := range []string{"generated.go", "operations.json"} {
			h.Write(out.Files[n])
		}
		variants[fmt.Sprintf("%x", h.Sum(nil))[:12]]++
		if first == nil {
			first = out
		} else if firstDiff == "" {
			for _, n := range []string{"generated.go", "operations.json"} {
				if !bytes.Equal(first.Files[n], out.Files[n]) {
					firstDiff = n + ": " + firstDifference(first.Files[n], out.Files[n])
				}
			}
		}
	}
	c.Res.Count("outcome:accepted")
	c.Res.NonTrivial(key)
	if c.Res.Evaluations%10 == 1 {
		c.Res.Sample(map[string]any{"gprog_seed": cs.Seed, "schema_files": sortedFileNames(cs.Schema), "operation_files": sortedFileNames(cs.Ops), "repetitions": reps, "distinct_outputs": len(variants)})
	}
	if len(variants) > 1 {
		cls := "nondeterministic-output"
		c.Res.Add(proto.Finding{Kind: "violation", Class: cls, What: fmt.Sprintf("%d distinct outputs in %d runs on identical input (%v); first difference in %s", len(variants), reps, variants, firstDiff), Case: cs})
	}
}

func firstDifference(a, b []byte) string {
	la, lb := strings.Split(string(a), "\n"), strings.Split(string(b), "\n")
	for i := 0; i < len(la) && i < len(lb); i++ {
		if la[i] != lb[i] {
			return fmt.Sprintf("line %d: %q vs %q", i+1, la[i], lb[i])
		}
	}
	return fmt.Sprintf("length %d vs %d lines", len(la), len(lb))
}
