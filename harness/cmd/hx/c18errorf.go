package main

import (
	"errors"
	"fmt"

	"github.com/Khan/genqlient/generate"
	"github.com/vektah/gqlparser/v2/ast"
	"github.com/vektah/gqlparser/v2/gqlerror"

	"verifharness/internal/proto"
)

// c18Errorf: correspondence of generate/errors.go errorf with the Lean model (Genq.Errors.errorf) on random
// error trees: foreign errors, fmt.Errorf %w wrappers, *gqlerror.Error (with and without file / location /
// wrapped Err), gqlerror.List, and errorf calls with and without an explicit position, nested to any depth.
// Compared: the text of the outermost error.
func c18Errorf(c *Ctx) {
	files := []string{"ops.graphql", "dir/q.graphql", "pkg/queries.go:12", "pkg/queries.go:1", "", "a:b:c", "x.go:abc",
		"f.go:-3", "f.go:+7", "g.go:007", "h.go:", ":5", "big.go:9223372036854775808", "q.graphql:0"}
	words := []string{"", "bad", "op: ", " (sic)", "field x", ": ", "validating: ", "ü: ", "a\nb"}
	n := c.N(600, 60000)
	for i := 0; i < n; i++ {
		r := proto.NewRng(c.Seed, "c18/errorf", uint64(i))
		var build func(depth int, allowNone bool) (map[string]any, error)
		build = func(depth int, allowNone bool) (map[string]any, error) {
			k := r.Intn(6)
			if depth <= 0 {
				k = []int{0, 1, 3, 4}[r.Intn(4)]
			}
			if k == 0 && !allowNone {
				k = 1
			}
			switch k {
			case 0:
				return map[string]any{"k": "none"}, nil
			case 1:
				t := words[r.Intn(len(words))] + "E"
				return map[string]any{"k": "foreign", "text": t}, errors.New(t)
			case 2:
				pre := words[r.Intn(len(words))]
				m, e := build(depth-1, false)
				return map[string]any{"k": "wrapf", "pre": pre, "inner": m}, fmt.Errorf(pre+"%w", e)
			case 3:
				f := files[r.Intn(len(files))]
				msg := words[r.Intn(len(words))] + "G"
				g := &gqlerror.Error{Message: msg}
				mm := map[string]any{"k": "gql", "file": f, "msg": msg}
				if f != "" || r.Intn(2) == 0 {
					g.Extensions = map[string]interface{}{"file": f}
				}
				if r.Intn(3) != 0 {
					l := r.Intn(30)
					g.Locations = []gqlerror.Location{{Line: l, Column: 1 + r.Intn(5)}}
					if r.Intn(4) == 0 {
						g.Locations = append(g.Locations, gqlerror.Location{Line: l + 5})
					}
					mm["line"] = l
				}
				var inner map[string]any = map[string]any{"k": "none"}
				if depth > 0 && r.Intn(3) == 0 {
					im, ie := build(depth-1, false)
					inner, g.Err = im, ie
				}
				mm["inner"] = inner
				return mm, g
			case 4:
				var l gqlerror.List
				items := []any{}
				for j, m := 0, r.Intn(3); j < m; j++ {
					f := files[r.Intn(len(files))]
					msg := words[r.Intn(len(words))] + "L"
					g := &gqlerror.Error{Message: msg}
					it := map[string]any{"file": f, "msg": msg}
					if f != "" {
						g.Extensions = map[string]interface{}{"file": f}
					}
					if r.Intn(3) != 0 {
						ln := r.Intn(30)
						g.Locations = []gqlerror.Location{{Line: ln}}
						it["line"] = ln
					}
					l = append(l, g)
					items = append(items, it)
				}
				return map[string]any{"k": "list", "items": items}, l
			default:
				pre, post := words[r.Intn(len(words))], words[r.Intn(len(words))]
				mm := map[string]any{"k": "errorf", "pre": pre, "post": post}
				var pos *ast.Position
				if r.Intn(3) == 0 {
					f, l := files[r.Intn(len(files))], r.Intn(30)
					pos = &ast.Position{Src: &ast.Source{Name: f}, Line: l, Column: 1}
					mm["pos"] = map[string]any{"file": f, "line": l}
				}
				im, ie := build(depth-1, true)
				mm["inner"] = im
				if ie == nil {
					return mm, generate.VerifErrorf(pos, pre+post)
				}
				if r.Intn(2) == 0 { // the wrapped error need not be the first argument
					return mm, generate.VerifErrorf(pos, pre+"%v"+post+"%v", ie, "")
				}
				return mm, generate.VerifErrorf(pos, "%v"+pre+"%v"+post, "", ie)
			}
		}
		// the outermost node is always an errorf call: that is what Generate returns
		pre, post := words[r.Intn(len(words))], words[r.Intn(len(words))]
		top := map[string]any{"k": "errorf", "pre": pre, "post": post}
		var pos *ast.Position
		if r.Intn(4) == 0 {
			f, l := files[r.Intn(len(files))], r.Intn(30)
			pos = &ast.Position{Src: &ast.Source{Name: f}, Line: l, Column: 1}
			top["pos"] = map[string]any{"file": f, "line": l}
		}
		im, ie := build(1+r.Intn(4), true)
		top["inner"] = im
		var got string
		func() {
			defer func() {
				if p := recover(); p != nil {
					got = fmt.Sprintf("PANIC: %v", p)
				}
			}()
			if ie == nil {
				got = generate.VerifErrorf(pos, pre+post).Error()
			} else {
				got = generate.VerifErrorf(pos, pre+"%v"+post, ie).Error()
			}
		}()
		m := c.Model(map[string]any{"op": "errors.errorf", "err": top})
		c.Res.Eval()
		want, _ := m["text"].(string)
		kind := fmt.Sprint(im["k"])
		c.Res.Count("errorf:inner:" + kind)
		if pos != nil {
			c.Res.Count("errorf:explicit-position")
		}
		c.Res.NonTrivial("errorf|" + kind + "|" + fmt.Sprint(pos != nil) + "|" + fmt.Sprint(len(got) > 0 && got == want))
		if got != want {
			c.Res.Add(proto.Finding{Kind: "mismatch", Class: "errorf-model", What: fmt.Sprintf("errorf on %v: the code says %q, the model says %q", top, got, want), Case: top})
			return
		}
	}
}
