package main

import (
	"encoding/json"
	"fmt"
	"regexp"
	"strings"

	"verifharness/internal/gen"
	"verifharness/internal/proto"
)

func init() {
	register("C01", "G_prog programs over the whole supported fragment (objects, interfaces, unions, enums, input objects incl. recursive, lists and "+
		"non-null to depth 3, aliases, arguments, inline and named fragments, bound scalars, every genqlient.yaml option and every @genqlient "+
		"directive, validity-directed) are run through the real generator; accepted outputs are compiled in one batch against the graphql runtime "+
		"and the bound types; a rejection or a compile error for a program inside Spec.Supported is a violation; "+
		"non-trivial = distinct feature sets (kinds of types, options, directives used)", runC01)
}

type c01Case struct {
	Seed   uint64            `json:"gprog_seed"`
	Schema map[string]string `json:"schema"`
	Ops    map[string]string `json:"ops"`
	Cfg    ProgCfg           `json:"cfg"`
	Feat   []string          `json:"features,omitempty"`
}

var identRe = regexp.MustCompile(`[A-Za-z_][A-Za-z0-9_]*(\.[A-Za-z_][A-Za-z0-9_]*)*|\d+`)

// normalise a diagnostic into a failure signature (identifiers and numbers abstracted)
func errSignature(msg string) string {
	msg = firstLine(msg)
	keep := map[string]bool{"does": true, "not": true, "implement": true, "duplicate": true, "method": true, "field": true, "redeclared": true, "in": true, "this": true, "block": true,
		"ambiguous": true, "selector": true, "invalid": true, "recursive": true, "type": true, "cannot": true, "use": true, "as": true, "value": true, "assignment": true, "argument": true,
		"undefined": true, "missing": true, "return": true, "enough": true, "values": true, "have": true, "want": true, "declared": true, "and": true, "unused": true, "imported": true,
		"conflicting": true, "definition": true, "for": true, "unexpected": true, "interface": true, "had": true, "non": true, "object": true, "implementation": true, "internal": true,
		"error": true, "embedded": true, "was": true, "a": true, "struct": true, "genqlient": true, "failed": true, "to": true, "gofmt": true, "code": true, "unknown": true, "scalar": true,
		"is": true, "only": true, "applicable": true, "typed": true, "fields": true, "flatten": true, "supported": true, "yet": true, "of": true, "with": true, "pointer": true, "on": true,
		"omitempty": true, "may": true, "be": true, "used": true, "optional": true, "arguments": true, "together": true, "can": true, "input": true, "typename": true, "option": true, "conflicts": true,
		"global": true, "binding": true, "must": true, "go": true, "keyword": true, "match": true, "selection": true, "expected": true, "got": true, "does't": true}
	return strings.TrimSpace(identRe.ReplaceAllStringFunc(msg, func(s string) string {
		if keep[strings.ToLower(s)] {
			return strings.ToLower(s)
		}
		return "_"
	}))
}

func runC01(c *Ctx) {
	n := c.N(60, 1500)
	batchSize := 100
	if c.Replay != "" {
		var wrap struct{ Case c01Case `json:"case"` }
		b, err := osReadFile(c.Replay)
		if err == nil {
			err = json.Unmarshal(b, &wrap)
		}
		if err != nil {
			c.Res.Notes = append(c.Res.Notes, "replay unreadable")
			return
		}
		var lg struct{ Case struct{ Leg string `json:"leg"` } `json:"case"` }
		if json.Unmarshal(b, &lg) == nil && lg.Case.Leg == "own-package-binding" {
			c01OwnPackage(c) // the leg is a fixed set of four projects
			return
		}
		var rc struct{ Case c01RefsCase `json:"case"` }
		if json.Unmarshal(b, &rc) == nil && rc.Case.Leg == "refs" {
			c01Refs(c, rc.Case, true)
			return
		}
		c01Batch(c, []c01Case{wrap.Case})
		return
	}
	c01RefsLeg(c)
	c01OwnPackage(c)
	var cases []c01Case
	files, _ := filepathGlob(verifRoot + "/harness/corpus/C01/*.json")
	for _, f := range files {
		var wrap struct{ Case c01Case `json:"case"` }
		b, err := osReadFile(f)
		if err == nil && json.Unmarshal(b, &wrap) == nil {
			cases = append(cases, wrap.Case)
		}
	}
	for i := 0; i < n; i++ {
		seed := c.Seed*86028121 + uint64(i)
		// the deliberately invalid directive placement is not a supported program
		// ... and neither is a variable named like an imported package (graphql, sup, json): the property's
		// quantifier excludes names that collide with imported package names
		p := gen.GenerateSeed(seed, gen.Options{RateInvalidDir: -1, RateVarShadow: -1, Adversarial: i%7 == 3})
		pr := progFromGen(p)
		cases = append(cases, c01Case{Seed: seed, Schema: pr.Schema, Ops: pr.Ops, Cfg: pr.Cfg, Feat: p.FeatureNames()})
		if len(cases) >= batchSize {
			c01Batch(c, cases)
			cases = nil
		}
	}
	if len(cases) > 0 {
		c01Batch(c, cases)
	}
}

func c01Batch(c *Ctx, cases []c01Case) {
	srcs := map[string][]byte{}
	byPkg := map[string]c01Case{}
	for i, cs := range cases {
		c.Res.Eval()
		fail := func(kind, class, what string, impl any) {
			c.Res.Add(proto.Finding{Kind: kind, Class: class, What: what, Case: cs, Impl: impl})
		}
		out := runGenerate(c.Work, &Program{Schema: cs.Schema, Ops: cs.Ops, Cfg: cs.Cfg}, false)
		c01EventsModel(c, cs, out)
		key := strings.Join(cs.Feat, ",")
		if len(key) > 200 {
			key = key[:200]
		}
		c.Res.NonTrivial(key)
		switch {
		case out.Panic != nil || out.TimedOut:
			c.Res.Count("outcome:panic (C07)")
		case out.Err != nil:
			c.Res.Count("outcome:rejected")
			if strings.Contains(out.Err.Error(), "conflicting definition for") {
				// names.go: a clash of generated type names is reported as an error (C09 decides that it
				// is never resolved by wrong reuse); such name sets are outside C01's quantifier
				// ... unless the "clash" is between a place and itself: the generator converts some places more than
				// once (a field below an abstract type, once per implementation) and must recognise its own type
				falseClash := false
				for _, ev := range out.Events {
					if ev.Kind == "get:conflict" && ev.Existing && sameNeed(ev.GraphQLName, ev.Selection, ev.ExistingGraphQLName, ev.ExistingSelection) {
						falseClash = true
						fail("violation", "rejected: conflict-reported-for-identical-need", fmt.Sprintf("supported program rejected: a second visit of %s (%s {%s}) is reported as a conflicting definition: %s",
							ev.GoName, ev.GraphQLName, selsString(selsFromAST(ev.Selection)), firstLine(out.Err.Error())), nil)
						break
					}
				}
				if !falseClash {
					c.Res.Count("excluded:name-clash-reported")
				}
				continue
			}
			fail("violation", "rejected: "+errSignature(stripPos(out.Err.Error())), "supported program rejected: "+firstLine(out.Err.Error()), nil)
		default:
			c.Res.Count("outcome:accepted")
			name := fmt.Sprintf("p%03d", i)
			srcs[name] = out.Files["generated.go"]
			byPkg[name] = cs
		}
	}
	if len(srcs) == 0 {
		return
	}
	b, err := buildBatch(c.Work, srcs)
	if b != nil {
		defer b.Close()
	}
	if err != nil {
		c.Res.Notes = append(c.Res.Notes, "batch build failed: "+firstLine(err.Error()))
	}
	if b == nil {
		return
	}
	for name, p := range b.Pkgs {
		cs := byPkg[name]
		if p.OK {
			c.Res.Count("compile:ok")
			if c.Res.Distribution["compile:ok"]%25 == 1 {
				c.Res.Sample(map[string]any{"gprog_seed": cs.Seed, "features": cs.Feat, "generated_bytes": len(p.Src), "compiled": true})
			}
			continue
		}
		c.Res.Count("compile:failed")
		sig := "unknown"
		if len(p.CompileErrs) > 0 {
			sig = errSignature(p.CompileErrs[0])
		}
		all := strings.Join(p.CompileErrs, "\n")
		switch {
		case strings.Contains(all, "Option["):
			sig = "generic-optional-on-special-field" // F-01
		case strings.Contains(all, "client_.Subscribe undefined") || (strings.Contains(all, "not enough return values") && cs.Cfg.ClientGetter != ""):
			sig = "subscription-with-client-getter" // F-01g
		case strings.Contains(all, "duplicate method") || strings.Contains(all, "does not implement") || strings.Contains(all, "ambiguous selector"):
			sig = "interface-method-set-mismatch"
			if c01HasNamedSpreadOrFlatten(cs.Ops) {
				// F-01b is about fragment structs EMBEDDED into implementations (named spreads) and about flatten; a
				// program with inline fragments only cannot be an instance of it
				sig = "fragment-embedding-breaks-interface"
			}
		case strings.Contains(all, "invalid recursive type"):
			sig = "recursive-input-without-pointer" // F-01h
		case strings.Contains(all, "redeclared in this block"):
			sig = "redeclared-identifier"
		}
		c.Res.Add(proto.Finding{Kind: "violation", Class: "does-not-compile: " + sig,
			What: fmt.Sprintf("accepted program's output does not compile: %s", strings.Join(p.CompileErrs[:min(3, len(p.CompileErrs))], " | ")), Case: cs, Impl: p.CompileErrs})
	}
}

var posStripRe = regexp.MustCompile(`^[^\s:]+:\d+: `)

func stripPos(s string) string { return posStripRe.ReplaceAllString(s, "") }


// c01EventsModel replays the generation's type-map accesses through the model (a visit the model
// reuses must not be reported as a conflict by the generator, and vice versa)
func c01EventsModel(c *Ctx, cs c01Case, out *GenOut) {
	if len(out.Events) == 0 {
		return
	}
	c09Events(c, c09Case{Leg: "c01", Seed: cs.Seed, Schema: cs.Schema, Ops: cs.Ops, Cfg: cs.Cfg}, out)
}

var c01NamedSpreadRe = regexp.MustCompile(`\.\.\.\s*([A-Za-z_][A-Za-z0-9_]*)`)

func c01HasNamedSpreadOrFlatten(ops map[string]string) bool {
	for _, t := range ops {
		if strings.Contains(t, "flatten") {
			return true
		}
		for _, m := range c01NamedSpreadRe.FindAllStringSubmatch(t, -1) {
			if m[1] != "on" {
				return true
			}
		}
	}
	return false
}
