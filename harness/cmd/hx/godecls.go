package main

import (
	goast "go/ast"
	goparser "go/parser"
	gotoken "go/token"
	"strconv"
	"strings"
)

type goField struct {
	Name     string
	Type     string // source text of the type
	JSON     string // json tag name ("" when none, "-" when hidden)
	Embedded bool
	Omit     bool // json tag has ,omitempty
}

type goDecls struct {
	structs    map[string][]goField
	premarshal map[string][]string          // struct name -> JSON names of its __premarshal struct, in order
	premarshalGo map[string]map[string]string // struct name -> Go field name -> JSON name (from its __premarshal struct)
	premarshalFields map[string]map[string]goField // struct name -> Go field name -> its field in the __premarshal struct
	named map[string]string // non-struct named types: name -> underlying type text
	ifaceImpls map[string]map[string]string // Go interface name -> (__typename -> implementation struct)
	ifaceOrder map[string][]string
}

func tagJSON(tag string) string {
	tag = strings.Trim(tag, "`")
	i := strings.Index(tag, `json:"`)
	if i < 0 {
		return ""
	}
	rest := tag[i+6:]
	j := strings.IndexByte(rest, '"')
	if j < 0 {
		return ""
	}
	return strings.Split(rest[:j], ",")[0]
}

func parseGoDecls(src []byte) *goDecls {
	d := &goDecls{named: map[string]string{}, premarshalFields: map[string]map[string]goField{}, structs: map[string][]goField{}, premarshal: map[string][]string{}, premarshalGo: map[string]map[string]string{}, ifaceImpls: map[string]map[string]string{}, ifaceOrder: map[string][]string{}}
	fset := gotoken.NewFileSet()
	f, err := goparser.ParseFile(fset, "generated.go", src, 0)
	if err != nil {
		return d
	}
	for _, decl := range f.Decls {
		switch x := decl.(type) {
		case *goast.GenDecl:
			if x.Tok != gotoken.TYPE {
				continue
			}
			for _, sp := range x.Specs {
				ts := sp.(*goast.TypeSpec)
				st, ok := ts.Type.(*goast.StructType)
				if !ok {
					if _, isIface := ts.Type.(*goast.InterfaceType); !isIface {
						d.named[ts.Name.Name] = exprString(fset, ts.Type)
					}
					continue
				}
				var fs []goField
				for _, fl := range st.Fields.List {
					tag := ""
					if fl.Tag != nil {
						tag = fl.Tag.Value
					}
					if len(fl.Names) == 0 {
						fs = append(fs, goField{Name: exprString(fset, fl.Type), Type: exprString(fset, fl.Type), Embedded: true, JSON: tagJSON(tag)})
						continue
					}
					for _, n := range fl.Names {
						fs = append(fs, goField{Name: n.Name, Type: exprString(fset, fl.Type), JSON: tagJSON(tag), Omit: strings.Contains(tag, ",omitempty")})
					}
				}
				if strings.HasPrefix(ts.Name.Name, "__premarshal") {
					var names []string
					byGo := map[string]string{}
					pf := map[string]goField{}
					d.premarshalFields[strings.TrimPrefix(ts.Name.Name, "__premarshal")] = pf
					for _, x := range fs {
						pf[x.Name] = x
						names = append(names, x.JSON)
						byGo[x.Name] = x.JSON
					}
					d.premarshal[strings.TrimPrefix(ts.Name.Name, "__premarshal")] = names
					d.premarshalGo[strings.TrimPrefix(ts.Name.Name, "__premarshal")] = byGo
				} else {
					d.structs[ts.Name.Name] = fs
				}
			}
		case *goast.FuncDecl:
			// func __unmarshalX(b []byte, v *X) error { ... switch tn.TypeName { case "T": *v = new(XT) ... } }
			if x.Recv != nil || !strings.HasPrefix(x.Name.Name, "__unmarshal") || x.Body == nil {
				continue
			}
			iface := strings.TrimPrefix(x.Name.Name, "__unmarshal")
			goast.Inspect(x.Body, func(n goast.Node) bool {
				sw, ok := n.(*goast.SwitchStmt)
				if !ok {
					return true
				}
				for _, cc := range sw.Body.List {
					cl := cc.(*goast.CaseClause)
					for _, e := range cl.List {
						bl, ok := e.(*goast.BasicLit)
						if !ok || bl.Kind != gotoken.STRING {
							continue
						}
						tn, _ := strconv.Unquote(bl.Value)
						if tn == "" {
							continue
						}
						impl := ""
						goast.Inspect(cl, func(m goast.Node) bool {
							if ce, ok := m.(*goast.CallExpr); ok {
								if id, ok := ce.Fun.(*goast.Ident); ok && id.Name == "new" && len(ce.Args) == 1 {
									impl = exprString(fset, ce.Args[0])
								}
							}
							return true
						})
						if d.ifaceImpls[iface] == nil {
							d.ifaceImpls[iface] = map[string]string{}
						}
						d.ifaceImpls[iface][tn] = impl
						d.ifaceOrder[iface] = append(d.ifaceOrder[iface], tn)
					}
				}
				return false
			})
		}
	}
	return d
}

// fieldTree renders a struct's fields for the driver: embedded structs carry their own fields
func (d *goDecls) fieldTree(fs []goField, depth int) []any {
	return d.fieldTreeOf("", fs, depth)
}

func (d *goDecls) fieldTreeOf(owner string, fs []goField, depth int) []any {
	out := []any{}
	for _, f := range fs {
		if !f.Embedded && f.JSON == "-" {
			// a field handled by generated (un)marshalers: its response key is in the owner's __premarshal struct
			if j, ok := d.premarshalGo[owner][f.Name]; ok {
				f.JSON = j
			}
		}
		if f.Embedded {
			name := strings.TrimPrefix(f.Type, "*")
			if strings.Contains(name, ".") { // graphql.NoUnmarshalJSON etc.
				continue
			}
			var sub []any
			if depth < 12 {
				sub = d.fieldTreeOf(name, d.structs[name], depth+1)
			}
			out = append(out, map[string]any{"embedded": true, "name": name, "sub": sub})
			continue
		}
		out = append(out, map[string]any{"embedded": false, "name": f.Name, "json": f.JSON})
	}
	return out
}
