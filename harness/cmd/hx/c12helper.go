package main

import (
	"fmt"
	"strings"

	"verifharness/internal/gen"
	"verifharness/internal/proto"
)

// c12HelperLeg: the generated helper's half of C12 on compiled code: "the generated helper returns the error
// unchanged together with a non-nil response struct, also when it fails before sending (no client obtainable)".
// Every query/mutation helper of G_prog programs is called (probe binary) with a client that fails, and — when the
// program configures a client getter — with a getter that fails.
func c12HelperLeg(c *Ctx) {
	n := c.N(16, 200)
	var srcs = map[string][]byte{}
	byPkg := map[string]c04Case{}
	for i := 0; i < n; i++ {
		seed := c.Seed*2750159 + uint64(i)
		o := safeOpts
		o.NoSubscriptions = true
		p := gen.GenerateSeed(seed, o)
		pr := progFromGen(p)
		if i%2 == 0 && pr.Cfg.ClientGetter == "" {
			// make sure the getter path is exercised: configure one that matches the context type
			switch pr.Cfg.ContextType {
			case "-":
				pr.Cfg.ClientGetter = "verifharness/sup.GetClientNoCtx"
			case "", "context.Context":
				pr.Cfg.ClientGetter = "verifharness/sup.GetClient"
			default:
				pr.Cfg.ClientGetter = "verifharness/sup.GetClientMyCtx"
			}
		}
		cs := c04Case{Seed: seed, Schema: pr.Schema, Ops: pr.Ops, Cfg: pr.Cfg}
		out := runGenerate(c.Work, &Program{Schema: cs.Schema, Ops: cs.Ops, Cfg: cs.Cfg}, false)
		if out.Panic != nil || out.TimedOut || out.Err != nil {
			c.Res.Count("helper:skipped-not-accepted")
			continue
		}
		name := fmt.Sprintf("p%03d", i)
		srcs[name] = out.Files["generated.go"]
		byPkg[name] = cs
	}
	if len(srcs) == 0 {
		return
	}
	b, err := buildBatch(c.Work, srcs)
	if b != nil {
		defer b.Close()
	}
	if err != nil || b == nil {
		c.Res.Notes = append(c.Res.Notes, "helper leg: batch build failed: "+firstLine(fmt.Sprint(err)))
		return
	}
	for _, pkg := range sortedPkgNames(b) {
		if !b.Pkgs[pkg].OK {
			c.Res.Count("helper:skipped-does-not-compile (C01)")
			continue
		}
		cs := byPkg[pkg]
		src := string(b.Pkgs[pkg].Src)
		for _, m := range dataTypeRe.FindAllStringSubmatch(src, -1) {
			op := m[1]
			one := cs
			one.Op = op
			for _, mode := range []string{"clientFails", "getterFails", "ok"} {
				if mode == "getterFails" && cs.Cfg.ClientGetter == "" {
					continue
				}
				c.Res.Eval()
				req := map[string]any{"cmd": "call", "pkg": pkg, "func": op, "args": []any{}}
				if mode != "ok" {
					req[mode] = true
				}
				res := b.Call(req)
				fail := func(kind, class, what string) {
					c.Res.Add(proto.Finding{Kind: kind, Class: class, What: what, Case: map[string]any{"leg": "helper", "mode": mode, "program": one}})
				}
				if _, ok := res["crash"]; ok {
					return
				}
				if p, ok := res["panic"]; ok {
					fail("violation", "helper-panic", fmt.Sprintf("helper %s panicked (%s): %v", op, mode, p))
					continue
				}
				if _, ok := res["argErr"]; ok {
					continue
				}
				c.Res.Count("helper:" + mode)
				c.Res.NonTrivial(fmt.Sprintf("helper|%s|getter=%v|ctx=%s", mode, cs.Cfg.ClientGetter != "", cs.Cfg.ContextType))
				dataNil, _ := res["dataNil"].(bool)
				nreq := fmt.Sprint(res["nreq"])
				injected, _ := res["errIsInjected"].(bool)
				// model
				mreq := map[string]any{"op": "resp.helper"}
				if cs.Cfg.ClientGetter != "" {
					mreq["getterFails"] = mode == "getterFails"
				}
				mr := c.Model(mreq)
				wantNonNil, _ := mr["dataNonNil"].(bool)
				if wantNonNil == dataNil {
					fail("mismatch", "helper-model", fmt.Sprintf("helper %s (%s): data nil=%v, model non-nil=%v", op, mode, dataNil, wantNonNil))
				}
				switch mode {
				case "clientFails":
					if dataNil {
						fail("violation", "helper-returns-nil-struct", fmt.Sprintf("helper %s returned a nil response struct when the client failed", op))
					}
					if !injected {
						fail("violation", "helper-changes-error", fmt.Sprintf("helper %s did not return the client's error unchanged: %v", op, res["err"]))
					}
					if nreq != "1" {
						fail("violation", "helper-request-count", fmt.Sprintf("helper %s made %s requests", op, nreq))
					}
				case "getterFails":
					if !injected {
						fail("violation", "helper-changes-error", fmt.Sprintf("helper %s did not return the getter's error unchanged: %v", op, res["err"]))
					}
					if nreq != "0" {
						fail("violation", "helper-request-count", fmt.Sprintf("helper %s made %s requests although no client could be obtained", op, nreq))
					}
					if dataNil {
						fail("violation", "helper-returns-nil-struct-on-getter-failure", fmt.Sprintf("helper %s returned a nil response struct when no client could be obtained (client_getter %s failed)", op, cs.Cfg.ClientGetter[strings.LastIndex(cs.Cfg.ClientGetter, ".")+1:]))
					}
				case "ok":
					if dataNil || res["err"] != nil {
						fail("violation", "helper-ok-path", fmt.Sprintf("helper %s with a succeeding client: data nil=%v err=%v", op, dataNil, res["err"]))
					}
				}
			}
		}
	}
}
