package main

import (
	"encoding/json"
	"fmt"
	"math"
	"os"
	"regexp"
	"strings"

	"github.com/vektah/gqlparser/v2/ast"
	"verifharness/internal/gen"
	"verifharness/internal/proto"
)

func init() {
	rule := "G_prog programs are generated, compiled in a batch and loaded into a probe binary; for every query/mutation the EMITTED document is " +
		"executed by an independent reference executor (CollectFields with type conditions and @skip/@include, response-key merging, null only at " +
		"nullable positions, lists of length 0-3, a random concrete type at every abstract position) and each response is unmarshaled into the " +
		"generated response type by the probe, which dumps the value by reflection (nil vs empty, dynamic types, embedded structs, getters); "
	register("C02", rule+"oracle: every response key is readable, with the response's value, at the field tagged with it in the struct and in every embedded "+
		"fragment struct that carries it, abstract values hold the struct of the response's __typename, nulls become nil/unset/zero; "+
		"non-trivial = distinct (program, response shape) pairs containing an abstract value, a fragment embed or a null", func(c *Ctx) { runResp(c, "C02") })
	register("C06", rule+"oracle: Unmarshal(Marshal(v)) is deeply equal to v; Marshal(v) equals the response up to key order and null-vs-zero loss with each "+
		"response key exactly once (counted on the raw bytes) and __typename present for abstract values; the model's flattened field list is "+
		"compared with the __premarshal struct of the real output", func(c *Ctx) { runResp(c, "C06") })
	register("C19", rule+"plus structural mutations of each response (scalar<->object<->list, depth +-1, __typename dropped/renamed/retagged/non-string, duplicate and "+
		"case-changed keys) and raw byte mutations; oracle: no panic, no hang, and a successful decode never holds, at an abstract position, "+
		"a struct other than the one for the __typename present in the input there", func(c *Ctx) { runResp(c, "C19") })
}

type respCase struct {
	Seed     uint64            `json:"gprog_seed"`
	Schema   map[string]string `json:"schema"`
	Ops      map[string]string `json:"ops"`
	Cfg      ProgCfg           `json:"cfg"`
	Op       string            `json:"operation,omitempty"`
	Response string            `json:"response,omitempty"`
	Mutation string            `json:"mutation,omitempty"`
	Asym     bool              `json:"asymmetric_binding,omitempty"` // some binding has only one of marshaler/unmarshaler
}

var dataTypeRe = regexp.MustCompile(`(?m)^func ([A-Za-z]\w*)\(\n(?:\t.*\n)*?\) \(data_ \*(\w+),`)

// scalar kinds of the support types (what JSON they accept)
var supKinds = map[string]string{"Date": "date", "Stamp": "stamp", "Count": "int", "Real": "float", "Flag": "bool", "Raw": "raw", "Money": "money", "ID": "string", "Text": "string", "Blob": "base64", "Tag": "string", "Time": "stamp"}

func scalarKinds(cfg ProgCfg) map[string]string {
	out := map[string]string{}
	for gql, b := range cfg.Bindings {
		t := b["type"]
		name := t[strings.LastIndex(t, ".")+1:]
		switch {
		case supKinds[name] != "":
			out[gql] = supKinds[name]
		case strings.HasPrefix(t, "map["):
			out[gql] = "object"
		case t == "interface{}" || t == "any":
			out[gql] = "raw"
		case strings.HasPrefix(t, "int") || strings.HasPrefix(t, "uint"):
			out[gql] = "int"
		case strings.HasPrefix(t, "float"):
			out[gql] = "float"
		case t == "bool":
			out[gql] = "bool"
		default:
			out[gql] = "string"
		}
	}
	return out
}

func runResp(c *Ctx, prop string) {
	n := c.N(70, 1200)
	perOp := c.N(5, 40)
	var cases []respCase
	if c.Replay != "" {
		var wrap struct{ Case respCase `json:"case"` }
		b, err := osReadFile(c.Replay)
		if err == nil {
			err = json.Unmarshal(b, &wrap)
		}
		if err != nil {
			c.Res.Notes = append(c.Res.Notes, "replay unreadable")
			return
		}
		respBatch(c, prop, []respCase{wrap.Case}, perOp)
		return
	}
	files, _ := filepathGlob(verifRoot + "/harness/corpus/" + prop + "/*.json")
	for _, f := range files {
		var wrap struct{ Case respCase `json:"case"` }
		b, err := osReadFile(f)
		if err == nil && json.Unmarshal(b, &wrap) == nil {
			cases = append(cases, wrap.Case)
		}
	}
	for i := 0; i < n; i++ {
		seed := c.Seed*49979687 + uint64(i)
		o := safeOpts
		o.RateNoTypeCond, o.RateIfaceIface = 12, 8 // valid constructs (repaired: F-07, F-01c)
		o.NoSubscriptions = true
		p := gen.GenerateSeed(seed, o)
		pr := progFromGen(p)
		if strings.Contains(p.OperationsText(), "bind:") {
			// a field-level binding makes the accepted wire values those of the bound Go type, not of the
			// GraphQL type the executor knows; such programs are left to C10 (types) and C01 (compiles)
			c.Res.Count("excluded:field-level-bind")
			continue
		}
		if prop == "C06" {
			asym := false
			for _, b := range pr.Cfg.Bindings {
				if (b["marshaler"] == "") != (b["unmarshaler"] == "") {
					asym = true // a binding with only one of marshaler/unmarshaler reads and writes different wire formats by design
				}
			}
			if asym {
				// values of such leaves are not comparable after a round trip; the structural clauses (every key once,
				// no key lost, __typename present for abstract values) still are
				c.Res.Count("asymmetric-binding:structural-clauses-only")
				cases = append(cases, respCase{Seed: seed, Schema: pr.Schema, Ops: pr.Ops, Cfg: pr.Cfg, Asym: true})
				continue
			}
		}
		cases = append(cases, respCase{Seed: seed, Schema: pr.Schema, Ops: pr.Ops, Cfg: pr.Cfg})
		if len(cases) >= 60 {
			respBatch(c, prop, cases, perOp)
			cases = nil
		}
	}
	if len(cases) > 0 {
		respBatch(c, prop, cases, perOp)
	}
}

func respBatch(c *Ctx, prop string, cases []respCase, perOp int) {
	srcs := map[string][]byte{}
	byPkg := map[string]respCase{}
	for i, cs := range cases {
		out := runGenerate(c.Work, &Program{Schema: cs.Schema, Ops: cs.Ops, Cfg: cs.Cfg}, false)
		if out.Panic != nil || out.TimedOut || out.Err != nil {
			c.Res.Count("skipped:not-accepted")
			continue
		}
		name := fmt.Sprintf("p%03d", i)
		srcs[name] = out.Files["generated.go"]
		byPkg[name] = cs
	}
	if len(srcs) == 0 {
		return
	}
	b, err := buildBatch(c.Work, srcs)
	if b != nil {
		defer b.Close()
	}
	if err != nil || b == nil {
		c.Res.Notes = append(c.Res.Notes, "batch build failed: "+firstLine(fmt.Sprint(err)))
		return
	}
	for _, name := range sortedPkgNames(b) {
		p := b.Pkgs[name]
		if !p.OK {
			c.Res.Count("skipped:does-not-compile (C01)")
			continue
		}
		respProgram(c, prop, b, name, byPkg[name], string(p.Src), perOp)
	}
}

func sortedPkgNames(b *Batch) []string {
	var ns []string
	for n := range b.Pkgs {
		ns = append(ns, n)
	}
	sortStrings(ns)
	return ns
}

func respProgram(c *Ctx, prop string, b *Batch, pkg string, cs respCase, src string, perOp int) {
	if os.Getenv("HX_DEBUG") != "" {
		fmt.Fprintln(os.Stderr, "respProgram", pkg, len(src), dataTypeRe.FindAllStringSubmatch(src, -1))
	}
	schemaDocs := []string{}
	for _, k := range sortedKeys(cs.Schema) {
		schemaDocs = append(schemaDocs, cs.Schema[k])
	}
	schema, err := loadSchema(schemaDocs)
	if err != nil {
		return
	}
	consts, _ := c03Constants([]byte(src))
	if prop == "C06" {
		c06Flatten(c, cs, src)
	}
	if prop == "C02" {
		c02CollectModel(c, cs, schema, src)
	}
	for _, m := range dataTypeRe.FindAllStringSubmatch(src, -1) {
		opName, respType := m[1], m[2]
		if cs.Op != "" && cs.Op != opName {
			continue
		}
		text, ok := consts[opName]
		if !ok {
			continue
		}
		doc, err := parseAndValidate(schema, text)
		if err != nil || len(doc.Operations) != 1 {
			continue // C03's finding
		}
		op := doc.Operations[0]
		for k := 0; k < perOp; k++ {
			ex := &executor{schema: schema, doc: doc, r: proto.NewRng(c.Seed^cs.Seed, "resp/"+opName, uint64(k)), stats: map[string]int{}, scalarKind: scalarKinds(cs.Cfg)}
			data := ex.executeOperation(op)
			if data == nil {
				continue
			}
			var js []byte
			if cs.Response != "" && cs.Op == opName {
				js = []byte(cs.Response)
				if k > 0 {
					break
				}
			} else {
				js, err = json.Marshal(data)
				if err != nil {
					continue
				}
			}
			one := cs
			one.Op, one.Response = opName, string(js)
			switch prop {
			case "C02":
				c02One(c, b, pkg, one, respType, schema, ex, op, js)
			case "C06":
				c06One(c, b, pkg, one, respType, ex, js)
			case "C19":
				c19One(c, b, pkg, one, respType, schema, ex, op, js, k)
			}
		}
	}
}

// ---------- C02: faithful ----------

type dumpNode = map[string]any

func c02One(c *Ctx, b *Batch, pkg string, cs respCase, respType string, schema *ast.Schema, ex *executor, op *ast.OperationDefinition, js []byte) {
	c.Res.Eval()
	fail := func(class, what string, impl any) {
		c.Res.Add(proto.Finding{Kind: "violation", Class: class, What: what, Case: cs, Impl: impl})
	}
	r := b.Call(map[string]any{"cmd": "unmarshal", "pkg": pkg, "type": respType, "json": string(js)})
	codecCompare(c, parseGoDecls(b.Pkgs[pkg].Src), cs, respType, string(js), r)
	if cr, ok := r["crash"]; ok {
		fail("probe-crash", fmt.Sprint(cr), nil)
		return
	}
	if p, ok := r["panic"]; ok {
		fail("decode-panic", fmt.Sprintf("unmarshaling a conformant response panicked: %v", p), r["stack"])
		return
	}
	if e, ok := r["err"]; ok {
		fail("conformant-response-rejected: "+errSignature(fmt.Sprint(e)), fmt.Sprintf("unmarshaling a conformant response of %s failed: %v", cs.Op, e), nil)
		return
	}
	var resp map[string]any
	dec := json.NewDecoder(strings.NewReader(string(js)))
	dec.UseNumber()
	dec.Decode(&resp)
	dump, _ := r["dump"].(map[string]any)
	root := schema.Query
	if op.Operation == ast.Mutation {
		root = schema.Mutation
	}
	w := &faithWalker{ex: ex, schema: schema, decls: parseGoDecls(b.Pkgs[pkg].Src)}
	w.object(root, op.SelectionSet, resp, dump, cs.Op)
	key := fmt.Sprintf("%d|%s|abs=%d|null=%d|embed=%d", cs.Seed, cs.Op, min(ex.stats["abstract"], 3), min(ex.stats["null"], 3), min(w.embeds, 3))
	if ex.stats["abstract"] > 0 || ex.stats["null"] > 0 || w.embeds > 0 {
		c.Res.NonTrivial(key)
	}
	c.Res.Count("responses")
	if c.Res.Evaluations%120 == 1 {
		c.Res.Sample(map[string]any{"gprog_seed": cs.Seed, "operation": cs.Op, "response": trunc(string(js), 400), "abstract_values": ex.stats["abstract"], "nulls": ex.stats["null"]})
	}
	seen := map[string]bool{}
	twins := hasFoldTwinKeys(string(js))
	for _, p := range w.problems {
		cls := p[0]
		if twins && cls != "abstract-value-mistyped" {
			// some object of the response has two keys that differ only in letter case: encoding/json's case-insensitive
			// key matching lets a struct that selects only one of them read the other (known finding F-02t)
			cls = "fold-twin-keys:" + cls
		}
		if !seen[cls] {
			seen[cls] = true
			fail(cls, p[1], nil)
		}
	}
}

// hasFoldTwinKeys: does some JSON object in the text have two different keys that are equal under case folding?
func hasFoldTwinKeys(text string) bool {
	var v any
	d := json.NewDecoder(strings.NewReader(text))
	d.UseNumber()
	if d.Decode(&v) != nil {
		return false
	}
	var walk func(x any) bool
	walk = func(x any) bool {
		switch t := x.(type) {
		case map[string]any:
			low := map[string]string{}
			for k, vv := range t {
				if o, ok := low[strings.ToLower(k)]; ok && o != k {
					return true
				}
				low[strings.ToLower(k)] = k
				if walk(vv) {
					return true
				}
			}
		case []any:
			for _, vv := range t {
				if walk(vv) {
					return true
				}
			}
		}
		return false
	}
	return walk(v)
}

type faithWalker struct {
	typesOnly bool // C19: only check that abstract values hold a struct of a possible type named by the input
	noStructOpt bool // no `struct:` option occurs anywhere in the program: every abstract position must be dispatched on __typename
	decls    *goDecls
	ex       *executor
	schema   *ast.Schema
	problems [][2]string
	embeds   int
}

func (w *faithWalker) bad(class, what string) {
	if w.typesOnly && !strings.HasPrefix(class, "abstract-value-mistyped") {
		return
	}
	if len(w.problems) < 8 {
		w.problems = append(w.problems, [2]string{class, what})
	}
}

// unwrapToStruct strips pointers, optionals and interface boxes; reports the dynamic type seen
func unwrapValue(d dumpNode) (dumpNode, string) {
	dyn := ""
	for d != nil {
		switch d["t"] {
		case "ptr", "opt":
			d, _ = d["v"].(map[string]any)
		case "iface":
			dyn, _ = d["dyn"].(string)
			d, _ = d["v"].(map[string]any)
		default:
			return d, dyn
		}
	}
	return nil, dyn
}

func isNilLike(d dumpNode) bool {
	switch d["t"] {
	case "nil-ptr", "nil-slice", "nil-iface", "opt-unset":
		return true
	case "val":
		z, _ := d["zero"].(bool)
		return z
	case "struct":
		return true // zero struct of a nullable object under `optional: value`
	}
	return false
}

// fieldsTagged: every (struct path, field dump) in `st` (and its embedded structs) whose json tag is key
func (w *faithWalker) fieldsTagged(st dumpNode, key string, path string, out *[][2]any) {
	fs, _ := st["f"].([]any)
	for _, f := range fs {
		fa := f.([]any)
		name, _ := fa[0].(string)
		anon, _ := fa[1].(bool)
		tag, _ := fa[2].(string)
		val, _ := fa[3].(map[string]any)
		if anon {
			inner, _ := unwrapValue(val)
			if inner != nil && inner["t"] == "struct" {
				w.embeds++
				w.fieldsTagged(inner, key, path+"."+name, out)
			}
			continue
		}
		t := strings.Split(tag, ",")[0]
		if t == key {
			*out = append(*out, [2]any{path + "." + name, val})
		} else if t == "-" {
			// fields decoded by generated code carry json:"-"; their response key is the tag of the same
			// field in the struct's own __premarshal struct
			owner, _ := st["name"].(string)
			if w.decls.premarshalGo[owner][name] == key {
				*out = append(*out, [2]any{path + "." + name, val})
			}
		}
	}
}

func (w *faithWalker) object(obj *ast.Definition, ss ast.SelectionSet, x map[string]any, st dumpNode, path string) {
	if st == nil || st["t"] != "struct" {
		w.bad("object-not-struct", fmt.Sprintf("%s: response has an object, Go value is %v", path, st["t"]))
		return
	}
	var groups []*collected
	w.ex.collectFields(obj, ss, map[string]bool{}, &groups)
	for _, g := range groups {
		xv, present := x[g.key]
		if !present {
			continue
		}
		var locs [][2]any
		w.fieldsTagged(st, g.key, path, &locs)
		if len(locs) == 0 && g.key == "__typename" {
			// genqlient adds __typename to abstract selections for its own dispatch; where the user did not
			// select it (e.g. under `flatten`) there is no documented field for it
			continue
		}
		if len(locs) == 0 {
			w.bad("value-dropped", fmt.Sprintf("%s: response key %q (type %s) has no field in %v or its embedded fragment structs", path, g.key, obj.Name, st["name"]))
			continue
		}
		f := g.fields[0]
		var ft *ast.Type
		if f.Name == "__typename" {
			ft = ast.NonNullNamedType("String", nil)
		} else if fd := obj.Fields.ForName(f.Name); fd != nil {
			ft = fd.Type
		} else {
			continue
		}
		var sub ast.SelectionSet
		for _, y := range g.fields {
			sub = append(sub, y.SelectionSet...)
		}
		for _, l := range locs {
			w.value(ft, sub, xv, l[1].(map[string]any), l[0].(string))
		}
	}
	// getters agree with fields
	if gs, ok := st["g"].(map[string]any); ok {
		fs, _ := st["f"].([]any)
		for _, f := range fs {
			fa := f.([]any)
			name, _ := fa[0].(string)
			if gv, ok := gs["Get"+name]; ok {
				a, _ := json.Marshal(normNilSlices(gv))
				b, _ := json.Marshal(normNilSlices(fa[3]))
				if string(a) != string(b) {
					i := 0
					for i < len(a) && i < len(b) && a[i] == b[i] {
						i++
					}
					w.bad("getter-differs", fmt.Sprintf("%s: Get%s() returns something else than field %s: getter …%s vs field …%s", path, name, name, trunc(string(a[max(0, i-60):]), 160), trunc(string(b[max(0, i-60):]), 160)))
				}
			}
		}
	}
}

func (w *faithWalker) value(t *ast.Type, sub ast.SelectionSet, x any, d dumpNode, path string) {
	if d == nil {
		w.bad("dump-missing", path)
		return
	}
	if x == nil {
		if d["t"] == "slice" {
			if xs, _ := d["v"].([]any); len(xs) == 0 {
				w.bad("null-list-decoded-as-empty-slice", fmt.Sprintf("%s: response null for a list, Go value is an empty non-nil slice", path))
				return
			}
		}
		if ty, _ := d["type"].(string); d["t"] == "val" && strings.Contains(ty, "sup.") {
			return // a bound type decides itself what null means (sup.Raw keeps the literal)
		}
		if !isNilLike(d) {
			w.bad("null-not-nil", fmt.Sprintf("%s: response null, Go value %v", path, d["t"]))
		}
		return
	}
	if t.Elem != nil {
		xs, ok := x.([]any)
		inner, _ := unwrapValue(d)
		if !ok || inner == nil {
			w.bad("list-shape", fmt.Sprintf("%s: response list vs Go %v", path, d["t"]))
			return
		}
		if inner["t"] == "nil-slice" && len(xs) == 0 {
			w.bad("empty-list-decoded-as-nil", fmt.Sprintf("%s: response [] decoded as a nil slice", path))
			return
		}
		ds, _ := inner["v"].([]any)
		if inner["t"] != "slice" || len(ds) != len(xs) {
			w.bad("list-length", fmt.Sprintf("%s: response list of %d, Go %v of %d", path, len(xs), inner["t"], len(ds)))
			return
		}
		for i := range xs {
			w.value(t.Elem, sub, xs[i], ds[i].(map[string]any), fmt.Sprintf("%s[%d]", path, i))
		}
		return
	}
	def := w.schema.Types[t.NamedType]
	if def == nil {
		return
	}
	switch def.Kind {
	case ast.Object, ast.Interface, ast.Union:
		xo, ok := x.(map[string]any)
		if !ok {
			return
		}
		st, dyn := unwrapValue(d)
		rt := def
		if def.Kind != ast.Object {
			tn, _ := xo["__typename"].(string)
			if tn == "" {
				tn = lastFoldMatch(xo, "__typename") // encoding/json matches keys case-insensitively
			}
			if w.noStructOpt && st != nil {
				// a value was produced for an abstract position: the input's __typename must name one of its possible types
				okType := false
				for _, po := range w.ex.possibleObjects(def) {
					okType = okType || po.Name == tn
				}
				if !okType {
					cls := "abstract-value-mistyped"
					if w.flattenedToSuperInterface(def, dyn) {
						// the field's interface type implements the interface the flattened fragment is on: the Go field has
						// the FRAGMENT's interface type, whose switch knows all implementations of the wider interface
						// (known finding F-19j)
						cls += ":flatten-to-super-interface"
					}
					w.bad(cls, fmt.Sprintf("%s: input has __typename %q (missing or not a possible type of %s), yet a value of Go type %v %s was decoded instead of an error", path, tn, def.Name, d["t"], dyn))
					return
				}
			}
			rt = w.schema.Types[tn]
			if rt == nil {
				return
			}
			if dyn != "" {
				okType := false
				for _, po := range w.ex.possibleObjects(def) {
					okType = okType || po.Name == tn
				}
				if !okType {
					w.bad("abstract-value-mistyped", fmt.Sprintf("%s: input has __typename %q, which is not a possible type of %s, yet it decoded into %s", path, tn, def.Name, dyn))
					return
				}
			}
			if inner, _ := unwrapValue(d); inner != nil && inner["t"] == "struct" && dyn == "" {
				// `struct: true`: the abstract type is represented by one struct
			} else if dyn == "" {
				w.bad("abstract-not-interface", fmt.Sprintf("%s: abstract position holds %v", path, d["t"]))
				return
			}
		}
		if st == nil {
			w.bad("object-decoded-as-nil", fmt.Sprintf("%s: response object, Go value nil", path))
			return
		}
		w.object(rt, sub, xo, st, path)
	default:
		v, _ := unwrapValue(d)
		if v == nil || v["t"] != "val" {
			if v != nil && v["t"] == "nil-ptr" {
				w.bad("scalar-decoded-as-nil", fmt.Sprintf("%s: response %v, Go nil", path, x))
			}
			return
		}
		ty, _ := v["type"].(string)
		if strings.HasSuffix(ty, "sup.Money") {
			return // bound with an unmarshaler only: what the dump writes (default JSON) is not the wire format it read
		}
		// sup.Blob is bound with a marshaler only: it is READ with default JSON (base64), which is also what the dump
		// writes, so the value must be there
		got := v["v"]
		if !sameScalar(x, got, strings.Contains(ty, "sup.")) {
			gj, _ := json.Marshal(got)
			xj, _ := json.Marshal(x)
			w.bad("scalar-differs", fmt.Sprintf("%s: response %s, Go value %s (%s)", path, xj, gj, ty))
		}
	}
}

func sameScalar(x, got any, custom bool) bool {
	xj, _ := json.Marshal(x)
	gj, _ := json.Marshal(got)
	if string(xj) == string(gj) {
		return true
	}
	var a, b any
	json.Unmarshal(xj, &a)
	json.Unmarshal(gj, &b)
	fa, ok1 := a.(float64)
	fb, ok2 := b.(float64)
	if ok1 && ok2 {
		return fa == fb || math.Abs(fa-fb) <= 1e-9*math.Max(math.Abs(fa), math.Abs(fb))
	}
	if custom {
		// bound types may canonicalise (time formats, raw JSON spacing): compare after re-decoding
		ja, _ := json.Marshal(a)
		jb, _ := json.Marshal(b)
		if string(ja) == string(jb) {
			return true
		}
		sa, oka := a.(string)
		sb, okb := b.(string)
		if oka && okb {
			// bound time types re-format their text: any two date/time-looking strings are accepted; other strings must be equal
			return strings.TrimRight(strings.TrimRight(sa, "Z"), "0") == strings.TrimRight(strings.TrimRight(sb, "Z"), "0") || looksLikeTime(sa) && looksLikeTime(sb)
		}
	}
	return false
}

// c02CollectModel: for every object type T and every operation, the Lean model's genqKeys/specKeys on the
// operation's root-level inline-fragment structure (named fragments skipped) — spec side against the harness's
// executor, genqlient side against the tags of the generated response struct when T is the root type.
func c02CollectModel(c *Ctx, cs respCase, schema *ast.Schema, src string) {
	var types []any
	for name, d := range schema.Types {
		if strings.HasPrefix(name, "__") {
			continue
		}
		var kind string
		switch d.Kind {
		case ast.Object, ast.Interface, ast.Union:
			kind = string(d.Kind)
		default:
			continue
		}
		ifs, ms := []any{}, []any{}
		for _, i := range d.Interfaces {
			ifs = append(ifs, i)
		}
		for _, m := range d.Types {
			ms = append(ms, m)
		}
		types = append(types, map[string]any{"name": name, "kind": kind, "interfaces": ifs, "members": ms})
	}
	decls := parseGoDecls([]byte(src))
	consts, _ := c03Constants([]byte(src))
	for _, m := range dataTypeRe.FindAllStringSubmatch(src, -1) {
		opName, respType := m[1], m[2]
		doc, err := parseAndValidate(schema, consts[opName])
		if err != nil || len(doc.Operations) != 1 {
			continue
		}
		op := doc.Operations[0]
		root := schema.Query
		if op.Operation == ast.Mutation {
			root = schema.Mutation
		}
		var conv func(ss ast.SelectionSet) []any
		hasSpread := false
		conv = func(ss ast.SelectionSet) []any {
			out := []any{}
			for _, s := range ss {
				switch s := s.(type) {
				case *ast.Field:
					out = append(out, map[string]any{"key": s.Alias})
				case *ast.InlineFragment:
					out = append(out, map[string]any{"cond": s.TypeCondition, "sub": conv(s.SelectionSet)})
				case *ast.FragmentSpread:
					hasSpread = true
				}
			}
			return out
		}
		sel := conv(op.SelectionSet)
		// skip/include do not change which fields a struct has; the executor comparison needs a directive-free view
		mres := c.Model(map[string]any{"op": "collect.keys", "types": types, "object": root.Name, "sel": sel})
		var genq, spec []string
		for _, x := range mres["genq"].([]any) {
			genq = append(genq, x.(string))
		}
		for _, x := range mres["spec"].([]any) {
			spec = append(spec, x.(string))
		}
		// spec side vs the harness's executor (ignoring directives and spreads: same view as the model)
		ex := &executor{schema: schema, doc: &ast.QueryDocument{}, r: proto.NewRng(1, "x", 0), stats: map[string]int{}}
		var groups []*collected
		ex.collectFieldsNoDirectives(root, op.SelectionSet, &groups)
		var exKeys []string
		for _, g := range groups {
			exKeys = append(exKeys, g.key)
		}
		if fmt.Sprint(dedupKeep(spec)) != fmt.Sprint(exKeys) {
			c.Res.Add(proto.Finding{Kind: "mismatch", Class: "collect-spec-model", What: fmt.Sprintf("%s: model's CollectFields keys %v, executor's %v", opName, dedupKeep(spec), exKeys), Case: cs})
		}
		// genqlient side vs the generated struct (direct, non-embedded fields in order)
		if hasSpread && !strings.Contains(cs.Ops[sortedKeys(cs.Ops)[0]], "flatten") {
			// with named fragment spreads: the keys carried by the response struct and by every fragment struct embedded in
			// it (at any depth) against the model with spreads (Model/CollectSpread.lean), as sets
			var conv2 func(ss ast.SelectionSet) []any
			conv2 = func(ss ast.SelectionSet) []any {
				out := []any{}
				for _, s := range ss {
					switch s := s.(type) {
					case *ast.Field:
						out = append(out, map[string]any{"key": s.Alias})
					case *ast.InlineFragment:
						out = append(out, map[string]any{"cond": s.TypeCondition, "sub": conv2(s.SelectionSet)})
					case *ast.FragmentSpread:
						out = append(out, map[string]any{"spread": s.Name})
					}
				}
				return out
			}
			var frags []any
			for _, f := range doc.Fragments {
				frags = append(frags, map[string]any{"name": f.Name, "cond": f.TypeCondition, "sel": conv2(f.SelectionSet)})
			}
			m2 := c.Model(map[string]any{"op": "collect.keys2", "types": types, "object": root.Name, "frags": frags, "sel": conv2(op.SelectionSet)})
			if _, bad := m2["error"]; !bad {
				want := map[string]bool{}
				for _, x := range m2["genq"].([]any) {
					want[x.(string)] = true
				}
				cd := &codecDeriver{d: decls}
				ty := cd.structTy(respType)
				have := map[string]bool{}
				var closure func(st codecTy)
				closure = func(st codecTy) {
					fs, _ := st["fs"].([]any)
					for _, x := range fs {
						f := x.(map[string]any)
						if f["emb"] == true {
							closure(f["t"].(codecTy))
						} else {
							have[strings.Split(f["json"].(string), ",")[0]] = true
						}
					}
				}
				closure(ty)
				var missing, extra []string
				for k := range want {
					if !have[k] {
						missing = append(missing, k)
					}
				}
				for k := range have {
					if !want[k] {
						extra = append(extra, k)
					}
				}
				sortStrings(missing)
				sortStrings(extra)
				c.Res.Count("collect-spread-model-compared")
				if len(missing)+len(extra) > 0 {
					c.Res.Add(proto.Finding{Kind: "mismatch", Class: "collect-genq-model-spreads", What: fmt.Sprintf("%s: struct %s and its embedded fragments lack keys %v / carry keys %v the model does not have", opName, respType, missing, extra), Case: cs})
				}
				if fmt.Sprint(m2["genq"]) != fmt.Sprint(m2["spec"]) {
					c.Res.Add(proto.Finding{Kind: "mismatch", Class: "collect-spread-theorem", What: "genq and spec keys differ in the model (contradicts C02_struct_fields_are_collectFields_with_spreads)", Case: cs})
				}
			}
		}
		if st, ok := decls.structs[respType]; ok && !hasSpread {
			var tags []string
			for _, f := range st {
				if f.Embedded {
					continue
				}
				t := f.JSON
				if t == "-" {
					t = decls.premarshalGo[respType][f.Name]
				}
				tags = append(tags, t)
			}
			if fmt.Sprint(dedupKeep(genq)) != fmt.Sprint(tags) && !strings.Contains(cs.Ops[sortedKeys(cs.Ops)[0]], "flatten") {
				c.Res.Add(proto.Finding{Kind: "mismatch", Class: "collect-genq-model", What: fmt.Sprintf("%s: struct %s carries keys %v, model %v", opName, respType, tags, dedupKeep(genq)), Case: cs})
			}
			c.Res.Count("collect-model-compared")
		}
	}
}

func dedupKeep(xs []string) []string {
	seen := map[string]bool{}
	var out []string
	for _, x := range xs {
		if !seen[x] {
			seen[x] = true
			out = append(out, x)
		}
	}
	return out
}


func looksLikeTime(s string) bool {
	return len(s) >= 10 && s[4] == '-' && s[7] == '-' && s[0] >= '0' && s[0] <= '9' && s[1] >= '0' && s[1] <= '9'
}


// flattenedToSuperInterface: the Go value at a position of abstract type `def` is an implementation struct of a
// named fragment on an interface that `def` itself implements (`flatten: true` on such a field).
func (w *faithWalker) flattenedToSuperInterface(def *ast.Definition, dyn string) bool {
	if w.ex == nil || w.ex.doc == nil {
		return false
	}
	impl := strings.TrimPrefix(dyn[strings.LastIndex(dyn, ".")+1:], "*")
	for _, fr := range w.ex.doc.Fragments {
		if fr.TypeCondition == def.Name || !strings.HasPrefix(impl, fr.Name) {
			continue
		}
		for _, in := range def.Interfaces {
			if in == fr.TypeCondition {
				return true
			}
		}
	}
	return false
}
