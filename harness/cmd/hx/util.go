package main

import (
	"encoding/json"
	"os"
	"path/filepath"
)

func osReadFile(p string) ([]byte, error) { return os.ReadFile(p) }

func filepathGlob(p string) ([]string, error) { return filepath.Glob(p) }

type jsonNumber string

func (n jsonNumber) MarshalJSON() ([]byte, error) { return []byte(n), nil }

func jsonMarshal(v any) ([]byte, error) { return json.Marshal(v) }
