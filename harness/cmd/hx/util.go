package main

import "os"

func osReadFile(p string) ([]byte, error) { return os.ReadFile(p) }
