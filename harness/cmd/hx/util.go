package main

import (
	"os"
	"path/filepath"
)

func osReadFile(p string) ([]byte, error) { return os.ReadFile(p) }

func filepathGlob(p string) ([]string, error) { return filepath.Glob(p) }
