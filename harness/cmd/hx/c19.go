package main

import (
	"encoding/json"
	"fmt"
	"strings"

	"github.com/vektah/gqlparser/v2/ast"
	"verifharness/internal/proto"
)

// ---------- C19: untrusted bytes ----------

// mutateJSON applies one structural mutation somewhere in v (decoded with map[string]any / []any).
func mutateJSON(r *proto.Rng, v any, depth int) (any, string) {
	descend := func() (any, string) {
		switch x := v.(type) {
		case map[string]any:
			if len(x) == 0 {
				return nil, ""
			}
			ks := make([]string, 0, len(x))
			for k := range x {
				ks = append(ks, k)
			}
			sortStrings(ks)
			k := proto.Pick(r, ks)
			nv, kind := mutateJSON(r, x[k], depth+1)
			if kind == "" {
				return nil, ""
			}
			out := map[string]any{}
			for kk, vv := range x {
				out[kk] = vv
			}
			out[k] = nv
			return out, kind
		case []any:
			if len(x) == 0 {
				return nil, ""
			}
			i := r.Intn(len(x))
			nv, kind := mutateJSON(r, x[i], depth+1)
			if kind == "" {
				return nil, ""
			}
			out := append([]any{}, x...)
			out[i] = nv
			return out, kind
		}
		return nil, ""
	}
	if depth < 6 && r.Chance(2, 3) {
		if nv, kind := descend(); kind != "" {
			return nv, kind
		}
	}
	switch x := v.(type) {
	case map[string]any:
		if _, has := x["__typename"]; has && r.Chance(3, 4) {
			out := map[string]any{}
			for k, vv := range x {
				out[k] = vv
			}
			switch r.Intn(6) {
			case 0:
				delete(out, "__typename")
				return out, "typename-dropped"
			case 1:
				out["__typename"] = "NoSuchType_" + fmt.Sprint(r.Intn(9))
				return out, "typename-unknown"
			case 2:
				out["__typename"] = ""
				return out, "typename-empty"
			case 3:
				out["__typename"] = proto.Pick(r, []any{1, true, nil, []any{"User"}, map[string]any{"x": 1}})
				return out, "typename-not-string"
			case 4:
				delete(out, "__typename")
				out["__TYPENAME"] = x["__typename"]
				return out, "typename-case-changed"
			default:
				// the name of some other object type of the schema (possibly a member of another abstract type)
				out["__typename"] = "Query"
				if len(c19ObjTypes) > 0 {
					out["__typename"] = proto.Pick(r, c19ObjTypes)
				}
				return out, "typename-other-schema-type"
			}
		}
		switch r.Intn(5) {
		case 0:
			return "scalar-for-object", "object->scalar"
		case 1:
			return []any{x}, "object->list"
		case 2:
			return nil, "object->null"
		case 3:
			out := map[string]any{}
			for k, vv := range x {
				out[strings.ToUpper(k)] = vv
			}
			return out, "keys-case-changed"
		default:
			return 12.5, "object->number"
		}
	case []any:
		switch r.Intn(4) {
		case 0:
			return map[string]any{"0": x}, "list->object"
		case 1:
			return "list", "list->scalar"
		case 2:
			return []any{x}, "list-depth+1"
		default:
			if len(x) > 0 {
				return x[0], "list-depth-1"
			}
			return map[string]any{}, "list->object"
		}
	case nil:
		return map[string]any{"unexpected": 1}, "null->object"
	default:
		switch r.Intn(4) {
		case 0:
			return map[string]any{"v": x}, "scalar->object"
		case 1:
			return []any{x}, "scalar->list"
		case 2:
			return proto.Pick(r, []any{true, 1e308, "str", -1}), "scalar-kind-changed"
		default:
			return nil, "scalar->null"
		}
	}
}

var c19ObjTypes []string

func c19One(c *Ctx, b *Batch, pkg string, cs respCase, respType string, schema *ast.Schema, ex *executor, op *ast.OperationDefinition, js []byte, k int) {
	r := proto.NewRng(c.Seed^cs.Seed, "c19/"+cs.Op, uint64(k))
	var tree any
	d := json.NewDecoder(strings.NewReader(string(js)))
	d.UseNumber()
	d.Decode(&tree)
	decls := parseGoDecls(b.Pkgs[pkg].Src)
	noStructOpt := true
	for _, t := range cs.Ops {
		noStructOpt = noStructOpt && !strings.Contains(t, "struct")
	}
	c19ObjTypes = nil
	for name, d := range schema.Types {
		if d.Kind == ast.Object && !strings.HasPrefix(name, "__") {
			c19ObjTypes = append(c19ObjTypes, name)
		}
	}
	sortStrings(c19ObjTypes)
	n := 6
	for m := 0; m < n; m++ {
		c.Res.Eval()
		var text, kind string
		if m%3 == 2 {
			text, kind = c07Mutate(r, string(js))
			kind = "bytes:" + kind
		} else {
			mv, k2 := mutateJSON(r, tree, 0)
			if k2 == "" {
				continue
			}
			bs, _ := json.Marshal(mv)
			text, kind = string(bs), k2
		}
		one := cs
		one.Response, one.Mutation = text, kind
		fail := func(cls, what string, impl any) {
			c.Res.Add(proto.Finding{Kind: "violation", Class: cls, What: what, Case: one, Impl: impl})
		}
		res := b.Call(map[string]any{"cmd": "unmarshal", "pkg": pkg, "type": respType, "json": text})
		codecCompare(c, decls, one, respType, text, res)
		c.Res.Count("mutation:" + kind)
		outcome := "decoded"
		if cr, ok := res["crash"]; ok {
			fail("probe-crash", fmt.Sprintf("decoding crashed the process (%s): %v", kind, cr), nil)
			return
		}
		if p, ok := res["panic"]; ok {
			fail("decode-panic", fmt.Sprintf("decoding a malformed response (%s) panicked: %v", kind, p), res["stack"])
			continue
		}
		if _, ok := res["err"]; ok {
			outcome = "error"
		}
		c.Res.NonTrivial(kind + "|" + outcome)
		if c.Res.Evaluations%200 == 1 {
			c.Res.Sample(map[string]any{"gprog_seed": cs.Seed, "operation": cs.Op, "mutation": kind, "input": trunc(text, 300), "outcome": outcome, "error": res["err"]})
		}
		if outcome != "decoded" {
			continue
		}
		// a successful decode: every abstract value must hold the struct generated for the __typename present
		// in the input at that position
		var in any
		dd := json.NewDecoder(strings.NewReader(text))
		dd.UseNumber()
		if dd.Decode(&in) != nil {
			continue
		}
		dump, _ := res["dump"].(map[string]any)
		c19CheckTypes(c, decls, in, dump, "$", fail)
		// and with the schema: the __typename present in the input must be a possible type of the position
		if inObj, ok := in.(map[string]any); ok {
			root := schema.Query
			if op.Operation == ast.Mutation {
				root = schema.Mutation
			}
			w := &faithWalker{ex: ex, schema: schema, decls: decls, typesOnly: true, noStructOpt: noStructOpt}
			func() {
				defer func() { recover() }() // the walk follows a deliberately malformed input
				w.object(root, op.SelectionSet, inObj, dump, cs.Op)
			}()
			for _, p := range w.problems {
				fail(p[0], p[1], nil)
			}
		}
	}
	// typename sweep: at every abstract position of this response, every object type of the schema in turn
	if k == 0 {
		var paths [][]any
		var find func(v any, path []any)
		find = func(v any, path []any) {
			switch x := v.(type) {
			case map[string]any:
				if _, ok := x["__typename"].(string); ok && len(path) > 0 {
					paths = append(paths, append([]any{}, path...))
				}
				for kk, vv := range x {
					find(vv, append(path, kk))
				}
			case []any:
				for i, vv := range x {
					if i < 2 {
						find(vv, append(path, i))
					}
				}
			}
		}
		find(tree, nil)
		if len(paths) > 6 {
			paths = paths[:6]
		}
		root := schema.Query
		if op.Operation == ast.Mutation {
			root = schema.Mutation
		}
		for _, pth := range paths {
			for _, tn := range c19ObjTypes {
				c.Res.Eval()
				mv := setAtPath(tree, pth, tn)
				bs, _ := json.Marshal(mv)
				one := cs
				one.Response, one.Mutation = string(bs), "typename-sweep"
				res := b.Call(map[string]any{"cmd": "unmarshal", "pkg": pkg, "type": respType, "json": string(bs)})
				c.Res.Count("mutation:typename-sweep")
				if p, ok := res["panic"]; ok {
					c.Res.Add(proto.Finding{Kind: "violation", Class: "decode-panic", What: fmt.Sprintf("decoding panicked (typename sweep): %v", p), Case: one})
					continue
				}
				if _, ok := res["err"]; ok || res["crash"] != nil {
					continue
				}
				dump, _ := res["dump"].(map[string]any)
				w := &faithWalker{ex: ex, schema: schema, decls: decls, typesOnly: true, noStructOpt: noStructOpt}
				func() {
					defer func() { recover() }()
					w.object(root, op.SelectionSet, mv.(map[string]any), dump, cs.Op)
				}()
				for _, p := range w.problems {
					c.Res.Add(proto.Finding{Kind: "violation", Class: p[0], What: p[1], Case: one})
				}
			}
		}
	}
	// model correspondence: the interface helper's dispatch on crafted objects, through the real helper
	c19IfaceModel(c, b, pkg, cs, decls, r)
}

// c19CheckTypes walks input JSON and dump in parallel along json tags.
func c19CheckTypes(c *Ctx, decls *goDecls, in any, d dumpNode, path string, fail func(cls, what string, impl any)) {
	if d == nil {
		return
	}
	switch d["t"] {
	case "ptr", "opt":
		inner, _ := d["v"].(map[string]any)
		c19CheckTypes(c, decls, in, inner, path, fail)
	case "iface":
		dyn, _ := d["dyn"].(string)
		obj, ok := in.(map[string]any)
		if !ok {
			fail("abstract-value-from-non-object", fmt.Sprintf("%s: input %v decoded into an implementation struct %s", path, in, dyn), nil)
			return
		}
		tn := lastFoldMatch(obj, "__typename")
		// which Go interface is this? find an interface whose implementation for tn is the dynamic type
		impl := strings.TrimPrefix(dyn[strings.LastIndex(dyn, ".")+1:], "*")
		okImpl := false
		for _, m := range decls.ifaceImpls {
			if m[tn] == impl {
				okImpl = true
			}
		}
		if !okImpl {
			fail("abstract-value-mistyped", fmt.Sprintf("%s: input has __typename %q but the Go value is a %s, which is not the struct generated for that type", path, tn, dyn), nil)
		}
		inner, _ := d["v"].(map[string]any)
		c19CheckTypes(c, decls, in, inner, path, fail)
	case "slice":
		xs, _ := in.([]any)
		ds, _ := d["v"].([]any)
		for i := range ds {
			if i < len(xs) {
				c19CheckTypes(c, decls, xs[i], ds[i].(map[string]any), fmt.Sprintf("%s[%d]", path, i), fail)
			}
		}
	case "struct":
		obj, _ := in.(map[string]any)
		fs, _ := d["f"].([]any)
		for _, f := range fs {
			fa := f.([]any)
			name, _ := fa[0].(string)
			anon, _ := fa[1].(bool)
			tag, _ := fa[2].(string)
			val, _ := fa[3].(map[string]any)
			if anon {
				c19CheckTypes(c, decls, in, val, path, fail)
				continue
			}
			if obj == nil {
				continue
			}
			key := strings.Split(tag, ",")[0]
			if key == "-" || key == "" {
				// fields decoded by generated code: their response key is the tag of the same field in the
				// struct's own __premarshal struct; never guess (a mutated input may hold a key "" or a
				// case variant of the Go name)
				owner, _ := d["name"].(string)
				key = decls.premarshalGo[owner][name]
				if key == "" {
					continue
				}
			}
			if v, ok := obj[key]; ok {
				c19CheckTypes(c, decls, v, val, path+"."+name, fail)
			}
		}
	}
}

func lastFoldMatch(obj map[string]any, key string) string {
	// Go maps lose order; with duplicate/case-variant keys the harness's own mutations create at most one variant
	for k, v := range obj {
		if strings.EqualFold(k, key) {
			if s, ok := v.(string); ok {
				return s
			}
		}
	}
	return ""
}

// c19IfaceModel: for one interface-typed position reachable at the top of a response type, compare the real
// helper's verdict on crafted objects with the model's decodeIface.
func c19IfaceModel(c *Ctx, b *Batch, pkg string, cs respCase, decls *goDecls, r *proto.Rng) {
	// find a struct with a direct field whose type is a Go interface we know (not a slice), tagged "-"
	for stName, fs := range decls.structs {
		for _, f := range fs {
			impls, ok := decls.ifaceImpls[f.Type]
			if !ok || f.Embedded {
				continue
			}
			key := decls.premarshalGo[stName][f.Name]
			if key == "" {
				continue
			}
			var implsJ []any
			var names []string
			for _, tn := range decls.ifaceOrder[f.Type] {
				implsJ = append(implsJ, []any{tn, impls[tn]})
				names = append(names, tn)
			}
			crafted := [][]any{
				{[]any{"__typename", proto.Pick(r, names)}},
				{[]any{"id", "1"}},
				{[]any{"__typename", ""}},
				{[]any{"__typename", nil}},
				{[]any{"__typename", 7}},
				{[]any{"__typename", "Nope"}},
				{[]any{"__typename", proto.Pick(r, names)}, []any{"__typename", "Nope"}},
				{[]any{"__typename", "Nope"}, []any{"__typename", proto.Pick(r, names)}},
				{[]any{"__TYPENAME", proto.Pick(r, names)}},
				{[]any{"__typename", proto.Pick(r, names)}, []any{"__typename", nil}},
				{[]any{"__typename", []any{}}, []any{"__typename", proto.Pick(r, names)}},
			}
			for _, kvs := range crafted {
				var sb strings.Builder
				sb.WriteString("{")
				for i, kvx := range kvs {
					kv := kvx.([]any)
					if i > 0 {
						sb.WriteString(",")
					}
					vb, _ := json.Marshal(kv[1])
					fmt.Fprintf(&sb, "%q:%s", kv[0], vb)
				}
				sb.WriteString("}")
				input := fmt.Sprintf(`{%q:%s}`, key, sb.String())
				res := b.Call(map[string]any{"cmd": "unmarshal", "pkg": pkg, "type": stName, "json": input})
				m := c.Model(map[string]any{"op": "types.decodeIface", "impls": implsJ, "kvs": kvs})
				want := m["out"].([]any)
				got := "err"
				if _, isErr := res["err"]; !isErr && res["panic"] == nil && res["crash"] == nil {
					got = "nil"
					if dump, ok := res["dump"].(map[string]any); ok {
						for _, ff := range dump["f"].([]any) {
							fa := ff.([]any)
							if fa[0] == f.Name {
								v := fa[3].(map[string]any)
								if v["t"] == "iface" {
									dyn, _ := v["dyn"].(string)
									got = "impl:" + strings.TrimPrefix(dyn[strings.LastIndex(dyn, ".")+1:], "*")
								}
							}
						}
					}
				}
				exp := fmt.Sprint(want[0])
				if exp == "impl" {
					exp = "impl:" + fmt.Sprint(want[2])
				}
				c.Res.Count("iface-model-compared")
				if got != exp {
					c.Res.Add(proto.Finding{Kind: "mismatch", Class: "iface-dispatch-model", What: fmt.Sprintf("interface helper for %s on %s: implementation %s, model %v", f.Type, sb.String(), got, want), Case: cs})
				}
			}
			return
		}
	}
}

// setAtPath returns a copy of v in which the object at path has its __typename replaced
func setAtPath(v any, path []any, tn string) any {
	if len(path) == 0 {
		if m, ok := v.(map[string]any); ok {
			out := map[string]any{}
			for k, x := range m {
				out[k] = x
			}
			out["__typename"] = tn
			return out
		}
		return v
	}
	switch x := v.(type) {
	case map[string]any:
		out := map[string]any{}
		for k, y := range x {
			out[k] = y
		}
		if k, ok := path[0].(string); ok {
			out[k] = setAtPath(x[k], path[1:], tn)
		}
		return out
	case []any:
		out := append([]any{}, x...)
		if i, ok := path[0].(int); ok && i < len(out) {
			out[i] = setAtPath(x[i], path[1:], tn)
		}
		return out
	}
	return v
}
