package main

// Reference executor of the GraphQL execution algorithm (spec §6.3–6.4), independent of genqlient:
// CollectFields with type conditions and @skip/@include, response-key merging, null only at nullable
// positions, lists of any length, a concrete object type for every abstract position.  Choices come
// from a PRNG.  It produces the conformant responses C02/C06/C19 quantify over.

import (
	"fmt"
	"sort"
	"strconv"

	"github.com/vektah/gqlparser/v2/ast"
	"verifharness/internal/proto"
)

type executor struct {
	schema *ast.Schema
	doc    *ast.QueryDocument
	r      *proto.Rng
	vars   map[string]any // variable values (only Booleans matter: @skip/@include)
	depth  int
	stats  map[string]int
	// custom scalar name -> kind of JSON the bound support type accepts
	scalarKind map[string]string
}

type ordered struct {
	keys []string
	vals map[string]any
}

func (o *ordered) set(k string, v any) {
	if _, ok := o.vals[k]; !ok {
		o.keys = append(o.keys, k)
	}
	o.vals[k] = v
}

func (o *ordered) MarshalJSON() ([]byte, error) {
	out := []byte{'{'}
	for i, k := range o.keys {
		if i > 0 {
			out = append(out, ',')
		}
		out = append(out, strconv.Quote(k)...)
		out = append(out, ':')
		b, err := jsonMarshal(o.vals[k])
		if err != nil {
			return nil, err
		}
		out = append(out, b...)
	}
	return append(out, '}'), nil
}

func (e *executor) boolArg(d *ast.Directive) (bool, bool) {
	a := d.Arguments.ForName("if")
	if a == nil {
		return false, false
	}
	switch a.Value.Kind {
	case ast.BooleanValue:
		return a.Value.Raw == "true", true
	case ast.Variable:
		v, ok := e.vars[a.Value.Raw].(bool)
		return v, ok
	}
	return false, false
}

func (e *executor) included(ds ast.DirectiveList) bool {
	if d := ds.ForName("skip"); d != nil {
		if v, ok := e.boolArg(d); ok && v {
			return false
		}
	}
	if d := ds.ForName("include"); d != nil {
		if v, ok := e.boolArg(d); ok && !v {
			return false
		}
	}
	return true
}

// doesFragmentTypeApply (spec 6.3.2)
func (e *executor) applies(obj *ast.Definition, cond string) bool {
	if cond == "" || cond == obj.Name {
		return true
	}
	t := e.schema.Types[cond]
	if t == nil {
		return false
	}
	switch t.Kind {
	case ast.Interface:
		for _, i := range obj.Interfaces {
			if i == cond {
				return true
			}
		}
	case ast.Union:
		for _, m := range t.Types {
			if m == obj.Name {
				return true
			}
		}
	}
	return false
}

type collected struct {
	key    string
	fields []*ast.Field
}

// collectFields (spec 6.3.2): grouped by response key, in first-appearance order
func (e *executor) collectFields(obj *ast.Definition, ss ast.SelectionSet, visited map[string]bool, out *[]*collected) {
	for _, s := range ss {
		switch s := s.(type) {
		case *ast.Field:
			if !e.included(s.Directives) {
				continue
			}
			var g *collected
			for _, c := range *out {
				if c.key == s.Alias {
					g = c
				}
			}
			if g == nil {
				g = &collected{key: s.Alias}
				*out = append(*out, g)
			}
			g.fields = append(g.fields, s)
		case *ast.FragmentSpread:
			if !e.included(s.Directives) || visited[s.Name] {
				continue
			}
			visited[s.Name] = true
			f := e.doc.Fragments.ForName(s.Name)
			if f == nil || !e.applies(obj, f.TypeCondition) {
				continue
			}
			e.collectFields(obj, f.SelectionSet, visited, out)
		case *ast.InlineFragment:
			if !e.included(s.Directives) || !e.applies(obj, s.TypeCondition) {
				continue
			}
			e.collectFields(obj, s.SelectionSet, visited, out)
		}
	}
}

func (e *executor) possibleObjects(t *ast.Definition) []*ast.Definition {
	var out []*ast.Definition
	for _, p := range e.schema.GetPossibleTypes(t) {
		if p.Kind == ast.Object {
			out = append(out, p)
		}
	}
	sort.Slice(out, func(i, j int) bool { return out[i].Name < out[j].Name })
	return out
}

func (e *executor) executeSelectionSet(obj *ast.Definition, ss ast.SelectionSet) *ordered {
	var groups []*collected
	e.collectFields(obj, ss, map[string]bool{}, &groups)
	res := &ordered{vals: map[string]any{}}
	for _, g := range groups {
		f := g.fields[0]
		if f.Name == "__typename" {
			res.set(g.key, obj.Name)
			continue
		}
		fd := obj.Fields.ForName(f.Name)
		if fd == nil {
			continue
		}
		// merged sub-selection of all fields with this response key
		var sub ast.SelectionSet
		for _, x := range g.fields {
			sub = append(sub, x.SelectionSet...)
		}
		res.set(g.key, e.completeValue(fd.Type, sub))
	}
	return res
}

func (e *executor) completeValue(t *ast.Type, sub ast.SelectionSet) any {
	if !t.NonNull && (e.r.Chance(1, 5) || e.depth > 9) {
		e.stats["null"]++
		return nil
	}
	if t.Elem != nil {
		n := e.r.Intn(4)
		if e.depth > 6 {
			n = e.r.Intn(2)
		}
		e.stats[fmt.Sprintf("list-len-%d", n)]++
		out := make([]any, n)
		e.depth++
		for i := range out {
			out[i] = e.completeValue(t.Elem, sub)
		}
		e.depth--
		return out
	}
	def := e.schema.Types[t.NamedType]
	switch def.Kind {
	case ast.Scalar:
		return e.scalar(def.Name)
	case ast.Enum:
		return proto.Pick(e.r, def.EnumValues).Name
	case ast.Object:
		e.depth++
		defer func() { e.depth-- }()
		return e.executeSelectionSet(def, sub)
	case ast.Interface, ast.Union:
		objs := e.possibleObjects(def)
		if len(objs) == 0 {
			return nil
		}
		e.stats["abstract"]++
		e.depth++
		defer func() { e.depth-- }()
		return e.executeSelectionSet(proto.Pick(e.r, objs), sub)
	}
	return nil
}

func (e *executor) scalar(name string) any {
	switch name {
	case "Int":
		return []int{0, 1, -1, 42, 2147483647, -2147483648}[e.r.Intn(6)]
	case "Float":
		return []any{0.0, 1.5, -2.25, 1e10, jsonNumber("3"), jsonNumber("-0.5e-3")}[e.r.Intn(6)]
	case "String":
		return []string{"", "x", "héllo wörld", "日本語", "with \"quotes\" and \\ backslash", "line\nbreak", "<tag>&amp;", "null", "😀"}[e.r.Intn(9)]
	case "ID":
		return []string{"1", "abc", "", "id-✓"}[e.r.Intn(4)]
	case "Boolean":
		return e.r.Bool()
	}
	switch e.scalarKind[name] {
	case "date":
		return fmt.Sprintf("%04d-%02d-%02d", 1990+e.r.Intn(40), 1+e.r.Intn(12), 1+e.r.Intn(28))
	case "stamp":
		return fmt.Sprintf("2024-%02d-%02dT%02d:%02d:%02dZ", 1+e.r.Intn(12), 1+e.r.Intn(28), e.r.Intn(24), e.r.Intn(60), e.r.Intn(60))
	case "int":
		return e.r.Intn(100000)
	case "float":
		return float64(e.r.Intn(1000)) / 8
	case "bool":
		return e.r.Bool()
	case "raw":
		return map[string]any{"k": e.r.Intn(9), "l": []any{1, "two", nil}}
	case "object":
		return map[string]any{"k": e.r.Intn(9), "s": "v"}
	case "base64":
		return []string{"", "aGVsbG8=", "AAEC/w=="}[e.r.Intn(3)]
	case "money":
		return fmt.Sprintf("%d.%02d", e.r.Intn(1000), e.r.Intn(100))
	default:
		return []string{"s", "", "text-ü"}[e.r.Intn(3)]
	}
}

// executeOperation returns {"data": ...} for one operation.
func (e *executor) executeOperation(op *ast.OperationDefinition) *ordered {
	var root *ast.Definition
	switch op.Operation {
	case ast.Query:
		root = e.schema.Query
	case ast.Mutation:
		root = e.schema.Mutation
	case ast.Subscription:
		root = e.schema.Subscription
	}
	if root == nil {
		return nil
	}
	// Boolean variables used by @skip/@include get random values
	e.vars = map[string]any{}
	for _, v := range op.VariableDefinitions {
		if v.Type.NamedType == "Boolean" && v.Type.Elem == nil {
			e.vars[v.Variable] = e.r.Bool()
		}
	}
	return e.executeSelectionSet(root, op.SelectionSet)
}

// collectFieldsNoDirectives: CollectFields without @skip/@include and without following named fragments
// (the view the Lean model of C02 has)
func (e *executor) collectFieldsNoDirectives(obj *ast.Definition, ss ast.SelectionSet, out *[]*collected) {
	for _, s := range ss {
		switch s := s.(type) {
		case *ast.Field:
			var g *collected
			for _, c := range *out {
				if c.key == s.Alias {
					g = c
				}
			}
			if g == nil {
				g = &collected{key: s.Alias}
				*out = append(*out, g)
			}
			g.fields = append(g.fields, s)
		case *ast.InlineFragment:
			if e.applies(obj, s.TypeCondition) {
				e.collectFieldsNoDirectives(obj, s.SelectionSet, out)
			}
		}
	}
}
