package main

import (
	"bytes"
	"encoding/json"
	"fmt"
	"os"
	"path/filepath"
	"runtime/debug"
	"strings"
	"time"

	"github.com/Khan/genqlient/generate"
	"verifharness/internal/proto"
)

func init() {
	register("C20", "sequences of genqlient runs (what Main executes: readConfigGenerateAndWrite) in one directory with pre-existing outputs: "+
		"every failing class (config / schema / operation syntax / validation / code generation) and successful runs whose output "+
		"is longer or shorter than what is on disk; non-trivial = distinct (failure class or success, relation of old/new output size, "+
		"export_operations on/off)", runC20)
}

type c20Step struct {
	Fault string `json:"fault"` // "" = valid input
	NOps  int    `json:"nOps"`
	SameLen bool `json:"same_len,omitempty"` // before a step, pre-existing outputs are replaced by stale bytes of exactly the NEW output's length (seeded change C20-r11)
	Pad   int    `json:"pad"` // bytes of junk appended to pre-existing outputs before the step (simulates longer old output)
	MoveOps bool `json:"moveOps,omitempty"` // the same operations, now in a file of another name: only sourceLocation in the exported operations changes
}
type c20Case struct {
	// ExportName: file name of the exported operations ("" = operations.json); names that sort BEFORE generated.go
	// are written first by anything that walks the outputs in name order
	ExportName string `json:"exportName,omitempty"`
	Export bool      `json:"export"`
	Steps  []c20Step `json:"steps"`
}

var c20Faults = []string{"cfg-yaml-syntax", "cfg-optional", "cfg-casing", "cfg-package", "cfg-missing", "cfg-binds-own-package",
	"schema-syntax", "schema-nomatch", "schema-invalid",
	"op-syntax", "op-unknown-field", "op-none", "op-anonymous", "op-go-syntax",
	"gen-unknown-scalar", "gen-keyword-var", "gen-conflicting-typenames", "gen-gofmt-error"}

const c20Schema = `type Query { user(id: ID!): User, users: [User!]!, when: Date }
type User { id: ID!, name: String, age: Int, friend: User }
scalar Date
`

func c20Ops(n int) string {
	var sb strings.Builder
	for i := 0; i < n; i++ {
		fmt.Fprintf(&sb, "query Op%d($id: ID!) { user(id: $id) { id name age friend { id name } } users { id } }\n", i)
	}
	return sb.String()
}

var c20ExportName = "operations.json"

func c20Write(dir string, st c20Step, export bool) {
	yaml := "schema: schema.graphql\noperations:\n- q.graphql\ngenerated: generated.go\npackage: gen\n"
	if export {
		yaml += "export_operations: " + c20ExportName + "\n"
	}
	schema := c20Schema
	ops := c20Ops(st.NOps)
	os.Remove(filepath.Join(dir, "q.go"))
	os.Remove(filepath.Join(dir, "go.mod"))
	switch st.Fault {
	case "cfg-binds-own-package":
		// the directory is a Go module of its own and package_bindings names the very package the code is generated
		// into (documented as circular, answered with a warning); the binding then fails to load from here
		os.WriteFile(filepath.Join(dir, "go.mod"), []byte("module c20mod\n\ngo 1.21\n"), 0o644)
		yaml += "package_bindings:\n- package: c20mod\n"
		ops += "query Bad { user(id: \"1\") { nope } }\n" // and the run fails later, at validation
	case "cfg-yaml-syntax":
		yaml += "  bad: [unclosed\n"
	case "cfg-optional":
		yaml += "optional: sometimes\n"
	case "cfg-casing":
		yaml += "casing:\n  all_enums: shouty\n"
	case "cfg-package":
		yaml = strings.Replace(yaml, "package: gen", "package: not-an-ident", 1)
	case "schema-syntax":
		schema += "type Broken {\n"
	case "schema-nomatch":
		yaml = strings.Replace(yaml, "schema: schema.graphql", "schema: nothing-*.graphql", 1)
	case "schema-invalid":
		schema += "type T { f: Undefined }\n"
	case "op-syntax":
		ops += "query Bad { user(id: \n"
	case "op-unknown-field":
		ops += "query Bad { user(id: \"1\") { nope } }\n"
	case "op-none":
		ops = "# nothing here\n"
	case "op-anonymous":
		ops += "query { users { id } }\n"
	case "op-go-syntax":
		yaml = strings.Replace(yaml, "- q.graphql", "- q.graphql\n- q.go", 1)
		os.WriteFile(filepath.Join(dir, "q.go"), []byte("package gen\nfunc ( {\n"), 0o644)
	case "gen-unknown-scalar":
		ops += "query W { when }\n"
	case "gen-gofmt-error":
		// a bound type name the generator accepts but that is not valid Go: the error surfaces only when the rendered
		// code is formatted, after every output has been produced in memory
		yaml += "bindings:\n  Date:\n    type: \"time.Ti-me\"\n"
		ops += "query W { when }\n"
	case "gen-keyword-var":
		ops += "query K($type: ID!) { user(id: $type) { id } }\n"
	case "gen-conflicting-typenames":
		ops += "query C {\n # @genqlient(typename: \"T\")\n user(id: \"1\") { id }\n # @genqlient(typename: \"T\")\n users { name }\n}\n"
	}
	os.Remove(filepath.Join(dir, "moved.graphql"))
	opsFile := "q.graphql"
	if st.MoveOps {
		yaml = strings.Replace(yaml, "- q.graphql", "- moved.graphql", 1)
		os.Remove(filepath.Join(dir, "q.graphql"))
		opsFile = "moved.graphql"
	}
	os.WriteFile(filepath.Join(dir, "genqlient.yaml"), []byte(yaml), 0o644)
	os.WriteFile(filepath.Join(dir, "schema.graphql"), []byte(schema), 0o644)
	os.WriteFile(filepath.Join(dir, opsFile), []byte(ops), 0o644)
}

func runC20(c *Ctx) {
	if c.Replay != "" {
		var wrap struct{ Case c20Case `json:"case"` }
		b, err := osReadFile(c.Replay)
		if err == nil {
			err = json.Unmarshal(b, &wrap)
		}
		if err != nil || len(wrap.Case.Steps) == 0 {
			c.Res.Notes = append(c.Res.Notes, "replay unreadable")
			return
		}
		c20Run(c, wrap.Case)
		return
	}
	n := c.N(14, 300)
	for i := 0; i < n; i++ {
		r := c.Rng("case", i)
		cs := c20Case{Export: r.Chance(2, 3)}
		if r.Chance(1, 3) {
			cs.ExportName = proto.Pick(r, []string{"a-operations.json", "exported.json"})
		}
		k := 3 + r.Intn(4)
		for j := 0; j < k; j++ {
			st := c20Step{NOps: 1 + r.Intn(4)}
			if j > 0 && r.Chance(1, 2) {
				st.Fault = proto.Pick(r, c20Faults)
			}
			if r.Chance(1, 4) {
				st.Pad = 50 + r.Intn(3000)
			} else if r.Chance(1, 3) {
				st.SameLen = true
			}
			cs.Steps = append(cs.Steps, st)
		}
		// make sure every fault class is visited across the run
		if i < len(c20Faults) {
			cs.Steps = append(cs.Steps, c20Step{Fault: c20Faults[i], NOps: 1 + r.Intn(3)})
			cs.Steps = append(cs.Steps, c20Step{NOps: 1})
		}
		c20Run(c, cs)
	}
	// failures found only when the Go code is assembled/formatted, with an export file whose name sorts before generated.go
	for _, f := range []string{"gen-gofmt-error", "gen-keyword-var", "gen-unknown-scalar"} {
		c20Run(c, c20Case{Export: true, ExportName: "a-operations.json", Steps: []c20Step{{NOps: 2}, {NOps: 3, Fault: f}, {NOps: 1}}})
	}
	// a successful run after a successful run whose generated Go code is byte-identical but whose exported operations
	// differ (the operations moved to a file of another name), and back
	for _, export := range []bool{true, false} {
		c20Run(c, c20Case{Export: export, Steps: []c20Step{{NOps: 2}, {NOps: 2, MoveOps: true}, {NOps: 2}, {NOps: 3, MoveOps: true}}})
	}
}

type fileState struct {
	exists bool
	data   []byte
	mtime  time.Time
}

func statFile(p string) fileState {
	fi, err := os.Stat(p)
	if err != nil {
		return fileState{}
	}
	b, _ := os.ReadFile(p)
	return fileState{true, b, fi.ModTime()}
}

func c20Run(c *Ctx, cs c20Case) {
	dir := filepath.Join(c.Work, fmt.Sprintf("c20-%d", c.Res.Evaluations))
	os.RemoveAll(dir)
	os.MkdirAll(dir, 0o755)
	defer os.RemoveAll(dir)
	gen := filepath.Join(dir, "generated.go")
	c20ExportName = "operations.json"
	if cs.ExportName != "" {
		c20ExportName = cs.ExportName
	}
	exp := filepath.Join(dir, c20ExportName)
	other := filepath.Join(dir, "unrelated.txt")
	os.WriteFile(other, []byte("do not touch"), 0o644)
	cfgPath := filepath.Join(dir, "genqlient.yaml")
	old := time.Now().Add(-48 * time.Hour)
	for si, st := range cs.Steps {
		c.Res.Eval()
		fail := func(kind, class, what string, impl, model any) {
			c.Res.Add(proto.Finding{Kind: kind, Class: class, What: what, Case: map[string]any{"case": cs, "failing_step": si}, Impl: impl, Model: model})
		}
		c20Write(dir, st, cs.Export)
		if st.Pad > 0 {
			for _, p := range []string{gen, exp} {
				if b, err := os.ReadFile(p); err == nil {
					os.WriteFile(p, append(b, bytes.Repeat([]byte("\n// stale tail"), st.Pad/14+1)...), 0o644)
				}
			}
		}
		for _, p := range []string{gen, exp, other} {
			os.Chtimes(p, old, old)
		}
		before := map[string]fileState{gen: statFile(gen), exp: statFile(exp), other: statFile(other)}
		ents0, _ := os.ReadDir(dir)
		cfgArg := cfgPath
		if st.Fault == "cfg-missing" {
			cfgArg = filepath.Join(dir, "no-such.yaml")
		}
		// expected bytes, from the in-memory generator (config read through the same exported API)
		var want map[string][]byte
		var wantErrClass string
		func() {
			defer func() { recover() }()
			cfg, err := generate.ReadAndValidateConfig(cfgArg)
			if err != nil {
				wantErrClass = "cfg"
				return
			}
			m, err := generate.Generate(cfg)
			if err != nil {
				wantErrClass = "gen"
				return
			}
			want = m
		}()
		if st.SameLen && want != nil {
			// what is on disk has exactly the size of what this run must write, and other bytes
			for _, p := range []string{gen, exp} {
				if w, ok := want[p]; ok && len(w) > 0 {
					os.WriteFile(p, bytes.Repeat([]byte("~"), len(w)), 0o644)
					os.Chtimes(p, old, old)
					before[p] = statFile(p)
				}
			}
		}
		var err error
		var pan any
		func() {
			defer func() {
				if r := recover(); r != nil {
					pan = fmt.Sprintf("%v\n%s", r, debug.Stack())
				}
			}()
			if st.Fault == "cfg-binds-own-package" {
				// genqlient is run from inside the module it generates into: only then does it know its own package path
				if wd, e := os.Getwd(); e == nil && os.Chdir(dir) == nil {
					defer os.Chdir(wd)
				}
			}
			err = generate.VerifReadConfigGenerateAndWrite(cfgArg)
		}()
		if pan != nil {
			fail("violation", "panic", fmt.Sprintf("readConfigGenerateAndWrite panicked: %v", pan), nil, nil)
			return
		}
		after := map[string]fileState{gen: statFile(gen), exp: statFile(exp), other: statFile(other)}
		ents1, _ := os.ReadDir(dir)
		sizeRel := "n/a"
		if want != nil && before[gen].exists {
			switch {
			case len(want[gen]) < len(before[gen].data):
				sizeRel = "shrinks"
			case len(want[gen]) > len(before[gen].data):
				sizeRel = "grows"
			default:
				sizeRel = "same"
			}
		}
		cls := st.Fault
		if cls == "" {
			cls = "success"
		}
		c.Res.Count("step:" + cls)
		c.Res.NonTrivial(fmt.Sprintf("%s|%s|%v", cls, sizeRel, cs.Export))
		if si == len(cs.Steps)-1 {
			c.Res.Sample(map[string]any{"case": cs, "last_err": fmt.Sprint(err)})
		}
		expectFail := st.Fault != ""
		if expectFail != (err != nil) {
			if expectFail {
				fail("violation", "faulty-input-accepted", "input with fault "+st.Fault+" was accepted", nil, nil)
			} else {
				fail("violation", "valid-input-rejected", "valid input rejected: "+err.Error(), nil, nil)
			}
			return
		}
		if (want == nil) != (err != nil) {
			fail("mismatch", "inmemory-vs-main", fmt.Sprintf("in-memory pipeline and readConfigGenerateAndWrite disagree: want-nil=%v err=%v", want == nil, err), nil, nil)
		}
		// ---- direct oracle ----
		if err != nil {
			for _, p := range []string{gen, exp, other} {
				b, a := before[p], after[p]
				if b.exists != a.exists || !bytes.Equal(b.data, a.data) || !b.mtime.Equal(a.mtime) {
					fail("violation", "failed-run-modified-file", fmt.Sprintf("failed run (%s) created/modified %s (existed %v->%v, %d->%d bytes, mtime changed %v)",
						st.Fault, filepath.Base(p), b.exists, a.exists, len(b.data), len(a.data), !b.mtime.Equal(a.mtime)), nil, nil)
				}
			}
			if len(ents0) != len(ents1) {
				fail("violation", "failed-run-created-file", fmt.Sprintf("failed run (%s) changed the directory listing (%d -> %d entries)", st.Fault, len(ents0), len(ents1)), nil, nil)
			}
		} else {
			for p, wb := range want {
				if !bytes.Equal(after[p].data, wb) {
					fail("violation", "success-bytes-differ", fmt.Sprintf("%s holds %d bytes, generator produced %d (old file had %d)", filepath.Base(p), len(after[p].data), len(wb), len(before[p].data)), nil, nil)
				}
			}
			if !cs.Export && (after[exp].exists != before[exp].exists || !bytes.Equal(after[exp].data, before[exp].data)) {
				fail("violation", "success-touched-unconfigured-file", "operations.json changed although export_operations is off", nil, nil)
			}
			if !bytes.Equal(after[other].data, before[other].data) {
				fail("violation", "success-touched-unrelated-file", "unrelated file changed", nil, nil)
			}
		}
		// ---- model correspondence ----
		ids := map[string]int{gen: 1, exp: 2, other: 3}
		fsIn := [][]any{}
		for _, p := range []string{gen, exp, other} {
			if before[p].exists {
				fsIn = append(fsIn, []any{ids[p], proto.Hex(before[p].data)})
			}
		}
		req := map[string]any{"op": "main.run", "explicitConfig": true, "cfgFails": wantErrClass == "cfg", "fs": fsIn}
		if want != nil {
			g := [][]any{}
			for p, b := range want {
				g = append(g, []any{ids[p], proto.Hex(b)})
			}
			req["gen"] = g
		} else {
			req["gen"] = nil
		}
		m := c.Model(req)
		mret := m["returned"].(string)
		iret := "nil"
		if err != nil {
			iret = "error"
		}
		if mret != iret {
			fail("mismatch", "main-model-return", "returned: impl="+iret+" model="+mret, nil, nil)
		}
		mfs := map[int]string{}
		for _, e := range m["fs"].([]any) {
			a := e.([]any)
			id, _ := a[0].(json.Number).Int64()
			mfs[int(id)] = a[1].(string)
		}
		for _, p := range []string{gen, exp, other} {
			mh, mok := mfs[ids[p]]
			if mok != after[p].exists || (mok && mh != proto.Hex(after[p].data)) {
				fail("mismatch", "main-model-fs", fmt.Sprintf("file %s after the run differs from the model (exists impl=%v model=%v)", filepath.Base(p), after[p].exists, mok), nil, nil)
			}
		}
	}
}
