package main

// Schedule-controlled differential harness for the WebSocket subscription client
// (C13, C14, C15).  The real client runs against a scripted Dialer/WSConn; every
// connection operation, the forwarder's delivery and the reader's exit are park points
// owned by the controller, which executes the SAME park-level event list on the Lean
// model (driver op ws.run) and on the real client, compares thread states after every
// event and the observable history at the end, and evaluates the properties' own
// oracles on the real observations.  Schedules run in child processes so that a panic in
// the library's reader goroutine is attributed to its schedule.

import (
	"bufio"
	"context"
	"encoding/json"
	"errors"
	"fmt"
	"net/http"
	"os"
	"os/exec"
	"runtime"
	"strconv"
	"strings"
	"sync"
	"time"

	"github.com/Khan/genqlient/graphql"
	"verifharness/internal/proto"
)

// ---- flags describing the tree the model must mirror (see Genq/Model/Ws.lean) ----
// All true = repaired tree.  They are properties of /repo's code, recorded in
// /verif/ws_flags.json next to the fix commits that establish them.
type wsFlags struct {
	IdempotentEnd       bool `json:"idempotentEnd"`
	CloseLiveOnly       bool `json:"closeLiveOnly"`
	CompleteBeforeClose bool `json:"completeBeforeClose"`
	CloseAlwaysCleans   bool `json:"closeAlwaysCleans"`
	ErrChanBuffered     bool `json:"errChanBuffered"`
}

func loadWsFlags() wsFlags {
	var f wsFlags
	b, err := os.ReadFile(verifRoot + "/ws_flags.json")
	if err == nil {
		json.Unmarshal(b, &f)
	}
	return f
}

type wsEv struct {
	E   string `json:"e"`
	I   int    `json:"i"`
	C   int    `json:"c"`
	M   string `json:"m,omitempty"`
	P   int    `json:"p"`
	Dec *bool  `json:"dec,omitempty"`
}

func (e wsEv) String() string {
	b, _ := json.Marshal(e)
	return string(b)
}

// ---- model world (subset of the driver's JSON) ----
type mSub struct {
	Registered bool  `json:"registered"`
	Ended      bool  `json:"ended"`
	Closes     int   `json:"closes"`
	Nexts      []int `json:"nexts"`
	Delivered  []int `json:"delivered"`
}
type mWorld struct {
	Frames        [][]any `json:"frames"`
	Written       [][]any `json:"written"`
	Subs          []mSub  `json:"subs"`
	IsClosing     bool    `json:"isClosing"`
	ConnCloses    int     `json:"connCloses"`
	ErrChanCloses int     `json:"errChanCloses"`
	ErrQueued     int     `json:"errQueued"`
	ErrReceived   int     `json:"errReceived"`
	Mu            bool    `json:"mu"`
	Reader        any     `json:"reader"`
	Calls         [][]any `json:"calls"`
	Panic         []any   `json:"panic"`
}

func (w *mWorld) readerState() string {
	switch r := w.Reader.(type) {
	case string:
		return r
	case []any:
		return fmt.Sprintf("send:%v:%v", r[1], r[2])
	}
	return "?"
}
func callState(c []any) string {
	parts := make([]string, len(c))
	for i, x := range c {
		parts[i] = fmt.Sprint(x)
	}
	return strings.Join(parts, ":")
}

// ---- scripted connection + controller ----

var errWsInjected = errors.New("injected connection fault")

func wsGid() string {
	var buf [64]byte
	n := runtime.Stack(buf[:], false)
	f := strings.Fields(string(buf[:n]))
	if len(f) > 1 {
		return f[1]
	}
	return "?"
}

type wsReport struct {
	gid   string
	who   string // "reader" | "api" | "start"
	kind  string // write | read | fwd | ret | exit | panic
	frame []any  // for write: [type, subIndex]
	call  int    // for ret/panic
	ok    bool
	msg   string
	sub   int
	p     int
	wgate chan bool
	rgate chan wsRead
	fgate chan struct{}
}
type wsRead struct {
	data []byte
	err  error
}

type wsItem struct {
	P      int
	HasErr bool
}

type wsCtl struct {
	mu       sync.Mutex
	reports  chan wsReport
	frames   [][]any
	written  [][]any  // frames whose write returned nil
	ids      []string // sub index -> uuid (from subscribe frames)
	connCloses int
	closed   bool
	pendingRead chan wsRead
	dialFail bool
	dialed   int
	perConnCloses []int // how often each successfully dialed connection was closed (a retried Start dials again)
}

type wsConn struct {
	k   *wsCtl
	idx int
}
type wsDialer struct{ k *wsCtl }

func (d wsDialer) DialContext(ctx context.Context, url string, h http.Header) (graphql.WSConn, error) {
	d.k.mu.Lock()
	defer d.k.mu.Unlock()
	d.k.dialed++
	if d.k.dialFail {
		return nil, errWsInjected
	}
	d.k.closed = false // a fresh connection
	d.k.perConnCloses = append(d.k.perConnCloses, 0)
	return wsConn{d.k, len(d.k.perConnCloses) - 1}, nil
}

func (c wsConn) WriteMessage(mt int, data []byte) error {
	k := c.k
	var fr []any
	if mt == 8 {
		fr = []any{"close"}
	} else {
		var m struct {
			Type string `json:"type"`
			ID   string `json:"id"`
		}
		json.Unmarshal(data, &m)
		k.mu.Lock()
		switch m.Type {
		case "connection_init":
			fr = []any{"init"}
		case "subscribe":
			k.ids = append(k.ids, m.ID)
			fr = []any{"subscribe", len(k.ids) - 1}
		case "complete":
			idx := -1
			for i, id := range k.ids {
				if id == m.ID {
					idx = i
				}
			}
			fr = []any{"complete", idx}
		default:
			fr = []any{"?" + m.Type}
		}
		k.mu.Unlock()
	}
	k.mu.Lock()
	k.frames = append(k.frames, fr)
	closed := k.closed
	k.mu.Unlock()
	gate := make(chan bool, 1)
	k.reports <- wsReport{who: "api", kind: "write", frame: fr, wgate: gate, ok: !closed}
	if ok := <-gate; !ok {
		return errWsInjected
	}
	k.mu.Lock()
	k.written = append(k.written, fr)
	k.mu.Unlock()
	return nil
}

func (c wsConn) ReadMessage() (int, []byte, error) {
	k := c.k
	k.mu.Lock()
	if k.closed {
		k.mu.Unlock()
		return 0, nil, errors.New("use of closed connection")
	}
	gate := make(chan wsRead, 1)
	k.pendingRead = gate
	k.mu.Unlock()
	k.reports <- wsReport{who: "reader", kind: "read", rgate: gate, gid: wsGid()}
	r := <-gate
	return 1, r.data, r.err
}

func (c wsConn) Close() error {
	k := c.k
	k.mu.Lock()
	k.connCloses++
	if c.idx < len(k.perConnCloses) {
		k.perConnCloses[c.idx]++
	}
	k.closed = true
	pr := k.pendingRead
	k.pendingRead = nil
	k.mu.Unlock()
	if pr != nil {
		select {
		case pr <- wsRead{err: errors.New("use of closed connection")}:
		default:
		}
	}
	return nil
}

// ---- one schedule on the real client ----

type wsRun struct {
	garbageN int
	k        *wsCtl
	client   graphql.WebSocketClient
	errChan  chan error
	chans    []chan wsItem
	subIDs   map[int]string // call index of Subscribe -> returned id
	callKind []string       // per call: subscribe|unsubscribe|close
	callSub  []int          // per call: sub index (subscribe: index it created)
	callState []string      // real: "running" | "inWrite:<kind>:<i>" | "ret:<ok>"
	callGate  []chan bool    // pending write gate per call
	reader   string         // "running" | "read" | "send:i:p" | "done"
	readGate chan wsRead
	fwdGate  chan struct{}
	cur      int // call the next write report is attributed to
	delivered [][]int
	errRecv  int
	panics   []string
	nSubscribed int
	srvCompleted map[int]bool // a `complete` for this sub was handed to the reader earlier
	readerGid string
	herrGate chan struct{}
	endMismatch string
	mustDeliver map[int][]int // nexts handed to the reader while nothing had started to end the subscription
	inflightAfterEnd bool      // the `next` now being delivered was handed over after its subscription had ended
}

// endStarted: an Unsubscribe(i) or a Close has been called, or a server complete for i was sent
func (r *wsRun) endStarted(i int) bool {
	if r.srvCompleted[i] {
		return true
	}
	for ci, k := range r.callKind {
		if (k == "unsubscribe" && r.callSub[ci] == i) || k == "close" {
			return true
		}
	}
	return false
}

// subEnded: as far as the application/server can tell, subscription i has ended already
func (r *wsRun) subEnded(i int) bool {
	if r.srvCompleted[i] {
		return true
	}
	for ci, k := range r.callKind {
		if k == "unsubscribe" && r.callSub[ci] == i && r.callState[ci] == "ret:true" {
			return true
		}
		if k == "close" && strings.HasPrefix(r.callState[ci], "ret") {
			return true
		}
	}
	return false
}

func newWsRun() *wsRun {
	k := &wsCtl{reports: make(chan wsReport, 64)}
	return &wsRun{k: k, subIDs: map[int]string{}, reader: "running", cur: -1, srvCompleted: map[int]bool{}}
}

const wsWait = 3 * time.Second

// pump processes reports until `done()` holds or the timeout expires.
var wsPumpWaited time.Duration

func (r *wsRun) pump(done func() bool, timeout time.Duration) bool {
	t0 := time.Now()
	defer func() {
		if d := time.Since(t0); d > 20*time.Millisecond && os.Getenv("HX_WS_DEBUG") != "" {
			fmt.Fprintf(os.Stderr, "pump waited %v (timeout %v) reader=%s calls=%v\n", d, timeout, r.reader, r.callState)
		}
	}()
	deadline := time.After(timeout)
	for {
		if done() {
			return true
		}
		select {
		case rep := <-r.k.reports:
			r.apply(rep)
		case <-deadline:
			return done()
		}
	}
}

func (r *wsRun) apply(rep wsReport) {
	switch rep.kind {
	case "write":
		c := r.cur
		if c < 0 || c >= len(r.callState) {
			// write outside any call (Start's init frame is handled separately)
			rep.wgate <- true
			return
		}
		st := "inWrite:" + fmt.Sprint(rep.frame[0])
		if len(rep.frame) > 1 {
			st += ":" + fmt.Sprint(rep.frame[1])
		}
		r.callState[c] = st
		r.callGate[c] = rep.wgate
	case "read":
		r.reader = "read"
		r.readGate = rep.rgate
		r.readerGid = rep.gid
	case "fwd":
		r.reader = fmt.Sprintf("send:%d:%d", rep.sub, rep.p)
		r.fwdGate = rep.fgate
	case "herr":
		if rep.gid != r.readerGid {
			close(rep.fgate)
			return
		}
		r.reader = "herrSend"
		r.herrGate = rep.fgate
	case "exit":
		if rep.gid != r.readerGid {
			return // a reader left over from an earlier schedule in this process
		}
		r.reader = "done"
	case "ret":
		r.callState[rep.call] = "ret:" + strconv.FormatBool(rep.ok)
		if r.callKind[rep.call] == "subscribe" && rep.ok {
			r.subIDs[r.callSub[rep.call]] = rep.msg
		}
	case "panic":
		r.panics = append(r.panics, rep.msg)
		if rep.who == "api" {
			r.callState[rep.call] = "panic"
		} else {
			r.reader = "panic"
		}
	}
}

func (r *wsRun) start() error {
	graphql.VerifHook = func(point string) {
		if point == "listen.exit" {
			r.k.reports <- wsReport{who: "reader", kind: "exit", gid: wsGid()}
		}
		if point == "handleErr.send" {
			gate := make(chan struct{})
			r.k.reports <- wsReport{who: "reader", kind: "herr", gid: wsGid(), fgate: gate}
			<-gate
		}
	}
	r.client = graphql.NewClientUsingWebSocket("ws://h.example/q", wsDialer{r.k})
	type sr struct {
		ch  chan error
		err error
	}
	res := make(chan sr, 1)
	go func() {
		ch, err := guardStart(r.client)
		res <- sr{ch, err}
	}()
	// handshake: init write, ack read (exactly one read belongs to Start; a later one is the
	// reader's first read, which may be reported before Start's return value is seen)
	acked := false
	for {
		select {
		case rep := <-r.k.reports:
			switch rep.kind {
			case "write":
				rep.wgate <- true
			case "read":
				if !acked {
					acked = true
					rep.rgate <- wsRead{data: []byte(`{"type":"connection_ack"}`)}
				} else {
					r.apply(rep)
				}
			}
		case s := <-res:
			if s.err != nil {
				return s.err
			}
			r.errChan = s.ch
			// wait for the reader to park in its first read
			if !r.pump(func() bool { return r.reader == "read" }, wsWait) {
				return errors.New("reader did not reach its first read")
			}
			return nil
		case <-time.After(wsWait):
			return errors.New("Start did not return")
		}
	}
}

func (r *wsRun) forwarder(sub int) graphql.ForwardDataFunction {
	return func(ch interface{}, raw json.RawMessage) (err error) {
		// mirrors generate/operation.go.tmpl's forwarder: decode, then blocking send
		var resp struct {
			Data   *struct{ P int `json:"p"` } `json:"data"`
			Errors []struct{ Message string }  `json:"errors"`
		}
		if e := json.Unmarshal(raw, &resp); e != nil {
			return e
		}
		item := wsItem{}
		if len(resp.Errors) > 0 {
			item.HasErr = true
		}
		if resp.Data != nil {
			item.P = resp.Data.P
		}
		c, ok := ch.(chan wsItem)
		if !ok {
			return errors.New("failed to cast")
		}
		gate := make(chan struct{})
		r.k.reports <- wsReport{who: "reader", kind: "fwd", sub: sub, p: item.P, fgate: gate}
		<-gate
		defer func() {
			if p := recover(); p != nil {
				r.k.reports <- wsReport{who: "reader", kind: "panic", msg: fmt.Sprint(p)}
				// the real reader would have crashed here; park forever
				select {}
			}
		}()
		c <- item
		return nil
	}
}

func (r *wsRun) apiCall(kind string, sub int, f func() (string, error)) int {
	c := len(r.callState)
	r.callKind = append(r.callKind, kind)
	r.callSub = append(r.callSub, sub)
	r.callState = append(r.callState, "running")
	r.callGate = append(r.callGate, nil)
	r.cur = c
	go func() {
		defer func() {
			if p := recover(); p != nil {
				r.k.reports <- wsReport{who: "api", kind: "panic", call: c, msg: fmt.Sprint(p)}
			}
		}()
		s, err := f()
		r.k.reports <- wsReport{who: "api", kind: "ret", call: c, ok: err == nil, msg: s}
	}()
	return c
}

var wsReq = &graphql.Request{Query: "subscription S { p }", OpName: "S"}

// exec performs one event on the real client (without waiting for its consequences).
func (r *wsRun) exec(e wsEv) error {
	switch e.E {
	case "subscribe":
		sub := r.nSubscribed
		r.nSubscribed++
		ch := make(chan wsItem)
		r.chans = append(r.chans, ch)
		r.delivered = append(r.delivered, nil)
		r.apiCall("subscribe", sub, func() (string, error) { return r.client.Subscribe(wsReq, ch, r.forwarder(sub)) })
	case "unsubscribe":
		id, ok := r.subIDs[e.I]
		if !ok {
			id = "unknown-" + fmt.Sprint(e.I)
		}
		r.apiCall("unsubscribe", e.I, func() (string, error) { return "", r.client.Unsubscribe(id) })
	case "close":
		r.apiCall("close", -1, func() (string, error) { return "", r.client.Close() })
	case "step", "stepFail":
		g := r.callGate[e.C]
		if g == nil {
			return fmt.Errorf("call %d is not in a write", e.C)
		}
		r.callGate[e.C] = nil
		r.callState[e.C] = "running"
		r.cur = e.C
		g <- e.E == "step"
	case "server":
		if r.readGate == nil {
			return errors.New("reader is not in a read")
		}
		g := r.readGate
		r.readGate = nil
		r.reader = "running"
		id := "no-such-id"
		r.k.mu.Lock()
		if e.I < len(r.k.ids) {
			id = r.k.ids[e.I]
		}
		r.k.mu.Unlock()
		var data string
		switch e.M {
		case "next":
			r.inflightAfterEnd = r.subEnded(e.I)
			if !r.endStarted(e.I) && (e.Dec == nil || *e.Dec) {
				if r.mustDeliver == nil {
					r.mustDeliver = map[int][]int{}
				}
				r.mustDeliver[e.I] = append(r.mustDeliver[e.I], e.P)
			}
			// the payload is opaque to the protocol layer: user data may itself contain the protocol's key names
			// and message-type words, and JSON members may come in any order (seeded change C14-r10)
			pl := fmt.Sprintf(`{"data":{"p":%d}}`, e.P)
			switch e.P % 4 {
			case 1:
				pl = fmt.Sprintf(`{"data":{"p":%d,"task":{"type":"complete","id":"0"}}}`, e.P)
			case 2:
				pl = fmt.Sprintf(`{"data":{"type":"error","p":%d,"id":%q,"payload":null},"extensions":{"type":"connection_ack"}}`, e.P, "x"+id)
			case 3:
				pl = fmt.Sprintf(`{"extensions":{"note":"\"type\":\"complete\""},"data":{"p":%d}}`, e.P)
			}
			if e.Dec != nil && !*e.Dec {
				pl = `[1,2]`
			}
			data = fmt.Sprintf(`{"type":"next","id":%q,"payload":%s}`, id, pl)
			if e.P%8 >= 4 {
				data = fmt.Sprintf(`{"payload":%s,"id":%q,"type":"next"}`, pl, id)
			}
		case "complete":
			r.srvCompleted[e.I] = true
			data = fmt.Sprintf(`{"type":"complete","id":%q}`, id)
		case "other":
			data = fmt.Sprintf(`{"type":"error","id":%q,"payload":[{"message":"bad"}]}`, id)
		default:
			// malformed frames of several shapes, all answered the same way by the unchanged reader (a decode error on
			// the error channel): not JSON, zero-length, white space only, a JSON value that is not an object
			// (seeded change C13-r11 indexed message[0] of an empty frame)
			r.garbageN++
			data = []string{`<<<not json`, ``, " \n", `[]`, `"next"`}[r.garbageN%5]
		}
		g <- wsRead{data: []byte(data)}
	case "readErr":
		if r.readGate == nil {
			return errors.New("reader is not in a read")
		}
		g := r.readGate
		r.readGate = nil
		r.reader = "running"
		g <- wsRead{err: errWsInjected}
	case "recvData":
		if r.fwdGate == nil {
			return errors.New("reader is not delivering")
		}
		g := r.fwdGate
		r.fwdGate = nil
		r.reader = "running"
		close(g)
		select {
		case it, ok := <-r.chans[e.I]:
			if !ok {
				return errors.New("data channel closed instead of delivering")
			}
			r.delivered[e.I] = append(r.delivered[e.I], it.P)
		case <-time.After(wsWait):
			return errors.New("no delivery on data channel")
		}
	case "rstep":
		// release the reader from a yield point: the error-channel send, or a parked delivery
		// that will run into a closed channel
		if r.herrGate != nil {
			g := r.herrGate
			r.herrGate = nil
			r.reader = "running"
			close(g)
		} else if r.fwdGate != nil {
			g := r.fwdGate
			r.fwdGate = nil
			r.reader = "running"
			close(g)
		}
	case "recvErr":
		select {
		case _, ok := <-r.errChan:
			if !ok {
				return errors.New("error channel closed, nothing received")
			}
			r.errRecv++
		case <-time.After(wsWait):
			return errors.New("nothing on the error channel")
		}
	}
	return nil
}

// ---- the child: runs schedules [from,to) and prints one JSON line per schedule ----

type wsOutcome struct {
	Idx        int      `json:"idx"`
	Evs        []wsEv   `json:"evs"`
	Mismatch   string   `json:"mismatch,omitempty"`   // first model/impl divergence
	Violations [][3]string `json:"violations,omitempty"` // (property, class, what)
	Key        string   `json:"key"`
	Faults     bool     `json:"faults"`
}

func wsChild(c *Ctx, from, to int, faults bool) {
	w := bufio.NewWriter(os.Stdout)
	flags := loadWsFlags()
	mism := 0
	for idx := from; idx < to; idx++ {
		fmt.Fprintf(w, "BEGIN %d\n", idx)
		w.Flush()
		if mism >= 4 {
			fmt.Fprintf(w, "END %s\n", `{"idx":`+strconv.Itoa(idx)+`,"key":"skipped-after-divergences"}`)
			w.Flush()
			continue
		}
		out := wsOneSchedule(c, idx, flags, faults, nil)
		if out.Mismatch != "" {
			mism++
		}
		b, _ := json.Marshal(out)
		fmt.Fprintf(w, "END %s\n", b)
		w.Flush()
	}
}

// closeOrder: the order in which this run's Close visits subscription ids (Go map iteration),
// learnt from the frames the implementation writes.
var wsCloseOrder []int

func wsModel(c *Ctx, flags wsFlags, evs []wsEv) (*mWorld, int) {
	m := c.Model(map[string]any{"op": "ws.run", "flags": flags, "evs": evs, "closeOrder": wsCloseOrder})
	var mw mWorld
	b, _ := json.Marshal(m["world"])
	json.Unmarshal(b, &mw)
	dis := -1
	if d, ok := m["disabledAt"].(json.Number); ok {
		x, _ := d.Int64()
		dis = int(x)
	}
	return &mw, dis
}

// wsOneSchedule: random walk over model-enabled park-level events, executed in lock step.
func wsOneSchedule(c *Ctx, idx int, flags wsFlags, faults bool, fixed []wsEv) wsOutcome {
	rng := c.Rng(map[bool]string{true: "wsF", false: "ws"}[faults], idx)
	out := wsOutcome{Idx: idx, Faults: faults}
	wsCloseOrder = []int{}
	r := newWsRun()
	if err := r.start(); err != nil {
		out.Mismatch = "start failed: " + err.Error()
		return out
	}
	viol := func(prop, class, what string) { out.Violations = append(out.Violations, [3]string{prop, class, what}) }
	evs := []wsEv{}
	mw, _ := wsModel(c, flags, evs)
	unsubbed := map[int]bool{}
	closed := false
	payload := 100
	maxLen := 14 + rng.Intn(26)
	serverNexts := map[int][]int{} // per sub: payloads of decodable nexts sent while the server considers it live
	features := map[string]bool{}
	steps := 0
	for steps = 0; steps < maxLen; steps++ {
		// candidate events
		var cands []wsEv
		nsub := len(mw.Subs)
		rs := mw.readerState()
		add := func(e wsEv, weight int) {
			for i := 0; i < weight; i++ {
				cands = append(cands, e)
			}
		}
		// C15 quantifies over API call *sequences*: with fault injection on, a new API call
		// starts only when the previous ones have returned (the reader stays concurrent)
		apiBusy := false
		if faults {
			for _, cs := range mw.Calls {
				if len(cs) > 0 && cs[0] != "ret" {
					apiBusy = true
				}
			}
		}
		if !closed && nsub < 3 && !apiBusy {
			add(wsEv{E: "subscribe"}, 3)
		}
		for i := 0; i < nsub; i++ {
			if _, known := r.subIDs[i]; known && !unsubbed[i] && !closed && !apiBusy {
				add(wsEv{E: "unsubscribe", I: i}, 2)
			}
		}
		if !closed && nsub > 0 && !apiBusy {
			add(wsEv{E: "close"}, 1+steps/8)
		}
		for ci, cs := range mw.Calls {
			if len(cs) > 0 && cs[0] == "inWrite" {
				add(wsEv{E: "step", C: ci}, 4)
				if faults {
					add(wsEv{E: "stepFail", C: ci}, 1)
				}
			}
		}
		if rs == "read" && mw.ConnCloses == 0 {
			for i := 0; i < nsub; i++ {
				add(wsEv{E: "server", M: "next", I: i, P: payload}, 4)
				add(wsEv{E: "server", M: "complete", I: i}, 1)
			}
			if nsub > 0 && rng.Chance(1, 6) {
				switch rng.Intn(5) {
				case 0:
					add(wsEv{E: "server", M: "garbage"}, 1)
				case 1:
					add(wsEv{E: "server", M: "next", I: nsub + 1, P: payload}, 1)
				case 2:
					f := false
					add(wsEv{E: "server", M: "next", I: rng.Intn(nsub), P: payload, Dec: &f}, 1)
				case 3:
					add(wsEv{E: "server", M: "other", I: rng.Intn(nsub)}, 1)
				default:
					add(wsEv{E: "readErr"}, 1)
				}
			}
		}
		if strings.HasPrefix(rs, "send:") {
			var i, p int
			fmt.Sscanf(rs, "send:%d:%d", &i, &p)
			if i < nsub && mw.Subs[i].Closes == 0 {
				add(wsEv{E: "recvData", I: i}, 6)
			} else {
				add(wsEv{E: "rstep"}, 1)
			}
		}
		if rs == "herrSend" {
			add(wsEv{E: "rstep"}, 4)
		}
		if mw.ErrQueued > 0 {
			add(wsEv{E: "recvErr"}, 3)
		}
		if len(cands) == 0 {
			break
		}
		e := proto.Pick(rng, cands)
		nmw, dis := wsModel(c, flags, append(append([]wsEv{}, evs...), e))
		if dis >= 0 {
			continue // not enabled in the model: pick again
		}
		evs = append(evs, e)
		switch e.E {
		case "unsubscribe":
			unsubbed[e.I] = true
			features["unsubscribe"] = true
		case "close":
			closed = true
			features["close"] = true
		case "server":
			features["srv:"+e.M] = true
			if e.M == "next" {
				payload++
				if e.I < nsub && (e.Dec == nil || *e.Dec) {
					serverNexts[e.I] = append(serverNexts[e.I], e.P)
				}
			}
		case "stepFail":
			features["fault"] = true
		case "recvData", "rstep", "recvErr", "readErr":
			features[e.E] = true
		}
		if err := r.exec(e); err != nil {
			out.Mismatch = fmt.Sprintf("event %s enabled in the model but not executable on the implementation: %v", e, err)
			break
		}
		mw = nmw
		msg := r.sync(mw)
		for tries := 0; msg != "" && tries < 4 && r.learnCloseOrder(mw); tries++ {
			mw, _ = wsModel(c, flags, evs)
			msg = r.sync(mw)
		}
		if msg != "" {
			out.Mismatch = fmt.Sprintf("after %s: %s", e, msg)
			break
		}
		if len(mw.Panic) > 0 || len(r.panics) > 0 {
			break
		}
	}
	out.Evs = evs
	ks := []string{}
	for k := range features {
		ks = append(ks, k)
	}
	sortStrings(ks)
	out.Key = fmt.Sprintf("n=%d|%s", len(mw.Subs), strings.Join(ks, ","))

	// ---------- direct oracles on the real observations ----------
	for _, p := range r.panics {
		cls := "panic:other"
		switch {
		case strings.Contains(p, "close of closed channel"):
			cls = "panic:close-of-closed-channel"
		case strings.Contains(p, "send on closed channel"):
			cls = "panic:send-on-closed-channel:" + map[bool]string{true: "next-after-end", false: "ended-during-delivery"}[r.inflightAfterEnd]
		}
		viol("C13", cls, "goroutine panicked: "+p)
	}
	if len(r.panics) == 0 {
		hadMismatch := out.Mismatch != ""
		r.finish(mw, faults, closed, viol, serverNexts, unsubbed)
		if !hadMismatch && r.endMismatch != "" {
			out.Mismatch = "end state: " + r.endMismatch
		}
	}
	r.cleanup()
	return out
}

// sync waits until the real threads are where the model says they are.
func (r *wsRun) sync(mw *mWorld) string {
	want := make([]string, len(mw.Calls))
	for i, cs := range mw.Calls {
		want[i] = callState(cs)
	}
	wantReader := mw.readerState()
	wantPanic := len(mw.Panic) > 0
	match := func() bool {
		if wantPanic {
			return len(r.panics) > 0
		}
		if r.orderDiverges(mw) {
			return true // resolved by the caller (learnCloseOrder), no point in waiting
		}
		if len(r.panics) > 0 {
			return true // reported below
		}
		for i, ws := range want {
			if i >= len(r.callState) {
				return false
			}
			rs := r.callState[i]
			switch {
			case strings.HasPrefix(ws, "inWrite"):
				if rs != ws {
					return false
				}
			case strings.HasPrefix(ws, "ret"):
				if rs != ws {
					return false
				}
			}
		}
		switch {
		case wantReader == "read" || wantReader == "done" || wantReader == "herrSend" || strings.HasPrefix(wantReader, "send:"):
			if r.reader != wantReader {
				return false
			}
		}
		return true
	}
	ok := r.pump(match, wsWait)
	if !wantPanic && r.orderDiverges(mw) {
		return "Close visits the subscriptions in another order than the model assumed"
	}
	if len(r.panics) > 0 && !wantPanic {
		return "" // a panic the model does not predict: reported as a violation by the caller, and as mismatch:
	}
	if !ok {
		return fmt.Sprintf("implementation did not reach the model's state: calls impl=%v model=%v; reader impl=%s model=%s; panics=%v", r.callState, want, r.reader, wantReader, r.panics)
	}
	// threads the model says are blocked must not have moved on: give them a moment
	blocked := false
	for _, ws := range want {
		if strings.HasPrefix(ws, "blocked") {
			blocked = true
		}
	}
	if blocked {
		r.pump(func() bool { return false }, 30*time.Millisecond)
		for i, ws := range want {
			if strings.HasPrefix(ws, "blocked") && r.callState[i] != "running" {
				return fmt.Sprintf("call %d: model says blocked on the mutex, implementation is %s", i, r.callState[i])
			}
		}
	}
	return ""
}

// learnCloseOrder: if a Close call of the implementation is writing `complete k` where the model
// expected another id, record k as the next id of this run's map-iteration order.
func (r *wsRun) orderDiverges(mw *mWorld) bool {
	for ci, k := range r.callKind {
		if k != "close" || ci >= len(mw.Calls) {
			continue
		}
		rs := r.callState[ci]
		ms := callState(mw.Calls[ci])
		if strings.HasPrefix(rs, "inWrite:complete:") && strings.HasPrefix(ms, "inWrite:complete:") && rs != ms {
			return true
		}
	}
	return false
}

func (r *wsRun) learnCloseOrder(mw *mWorld) bool {
	for ci, k := range r.callKind {
		if k != "close" || ci >= len(mw.Calls) {
			continue
		}
		rs := r.callState[ci]
		ms := callState(mw.Calls[ci])
		if strings.HasPrefix(rs, "inWrite:complete:") && strings.HasPrefix(ms, "inWrite:complete:") && rs != ms {
			var id int
			fmt.Sscanf(rs, "inWrite:complete:%d", &id)
			for _, x := range wsCloseOrder {
				if x == id {
					return false
				}
			}
			wsCloseOrder = append(wsCloseOrder, id)
			return true
		}
	}
	return false
}

// cleanup releases every park point and drains every channel so that the goroutines of this
// run finish (or stay parked forever) before the next schedule starts in the same process.
func (r *wsRun) cleanup() {
	stop := make(chan struct{})
	for _, ch := range r.chans {
		go func(ch chan wsItem) {
			for {
				select {
				case _, ok := <-ch:
					if !ok {
						return
					}
				case <-stop:
					return
				}
			}
		}(ch)
	}
	go func() {
		for {
			select {
			case _, ok := <-r.errChan:
				if !ok {
					return
				}
			case <-stop:
				return
			}
		}
	}()
	r.k.mu.Lock()
	r.k.closed = true
	pr := r.k.pendingRead
	r.k.pendingRead = nil
	r.k.mu.Unlock()
	if pr != nil {
		select {
		case pr <- wsRead{err: errWsInjected}:
		default:
		}
	}
	if r.fwdGate != nil {
		close(r.fwdGate)
		r.fwdGate = nil
	}
	if r.herrGate != nil {
		close(r.herrGate)
		r.herrGate = nil
	}
	for i, g := range r.callGate {
		if g != nil {
			g <- false
			r.callGate[i] = nil
		}
	}
	deadline := time.After(150 * time.Millisecond)
	for r.reader != "done" && r.reader != "panic" {
		select {
		case rep := <-r.k.reports:
			switch rep.kind {
			case "write":
				rep.wgate <- false
			case "read":
				rep.rgate <- wsRead{err: errWsInjected}
			case "fwd", "herr":
				close(rep.fgate)
			case "exit":
				if rep.gid == r.readerGid {
					r.reader = "done"
				}
			}
		case <-deadline:
			if os.Getenv("HX_WS_DEBUG") != "" {
				fmt.Fprintln(os.Stderr, "cleanup: reader still", r.reader, "calls", r.callState)
			}
			close(stop)
			return
		}
	}
	close(stop)
}

func chanClosed(ch chan wsItem) (closed bool, extra []int) {
	for {
		select {
		case it, ok := <-ch:
			if !ok {
				return true, extra
			}
			extra = append(extra, it.P)
		default:
			return false, extra
		}
	}
}

// finish: end-of-schedule phases and the properties' oracles.
func (r *wsRun) finish(mw *mWorld, faults, closed bool, viol func(prop, class, what string), serverNexts map[int][]int, unsubbed map[int]bool) {
	// The yield point before the error-channel send is the harness's own: release it and let
	// API calls that were waiting for the mutex finish before judging them.
	if r.herrGate != nil {
		close(r.herrGate)
		r.herrGate = nil
		r.reader = "running"
		r.pump(func() bool { return r.reader != "running" }, 300*time.Millisecond)
		r.pump(func() bool {
			for _, s := range r.callState {
				if s == "running" {
					return false
				}
			}
			return true
		}, 300*time.Millisecond)
	}
	// Phase A (C13): all pending connection writes complete; the application does NOT receive.
	// Every API call must return.
	for round := 0; round < 20; round++ {
		progressed := false
		for ci := range r.callState {
			if r.callGate[ci] != nil {
				g := r.callGate[ci]
				r.callGate[ci] = nil
				r.callState[ci] = "running"
				r.cur = ci
				g <- true
				r.pump(func() bool { return r.callState[ci] != "running" }, 300*time.Millisecond)
				progressed = true
			}
		}
		if !progressed {
			break
		}
	}
	r.pump(func() bool {
		for _, s := range r.callState {
			if s == "running" {
				return false
			}
		}
		return true
	}, 300*time.Millisecond)
	closeReturned := false
	for ci, s := range r.callState {
		if s == "running" {
			viol("C13", "api-call-blocked:"+r.callKind[ci], fmt.Sprintf("%s did not return although every connection write completed (reader=%s)", r.callKind[ci], r.reader))
		}
		if r.callKind[ci] == "close" && strings.HasPrefix(s, "ret") {
			closeReturned = true
		}
	}
	for _, p := range r.panics {
		if strings.Contains(p, "close of closed channel") {
			viol("C13", "panic:close-of-closed-channel", "goroutine panicked: "+p)
		} else if !strings.Contains(p, "send on closed channel") {
			viol("C13", "panic:other", "goroutine panicked: "+p)
		}
	}
	// Phase B: the application drains what is pending; then the reader must be gone if the
	// client was closed.
	if r.fwdGate != nil {
		var i, p int
		fmt.Sscanf(r.reader, "send:%d:%d", &i, &p)
		cl, _ := false, 0
		_ = cl
		g := r.fwdGate
		r.fwdGate = nil
		r.reader = "running"
		close(g)
		select {
		case it, ok := <-r.chans[i]:
			if ok {
				r.delivered[i] = append(r.delivered[i], it.P)
			}
		case <-time.After(200 * time.Millisecond):
		}
		r.pump(func() bool { return r.reader != "running" }, 300*time.Millisecond)
	}
	for drained := 0; drained < 3; drained++ {
		select {
		case _, ok := <-r.errChan:
			if ok {
				r.errRecv++
			}
		default:
		}
	}
	if closeReturned {
		if !r.pump(func() bool { return r.reader == "done" || r.reader == "panic" }, 500*time.Millisecond) {
			viol("C13", "reader-not-terminated", "Close returned but the background reader is still running (state "+r.reader+")")
		}
	}
	for _, p := range r.panics {
		if strings.Contains(p, "send on closed channel") {
			viol("C13", "panic:send-on-closed-channel:"+map[bool]string{true: "next-after-end", false: "ended-during-delivery"}[r.inflightAfterEnd], "goroutine panicked: "+p)
		}
	}
	// C14: per subscription
	for i, ch := range r.chans {
		cl, extra := chanClosed(ch)
		r.delivered[i] = append(r.delivered[i], extra...)
		want := serverNexts[i]
		got := r.delivered[i]
		if len(got) > len(want) {
			viol("C14", "delivered-more-than-sent", fmt.Sprintf("sub %d: delivered %v, server sent %v", i, got, want))
		} else {
			for j := range got {
				if got[j] != want[j] {
					viol("C14", "delivery-order-or-channel", fmt.Sprintf("sub %d: delivered %v is not a prefix of what the server sent for it %v", i, got, want))
					break
				}
			}
		}
		// liveness: what was handed to the reader for a live, successfully subscribed id and
		// never overtaken by an end must have been delivered once the application drained
		subFailed := false
		for ci, k := range r.callKind {
			if k == "subscribe" && r.callSub[ci] == i && r.callState[ci] == "ret:false" {
				subFailed = true
			}
		}
		if !subFailed && !r.endStarted(i) && r.reader != "panic" {
			md := r.mustDeliver[i]
			if fmt.Sprint(md) != fmt.Sprint(got) && len(md) > 0 {
				viol("C14", "next-not-delivered", fmt.Sprintf("sub %d: server sent %v while the subscription was live, application received %v", i, md, got))
			}
		}
		// ended (Unsubscribe returned ok / Close returned ok / server complete processed) => closed
		unsubOK := false
		for ci, k := range r.callKind {
			if k == "unsubscribe" && r.callSub[ci] == i && r.callState[ci] == "ret:true" {
				unsubOK = true
			}
		}
		closeOK := false
		for ci, k := range r.callKind {
			if k == "close" && r.callState[ci] == "ret:true" {
				closeOK = true
			}
		}
		registered := false
		for ci, k := range r.callKind {
			if k == "subscribe" && r.callSub[ci] == i && r.callState[ci] == "ret:true" {
				registered = true
			}
		}
		if (unsubOK || (closeOK && registered)) && !cl {
			viol("C14", "channel-not-closed-after-end", fmt.Sprintf("sub %d: subscription ended (unsubscribe ok=%v, close ok=%v) but its channel is still open", i, unsubOK, closeOK))
		}
	}
	// C15: wire protocol
	r.k.mu.Lock()
	frames := append([][]any{}, r.k.written...)
	handed := append([][]any{}, r.k.frames...)
	connCloses := r.k.connCloses
	r.k.mu.Unlock()
	_ = handed
	if msg := wsValidConversation(frames); msg != "" {
		cls := "invalid-conversation:" + strings.SplitN(msg, ":", 2)[0]
		viol("C15", cls, msg+" — frames "+fmt.Sprint(frames))
	}
	closeCalled := false
	for ci, k := range r.callKind {
		if k == "close" && strings.HasPrefix(r.callState[ci], "ret") {
			closeCalled = true
		}
	}
	if closeCalled {
		if connCloses == 0 {
			viol("C15", "close-left-conn-open", "Close returned but the connection was not closed")
		}
		ecClosed := false
		select {
		case _, ok := <-r.errChan:
			ecClosed = !ok
		default:
		}
		if !ecClosed {
			viol("C15", "close-left-errchan-open", "Close returned but the error channel is not closed")
		}
	}
	// failed Subscribe leaves no registered subscription: a later frame for it must be "unknown"
	// (checked through the model comparison: Registered flag) — and Close must not send complete for it.
	for ci, k := range r.callKind {
		if k == "subscribe" && r.callState[ci] == "ret:false" {
			sub := r.callSub[ci]
			for _, f := range frames {
				if f[0] == "complete" && f[1] == sub {
					viol("C15", "failed-subscribe-left-registration", fmt.Sprintf("complete frame written for sub %d whose Subscribe failed", sub))
				}
			}
		}
	}
	// ---- end-state comparison with the model (history observables) ----
	r.endMismatch = ""
	if fmt.Sprint(handed) != fmt.Sprint(mwFrames(mw.Frames)) {
		// the finish phase lets pending writes complete, which the model run does not include:
		// compare the prefix the model knows about
		mf := mwFrames(mw.Frames)
		if len(handed) < len(mf) || fmt.Sprint(handed[:len(mf)]) != fmt.Sprint(mf) {
			r.endMismatch = fmt.Sprintf("frames handed to the connection: impl %v, model %v", handed, mf)
		}
	}
	for i := range r.chans {
		if i < len(mw.Subs) {
			md := mw.Subs[i].Delivered
			got := r.delivered[i]
			if len(got) < len(md) || fmt.Sprint(got[:len(md)]) != fmt.Sprint(md) {
				r.endMismatch = fmt.Sprintf("sub %d delivered: impl %v, model %v", i, got, md)
			}
		}
	}
}

func mwFrames(fs [][]any) [][]any {
	out := [][]any{}
	for _, f := range fs {
		g := []any{f[0]}
		if len(f) > 1 {
			if n, ok := f[1].(float64); ok {
				g = append(g, int(n))
			} else if n, ok := f[1].(json.Number); ok {
				x, _ := n.Int64()
				g = append(g, int(x))
			} else {
				g = append(g, f[1])
			}
		}
		out = append(out, g)
	}
	return out
}

// wsValidConversation checks the client side of graphql-transport-ws on a frame list.
func wsValidConversation(frames [][]any) string {
	if len(frames) == 0 || frames[0][0] != "init" {
		return "init-not-first: connection_init is not the first frame"
	}
	subscribed := map[any]bool{}
	completed := map[any]bool{}
	closedAt := -1
	for i, f := range frames[1:] {
		if closedAt >= 0 {
			return fmt.Sprintf("frame-after-close: %v written after the close frame", f)
		}
		switch f[0] {
		case "init":
			return "second-init: connection_init written twice"
		case "subscribe":
			if subscribed[f[1]] {
				return "duplicate-id: subscribe id reused"
			}
			subscribed[f[1]] = true
		case "complete":
			if !subscribed[f[1]] {
				return "complete-unknown: complete for an id that was never subscribed"
			}
			if completed[f[1]] {
				return "complete-twice: two complete frames for one id"
			}
			completed[f[1]] = true
		case "close":
			closedAt = i
		}
	}
	return ""
}

func sortStrings(a []string) {
	for i := 1; i < len(a); i++ {
		for j := i; j > 0 && a[j] < a[j-1]; j-- {
			a[j], a[j-1] = a[j-1], a[j]
		}
	}
}

// ---- the parent: supervises children, aggregates per property ----

func init() {
	rule := "park-level schedules of a started client (<=3 subscriptions, server next/complete/error/garbage/unknown-id frames, " +
		"connection loss, Unsubscribe (<=1 per id), one Close, application receiving or not receiving), generated by a random walk over " +
		"the events the Lean model enables and executed in lock step on the real client behind a scripted Dialer/WSConn; " +
		"non-trivial = distinct (number of subscriptions, set of event kinds that occurred)"
	register("C13", rule, func(c *Ctx) { wsParent(c, "C13") })
	register("C14", rule, func(c *Ctx) { wsParent(c, "C14") })
	register("C15", rule+"; C15 adds injected failures of the k-th connection write", func(c *Ctx) { wsParent(c, "C15") })
}

func wsParent(c *Ctx, prop string) {
	if len(os.Args) > 0 && os.Getenv("HX_WS_CHILD") != "" {
		var from, to int
		fmt.Sscanf(os.Getenv("HX_WS_CHILD"), "%d:%d", &from, &to)
		wsChild(c, from, to, os.Getenv("HX_WS_FAULTS") == "1")
		os.Exit(0)
	}
	if sn := os.Getenv("HX_WS_STRESS"); sn != "" {
		n, _ := strconv.Atoi(sn)
		wsStressChild(c, n)
		os.Exit(0)
	}
	if f := os.Getenv("HX_WS_REPLAYFILE"); f != "" {
		// child mode: replay one recorded event list
		var wrap struct {
			Case struct {
				Evs    []wsEv `json:"evs"`
				Faults bool   `json:"faults"`
			} `json:"case"`
		}
		b, _ := osReadFile(f)
		json.Unmarshal(b, &wrap)
		fmt.Println("BEGIN -1")
		o := wsReplayFixed(c, wrap.Case.Evs, wrap.Case.Faults)
		ob, _ := json.Marshal(o)
		fmt.Printf("END %s\n", ob)
		os.Exit(0)
	}
	if c.Replay != "" {
		wsReplay(c, prop)
		return
	}
	// corpus first: minimised past failures and hand-picked witnesses
	files, _ := filepathGlob(verifRoot + "/harness/corpus/" + prop + "/*.json")
	for _, extra := range []string{"C13", "C14", "C15"} {
		if extra != prop {
			more, _ := filepathGlob(verifRoot + "/harness/corpus/" + extra + "/*.json")
			files = append(files, more...)
		}
	}
	for _, f := range files {
		wsRunReplayChild(c, prop, f)
	}
	n := c.N(600, 20000)
	faults := prop == "C15"
	batch := 100
	for from := 0; from < n; from += batch {
		to := min(from+batch, n)
		wsRunChildren(c, prop, from, to, faults)
		// the verdict is settled once several divergences have been recorded; waiting out
		// more of them (each costs a timeout) adds nothing
		if c.Res.Distribution["finding:mismatch:ws-model"] >= 6 || c.Res.Distribution["unexpected-violations"] >= 12 {
			c.Res.Notes = append(c.Res.Notes, fmt.Sprintf("stopped early after %d schedules: enough divergences recorded", to))
			break
		}
	}
	if prop == "C15" {
		wsStartFaults(c)
	}
	if prop == "C13" {
		wsStress(c, c.N(3000, 300000))
	} else {
		wsStress(c, 0) // the deterministic probes only
	}
}

func wsRunChildren(c *Ctx, prop string, from, to int, faults bool) {
	for from < to {
		cmd := exec.Command(os.Args[0], os.Args[1:]...)
		cmd.Env = append(os.Environ(), fmt.Sprintf("HX_WS_CHILD=%d:%d", from, to), "HX_WS_FAULTS="+map[bool]string{true: "1", false: "0"}[faults])
		var stderr strings.Builder
		cmd.Stderr = &stderr
		stdout, _ := cmd.StdoutPipe()
		if err := cmd.Start(); err != nil {
			c.Res.Notes = append(c.Res.Notes, "cannot start child: "+err.Error())
			return
		}
		sc := bufio.NewScanner(stdout)
		sc.Buffer(make([]byte, 1<<20), 1<<24)
		cur, done := -1, -1
		for sc.Scan() {
			line := sc.Text()
			if strings.HasPrefix(line, "BEGIN ") {
				fmt.Sscanf(line, "BEGIN %d", &cur)
			} else if strings.HasPrefix(line, "END ") {
				var o wsOutcome
				if json.Unmarshal([]byte(line[4:]), &o) == nil {
					wsRecord(c, prop, o)
					done = o.Idx
				}
			}
		}
		cmd.Wait()
		if cmd.ProcessState != nil && cmd.ProcessState.ExitCode() == 3 {
			fmt.Fprintln(os.Stderr, "hx: ws child reported a machinery failure:", firstLine(stderr.String()))
			os.Exit(3)
		}
		if done >= to-1 {
			return
		}
		// the child died inside schedule `cur`
		if cur < 0 {
			c.Res.Notes = append(c.Res.Notes, "child died before its first schedule: "+firstLine(stderr.String()))
			return
		}
		msg := firstPanicLine(stderr.String())
		cls := "panic:crash"
		switch {
		case strings.Contains(msg, "close of closed channel"):
			cls = "panic:close-of-closed-channel"
		case strings.Contains(msg, "send on closed channel"):
			cls = "panic:send-on-closed-channel"
		}
		c.Res.Eval()
		if prop == "C13" || prop == "C14" {
			c.Res.Add(proto.Finding{Kind: "violation", Class: cls, What: "process crashed inside schedule: " + msg,
				Case: map[string]any{"schedule_index": cur, "faults": faults, "seed": c.Seed, "note": "replay regenerates the schedule from (seed, index)"}})
		}
		from = cur + 1
	}
}

func wsRunReplayChild(c *Ctx, prop, file string) {
	cmd := exec.Command(os.Args[0], os.Args[1:]...)
	cmd.Env = append(os.Environ(), "HX_WS_REPLAYFILE="+file)
	var stderr strings.Builder
	cmd.Stderr = &stderr
	outb, _ := cmd.Output()
	got := false
	for _, line := range strings.Split(string(outb), "\n") {
		if strings.HasPrefix(line, "END ") {
			var o wsOutcome
			if json.Unmarshal([]byte(line[4:]), &o) == nil {
				o.Key = "corpus:" + file
				wsRecord(c, prop, o)
				got = true
			}
		}
	}
	c.Res.Count("corpus")
	if !got {
		if cmd.ProcessState != nil && cmd.ProcessState.ExitCode() == 3 {
			fmt.Fprintln(os.Stderr, "hx: ws child reported a machinery failure:", firstLine(stderr.String()))
			os.Exit(3)
		}
		msg := firstPanicLine(stderr.String())
		cls := "panic:crash"
		switch {
		case strings.Contains(msg, "close of closed channel"):
			cls = "panic:close-of-closed-channel"
		case strings.Contains(msg, "send on closed channel"):
			cls = "panic:send-on-closed-channel"
		}
		c.Res.Eval()
		if prop == "C13" || prop == "C14" {
			c.Res.Add(proto.Finding{Kind: "violation", Class: cls, What: "process crashed while replaying corpus case " + file + ": " + msg, Case: map[string]any{"corpus_file": file}})
		}
	}
}

func firstLine(s string) string {
	if i := strings.IndexByte(s, '\n'); i >= 0 {
		return s[:i]
	}
	return s
}
func firstPanicLine(s string) string {
	for _, l := range strings.Split(s, "\n") {
		if strings.HasPrefix(l, "panic:") || strings.HasPrefix(l, "fatal error:") {
			return l
		}
	}
	return firstLine(s)
}

func wsRecord(c *Ctx, prop string, o wsOutcome) {
	c.Res.Eval()
	c.Res.NonTrivial(o.Key)
	if o.Idx%50 == 0 {
		c.Res.Sample(map[string]any{"schedule": o.Evs})
	}
	c.Res.Count(fmt.Sprintf("len:%d", (len(o.Evs)/10)*10))
	cs := map[string]any{"evs": o.Evs, "faults": o.Faults, "schedule_index": o.Idx}
	if o.Mismatch != "" {
		c.Res.Add(proto.Finding{Kind: "mismatch", Class: "ws-model", What: o.Mismatch, Case: cs})
	}
	for _, v := range o.Violations {
		if v[0] == "C15" && !o.Faults {
			continue // C15 quantifies over API call sequences; the concurrent schedules are not held to it
		}
		if v[0] == prop || (prop == "C14" && v[0] == "C13" && strings.HasPrefix(v[1], "panic:")) {
			if !strings.Contains(v[1], "ended-during-delivery") {
				c.Res.Count("unexpected-violations")
			}
			c.Res.Add(proto.Finding{Kind: "violation", Class: v[1], What: v[2], Case: cs})
		}
	}
}

func wsReplay(c *Ctx, prop string) {
	var wrap struct {
		Case struct {
			Evs    []wsEv `json:"evs"`
			Faults bool   `json:"faults"`
			Index  *int   `json:"schedule_index"`
		} `json:"case"`
	}
	b, err := osReadFile(c.Replay)
	if err == nil {
		err = json.Unmarshal(b, &wrap)
	}
	if err != nil {
		c.Res.Notes = append(c.Res.Notes, "replay unreadable")
		return
	}
	if len(wrap.Case.Evs) > 0 {
		wsRunReplayChild(c, prop, c.Replay)
		return
	}
	if len(wrap.Case.Evs) == 0 && wrap.Case.Index != nil {
		wsRunChildren(c, prop, *wrap.Case.Index, *wrap.Case.Index+1, wrap.Case.Faults)
		return
	}
	o := wsReplayFixed(c, wrap.Case.Evs, wrap.Case.Faults)
	wsRecord(c, prop, o)
}

// wsReplayFixed executes a recorded event list (model and implementation in lock step).
func wsReplayFixed(c *Ctx, evs []wsEv, faults bool) wsOutcome {
	flags := loadWsFlags()
	out := wsOutcome{Idx: -1, Evs: evs, Faults: faults, Key: "replay"}
	wsCloseOrder = []int{}
	r := newWsRun()
	if err := r.start(); err != nil {
		out.Mismatch = "start failed: " + err.Error()
		return out
	}
	viol := func(prop, class, what string) { out.Violations = append(out.Violations, [3]string{prop, class, what}) }
	serverNexts := map[int][]int{}
	unsubbed := map[int]bool{}
	closed := false
	var mw *mWorld
	for i, e := range evs {
		var dis int
		mw, dis = wsModel(c, flags, evs[:i+1])
		if dis >= 0 {
			// a witness recorded on an earlier tree: the model of the present tree does not
			// enable this event any more; the prefix that is enabled has been checked
			out.Evs = evs[:i]
			if i > 0 {
				mw, _ = wsModel(c, flags, evs[:i])
			} else {
				mw = nil
			}
			break
		}
		if e.E == "server" && e.M == "next" && (e.Dec == nil || *e.Dec) {
			serverNexts[e.I] = append(serverNexts[e.I], e.P)
		}
		if e.E == "close" {
			closed = true
		}
		if e.E == "unsubscribe" {
			unsubbed[e.I] = true
		}
		if err := r.exec(e); err != nil {
			out.Mismatch = fmt.Sprintf("event %s not executable on the implementation: %v", e, err)
			break
		}
		msg := r.sync(mw)
		for tries := 0; msg != "" && tries < 4 && r.learnCloseOrder(mw); tries++ {
			mw, _ = wsModel(c, flags, evs[:i+1])
			msg = r.sync(mw)
		}
		if msg != "" {
			out.Mismatch = fmt.Sprintf("after %s: %s", e, msg)
			break
		}
		if len(r.panics) > 0 {
			break
		}
	}
	for _, p := range r.panics {
		cls := "panic:close-of-closed-channel"
		if !strings.Contains(p, "close of closed") {
			cls = "panic:send-on-closed-channel:" + map[bool]string{true: "next-after-end", false: "ended-during-delivery"}[r.inflightAfterEnd]
		}
		viol("C13", cls, "goroutine panicked: "+p)
	}
	if mw != nil && len(r.panics) == 0 {
		r.finish(mw, faults, closed, viol, serverNexts, unsubbed)
		if out.Mismatch == "" && r.endMismatch != "" {
			out.Mismatch = "end state: " + r.endMismatch
		}
	}
	r.cleanup()
	return out
}

// wsStartFaults: C15's Start clause — every failure point of the handshake.
func wsStartFaults(c *Ctx) {
	type sc struct {
		name string
		dialFail, initFail bool
		reads []wsRead
		closeNow bool // after the failed Start call Close at once instead of retrying Start
	}
	ack := []byte(`{"type":"connection_ack"}`)
	cases := []sc{
		{name: "dial-fails", dialFail: true},
		{name: "init-write-fails", initFail: true},
		{name: "ack-read-fails", reads: []wsRead{{err: errWsInjected}}},
		{name: "garbage-before-ack", reads: []wsRead{{data: []byte("<<<")}}},
		{name: "other-then-read-fails", reads: []wsRead{{data: []byte(`{"type":"ka"}`)}, {err: errWsInjected}}},
		{name: "other-then-ack", reads: []wsRead{{data: []byte(`{"type":"ka"}`)}, {data: ack}}},
		{name: "ack", reads: []wsRead{{data: ack}}},
	}
	for _, s := range cases[:5] {
		s.name, s.closeNow = s.name+"+close", true
		cases = append(cases, s)
	}
	for _, s := range cases {
		c.Res.Eval()
		c.Res.NonTrivial("start:" + s.name)
		k := &wsCtl{reports: make(chan wsReport, 64), dialFail: s.dialFail}
		cl := graphql.NewClientUsingWebSocket("ws://h/q", wsDialer{k}, graphql.WithConnectionParams(map[string]interface{}{"token": "t"}))
		exited := make(chan struct{}, 1)
		graphql.VerifHook = func(p string) {
			if p == "listen.exit" {
				exited <- struct{}{}
			}
		}
		type sr struct {
			ch  chan error
			err error
		}
		res := make(chan sr, 1)
		go func() { ch, err := guardStart(cl); res <- sr{ch, err} }()
		ri := 0
		var got sr
		readerReads := 0
	loop:
		for {
			select {
			case rep := <-k.reports:
				switch rep.kind {
				case "write":
					rep.wgate <- !s.initFail
				case "read":
					if ri < len(s.reads) {
						rep.rgate <- s.reads[ri]
						ri++
					} else {
						readerReads++
						// reader's read after a successful start: leave parked
					}
				}
			case got = <-res:
				break loop
			case <-time.After(wsWait):
				c.Res.Add(proto.Finding{Kind: "violation", Class: "start-hangs", What: "Start did not return: " + s.name, Case: s.name})
				break loop
			}
		}
		k.mu.Lock()
		frames := append([][]any{}, k.frames...)
		connCloses, dialed := k.connCloses, k.dialed
		k.mu.Unlock()
		wantFail := s.dialFail || s.initFail || (len(s.reads) > 0 && (s.reads[len(s.reads)-1].err != nil || string(s.reads[len(s.reads)-1].data) == "<<<"))
		fail := func(class, what string) {
			c.Res.Add(proto.Finding{Kind: "violation", Class: class, What: s.name + ": " + what, Case: map[string]any{"start_case": s.name}})
		}
		if got.err != nil && strings.HasPrefix(got.err.Error(), "PANIC: ") {
			fail("panic:start", "Start panicked: "+got.err.Error())
			continue
		}
		if wantFail != (got.err != nil) {
			fail("start-outcome", fmt.Sprintf("Start error = %v, expected failure = %v", got.err, wantFail))
		}
		if got.err != nil {
			if dialed > 0 && !s.dialFail && connCloses == 0 {
				fail("start-failure-left-conn-open", "Start failed but the connection was not closed")
			}
			// no reader may be running: it would issue a read
			select {
			case rep := <-k.reports:
				if rep.kind == "read" {
					fail("start-failure-left-reader", "Start failed but a background reader is reading")
				}
			case <-time.After(30 * time.Millisecond):
			}
		} else {
			if len(frames) == 0 || frames[0][0] != "init" {
				fail("start-init-not-first", fmt.Sprint(frames))
			}
		}
		c.Res.Count("start:" + s.name)
		if got.err == nil {
			continue
		}
		if s.closeNow {
			// ---- Close straight after the failed Start (the usual `defer client.Close()`): returns, does not panic
			c.Res.Eval()
			c.Res.NonTrivial("start-fail-close:" + s.name)
			closeRes := make(chan error, 1)
			go func() { closeRes <- guardErr(cl.Close) }()
		loopc:
			for {
				select {
				case rep := <-k.reports:
					if rep.kind == "write" {
						rep.wgate <- true
					}
				case cerr := <-closeRes:
					if cerr != nil && strings.HasPrefix(cerr.Error(), "PANIC: ") {
						fail("panic:close-after-failed-start", "Close after a failed Start ("+s.name+") panicked: "+cerr.Error())
					}
					break loopc
				case <-time.After(wsWait):
					fail("close-hangs", "Close after a failed Start did not return: "+s.name)
					break loopc
				}
			}
			continue
		}
		// ---- a failed Start retried on the SAME client, then Close: every connection that was dialed must end up
		// closed and the error channel of the successful Start must be closed ----
		c.Res.Eval()
		c.Res.NonTrivial("start-retry:" + s.name)
		k.mu.Lock()
		k.dialFail = false
		k.mu.Unlock()
		res2 := make(chan sr, 1)
		go func() { ch, err := guardStart(cl); res2 <- sr{ch, err} }()
		var got2 sr
		acked := false
		var parked chan wsRead
	loop2:
		for {
			select {
			case rep := <-k.reports:
				switch rep.kind {
				case "write":
					rep.wgate <- true
				case "read":
					if !acked {
						acked = true
						rep.rgate <- wsRead{data: ack}
					} else {
						parked = rep.rgate // the reader's read: stays parked until the connection is closed
					}
				}
			case got2 = <-res2:
				break loop2
			case <-time.After(wsWait):
				fail("start-hangs", "retried Start did not return")
				break loop2
			}
		}
		_ = parked
		if got2.err != nil && strings.HasPrefix(got2.err.Error(), "PANIC: ") {
			fail("panic:retried-start", "a Start retried after a failed Start panicked: "+got2.err.Error())
			continue
		}
		if got2.err != nil {
			fail("start-retry-failed", fmt.Sprintf("a Start retried after a failed Start fails although dial, init and ack succeed: %v", got2.err))
			continue
		}
		closeRes := make(chan error, 1)
		go func() { closeRes <- guardErr(cl.Close) }()
	loop3:
		for {
			select {
			case rep := <-k.reports:
				switch rep.kind {
				case "write":
					rep.wgate <- true
				case "read":
					// reads after the close are answered by the fake connection itself
				}
			case cerr := <-closeRes:
				if cerr != nil && strings.HasPrefix(cerr.Error(), "PANIC: ") {
					fail("panic:close-after-retried-start", "Close after failed Start, retried Start panicked: "+cerr.Error())
				}
				break loop3
			case <-time.After(wsWait):
				fail("close-hangs", "Close after a retried Start did not return")
				break loop3
			}
		}
		k.mu.Lock()
		per := append([]int{}, k.perConnCloses...)
		k.mu.Unlock()
		for ci, n := range per {
			if n == 0 {
				fail("close-left-conn-open", fmt.Sprintf("connection #%d (of %d dialed) was never closed after failed Start, retried Start, Close", ci+1, len(per)))
			}
		}
		select {
		case _, open := <-got2.ch:
			if open {
				// an error report is allowed before the close; the channel must be closed after it
				select {
				case _, open2 := <-got2.ch:
					if open2 {
						fail("close-left-errchan-open", "error channel still open after Close (retried Start)")
					}
				case <-time.After(100 * time.Millisecond):
					fail("close-left-errchan-open", "error channel still open after Close (retried Start)")
				}
			}
		case <-time.After(100 * time.Millisecond):
			fail("close-left-errchan-open", "error channel still open after Close (retried Start)")
		}
		// let the reader goroutine go
		select {
		case <-exited:
		case <-time.After(200 * time.Millisecond):
		}
	}
}

// guardErr runs an API call and turns a panic into an error whose text starts with "PANIC: ", so that a panicking
// client is reported as a finding instead of killing the harness.
func guardErr(f func() error) (err error) {
	defer func() {
		if p := recover(); p != nil {
			err = fmt.Errorf("PANIC: %v", p)
		}
	}()
	return f()
}

func guardStart(cl graphql.WebSocketClient) (ch chan error, err error) {
	err = guardErr(func() error {
		var e error
		ch, e = cl.Start(context.Background())
		return e
	})
	return ch, err
}
