package main

import (
	"encoding/json"
	"fmt"
	"go/ast"
	"go/parser"
	"go/token"
	"regexp"
	"strconv"
	"strings"

	"verifharness/internal/proto"
)

func init() {
	register("C16", "enum value-name sets from a grammar (mixed case, leading/trailing/double underscores, digits, case twins, "+
		"underscore twins, cross-enum concatenation twins) x casing default/raw/auto_camel_case globally, for all enums and per enum, "+
		"x typename option; each run through the real generator (enum used as result and as input); "+
		"non-trivial = distinct (casing triple, has-collision, #values, typename?, outcome)", runC16)
}

type c16Enum struct {
	Name     string   `json:"name"`
	Values   []string `json:"values"`
	Typename string   `json:"typename,omitempty"`
}
type c16Case struct {
	Enums []c16Enum `json:"enums"`
	Cfg   ProgCfg   `json:"cfg"`
	Twin  string    `json:"twin,omitempty"`
	// SplitOps: every enum is reached from an operation of its own (Q0, Q1, …) instead of all from one: a table
	// of constant names that is kept per operation misses clashes between enums of different operations
	SplitOps bool `json:"splitOps,omitempty"`
}

var c16Words = []string{"a", "b", "ab", "A", "B", "AB", "Ab", "aB", "x1", "X1", "1", "2a", "foo", "FOO", "Foo", "bar", "BAR", "fooBar", "FooBar", "FOO_BAR", "foo_bar"}
var c16Reserved = map[string]bool{"true": true, "false": true, "null": true}

func c16Value(r *proto.Rng) string {
	for {
		var sb strings.Builder
		if r.Chance(1, 6) {
			sb.WriteString("_")
		}
		n := 1 + r.Intn(3)
		for i := 0; i < n; i++ {
			if i > 0 {
				switch r.Intn(4) {
				case 0, 1:
					sb.WriteString("_")
				case 2:
					sb.WriteString("__")
				}
			}
			sb.WriteString(proto.Pick(r, c16Words))
		}
		if r.Chance(1, 6) {
			sb.WriteString("_")
		}
		s := sb.String()
		if strings.HasPrefix(s, "__") || c16Reserved[s] || s == "" || (s[0] >= '0' && s[0] <= '9') {
			continue
		}
		return s
	}
}

// twin derives a name that is likely to collide with v under some casing
func c16TwinOf(r *proto.Rng, v string) string {
	switch r.Intn(5) {
	case 0:
		return strings.ToUpper(v)
	case 1:
		return strings.ToLower(v)
	case 2:
		return strings.ReplaceAll(v, "_", "__")
	case 3:
		return strings.TrimLeft(v, "_")
	default:
		return v + "_"
	}
}

func c16Gen(r *proto.Rng) c16Case {
	cas := []string{"", "", "default", "raw", "auto_camel_case"}
	cs := c16Case{}
	cs.Cfg.CasingDefault = proto.Pick(r, cas)
	cs.Cfg.CasingAllEnums = proto.Pick(r, cas)
	names := []string{"Role", "role_kind", "_Status", "AB", "A", "color", "HTTPCode", "my_Enum_2"}
	e := c16Enum{Name: proto.Pick(r, names)}
	n := 1 + r.Intn(6)
	seen := map[string]bool{}
	for len(e.Values) < n {
		v := c16Value(r)
		if len(e.Values) > 0 && r.Chance(1, 8) {
			// a value that repeats the enum's own name in front of another value (protobuf style: STATUS_ACTIVE next to ACTIVE)
			base := strings.TrimLeft(e.Name, "_")
			w := proto.Pick(r, e.Values)
			v = proto.Pick(r, []string{strings.ToUpper(base) + "_" + w, base + "_" + w, strings.ToUpper(base) + "_" + strings.ToUpper(w), base + w})
			if strings.HasPrefix(v, "__") || c16Reserved[v] || v == "" || (v[0] >= '0' && v[0] <= '9') {
				continue
			}
		} else if len(e.Values) > 0 && r.Chance(1, 4) {
			v = c16TwinOf(r, proto.Pick(r, e.Values))
			if strings.HasPrefix(v, "__") || c16Reserved[v] || v == "" || (v[0] >= '0' && v[0] <= '9') {
				continue
			}
		}
		if !seen[v] {
			seen[v] = true
			e.Values = append(e.Values, v)
		}
	}
	if r.Chance(1, 5) {
		e.Typename = proto.Pick(r, []string{"MyRole", "Kind", "E"})
	}
	cs.Enums = []c16Enum{e}
	if r.Chance(1, 2) {
		cs.Cfg.CasingEnums = map[string]string{}
		if r.Chance(2, 3) {
			cs.Cfg.CasingEnums[e.Name] = proto.Pick(r, cas[2:])
		}
		if r.Chance(1, 3) {
			cs.Cfg.CasingEnums["Other"] = proto.Pick(r, cas[2:])
		}
		if e.Typename != "" && r.Chance(1, 2) {
			cs.Cfg.CasingEnums[e.Typename] = proto.Pick(r, cas[2:])
		}
	}
	if r.Chance(1, 12) {
		// cross-enum concatenation twin: enum A {B_C} + enum AB {C}
		cs.Twin = "cross-enum"
		cs.Enums = []c16Enum{{Name: "A", Values: []string{"B_C", "x"}}, {Name: "AB", Values: []string{"C", "y"}}}
	} else if r.Chance(1, 6) {
		// cross-enum twins from a grammar: (type name, value) pairs whose concatenation coincides under default
		// casing (Type+Value), raw casing (Type_VALUE) or a mix of the two; either enum may be declared/used first and
		// each may get its own casing
		cs.Twin = "cross-enum-grammar"
		if r.Chance(1, 2) {
			// constructed collision: the same constant name arises from two (type, value) pairs
			ws := []string{"Foo", "Bar", "X", "A", "B", "C", "Baz", "Q1"}
			w1, w2, w3 := proto.Pick(r, ws), proto.Pick(r, ws), proto.Pick(r, ws)
			var e1, e2 c16Enum
			var c1, c2 string
			switch r.Intn(3) {
			case 0: // raw + raw: w1_w2_w3
				e1, e2, c1, c2 = c16Enum{Name: w1, Values: []string{w2 + "_" + w3}}, c16Enum{Name: w1 + "_" + w2, Values: []string{w3}}, "raw", "raw"
			case 1: // raw + default: w1_w2w3
				e1, e2, c1, c2 = c16Enum{Name: w1, Values: []string{w2 + w3}}, c16Enum{Name: w1 + "_" + w2, Values: []string{w3}}, "raw", "default"
			default: // default + default: w1w2w3
				e1, e2, c1, c2 = c16Enum{Name: w1, Values: []string{w2 + "_" + w3}}, c16Enum{Name: w1 + w2, Values: []string{w3}}, "default", "default"
			}
			if r.Chance(1, 2) {
				e1.Values = append([]string{"zz"}, e1.Values...)
			}
			if r.Chance(1, 2) {
				e2.Values = append(e2.Values, "yy")
			}
			cs.Cfg.CasingEnums = map[string]string{e1.Name: c1, e2.Name: c2}
			if r.Chance(1, 3) { // the same through the global settings
				if c1 == c2 {
					cs.Cfg.CasingEnums = nil
					cs.Cfg.CasingAllEnums = c1
				}
			}
			if r.Chance(1, 2) {
				e1, e2 = e2, e1
			}
			cs.Enums = []c16Enum{e1, e2}
			cs.SplitOps = r.Chance(1, 2)
			return cs
		}
		tn := []string{"A", "AB", "A_B", "Foo", "Foo_Bar", "FooBar"}
		vn := []string{"B_C", "C", "BC", "Bar_X", "X", "BarX", "BAR_X", "B_X", "_C", "Bar_x"}
		a, b := proto.Pick(r, tn), proto.Pick(r, tn)
		for b == a {
			b = proto.Pick(r, tn)
		}
		pickVals := func() []string {
			out := []string{}
			seen := map[string]bool{}
			for len(out) < 1+r.Intn(3) {
				v := proto.Pick(r, vn)
				if !seen[v] {
					seen[v] = true
					out = append(out, v)
				}
			}
			return out
		}
		cs.Enums = []c16Enum{{Name: a, Values: pickVals()}, {Name: b, Values: pickVals()}}
		cs.Cfg.CasingEnums = map[string]string{}
		for _, e := range cs.Enums {
			if r.Chance(2, 3) {
				cs.Cfg.CasingEnums[e.Name] = proto.Pick(r, cas[2:])
			}
		}
	} else if r.Chance(1, 4) {
		e2 := c16Enum{Name: "Second"}
		for i := 0; i < 1+r.Intn(3); i++ {
			v := c16Value(r)
			dup := false
			for _, w := range e2.Values {
				dup = dup || w == v
			}
			if !dup {
				e2.Values = append(e2.Values, v)
			}
		}
		cs.Enums = append(cs.Enums, e2)
	}
	cs.SplitOps = len(cs.Enums) > 1 && r.Chance(1, 2)
	return cs
}

func c16Program(cs c16Case) *Program {
	var sch, q strings.Builder
	sch.WriteString("type Query {\n")
	q.WriteString("query Q(")
	var sel strings.Builder
	first := true
	for i, e := range cs.Enums {
		fmt.Fprintf(&sch, "  f%d(arg: %s): %s\n  l%d: [%s!]\n", i, e.Name, e.Name, i, e.Name)
		if e.Typename == "" {
			if !first {
				q.WriteString(", ")
			}
			first = false
			fmt.Fprintf(&q, "$a%d: %s", i, e.Name)
			fmt.Fprintf(&sel, "  f%d(arg: $a%d)\n  l%d\n", i, i, i)
		} else {
			fmt.Fprintf(&sel, "  # @genqlient(typename: \"%s\")\n  f%d\n", e.Typename, i)
		}
	}
	sch.WriteString("}\n")
	for _, e := range cs.Enums {
		fmt.Fprintf(&sch, "enum %s {\n", e.Name)
		for _, v := range e.Values {
			fmt.Fprintf(&sch, "  %s\n", v)
		}
		sch.WriteString("}\n")
	}
	if cs.SplitOps && len(cs.Enums) > 1 {
		var ops strings.Builder
		for i, e := range cs.Enums {
			if e.Typename == "" {
				fmt.Fprintf(&ops, "query Q%d($a%d: %s) {\n  f%d(arg: $a%d)\n  l%d\n}\n", i, i, e.Name, i, i, i)
			} else {
				fmt.Fprintf(&ops, "query Q%d {\n  # @genqlient(typename: \"%s\")\n  f%d\n}\n", i, e.Typename, i)
			}
		}
		return &Program{Schema: map[string]string{"schema.graphql": sch.String()}, Ops: map[string]string{"q.graphql": ops.String()}, Cfg: cs.Cfg}
	}
	qs := q.String()
	if first {
		qs = "query Q"
	} else {
		qs += ")"
	}
	return &Program{Schema: map[string]string{"schema.graphql": sch.String()},
		Ops: map[string]string{"q.graphql": qs + " {\n" + sel.String() + "}\n"}, Cfg: cs.Cfg}
}

type c16Decl struct {
	Consts [][2]string // goName, string value
	All    []string
	HasAll bool
}

func c16Parse(src []byte) (map[string]*c16Decl, []string, error) {
	fset := token.NewFileSet()
	f, err := parser.ParseFile(fset, "generated.go", src, 0)
	if err != nil {
		return nil, nil, err
	}
	out := map[string]*c16Decl{}
	get := func(n string) *c16Decl {
		if out[n] == nil {
			out[n] = &c16Decl{}
		}
		return out[n]
	}
	var allConstNames []string
	for _, d := range f.Decls {
		gd, ok := d.(*ast.GenDecl)
		if !ok {
			continue
		}
		for _, sp := range gd.Specs {
			vs, ok := sp.(*ast.ValueSpec)
			if !ok {
				continue
			}
			if gd.Tok == token.CONST {
				id, ok := vs.Type.(*ast.Ident)
				if !ok || len(vs.Names) != 1 || len(vs.Values) != 1 {
					continue
				}
				lit, ok := vs.Values[0].(*ast.BasicLit)
				if !ok || lit.Kind != token.STRING {
					continue
				}
				s, _ := strconv.Unquote(lit.Value)
				if strings.HasSuffix(vs.Names[0].Name, "_Operation") {
					continue
				}
				get(id.Name).Consts = append(get(id.Name).Consts, [2]string{vs.Names[0].Name, s})
				allConstNames = append(allConstNames, vs.Names[0].Name)
			} else if gd.Tok == token.VAR && len(vs.Names) == 1 && strings.HasPrefix(vs.Names[0].Name, "All") && len(vs.Values) == 1 {
				cl, ok := vs.Values[0].(*ast.CompositeLit)
				if !ok {
					continue
				}
				at, ok := cl.Type.(*ast.ArrayType)
				if !ok {
					continue
				}
				id, ok := at.Elt.(*ast.Ident)
				if !ok || "All"+id.Name != vs.Names[0].Name {
					continue
				}
				d := get(id.Name)
				d.HasAll = true
				for _, el := range cl.Elts {
					if eid, ok := el.(*ast.Ident); ok {
						d.All = append(d.All, eid.Name)
					} else {
						d.All = append(d.All, "?")
					}
				}
			}
		}
	}
	return out, allConstNames, nil
}

var c16ConflictRe = regexp.MustCompile(`enum values (\S+) and (\S+) have conflicting Go name (\S+);`)

func runC16(c *Ctx) {
	n := c.N(600, 30000)
	if c.Replay != "" {
		var wrap struct{ Case c16Case `json:"case"` }
		b, err := osReadFile(c.Replay)
		if err == nil {
			err = json.Unmarshal(b, &wrap)
		}
		if err != nil || len(wrap.Case.Enums) == 0 {
			c.Res.Notes = append(c.Res.Notes, "replay unreadable")
			return
		}
		c16Run(c, wrap.Case)
		return
	}
	files, _ := filepathGlob(verifRoot + "/harness/corpus/C16/*.json")
	for _, f := range files {
		var wrap struct{ Case c16Case `json:"case"` }
		b, err := osReadFile(f)
		if err == nil && json.Unmarshal(b, &wrap) == nil && len(wrap.Case.Enums) > 0 {
			c16Run(c, wrap.Case)
		}
	}
	for i := 0; i < n; i++ {
		c16Run(c, c16Gen(c.Rng("case", i)))
	}
}

func c16Run(c *Ctx, cs c16Case) {
	c.Res.Eval()
	fail := func(kind, class, what string, impl, model any) {
		c.Res.Add(proto.Finding{Kind: kind, Class: class, What: what, Case: cs, Impl: impl, Model: model})
	}
	out := runGenerate(c.Work, c16Program(cs), false)
	if out.Panic != nil || out.TimedOut {
		fail("violation", "generator-panic", fmt.Sprintf("generator panicked/hung: %v", out.Panic), nil, nil)
		return
	}
	// model verdict per enum, in the order the generator meets them (first failing enum decides the error)
	type mres struct {
		ok     bool
		goType string
		consts [][2]string
		val, other, goName string
	}
	var models []mres
	for _, e := range cs.Enums {
		req := map[string]any{"op": "names.enum", "gqlName": e.Name, "values": e.Values,
			"casingDefault": cs.Cfg.CasingDefault, "casingAllEnums": cs.Cfg.CasingAllEnums}
		if len(cs.Cfg.CasingEnums) > 0 {
			req["casingEnums"] = cs.Cfg.CasingEnums
		}
		if e.Typename != "" {
			req["goName"] = e.Typename
		}
		m := c.Model(req)
		r := mres{ok: m["ok"].(bool), goType: m["goType"].(string)}
		if r.ok {
			for _, x := range m["consts"].([]any) {
				p := x.([]any)
				r.consts = append(r.consts, [2]string{p[0].(string), p[1].(string)})
			}
		} else {
			r.val, r.other, r.goName = m["val"].(string), m["other"].(string), m["goName"].(string)
		}
		models = append(models, r)
	}
	key := fmt.Sprintf("%s/%s/%v|n=%d|tn=%v|twin=%s", cs.Cfg.CasingDefault, cs.Cfg.CasingAllEnums, cs.Cfg.CasingEnums[cs.Enums[0].Name], len(cs.Enums[0].Values), cs.Enums[0].Typename != "", cs.Twin)
	if out.Err != nil {
		c.Res.Count("outcome:error")
		c.Res.NonTrivial(key + "|err")
		msg := out.Err.Error()
		mm := c16ConflictRe.FindStringSubmatch(msg)
		if mm == nil && strings.Contains(msg, "conflicting definition for") && len(models) == 2 && models[0].goType == models[1].goType {
			// the two enums' Go TYPE names coincide under the casing in force (model: names.enum): a clash that must be
			// reported (C09), not a C16 matter
			c.Res.Count("outcome:type-name-clash-reported")
			return
		}
		if mm == nil {
			fail("violation", "unexpected-generation-error", "valid enum program rejected: "+msg, msg, nil)
			return
		}
		// the whole-program model (generator-wide table of constant names) must report the same clash
		{
			req, order := c16EnumsReq(cs, out)
			gm := c.Model(req)
			switch gm["res"] {
			case "ok":
				fail("mismatch", "enums-model-conflict", "implementation reports a conflict, the whole-program model none: "+msg, msg, gm)
			case "conflict":
				if gm["val"] != mm[1] || gm["other"] != mm[2] || gm["goName"] != mm[3] {
					fail("mismatch", "enums-model-conflict-detail", "conflict differs from the whole-program model: "+msg, msg, gm)
				}
			case "cross":
				k := int(jsonNum(gm["enum"]))
				if k >= len(order) || order[k].Name+"."+fmt.Sprint(gm["val"]) != mm[1] || gm["goName"] != mm[3] {
					fail("mismatch", "enums-model-conflict-detail", "cross-enum conflict differs from the whole-program model: "+msg, msg, gm)
				}
				c.Res.Count("outcome:cross-enum-conflict-reported")
				return
			}
		}
		// some enum must conflict in the model, with the same triple
		found := false
		for _, r := range models {
			if !r.ok && r.val == mm[1] && r.other == mm[2] && r.goName == mm[3] {
				found = true
			}
		}
		if !found {
			anyc := false
			for _, r := range models {
				anyc = anyc || !r.ok
			}
			if !anyc {
				fail("mismatch", "enum-model-conflict", "implementation reports a conflict the model does not have: "+msg, msg, models)
			} else {
				fail("mismatch", "enum-model-conflict-detail", "conflict triple differs from the model: "+msg, msg, fmt.Sprint(models))
			}
		}
		return
	}
	c.Res.Count("outcome:ok")
	c.Res.NonTrivial(key + "|ok")
	{
		req, _ := c16EnumsReq(cs, out)
		if gm := c.Model(req); gm["res"] != "ok" {
			fail("mismatch", "enums-model-ok", fmt.Sprintf("generation succeeded, the whole-program model reports %v", gm), nil, gm)
		}
	}
	decls, allNames, err := c16Parse(out.Files["generated.go"])
	if err != nil {
		fail("violation", "output-does-not-parse", err.Error(), nil, nil)
		return
	}
	if c.Res.Evaluations%100 == 1 {
		c.Res.Sample(map[string]any{"case": cs, "decls": decls})
	}
	// direct oracles
	seenName := map[string]int{}
	for _, n := range allNames {
		seenName[n]++
	}
	for n, k := range seenName {
		if k > 1 {
			cls := "duplicate-constant"
			if cs.Twin == "cross-enum" {
				cls = "cross-enum-const-collision"
			}
			fail("violation", cls, fmt.Sprintf("constant %s emitted %d times (output cannot compile)", n, k), nil, nil)
		}
	}
	for i, e := range cs.Enums {
		r := models[i]
		if !r.ok {
			fail("violation", "colliding-values-accepted", fmt.Sprintf("enum %s: values %s and %s receive the same Go identifier %s but generation succeeded", e.Name, r.val, r.other, r.goName), nil, r)
			continue
		}
		d := decls[r.goType]
		if d == nil {
			fail("mismatch", "enum-type-name", fmt.Sprintf("no Go type %s for enum %s (have %v)", r.goType, e.Name, keysOf(decls)), nil, nil)
			// still try the direct oracle on any decl with the right strings
			continue
		}
		// one constant per schema value, string = GraphQL value name, schema order
		if len(d.Consts) != len(e.Values) {
			fail("violation", "constant-count", fmt.Sprintf("enum %s: %d constants for %d values", e.Name, len(d.Consts), len(e.Values)), d, nil)
			continue
		}
		for k, v := range e.Values {
			if d.Consts[k][1] != v {
				fail("violation", "constant-string", fmt.Sprintf("enum %s: constant #%d has string %q, schema value %q", e.Name, k, d.Consts[k][1], v), d, nil)
			}
			if d.Consts[k][0] != r.consts[k][0] {
				fail("mismatch", "enum-const-name", fmt.Sprintf("enum %s value %s: Go name %s, model %s", e.Name, v, d.Consts[k][0], r.consts[k][0]), d, r.consts)
			}
		}
		if !d.HasAll || len(d.All) != len(d.Consts) {
			fail("violation", "all-slice", fmt.Sprintf("enum %s: All%s missing or wrong length", e.Name, r.goType), d, nil)
			continue
		}
		for k := range d.Consts {
			if d.All[k] != d.Consts[k][0] {
				fail("violation", "all-slice-order", fmt.Sprintf("enum %s: All%s[%d] = %s, want %s", e.Name, r.goType, k, d.All[k], d.Consts[k][0]), d, nil)
			}
		}
	}
}

func keysOf[V any](m map[string]V) []string {
	ks := []string{}
	for k := range m {
		ks = append(ks, k)
	}
	return ks
}


// c16EnumsReq: the whole-program model request, enums in the order the generator converted them (first
// appearance in the type-map access log; enums never reached keep their declaration order at the end)
func c16EnumsReq(cs c16Case, out *GenOut) (map[string]any, []c16Enum) {
	var order []c16Enum
	seen := map[string]bool{}
	for _, ev := range out.Events {
		for _, e := range cs.Enums {
			if ev.GraphQLName == e.Name && !seen[e.Name] {
				seen[e.Name] = true
				order = append(order, e)
			}
		}
	}
	for _, e := range cs.Enums {
		if !seen[e.Name] {
			order = append(order, e)
		}
	}
	var es []any
	for _, e := range order {
		x := map[string]any{"gqlName": e.Name, "values": e.Values}
		if e.Typename != "" {
			x["goName"] = e.Typename
		}
		es = append(es, x)
	}
	req := map[string]any{"op": "names.enums", "enums": es, "casingDefault": cs.Cfg.CasingDefault, "casingAllEnums": cs.Cfg.CasingAllEnums}
	if len(cs.Cfg.CasingEnums) > 0 {
		req["casingEnums"] = cs.Cfg.CasingEnums
	}
	return req, order
}

func jsonNum(v any) float64 {
	switch x := v.(type) {
	case float64:
		return x
	case json.Number:
		f, _ := x.Float64()
		return f
	}
	return -1
}
