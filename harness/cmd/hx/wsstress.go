package main

// Free-running stress of the WebSocket client (no schedule control): the search engine for
// interleavings that fall between the controller's park points (e.g. a lock released before a
// channel send).  Runs in a child process; a crash (panic in the library's goroutine) or a hang
// is attributed to the scenario.  It is a search for replays, never what a claim rests on.

import (
	"bufio"
	"context"
	"encoding/json"
	"errors"
	"fmt"
	"net/http"
	"os"
	"os/exec"
	"strings"
	"sync"
	"time"

	"github.com/Khan/genqlient/graphql"
	"verifharness/internal/proto"
)

type fastConn struct {
	mu     sync.Mutex
	in     chan []byte
	closed chan struct{}
	once   sync.Once
	ids    chan string
	failW  bool // guarded by mu: every later write fails
	fail   chan struct{} // when closed, reads fail (the harness's fault, distinct from the client's Close)
	mtype  int           // message type ReadMessage reports (0: like the x/net adapter of docs/subscriptions.md, which never sets it)
	inits  chan string   // when non-nil, receives the connection_init frames written
	closes int           // guarded by mu: how often the client closed this connection
}

func (c *fastConn) WriteMessage(mt int, data []byte) error {
	c.mu.Lock()
	fw := c.failW
	c.mu.Unlock()
	if fw {
		return errors.New("write: broken pipe")
	}
	if mt != 8 && c.inits != nil && strings.Contains(string(data), `"connection_init"`) {
		select {
		case c.inits <- string(data):
		default:
		}
	}
	if mt != 8 {
		s := string(data)
		if i := strings.Index(s, `"type":"subscribe"`); i >= 0 {
			if j := strings.Index(s, `"id":"`); j >= 0 {
				id := s[j+6:]
				id = id[:strings.IndexByte(id, '"')]
				select {
				case c.ids <- id:
				default:
				}
			}
		}
	}
	return nil
}
func (c *fastConn) ReadMessage() (int, []byte, error) {
	select {
	case m := <-c.in:
		if c.mtype != 0 {
			return c.mtype - 1, m, nil // mtype 1 -> type 0 (unset), 3 -> 2 (binary)
		}
		return 1, m, nil
	case <-c.closed:
		return 0, nil, errors.New("closed")
	case <-c.fail:
		return 0, nil, errors.New("read: connection reset")
	}
}
func (c *fastConn) Close() error {
	c.mu.Lock()
	c.closes++
	c.mu.Unlock()
	c.once.Do(func() { close(c.closed) })
	return nil
}

// seqDialer hands out its connections one after the other
type seqDialer struct {
	mu    sync.Mutex
	conns []*fastConn
	next  int
}

func (d *seqDialer) DialContext(context.Context, string, http.Header) (graphql.WSConn, error) {
	d.mu.Lock()
	defer d.mu.Unlock()
	if d.next >= len(d.conns) {
		return nil, errors.New("no more connections")
	}
	d.next++
	return d.conns[d.next-1], nil
}

type fastDialer struct{ c *fastConn }

func (d fastDialer) DialContext(context.Context, string, http.Header) (graphql.WSConn, error) {
	return d.c, nil
}

// one stress iteration; returns a description if something went wrong without crashing
func wsStressOnce(r *proto.Rng) string {
	conn := &fastConn{in: make(chan []byte, 16), closed: make(chan struct{}), ids: make(chan string, 8)}
	conn.in <- []byte(`{"type":"connection_ack"}`)
	cl := graphql.NewClientUsingWebSocket("ws://h/q", fastDialer{conn})
	errChan, err := cl.Start(context.Background())
	if err != nil {
		return "start: " + err.Error()
	}
	nsub := 1 + r.Intn(2)
	chans := make([]chan int, nsub)
	ids := make([]string, nsub)
	for i := 0; i < nsub; i++ {
		ch := make(chan int)
		chans[i] = ch
		id, err := cl.Subscribe(wsReq, ch, func(c interface{}, raw json.RawMessage) error {
			c.(chan int) <- 1
			return nil
		})
		if err != nil {
			return "subscribe: " + err.Error()
		}
		ids[i] = id
		<-conn.ids
	}
	var wg sync.WaitGroup
	scenario := r.Intn(4)
	drain := r.Bool()
	stop := make(chan struct{})
	if drain {
		for _, ch := range chans {
			go func(ch chan int) {
				for {
					select {
					case _, ok := <-ch:
						if !ok {
							return
						}
					case <-stop:
						return
					}
				}
			}(ch)
		}
	}
	readErrs := r.Bool()
	if readErrs {
		go func() {
			for range errChan {
			}
		}()
	}
	// server side
	wg.Add(1)
	go func() {
		defer wg.Done()
		switch scenario {
		case 0: // malformed frame racing with Close
			conn.in <- []byte(`<<<`)
		case 1: // unknown id
			conn.in <- []byte(`{"type":"next","id":"nope","payload":{"data":{"p":1}}}`)
		case 2: // duplicate complete + late next
			conn.in <- []byte(fmt.Sprintf(`{"type":"complete","id":%q}`, ids[0]))
			conn.in <- []byte(fmt.Sprintf(`{"type":"complete","id":%q}`, ids[0]))
			conn.in <- []byte(fmt.Sprintf(`{"type":"next","id":%q,"payload":{"data":{"p":1}}}`, ids[0]))
		default:
			if drain {
				conn.in <- []byte(fmt.Sprintf(`{"type":"next","id":%q,"payload":{"data":{"p":1}}}`, ids[0]))
			}
			conn.in <- []byte(fmt.Sprintf(`{"type":"complete","id":%q}`, ids[nsub-1]))
		}
	}()
	if r.Bool() {
		wg.Add(1)
		go func() {
			defer wg.Done()
			cl.Unsubscribe(ids[0])
		}()
	}
	for k := r.Intn(200); k > 0; k-- {
		// jitter
	}
	done := make(chan error, 1)
	go func() { done <- cl.Close() }()
	select {
	case <-done:
	case <-time.After(3 * time.Second):
		close(stop)
		return fmt.Sprintf("Close did not return (scenario %d, drain %v, readErrs %v)", scenario, drain, readErrs)
	}
	wg.Wait()
	close(stop)
	return ""
}

// ---- deterministic probes: histories the lock-step schedules cannot reach because the MODEL has no such run ----
// (after the reader's first error report the model's reader has ended; an Unsubscribe leaves the entry in the map).
// Each returns "" or "<class> <what>".

// two undeliverable frames nobody receives the report of, then Close: Close must return
func wsProbeTwoBadFramesThenClose() string {
	conn := &fastConn{in: make(chan []byte, 16), closed: make(chan struct{}), ids: make(chan string, 8)}
	conn.in <- []byte(`{"type":"connection_ack"}`)
	cl := graphql.NewClientUsingWebSocket("ws://h/q", fastDialer{conn})
	if _, err := cl.Start(context.Background()); err != nil {
		return ""
	}
	// let the reader get as far as it goes on its own — observed through the yield points of the verif build, not
	// guessed with a sleep: either it ends (listen.exit) or it comes to a SECOND error report (handleErr.send)
	events := make(chan string, 16)
	graphql.VerifHook = func(p string) {
		select {
		case events <- p:
		default:
		}
	}
	defer func() { graphql.VerifHook = nil }()
	conn.in <- []byte(`<<<`)
	conn.in <- []byte(`{"type":"next","id":"nope","payload":{"data":{"p":1}}}`)
	sends := 0
wait:
	for {
		select {
		case p := <-events:
			if p == "listen.exit" {
				break wait
			}
			if p == "handleErr.send" {
				if sends++; sends >= 2 {
					time.Sleep(20 * time.Millisecond) // the second report is about to block with the mutex held
					break wait
				}
			}
		case <-time.After(8 * time.Second): // only a client that neither ends nor reports a second time waits this long
			break wait
		}
	}
	done := make(chan struct{})
	go func() { cl.Close(); close(done) }()
	select {
	case <-done:
		return ""
	case <-time.After(3 * time.Second):
		return "api-call-blocked:close Close did not return after two undeliverable frames whose error report nobody received (every connection write completed)"
	}
}

// Unsubscribe(A) with a `next` for A still on its way, then traffic for B: B must get everything and be closed once
func wsProbeLateNextAfterUnsubscribe() string {
	conn := &fastConn{in: make(chan []byte, 16), closed: make(chan struct{}), ids: make(chan string, 8)}
	conn.in <- []byte(`{"type":"connection_ack"}`)
	cl := graphql.NewClientUsingWebSocket("ws://h/q", fastDialer{conn})
	errChan, err := cl.Start(context.Background())
	if err != nil {
		return ""
	}
	fwd := func(c interface{}, raw json.RawMessage) error { c.(chan string) <- string(raw); return nil }
	chA, chB := make(chan string), make(chan string)
	idA, err1 := cl.Subscribe(wsReq, chA, fwd)
	<-conn.ids
	idB, err2 := cl.Subscribe(wsReq, chB, fwd)
	<-conn.ids
	if err1 != nil || err2 != nil {
		return ""
	}
	recv := func(ch chan string, what string) (string, bool, string) {
		select {
		case v, ok := <-ch:
			return v, ok, ""
		case e := <-errChan:
			return "", false, fmt.Sprintf("next-not-delivered waiting for %s the client reported: %v", what, e)
		case <-time.After(6 * time.Second):
			return "", false, "next-not-delivered " + what + " never arrived"
		}
	}
	conn.in <- []byte(fmt.Sprintf(`{"type":"next","id":%q,"payload":{"data":{"p":"b1"}}}`, idB))
	if _, _, bad := recv(chB, "b1 on B"); bad != "" {
		return bad
	}
	if err := cl.Unsubscribe(idA); err != nil {
		return ""
	}
	conn.in <- []byte(fmt.Sprintf(`{"type":"next","id":%q,"payload":{"data":{"p":"late"}}}`, idA))
	conn.in <- []byte(fmt.Sprintf(`{"type":"next","id":%q,"payload":{"data":{"p":"b2"}}}`, idB))
	if v, ok, bad := recv(chB, "b2 on B (after a late next for the unsubscribed A)"); bad != "" {
		return bad
	} else if !ok || !strings.Contains(v, "b2") {
		return "next-not-delivered B received " + v + " instead of b2"
	}
	conn.in <- []byte(fmt.Sprintf(`{"type":"complete","id":%q}`, idB))
	if _, ok, bad := recv(chB, "the close of B after complete"); bad != "" {
		return strings.Replace(bad, "next-not-delivered", "channel-not-closed-after-end", 1)
	} else if ok {
		return "delivery-after-end B received a value after its complete"
	}
	cl.Close()
	return ""
}

// two live subscriptions, the connection's writes start failing, nobody reads the error channel, Close: every write
// returned (with an error), so Close must return too
func wsProbeCloseFailingWritesUndrained() string {
	conn := &fastConn{in: make(chan []byte, 16), closed: make(chan struct{}), ids: make(chan string, 8)}
	conn.in <- []byte(`{"type":"connection_ack"}`)
	cl := graphql.NewClientUsingWebSocket("ws://h/q", fastDialer{conn})
	if _, err := cl.Start(context.Background()); err != nil {
		return ""
	}
	fwd := func(c interface{}, raw json.RawMessage) error { c.(chan string) <- string(raw); return nil }
	for i := 0; i < 2; i++ {
		if _, err := cl.Subscribe(wsReq, make(chan string), fwd); err != nil {
			return ""
		}
		<-conn.ids
	}
	conn.mu.Lock()
	conn.failW = true
	conn.mu.Unlock()
	done := make(chan struct{})
	go func() { cl.Close(); close(done) }()
	select {
	case <-done:
		return ""
	case <-time.After(3 * time.Second):
		return "api-call-blocked:close Close did not return with two live subscriptions, failing connection writes and an error channel nobody reads (every write returned)"
	}
}

// a client is started, its connection drops (the reader reports and ends), the application starts it AGAIN: the
// second Start must wait for the NEW connection's connection_ack (ackFails=false) and must report a read fault in
// that wait and close the new connection (ackFails=true)
func wsProbeSecondStart(ackFails bool) func() string {
	return func() string {
		mk := func() *fastConn {
			return &fastConn{in: make(chan []byte, 16), closed: make(chan struct{}), ids: make(chan string, 8), fail: make(chan struct{})}
		}
		c1, c2 := mk(), mk()
		c1.in <- []byte(`{"type":"connection_ack"}`)
		cl := graphql.NewClientUsingWebSocket("ws://h/q", &seqDialer{conns: []*fastConn{c1, c2}})
		errCh, err := cl.Start(context.Background())
		if err != nil {
			return ""
		}
		close(c1.fail) // the connection drops
		select {
		case <-errCh:
		case <-time.After(6 * time.Second):
			return "" // no report: another finding's business
		}
		type res struct{ err error }
		done := make(chan res, 1)
		go func() { _, e := cl.Start(context.Background()); done <- res{e} }()
		select {
		case r := <-done:
			if r.err == nil {
				return "start-returned-before-ack a second Start on the same client returned success before the new connection's connection_ack was read"
			}
			return "" // refusing a second Start outright would be a different design, not this finding
		case <-time.After(150 * time.Millisecond):
		}
		if !ackFails {
			c2.in <- []byte(`{"type":"connection_ack"}`)
			select {
			case r := <-done:
				if r.err != nil {
					return "start-retry-failed a second Start after a dropped connection fails although dial, init and ack succeed: " + r.err.Error()
				}
			case <-time.After(6 * time.Second):
				return "start-hangs the second Start did not return after its connection_ack"
			}
			cl.Close()
			return ""
		}
		close(c2.fail)
		select {
		case r := <-done:
			if r.err == nil {
				return "start-fault-unreported the second Start returned success although reading its connection_ack failed"
			}
		case <-time.After(6 * time.Second):
			return "start-hangs the second Start did not return after a read fault in its ack wait"
		}
		c2.mu.Lock()
		n := c2.closes
		c2.mu.Unlock()
		if n == 0 {
			return "start-failure-left-conn-open the second Start failed in its ack wait and left the new connection open"
		}
		return ""
	}
}

// a connection whose ReadMessage does not report the text message type (the adapter shown in docs/subscriptions.md
// leaves it at zero; a server may also send binary frames): payloads are delivered all the same
func wsProbeMessageType(mtype int) func() string {
	return func() string {
		conn := &fastConn{in: make(chan []byte, 16), closed: make(chan struct{}), ids: make(chan string, 8), mtype: mtype}
		conn.in <- []byte(`{"type":"connection_ack"}`)
		cl := graphql.NewClientUsingWebSocket("ws://h/q", fastDialer{conn})
		errCh, err := cl.Start(context.Background())
		if err != nil {
			return ""
		}
		fwd := func(c interface{}, raw json.RawMessage) error { c.(chan string) <- string(raw); return nil }
		ch := make(chan string)
		id, err := cl.Subscribe(wsReq, ch, fwd)
		if err != nil {
			return ""
		}
		<-conn.ids
		conn.in <- []byte(fmt.Sprintf(`{"type":"next","id":%q,"payload":{"data":{"p":"x1"}}}`, id))
		select {
		case v := <-ch:
			if !strings.Contains(v, "x1") {
				return "next-not-delivered a payload other than the one sent arrived: " + v
			}
		case e := <-errCh:
			return fmt.Sprintf("next-not-delivered with a connection that reports message type %d the client reported: %v", mtype-1, e)
		case <-time.After(6 * time.Second):
			return fmt.Sprintf("next-not-delivered with a connection that reports message type %d for its frames, a next never reached its channel", mtype-1)
		}
		conn.in <- []byte(fmt.Sprintf(`{"type":"complete","id":%q}`, id))
		select {
		case _, ok := <-ch:
			if ok {
				return "delivery-after-end a value arrived after complete"
			}
		case <-time.After(6 * time.Second):
			return fmt.Sprintf("channel-not-closed-after-end with message type %d the channel was not closed after complete", mtype-1)
		}
		cl.Close()
		return ""
	}
}

// the context given to Start ends (cancel) while the client is in use, then the application closes the client once
func wsProbeCancelThenClose() string {
	conn := &fastConn{in: make(chan []byte, 16), closed: make(chan struct{}), ids: make(chan string, 8)}
	conn.in <- []byte(`{"type":"connection_ack"}`)
	cl := graphql.NewClientUsingWebSocket("ws://h/q", fastDialer{conn})
	ctx, cancel := context.WithCancel(context.Background())
	if _, err := cl.Start(ctx); err != nil {
		cancel()
		return ""
	}
	fwd := func(c interface{}, raw json.RawMessage) error { c.(chan string) <- string(raw); return nil }
	if _, err := cl.Subscribe(wsReq, make(chan string), fwd); err != nil {
		cancel()
		return ""
	}
	cancel()
	time.Sleep(100 * time.Millisecond)
	res := make(chan string, 1)
	go func() {
		defer func() {
			if p := recover(); p != nil {
				res <- fmt.Sprintf("panic:close-after-context-cancel Close after the context given to Start was cancelled panicked: %v", p)
			}
		}()
		cl.Close()
		res <- ""
	}()
	select {
	case r := <-res:
		return r
	case <-time.After(3 * time.Second):
		return "api-call-blocked:close Close after the context given to Start was cancelled did not return"
	}
}

// the same option values used for two clients: each client's connection_init carries ITS configured payload
func wsProbeSharedOptionValue() string {
	initOf := func(withB bool) string {
		common := graphql.WithConnectionParams(map[string]interface{}{"app": "demo"})
		connA := &fastConn{in: make(chan []byte, 16), closed: make(chan struct{}), ids: make(chan string, 8), inits: make(chan string, 4)}
		connA.in <- []byte(`{"type":"connection_ack"}`)
		clA := graphql.NewClientUsingWebSocket("ws://h/q", fastDialer{connA}, common, graphql.WithConnectionParams(map[string]interface{}{"authToken": "token-A"}))
		if withB {
			connB := &fastConn{in: make(chan []byte, 16), closed: make(chan struct{}), ids: make(chan string, 8)}
			_ = graphql.NewClientUsingWebSocket("ws://h/q", fastDialer{connB}, common, graphql.WithConnectionParams(map[string]interface{}{"authToken": "token-B"}))
		}
		if _, err := clA.Start(context.Background()); err != nil {
			return "start failed: " + err.Error()
		}
		defer clA.Close()
		select {
		case f := <-connA.inits:
			return f
		case <-time.After(6 * time.Second):
			return "no connection_init"
		}
	}
	alone, together := initOf(false), initOf(true)
	if alone != together {
		return "init-payload-differs client A's connection_init is " + alone + " when it is the only client and " + together + " after a second client was built from the same option value"
	}
	if strings.Contains(together, "token-B") {
		return "init-payload-differs client A's connection_init carries another client's parameters: " + together
	}
	return ""
}

func wsStressChild(c *Ctx, n int) {
	w := bufio.NewWriter(os.Stdout)
	for _, probe := range []func() string{wsProbeTwoBadFramesThenClose, wsProbeLateNextAfterUnsubscribe, wsProbeCloseFailingWritesUndrained, wsProbeSecondStart(false), wsProbeSecondStart(true), wsProbeMessageType(1), wsProbeMessageType(3), wsProbeCancelThenClose, wsProbeSharedOptionValue} {
		if msg := probe(); msg != "" {
			fmt.Fprintf(w, "PROBE %s\n", msg)
		}
	}
	for i := 0; i < n; i++ {
		if msg := wsStressOnce(c.Rng("stress", i)); msg != "" {
			fmt.Fprintf(w, "PROBLEM %d %s\n", i, msg)
		}
	}
	fmt.Fprintf(w, "DONE %d\n", n)
	w.Flush()
}

// wsStress runs n iterations in a child; returns findings.
func wsStress(c *Ctx, n int) {
	cmd := exec.Command(os.Args[0], os.Args[1:]...)
	cmd.Env = append(os.Environ(), fmt.Sprintf("HX_WS_STRESS=%d", n))
	var stderr strings.Builder
	cmd.Stderr = &stderr
	out, _ := cmd.Output()
	c.Res.Count("stress-iterations-requested")
	c.Res.Distribution["stress-iterations"] += n
	okDone := false
	for _, l := range strings.Split(string(out), "\n") {
		if strings.HasPrefix(l, "PROBE ") {
			parts := strings.SplitN(strings.TrimPrefix(l, "PROBE "), " ", 2)
			what := ""
			if len(parts) > 1 {
				what = parts[1]
			}
			c.Res.Eval()
			c.Res.Add(proto.Finding{Kind: "violation", Class: parts[0], What: "deterministic probe: " + what, Case: map[string]any{"probe": l}})
		}
		if strings.HasPrefix(l, "PROBLEM ") {
			c.Res.Add(proto.Finding{Kind: "violation", Class: "api-call-blocked:close", What: "free-running stress: " + l, Case: map[string]any{"stress": l, "seed": c.Seed}})
		}
		if strings.HasPrefix(l, "DONE") {
			okDone = true
		}
	}
	if !okDone {
		msg := firstPanicLine(stderr.String())
		cls := "panic:crash"
		switch {
		case strings.Contains(msg, "close of closed channel"):
			cls = "panic:close-of-closed-channel"
		case strings.Contains(msg, "send on closed channel"):
			cls = "panic:send-on-closed-channel:stress"
			// which send?  The goroutine that panicked is printed first: when its innermost frame is the harness's own
			// forwarder (wsStressOnce.func1, called from forwardWebSocketData), the closed channel is a DATA channel that
			// Unsubscribe/Close/complete closed while this delivery was in flight — the known finding F-13c.  A send on
			// the closed ERROR channel (handleErr) or anywhere else keeps the unlisted class.
			if first := firstGoroutine(stderr.String()); strings.Contains(first, "wsStressOnce.func1") && strings.Contains(first, "forwardWebSocketData") && !strings.Contains(first, "handleErr") {
				cls = "panic:send-on-closed-channel:ended-during-delivery"
			}
		case strings.Contains(msg, "DATA RACE"):
			cls = "data-race"
		}
		st := stderr.String()
		if len(st) > 3000 {
			st = st[:3000]
		}
		c.Res.Add(proto.Finding{Kind: "violation", Class: cls, What: "free-running stress crashed: " + msg,
			Case: map[string]any{"stress_iterations": n, "seed": c.Seed, "stderr": st, "note": "replay: re-run the stress with the same seed (timing dependent)"}})
	}
}


// firstGoroutine: the stack of the goroutine that panicked (the first "goroutine N [running]:" block)
func firstGoroutine(st string) string {
	i := strings.Index(st, "goroutine ")
	if i < 0 {
		return ""
	}
	rest := st[i:]
	if j := strings.Index(rest, "\n\n"); j >= 0 {
		return rest[:j]
	}
	return rest
}
