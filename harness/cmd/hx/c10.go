package main

import (
	"os"
	"encoding/json"
	"fmt"
	goast "go/ast"
	goparser "go/parser"
	gotoken "go/token"
	"reflect"
	"regexp"
	"strings"

	"verifharness/internal/proto"
)

func init() {
	register("C10", "a table over a fixed schema: global options (optional value/pointer/generic x use_struct_references) x operation-level directive "+
		"x `for:` entry (for the selected field, and decoys for other fields/for the alias) x node-level directive x GraphQL type shape "+
		"(nullable/non-null, list nesting 0-2) x kind (builtin scalar, bound scalar, enum, object, interface, input object) x aliased or not; "+
		"quick samples the table, thorough enumerates it completely; the Go type and JSON tag of the generated field or parameter are read from "+
		"the real output and compared with the model; non-trivial = distinct (global, op, for, node, shape, kind, alias) tuples", runC10)
}

const c10Schema = `scalar Date
enum Color { RED GREEN }
type Obj { x: Int }
interface Iface { id: ID }
type Impl implements Iface { id: ID, extra: Int }
input In { a: String, b: Int!, c: In }
type Query {
  s: String
  sN: String!
  ls: [String]
  lsN: [String!]!
  lls: [[String]]
  d: Date
  dN: Date!
  ld: [Date]
  e: Color
  eN: Color!
  le: [Color!]
  o: Obj
  oN: Obj!
  lo: [Obj]
  loN: [Obj!]!
  i: Iface
  iN: Iface!
  li: [Iface]
  take(v: Int): Int
  useS(v: String): Int
  useSN(v: String!): Int
  useLS(v: [String!]): Int
  useD(v: Date): Int
  useE(v: Color): Int
  useIn(v: In): Int
  useInN(v: In!): Int
  useLIn(v: [In!]!): Int
}
`

type c10Field struct {
	Name  string
	Kind  string
	Type  map[string]any // TRef JSON
	Sub   string
}

func tnamed(n string, nn bool) map[string]any { return map[string]any{"name": n, "nonNull": nn} }
func tlist(e map[string]any, nn bool) map[string]any { return map[string]any{"elem": e, "nonNull": nn} }

var c10Fields = []c10Field{
	{"s", "scalar", tnamed("String", false), ""}, {"sN", "scalar", tnamed("String", true), ""},
	{"ls", "scalar", tlist(tnamed("String", false), false), ""}, {"lsN", "scalar", tlist(tnamed("String", true), true), ""},
	{"lls", "scalar", tlist(tlist(tnamed("String", false), false), false), ""},
	{"d", "scalar", tnamed("Date", false), ""}, {"dN", "scalar", tnamed("Date", true), ""}, {"ld", "scalar", tlist(tnamed("Date", false), false), ""},
	{"e", "enum", tnamed("Color", false), ""}, {"eN", "enum", tnamed("Color", true), ""}, {"le", "enum", tlist(tnamed("Color", true), false), ""},
	{"o", "object", tnamed("Obj", false), " { x }"}, {"oN", "object", tnamed("Obj", true), " { x }"},
	{"lo", "object", tlist(tnamed("Obj", false), false), " { x }"}, {"loN", "object", tlist(tnamed("Obj", true), true), " { x }"},
	{"i", "interface", tnamed("Iface", false), " { id }"}, {"iN", "interface", tnamed("Iface", true), " { id }"}, {"li", "interface", tlist(tnamed("Iface", false), false), " { id }"},
}

type c10Var struct {
	Decl string
	Kind string
	Type map[string]any
	Use  string
}

var c10Vars = []c10Var{
	{"String", "scalar", tnamed("String", false), "useS"}, {"String!", "scalar", tnamed("String", true), "useSN"},
	{"[String!]", "scalar", tlist(tnamed("String", true), false), "useLS"}, {"Date", "scalar", tnamed("Date", false), "useD"},
	{"Color", "enum", tnamed("Color", false), "useE"}, {"In", "input", tnamed("In", false), "useIn"}, {"In!", "input", tnamed("In", true), "useInN"},
	{"[In!]!", "input", tlist(tnamed("In", true), true), "useLIn"},
}

type c10Dir map[string]any // pointer/omitempty/struct/flatten bool; bind/typename/alias string

func (d c10Dir) text(forKey string) string {
	if len(d) == 0 && forKey == "" {
		return ""
	}
	var parts []string
	if forKey != "" {
		parts = append(parts, fmt.Sprintf("for: %q", forKey))
	}
	for _, k := range []string{"pointer", "omitempty", "struct", "flatten"} {
		if v, ok := d[k]; ok {
			parts = append(parts, fmt.Sprintf("%s: %v", k, v))
		}
	}
	for _, k := range []string{"bind", "typename", "alias"} {
		if v, ok := d[k]; ok {
			parts = append(parts, fmt.Sprintf("%s: %q", k, v))
		}
	}
	return "# @genqlient(" + strings.Join(parts, ", ") + ")\n"
}

type c10Case struct {
	Optional   string `json:"optional"`
	StructRefs bool   `json:"structRefs"`
	OpDir      c10Dir `json:"opDir"`
	ForDir     c10Dir `json:"forDir"`     // entry for the target field (nil: none)
	Decoy      string `json:"decoy"`      // "", "other-field", "alias-key": an extra for: entry that must NOT apply
	NodeDir    c10Dir `json:"nodeDir"`
	Target     int    `json:"target"`     // index into c10Fields, or -1-idx into c10Vars
	Alias      string `json:"alias"`      // response alias ("" = none)
	InFragment bool   `json:"inFragment,omitempty"` // the target is selected inside a named fragment (which carries the directives) that the query spreads: genqlient.yaml and the fragment's own options apply there just the same
	Bystander  bool   `json:"bystander"`  // a second field (`take`) starts on the SAME source line as the target: the node-level comment reaches it (documented: "all nodes on the following line"), a `for:` entry for the target must not
}

var c10OpDirs = []c10Dir{nil, {"pointer": true}, {"pointer": false}, {"omitempty": true}, {"bind": "verifharness/sup.Text"}}
var c10ForDirs = []c10Dir{nil, {"pointer": true}, {"pointer": false}, {"bind": "verifharness/sup.Raw"}, {"alias": "ForAlias"}}
var c10NodeDirs = []c10Dir{nil, {"pointer": true}, {"pointer": false}, {"bind": "-"}, {"bind": "verifharness/sup.Blob"}, {"alias": "NodeAlias"}, {"omitempty": true}, {"omitempty": false}, {"pointer": true, "omitempty": true}}

func runC10(c *Ctx) {
	if c.Replay != "" {
		var wrap struct{ Case c10Case `json:"case"` }
		b, err := osReadFile(c.Replay)
		if err == nil {
			err = json.Unmarshal(b, &wrap)
		}
		if err != nil {
			c.Res.Notes = append(c.Res.Notes, "replay unreadable")
			return
		}
		var lg struct{ Case struct{ Leg string `json:"leg"` } `json:"case"` }
		if json.Unmarshal(b, &lg) == nil && lg.Case.Leg == "package-bindings" {
			c10PackageBindings(c) // the leg is a fixed pair of projects
			return
		}
		c10Run(c, wrap.Case)
		return
	}
	c10PackageBindings(c)
	optionals := []string{"", "pointer", "generic"}
	decoys := []string{"", "other-field", "alias-key"}
	aliases := []string{"", "renamed", "sN"} // "sN": an alias that equals ANOTHER field's name
	if c.Thorough() {
		c.Res.Exhaustive = true
		for _, opt := range optionals {
			for _, sr := range []bool{false, true} {
				for _, od := range c10OpDirs {
					for _, fd := range c10ForDirs {
						for _, nd := range c10NodeDirs {
							for t := -len(c10Vars); t < len(c10Fields); t++ {
								for _, al := range aliases {
									for _, dc := range decoys {
										if t < 0 && (al != "" || fd != nil || dc != "") {
											continue
										}
										if dc != "" && (len(nd) > 0 || len(od) > 0) {
											continue // decoys are crossed with the for/alias dimensions only
										}
										c10Run(c, c10Case{Optional: opt, StructRefs: sr, OpDir: od, ForDir: fd, Decoy: dc, NodeDir: nd, Target: t, Alias: al})
										if t >= 0 && dc == "" && al == "" {
											c10Run(c, c10Case{Optional: opt, StructRefs: sr, OpDir: od, ForDir: fd, Decoy: dc, NodeDir: nd, Target: t, Alias: al, InFragment: true})
										}
										if t >= 0 && nd["alias"] == nil {
											c10Run(c, c10Case{Optional: opt, StructRefs: sr, OpDir: od, ForDir: fd, Decoy: dc, NodeDir: nd, Target: t, Alias: al, Bystander: true})
										}
									}
								}
							}
						}
					}
				}
			}
		}
		return
	}
	for i := 0; i < 700; i++ {
		r := c.Rng("c10", i)
		cs := c10Case{Optional: proto.Pick(r, optionals), StructRefs: r.Chance(1, 3), OpDir: proto.Pick(r, c10OpDirs), ForDir: proto.Pick(r, c10ForDirs),
			Decoy: proto.Pick(r, decoys), NodeDir: proto.Pick(r, c10NodeDirs), Alias: proto.Pick(r, aliases)}
		if r.Chance(1, 4) {
			cs.Target = -1 - r.Intn(len(c10Vars))
			cs.Alias, cs.ForDir, cs.Decoy = "", nil, ""
		} else {
			cs.Target = r.Intn(len(c10Fields))
			cs.Bystander = r.Chance(1, 2) && cs.NodeDir["alias"] == nil
			cs.InFragment = r.Chance(1, 4)
		}
		c10Run(c, cs)
	}
}

var c10TypeRe = regexp.MustCompile(`^((?:\[\]|\*)*)(.*)$`)

// shape of a Go type expression: wrappers kept, the base abstracted to B, bound types to R(<ref>)
func c10Shape(t string, bases map[string]string) string {
	m := c10TypeRe.FindStringSubmatch(t)
	pre, rest := m[1], m[2]
	if strings.HasPrefix(rest, "sup.Option[") && strings.HasSuffix(rest, "]") {
		return pre + "O[" + c10Shape(rest[len("sup.Option["):len(rest)-1], bases) + "]"
	}
	if r, ok := bases[rest]; ok {
		return pre + r
	}
	return pre + "B"
}

func c10Run(c *Ctx, cs c10Case) {
	c.Res.Eval()
	fail := func(kind, class, what string, impl, model any) {
		c.Res.Add(proto.Finding{Kind: kind, Class: class, What: what, Case: cs, Impl: impl, Model: model})
	}
	var ops strings.Builder
	var forTable []any
	isVar := cs.Target < 0
	var fld c10Field
	var vr c10Var
	respKey := ""
	if !isVar {
		fld = c10Fields[cs.Target]
		respKey = fld.Name
		if cs.Alias != "" {
			respKey = cs.Alias
		}
	} else {
		vr = c10Vars[-1-cs.Target]
	}
	// operation-level directive lines
	ops.WriteString(cs.OpDir.text(""))
	if cs.ForDir != nil && !isVar {
		ops.WriteString(cs.ForDir.text("Query." + fld.Name))
		forTable = append(forTable, map[string]any{"type": "Query", "field": fld.Name, "dir": cs.ForDir})
	}
	switch cs.Decoy {
	case "other-field":
		other := "sN"
		if !isVar && fld.Name == "sN" {
			other = "s"
		}
		ops.WriteString(c10Dir{"pointer": true}.text("Query." + other))
		forTable = append(forTable, map[string]any{"type": "Query", "field": other, "dir": c10Dir{"pointer": true}})
	case "alias-key":
		// an entry keyed by the response alias of the target (a field of that name exists: sN); it must apply
		// to the field NAMED sN only, never to a field merely aliased sN
		if cs.Alias == "sN" && !isVar && fld.Name != "sN" {
			ops.WriteString(c10Dir{"pointer": true}.text("Query.sN"))
			forTable = append(forTable, map[string]any{"type": "Query", "field": "sN", "dir": c10Dir{"pointer": true}})
		}
	}
	if isVar {
		c10RunVar(c, cs, vr, fail)
		return
	}
	ops.WriteString("query Q {\n")
	ops.WriteString(cs.NodeDir.text(""))
	by := ""
	if cs.Bystander {
		by = " take"
	}
	if cs.Alias != "" {
		ops.WriteString("  " + cs.Alias + ": " + fld.Name + fld.Sub + by + "\n")
	} else {
		ops.WriteString("  " + fld.Name + fld.Sub + by + "\n")
	}
	ops.WriteString("}\n")
	respStruct := "QResponse"
	if cs.InFragment {
		txt := "query Q {\n  ...F\n}\n\n" + strings.Replace(ops.String(), "query Q {\n", "fragment F on Query {\n", 1)
		ops.Reset()
		ops.WriteString(txt)
		respStruct = "F"
	}
	prog := &Program{Schema: map[string]string{"schema.graphql": c10Schema}, Ops: map[string]string{"ops.graphql": ops.String()},
		Cfg: ProgCfg{Package: "gen", Optional: cs.Optional, StructReferences: cs.StructRefs,
			Bindings: map[string]map[string]string{"Date": {"type": "verifharness/sup.Date"}}}}
	if cs.Optional == "generic" {
		prog.Cfg.OptionalGeneric = "verifharness/sup.Option"
	}
	out := runGenerate(c.Work, prog, false)
	key := fmt.Sprintf("%s|%v|%v|%v|%s|%v|%d|%s|%v|%v", cs.Optional, cs.StructRefs, cs.OpDir, cs.ForDir, cs.Decoy, cs.NodeDir, cs.Target, cs.Alias, cs.Bystander, cs.InFragment)
	if out.Panic != nil || out.TimedOut {
		c.Res.Count("outcome:panic (C07)")
		return
	}
	c10Accepts(c, cs, map[string]any{"op": "conv.accepts", "kind": fld.Kind, "boundInConfig": c10BaseName(fld.Type) == "Date", "hasFragments": false, "onlySpread": false,
		"structRefs": cs.StructRefs, "optional": cs.Optional, "node": cs.NodeDir, "forDir": cs.ForDir, "opDir": cs.OpDir}, out.Err, fail)
	if out.Err != nil {
		c.Res.Count("outcome:rejected (not a documented combination)")
		c10Rejected(cs, out.Err)
		return
	}
	c.Res.Count("outcome:accepted")
	c.Res.NonTrivial(key)
	// read the field of QResponse whose tag is the response key
	goType, goName, tag, found := c10ResponseField(out.Files["generated.go"], respStruct, respKey)
	m := c.Model(map[string]any{"op": "conv.fieldType", "optional": cs.Optional, "structRefs": cs.StructRefs, "kind": fld.Kind, "node": cs.NodeDir, "opDir": cs.OpDir,
		"forTable": forTable, "parentType": "Query", "fieldName": fld.Name, "alias": respKey, "type": fld.Type})
	if !found {
		fail("violation", "field-missing", respStruct+" has no field for response key "+respKey, nil, nil)
		return
	}
	bases := map[string]string{"sup.Text": "R(verifharness/sup.Text)", "sup.Raw": "R(verifharness/sup.Raw)", "sup.Blob": "R(verifharness/sup.Blob)"}
	shape := c10Shape(goType, bases)
	want := m["type"].(string)
	if c.Res.Evaluations%70 == 1 {
		c.Res.Sample(map[string]any{"case": cs, "operation": ops.String(), "go_field": goName + " " + goType + " `" + tag + "`", "model_shape": want})
	}
	if shape != want {
		fail("mismatch", "field-type-model", fmt.Sprintf("field %s (%s): Go type %s has shape %s, model %s", respKey, ops.String(), goType, shape, want), goType, want)
		// is it a violation of the documentation? the documented rules are the model's theorems; a disagreement on a
		// documented corner is reported as one
		fail("violation", "documented-type-rule", fmt.Sprintf("the Go type %s of field %q is not the documented function of its GraphQL type and the options in force (expected shape %s) for:\n%s", goType, respKey, want, ops.String()), goType, want)
	}
	// Go name: alias option (node > for > op) else upperFirst(response key)
	wantName := m["goAlias"].(string)
	if wantName == "" {
		wantName = strings.ToUpper(respKey[:1]) + respKey[1:]
	} else {
		wantName = strings.ToUpper(wantName[:1]) + wantName[1:]
	}
	if goName != wantName {
		fail("violation", "field-name-rule", fmt.Sprintf("field for %q is named %s, documented rule gives %s", respKey, goName, wantName), goName, wantName)
	}
	// response fields never carry omitempty
	if !strings.Contains(tag, `json:"`+respKey+`"`) && !strings.Contains(tag, `json:"-"`) {
		fail("violation", "json-tag", fmt.Sprintf("field for %q has tag %s", respKey, tag), tag, nil)
	}
	_ = reflect.DeepEqual
	// nodes that merely share the target's source line: the sub-field `x` of an object target and the bystander
	// `take`.  The node-level comment reaches them (it applies to every node on the following line); the `for:`
	// entry of the target and its decoys do not; the operation-level options do.
	type side struct{ parent, name, gql, structName string }
	var sides []side
	if cs.Bystander {
		sides = append(sides, side{"Query", "take", "Int", respStruct})
	}
	if fld.Kind == "object" {
		base := strings.TrimLeft(goType, "[]*")
		if strings.HasPrefix(base, "sup.Option[") {
			base = strings.TrimLeft(strings.TrimSuffix(base[len("sup.Option["):], "]"), "[]*")
		}
		if !strings.Contains(base, ".") {
			sides = append(sides, side{"Obj", "x", "Int", base})
		}
	}
	for _, sd := range sides {
		sType, _, _, ok := c10ResponseField(out.Files["generated.go"], sd.structName, sd.name)
		if !ok {
			c.Res.Count("same-line-node:not-located")
			continue
		}
		sm := c.Model(map[string]any{"op": "conv.fieldType", "optional": cs.Optional, "structRefs": cs.StructRefs, "kind": "scalar", "node": cs.NodeDir, "opDir": cs.OpDir,
			"forTable": forTable, "parentType": sd.parent, "fieldName": sd.name, "alias": sd.name, "type": tnamed(sd.gql, false)})
		c.Res.Count("same-line-node:compared")
		if got, want := c10Shape(sType, bases), sm["type"].(string); got != want {
			fail("violation", "option-leaks-to-same-line-node", fmt.Sprintf("field %s.%s shares the source line of %q; its Go type %s (shape %s) is not the documented function of its own options (expected %s) for:\n%s",
				sd.parent, sd.name, respKey, sType, got, want, ops.String()), sType, want)
		}
	}
}

// c10ResponseField finds, in struct `typ`, the field carrying response key `key` (by json tag, or for
// custom-unmarshaled fields tagged "-" by the unmarshal helper's first-pass struct).
func c10ResponseField(src []byte, typ, key string) (goType, goName, tag string, ok bool) {
	fset := gotoken.NewFileSet()
	f, err := goparser.ParseFile(fset, "generated.go", src, 0)
	if err != nil {
		return
	}
	wantName := ""
	for _, d := range f.Decls {
		gd, isGen := d.(*goast.GenDecl)
		if !isGen || gd.Tok != gotoken.TYPE {
			continue
		}
		for _, sp := range gd.Specs {
			ts := sp.(*goast.TypeSpec)
			st, isStruct := ts.Type.(*goast.StructType)
			if ts.Name.Name != typ || !isStruct {
				continue
			}
			var dashFields []*goast.Field
			for _, fl := range st.Fields.List {
				if fl.Tag == nil || len(fl.Names) != 1 {
					continue
				}
				t := strings.Trim(fl.Tag.Value, "`")
				if strings.Contains(t, `json:"`+key+`"`) || strings.Contains(t, `json:"`+key+`,`) {
					return exprString(fset, fl.Type), fl.Names[0].Name, t, true
				}
				if strings.Contains(t, `json:"-"`) {
					dashFields = append(dashFields, fl)
				}
			}
			if len(dashFields) == 1 {
				fl := dashFields[0]
				return exprString(fset, fl.Type), fl.Names[0].Name, strings.Trim(fl.Tag.Value, "`"), true
			}
		}
	}
	_ = wantName
	return
}

func exprString(fset *gotoken.FileSet, e goast.Expr) string {
	var sb strings.Builder
	switch x := e.(type) {
	case *goast.Ident:
		return x.Name
	case *goast.StarExpr:
		return "*" + exprString(fset, x.X)
	case *goast.ArrayType:
		return "[]" + exprString(fset, x.Elt)
	case *goast.SelectorExpr:
		return exprString(fset, x.X) + "." + x.Sel.Name
	case *goast.IndexExpr:
		return exprString(fset, x.X) + "[" + exprString(fset, x.Index) + "]"
	case *goast.InterfaceType:
		return "interface{}"
	case *goast.MapType:
		return "map[" + exprString(fset, x.Key) + "]" + exprString(fset, x.Value)
	}
	fmt.Fprintf(&sb, "%T", e)
	return sb.String()
}

var c10FuncRe = regexp.MustCompile(`(?s)func Q\(\s*ctx_ context\.Context,\s*client_ graphql\.Client,\s*v ([^,\n]+),`)
var c10InputFieldRe = regexp.MustCompile("(?m)^\\s*V ([^`\\n]+) `json:\"([^\"]*)\"`")

// c10RunVar: a variable with operation-level and variable-level directives; the parameter type of the
// helper and the tag of the __QInput field are compared with the model.
func c10RunVar(c *Ctx, cs c10Case, vr c10Var, fail func(kind, class, what string, impl, model any)) {
	var ops strings.Builder
	ops.WriteString(cs.OpDir.text(""))
	ops.WriteString("query Q(\n" + strings.ReplaceAll(cs.NodeDir.text(""), "# @", "  # @") + "  $v: " + vr.Decl + "\n) {\n  " + vr.Use + "(v: $v)\n}\n")
	prog := &Program{Schema: map[string]string{"schema.graphql": c10Schema}, Ops: map[string]string{"ops.graphql": ops.String()},
		Cfg: ProgCfg{Package: "gen", Optional: cs.Optional, StructReferences: cs.StructRefs,
			Bindings: map[string]map[string]string{"Date": {"type": "verifharness/sup.Date"}}}}
	if cs.Optional == "generic" {
		prog.Cfg.OptionalGeneric = "verifharness/sup.Option"
	}
	out := runGenerate(c.Work, prog, false)
	if out.Panic != nil || out.TimedOut {
		c.Res.Count("outcome:panic (C07)")
		return
	}
	inFields := []any{}
	if vr.Kind == "input" {
		// input In { a: String, b: Int!, c: In }
		inFields = []any{map[string]any{"nonNull": false}, map[string]any{"nonNull": true}, map[string]any{"nonNull": false}}
	}
	c10Accepts(c, cs, map[string]any{"op": "conv.accepts", "isVariable": true, "kind": vr.Kind, "nonNull": strings.HasSuffix(vr.Decl, "!"), "boundInConfig": c10BaseName(vr.Type) == "Date",
		"inputFields": inFields, "structRefs": cs.StructRefs, "optional": cs.Optional, "node": cs.NodeDir, "opDir": cs.OpDir}, out.Err, fail)
	if out.Err != nil {
		c.Res.Count("outcome:rejected (not a documented combination)")
		c10Rejected(cs, out.Err)
		return
	}
	c.Res.Count("outcome:accepted-variable")
	c.Res.NonTrivial(fmt.Sprintf("var|%s|%v|%v|%v|%d", cs.Optional, cs.StructRefs, cs.OpDir, cs.NodeDir, cs.Target))
	src := string(out.Files["generated.go"])
	fm := c10FuncRe.FindStringSubmatch(src)
	im := c10InputFieldRe.FindStringSubmatch(src)
	if fm == nil || im == nil {
		fail("violation", "variable-parameter-missing", "helper Q has no parameter v / __QInput has no field V:\n"+ops.String(), nil, nil)
		return
	}
	m := c.Model(map[string]any{"op": "conv.fieldType", "optional": cs.Optional, "structRefs": cs.StructRefs, "kind": vr.Kind, "node": cs.NodeDir, "opDir": cs.OpDir,
		"isVariable": true, "type": vr.Type})
	bases := map[string]string{"sup.Text": "R(verifharness/sup.Text)", "sup.Raw": "R(verifharness/sup.Raw)", "sup.Blob": "R(verifharness/sup.Blob)"}
	shape := c10Shape(strings.TrimSpace(fm[1]), bases)
	want := m["type"].(string)
	if shape != want || c10Shape(strings.TrimSpace(im[1]), bases) != want {
		fail("mismatch", "variable-type-model", fmt.Sprintf("variable $v: %s: parameter type %s / input field type %s, model shape %s for:\n%s", vr.Decl, fm[1], im[1], want, ops.String()), fm[1], want)
		fail("violation", "documented-type-rule", fmt.Sprintf("the Go type %s of parameter v is not the documented function of %s and the options in force (expected shape %s) for:\n%s", fm[1], vr.Decl, want, ops.String()), fm[1], want)
	}
	wantOmit := m["omitempty"].(bool)
	gotOmit := strings.HasSuffix(im[2], ",omitempty")
	if wantOmit != gotOmit || !strings.HasPrefix(im[2], "v") {
		fail("mismatch", "variable-omitempty-model", fmt.Sprintf("variable $v: %s: tag json:%q, model omitempty=%v for:\n%s", vr.Decl, im[2], wantOmit, ops.String()), im[2], wantOmit)
		fail("violation", "documented-omitempty-rule", fmt.Sprintf("tag json:%q of variable v does not follow the documented omitempty rule (expected omitempty=%v) for:\n%s", im[2], wantOmit, ops.String()), im[2], wantOmit)
	}
}

// c10Rejected: with HX_C10_REJECTS set, log every rejected combination and the generator's reason (used to write
// down the applicability table of Model/DirApply.lean)
func c10Rejected(cs c10Case, err error) {
	if os.Getenv("HX_C10_REJECTS") == "" {
		return
	}
	b, _ := json.Marshal(cs)
	msg := err.Error()
	if i := strings.Index(msg, "\n"); i >= 0 {
		msg = msg[:i]
	}
	fmt.Fprintf(os.Stderr, "C10REJ\t%s\t%s\n", b, msg)
}

func c10BaseName(t map[string]any) string {
	for {
		if e, ok := t["elem"].(map[string]any); ok {
			t = e
			continue
		}
		n, _ := t["name"].(string)
		return n
	}
}

// c10Accepts: correspondence of the generator's accept/reject decision with the applicability table of
// Model/DirApply.lean (validate() of genqlient_directive.go and the input-object checks of convert.go).  A documented
// combination that is refused, or an undocumented one that is accepted, is a finding either way.
func c10Accepts(c *Ctx, cs c10Case, req map[string]any, err error, fail func(kind, class, what string, impl, model any)) {
	m := c.Model(req)
	want, _ := m["accepts"].(bool)
	c.Res.Count("accept-model-compared")
	if want == (err == nil) {
		return
	}
	if want {
		fail("violation", "documented-combination-rejected", fmt.Sprintf("the options %v / for %v / operation %v are applicable here by the documented rules (model verdict %v), but the generator refuses them: %v", cs.NodeDir, cs.ForDir, cs.OpDir, m["verdict"], firstLine(err.Error())), firstLine(err.Error()), m)
	} else {
		fail("mismatch", "accept-model", fmt.Sprintf("the model refuses the options %v / for %v / operation %v (%v), the generator accepts them", cs.NodeDir, cs.ForDir, cs.OpDir, m["verdict"]), nil, m)
	}
}
