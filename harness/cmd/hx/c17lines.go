package main

import (
	"fmt"
	"strings"

	"github.com/vektah/gqlparser/v2/ast"
	"github.com/vektah/gqlparser/v2/lexer"

	"verifharness/internal/proto"
)

// c17Lines: correspondence of Model/Lines.lean with (a) gqlparser's lexer — the line it reports for every token of
// a text whose tokens are separated by random mixtures of "\n", "\r\n", "\r", blanks, commas and comments — and
// (b) the expression parsePrecedingComment uses to split a source into lines (strings.NewReplacer + strings.Split,
// tied to the source by C07/C17_parsePrecedingComment_tie), evaluated by the standard library on the same text.
func c17Lines(c *Ctx) {
	toks := []string{"query", "Q", "{", "}", "f", "(", ")", "a", ":", "1", "$v", "...", "on", "T", "@d", "\"s\"", "# @genqlient(pointer: true)", "# note", "#"}
	seps := []string{" ", "\n", "\r\n", "\r", "\t", ",", "\n\n", "\r\r", "\r\n\r\n", "\n\r", " \r", "\r "}
	n := c.N(300, 30000)
	for i := 0; i < n; i++ {
		r := proto.NewRng(c.Seed, "c17/lines", uint64(i))
		var sb strings.Builder
		for k := r.Intn(4); k > 0; k-- {
			sb.WriteString(seps[r.Intn(len(seps))])
		}
		for k := 1 + r.Intn(12); k > 0; k-- {
			t := toks[r.Intn(len(toks))]
			sb.WriteString(t)
			sep := seps[r.Intn(len(seps))]
			if strings.HasPrefix(t, "#") {
				sep = []string{"\n", "\r\n", "\r"}[r.Intn(3)] // a comment runs to the end of its line
			} else if sep == "," || sep == "\t" || sep == " " {
				// fine
			}
			sb.WriteString(sep)
			for j := r.Intn(3); j > 0; j-- {
				sb.WriteString(seps[r.Intn(len(seps))])
			}
		}
		if r.Intn(3) == 0 {
			sb.WriteString("end")
		}
		text := sb.String()
		c.Res.Eval()
		// (a) the lexer
		lx := lexer.New(&ast.Source{Name: "t.graphql", Input: text})
		offs := []any{}
		var lines []int
		lexOK := true
		for {
			tok, err := lx.ReadToken()
			if err != nil {
				lexOK = false
				break
			}
			if tok.Kind == lexer.EOF {
				break
			}
			if tok.Kind == lexer.Comment {
				continue
			}
			offs = append(offs, tok.Pos.Start)
			lines = append(lines, tok.Pos.Line)
		}
		if !lexOK {
			c.Res.Count("lines:skipped-does-not-lex")
			continue
		}
		m := c.Model(map[string]any{"op": "lines.info", "s": text, "offsets": offs})
		lineOf, _ := m["lineOf"].([]any)
		bad := false
		for k := range lines {
			if k >= len(lineOf) || fmt.Sprint(lineOf[k]) != fmt.Sprint(lines[k]) {
				c.Res.Add(proto.Finding{Kind: "mismatch", Class: "lexer-line-model", What: fmt.Sprintf("token at offset %v of %q: the lexer says line %d, the model says %v", offs[k], text, lines[k], lineOf), Case: map[string]any{"text": text}})
				bad = true
				break
			}
		}
		if bad {
			return
		}
		// (b) the split expression
		std := strings.Split(strings.NewReplacer("\r\n", "\n", "\r", "\n").Replace(text), "\n")
		fixed, _ := m["fixed"].([]any)
		same := len(std) == len(fixed)
		for k := 0; same && k < len(std); k++ {
			same = fixed[k] == std[k]
		}
		if !same {
			c.Res.Add(proto.Finding{Kind: "mismatch", Class: "split-lines-model", What: fmt.Sprintf("%q: the standard library splits into %q, the model into %v", text, std, fixed), Case: map[string]any{"text": text}})
			return
		}
		// every scan index is in range (what C07_comment_scan_in_range proves)
		for _, l := range lines {
			if l-1 > len(std) {
				c.Res.Add(proto.Finding{Kind: "violation", Class: "scan-index-out-of-range", What: fmt.Sprintf("%q: a token on line %d, %d lines in the slice", text, l, len(std)), Case: map[string]any{"text": text}})
				return
			}
		}
		kinds := ""
		for _, e := range []string{"\r\n", "\r", "\n"} {
			if strings.Contains(text, e) {
				kinds += fmt.Sprintf("%q", e)
			}
		}
		c.Res.Count("lines:compared")
		c.Res.NonTrivial("lines|" + kinds + fmt.Sprint(len(std) > 3))
	}
}
