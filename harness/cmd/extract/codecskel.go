package main

import (
	"os"
	"path/filepath"
	"regexp"
	"strings"
)

func init() { register("Codec.lean", extractCodec) }

var tmplCommentRe = regexp.MustCompile(`(?s)\{\{-?\s*/\*.*?\*/\s*-?\}\}`)
var wsRe = regexp.MustCompile(`\s+`)

// templateLines: the template with its {{/* comments */}} removed, one entry per non-empty line, white space
// collapsed — what the Codec model (lean/Genq/Model/Codec.lean) was written from.
func templateLines(path string) ([]string, error) {
	b, err := os.ReadFile(path)
	if err != nil {
		return nil, err
	}
	text := tmplCommentRe.ReplaceAllString(string(b), "")
	var out []string
	for _, l := range strings.Split(text, "\n") {
		l = strings.TrimSpace(wsRe.ReplaceAllString(l, " "))
		if l != "" {
			out = append(out, l)
		}
	}
	return out, nil
}

// the (un)marshal templates and FlattenedFields: what C02/C06/C19's Codec model mirrors
func extractCodec(repo string) (string, error) {
	var sb strings.Builder
	sb.WriteString("-- regenerated from /repo/generate/{unmarshal,unmarshal_helper,marshal,marshal_helper}.go.tmpl and types.go by harness/cmd/extract on every run\n")
	sb.WriteString("import Genq.Model.Skel\nnamespace Genq.Extracted\nopen Genq.Skel\n")
	for _, t := range [][2]string{{"unmarshalTmpl", "unmarshal.go.tmpl"}, {"unmarshalHelperTmpl", "unmarshal_helper.go.tmpl"},
		{"marshalTmpl", "marshal.go.tmpl"}, {"marshalHelperTmpl", "marshal_helper.go.tmpl"}} {
		ls, err := templateLines(filepath.Join(repo, "generate", t[1]))
		if err != nil {
			return "", err
		}
		sb.WriteString("def " + t[0] + " : List String := [\n")
		for i, l := range ls {
			sb.WriteString("  " + leanStr(l))
			if i+1 < len(ls) {
				sb.WriteString(",")
			}
			sb.WriteString("\n")
		}
		sb.WriteString("]\n\n")
	}
	a, err := skeletonsOf(repo, "generate/types.go", []string{"goStructType.FlattenedFields", "goStructType.WriteDefinition",
		"goStructType.NeedsMarshaling", "goStructField.NeedsMarshaling", "goInterfaceType.WriteDefinition"})
	if err != nil {
		return "", err
	}
	sb.WriteString("def flattenedFieldsSkeleton : List Fn := " + a + "\nend Genq.Extracted\n")
	return sb.String(), nil
}
