package main

func init() { register("Gen.lean", extractGen) }

// the functions of package generate whose structure C08/C17 rely on: where enumeration order is
// neutralised by sorting
func extractGen(repo string) (string, error) {
	a, err := skeletonsOf(repo, "generate/parse.go", []string{"expandFilenames"})
	if err != nil {
		return "", err
	}
	b, err := skeletonsOf(repo, "generate/generate.go", []string{"generator.WriteTypes"})
	if err != nil {
		return "", err
	}
	pc, err := skeletonsOf(repo, "generate/genqlient_directive.go", []string{"generator.parsePrecedingComment"})
	if err != nil {
		return "", err
	}
	return "-- regenerated from /repo/generate/parse.go and generate.go by harness/cmd/extract on every run\n" +
		"import Genq.Model.Skel\nnamespace Genq.Extracted\nopen Genq.Skel\n" +
		"def expandFilenamesSkeleton : List Fn := " + a + "\n\ndef writeTypesSkeleton : List Fn := " + b +
		"\n\ndef parsePrecedingCommentSkeleton : List Fn := " + pc + "\nend Genq.Extracted\n", nil
}
