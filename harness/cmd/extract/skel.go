package main

import (
	"fmt"
	"go/ast"
	"go/parser"
	"go/token"
	"path/filepath"
	"strings"
)

// Generic effect-skeleton translator (see lean/Genq/Model/Skel.lean).

// calls that have no effect the models care about (pure computation / formatting)
var pureCalls = map[string]bool{
	"json.Marshal": true, "json.Unmarshal": true, "fmt.Errorf": true, "fmt.Sprintf": true, "strings.HasPrefix": true,
	"strings.TrimSpace": true, "uuid.NewString": true, "time.Now": true, "time.Since": true, "formatCloseMessage": true,
	"reflect.ValueOf": true, "len": true, "append": true, "make": true, "errors.New": true, "string": true,
	"binary.BigEndian.PutUint16": true, "copy": true, "uint16": true, "checkConnectionAckReceived": true,
	"errorf": true, "filepath.Clean": true, "filepath.ToSlash": true, "path.Join": true, "doublestar.SplitPattern": true,
	"doublestar.WithFilesOnly": true, "os.DirFS": true,
}

type skelCtx struct{ fset *token.FileSet }

func (c *skelCtx) calls(n ast.Node, out *[]string) {
	if n == nil {
		return
	}
	// post-order: arguments before the call itself
	ast.Inspect(n, func(x ast.Node) bool {
		if _, ok := x.(*ast.FuncLit); ok {
			return false
		}
		return true
	})
	var visit func(ast.Node)
	visit = func(x ast.Node) {
		switch e := x.(type) {
		case nil:
			return
		case *ast.FuncLit:
			*out = append(*out, ".other "+leanStr("func literal: "+src(c.fset, e)))
			return
		case *ast.CallExpr:
			for _, a := range e.Args {
				visit(a)
			}
			visit(e.Fun)
			name := src(c.fset, e.Fun)
			if !pureCalls[name] {
				*out = append(*out, ".eff "+leanStr("call "+src(c.fset, e)))
			} else if name == "reflect.ValueOf" {
				// reflect.ValueOf(x).Close() is handled by the selector call below
			}
			return
		case *ast.UnaryExpr:
			if e.Op == token.ARROW {
				visit(e.X)
				*out = append(*out, ".eff "+leanStr("recv "+src(c.fset, e.X)))
				return
			}
		}
		// generic traversal of children
		ast.Inspect(x, func(y ast.Node) bool {
			if y == x || y == nil {
				return true
			}
			switch y.(type) {
			case *ast.CallExpr, *ast.FuncLit, *ast.UnaryExpr:
				visit(y)
				return false
			}
			return true
		})
	}
	visit(n)
}

func (c *skelCtx) stmts(l []ast.Stmt, ind string) string {
	var items []string
	for _, s := range l {
		items = append(items, c.stmt(s, ind+"  ")...)
	}
	if len(items) == 0 {
		return "[]"
	}
	return "[\n" + ind + "  " + strings.Join(items, ",\n"+ind+"  ") + " ]"
}

func (c *skelCtx) stmt(s ast.Stmt, ind string) []string {
	var out []string
	switch s := s.(type) {
	case *ast.ExprStmt:
		c.calls(s.X, &out)
	case *ast.AssignStmt:
		for _, r := range s.Rhs {
			c.calls(r, &out)
		}
		for _, l := range s.Lhs {
			switch l.(type) {
			case *ast.SelectorExpr, *ast.IndexExpr:
				out = append(out, ".eff "+leanStr("set "+src(c.fset, l)))
			}
		}
	case *ast.DeclStmt:
		if gd, ok := s.Decl.(*ast.GenDecl); ok {
			for _, sp := range gd.Specs {
				if vs, ok := sp.(*ast.ValueSpec); ok {
					for _, v := range vs.Values {
						c.calls(v, &out)
					}
				}
			}
		}
	case *ast.SendStmt:
		c.calls(s.Value, &out)
		out = append(out, ".eff "+leanStr("send "+src(c.fset, s.Chan)))
	case *ast.GoStmt:
		out = append(out, ".eff "+leanStr("go "+src(c.fset, s.Call)))
	case *ast.DeferStmt:
		out = append(out, ".eff "+leanStr("defer "+src(c.fset, s.Call)))
	case *ast.ReturnStmt:
		for _, r := range s.Results {
			c.calls(r, &out)
		}
		rs := []string{}
		for _, r := range s.Results {
			// only the shape of a result matters: nil, an error variable, or some expression
			t := src(c.fset, r)
			switch {
			case t == "nil" || t == "err" || t == "true" || t == "false" || t == "firstErr":
			case strings.HasSuffix(t, ")"):
				t = "<call>"
			default:
				t = "<expr>"
			}
			rs = append(rs, t)
		}
		out = append(out, ".ret "+leanStr(strings.Join(rs, ", ")))
	case *ast.IfStmt:
		if s.Init != nil {
			out = append(out, c.stmt(s.Init, ind)...)
		}
		var pre []string
		c.calls(s.Cond, &pre)
		out = append(out, pre...)
		els := "[]"
		switch e := s.Else.(type) {
		case *ast.BlockStmt:
			els = c.stmts(e.List, ind+"  ")
		case *ast.IfStmt:
			els = "[\n" + ind + "    " + strings.Join(c.stmt(e, ind+"    "), ",\n"+ind+"    ") + " ]"
		}
		out = append(out, ".ite "+leanStr(src(c.fset, s.Cond))+"\n"+ind+"  "+c.stmts(s.Body.List, ind+"  ")+"\n"+ind+"  "+els)
	case *ast.ForStmt:
		hdr := "for"
		if s.Init != nil {
			out = append(out, c.stmt(s.Init, ind)...)
		}
		if s.Cond != nil {
			hdr += " " + src(c.fset, s.Cond)
		}
		if s.Post != nil {
			hdr += "; " + src(c.fset, s.Post)
		}
		out = append(out, ".loop "+leanStr(hdr)+" "+c.stmts(s.Body.List, ind))
	case *ast.RangeStmt:
		hdr := "range " + src(c.fset, s.X)
		out = append(out, ".loop "+leanStr(hdr)+" "+c.stmts(s.Body.List, ind))
	case *ast.BlockStmt:
		for _, x := range s.List {
			out = append(out, c.stmt(x, ind)...)
		}
	case *ast.IncDecStmt, *ast.EmptyStmt:
	case *ast.BranchStmt:
		out = append(out, ".eff "+leanStr(s.Tok.String()))
	default:
		out = append(out, ".other "+leanStr(src(c.fset, s)))
	}
	return out
}

// skeletonsOf renders the named functions/methods of one file as `List Fn`.
func skeletonsOf(repo, rel string, names []string) (string, error) {
	fset := token.NewFileSet()
	f, err := parser.ParseFile(fset, filepath.Join(repo, rel), nil, 0)
	if err != nil {
		return "", err
	}
	c := &skelCtx{fset}
	found := map[string]string{}
	for _, d := range f.Decls {
		fd, ok := d.(*ast.FuncDecl)
		if !ok || fd.Body == nil {
			continue
		}
		name := fd.Name.Name
		if fd.Recv != nil && len(fd.Recv.List) == 1 {
			t := src(fset, fd.Recv.List[0].Type)
			name = strings.TrimPrefix(t, "*") + "." + name
		}
		found[name] = c.stmts(fd.Body.List, "    ")
	}
	var items []string
	for _, n := range names {
		body, ok := found[n]
		if !ok {
			body = "[.other " + leanStr("function not found") + "]"
		}
		items = append(items, fmt.Sprintf("  { name := %s, body := %s }", leanStr(n), body))
	}
	return "[\n" + strings.Join(items, ",\n") + " ]", nil
}
