package main

import (
	"fmt"
	"go/ast"
	"go/parser"
	"go/token"
	"path/filepath"
)

func init() { register("Ws.lean", extractWs) }

var wsFuncs = []string{"webSocketClient.sendInit", "webSocketClient.sendStructAsJSON", "webSocketClient.waitForConnAck",
	"webSocketClient.handleErr", "webSocketClient.closing", "webSocketClient.listenWebSocket", "webSocketClient.forwardWebSocketData",
	"webSocketClient.receiveWebSocketConnAck", "webSocketClient.Start", "webSocketClient.Close", "webSocketClient.Subscribe",
	"webSocketClient.Unsubscribe", "webSocketClient.UnsubscribeAll"}
var subFuncs = []string{"subscriptionMap.Create", "subscriptionMap.Read", "subscriptionMap.Unsubscribe", "subscriptionMap.GetAllIDs", "subscriptionMap.Delete"}

func extractWs(repo string) (string, error) {
	a, err := skeletonsOf(repo, "graphql/websocket.go", wsFuncs)
	if err != nil {
		return "", err
	}
	b, err := skeletonsOf(repo, "graphql/subscription.go", subFuncs)
	if err != nil {
		return "", err
	}
	capN, err := errChanCap(repo)
	if err != nil {
		return "", err
	}
	return "-- regenerated from /repo/graphql/websocket.go and subscription.go by harness/cmd/extract on every run\n" +
		"import Genq.Model.Skel\nnamespace Genq.Extracted\nopen Genq.Skel\n" +
		"def wsSkeleton : List Fn := " + a + "\n\ndef subMapSkeleton : List Fn := " + b +
		"\n\n/-- capacity of the error channel created in NewClientUsingWebSocket -/\ndef errChanCap : Nat := " + capN + "\nend Genq.Extracted\n", nil
}

// errChanCap: the capacity argument of `errChan: make(chan error[, N])` in NewClientUsingWebSocket.
func errChanCap(repo string) (string, error) {
	fset := token.NewFileSet()
	f, err := parser.ParseFile(fset, filepath.Join(repo, "graphql/client.go"), nil, 0)
	if err != nil {
		return "", err
	}
	res := ""
	ast.Inspect(f, func(n ast.Node) bool {
		kv, ok := n.(*ast.KeyValueExpr)
		if !ok {
			return true
		}
		if id, ok := kv.Key.(*ast.Ident); !ok || id.Name != "errChan" {
			return true
		}
		ce, ok := kv.Value.(*ast.CallExpr)
		if !ok {
			return true
		}
		if fn, ok := ce.Fun.(*ast.Ident); !ok || fn.Name != "make" {
			return true
		}
		switch len(ce.Args) {
		case 1:
			res = "0"
		case 2:
			if bl, ok := ce.Args[1].(*ast.BasicLit); ok && bl.Kind == token.INT {
				res = bl.Value
			}
		}
		return true
	})
	if res == "" {
		return "", fmt.Errorf("errChan: make(chan error, N) not found in NewClientUsingWebSocket")
	}
	return res, nil
}
