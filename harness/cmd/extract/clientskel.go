package main

import (
	"path/filepath"
	"strings"
)

func init() { register("Client.lean", extractClient) }

// graphql/client.go (the HTTP client: C11 request encoding, C12 outcome classification) as effect skeletons, and
// generate/operation.go.tmpl (the generated helper and the subscription forwarder: C04, C12, C13, C14) as text
func extractClient(repo string) (string, error) {
	a, err := skeletonsOf(repo, "graphql/client.go", []string{"newClient", "client.MakeRequest", "client.createPostRequest", "client.createGetRequest"})
	if err != nil {
		return "", err
	}
	ls, err := templateLines(filepath.Join(repo, "generate", "operation.go.tmpl"))
	if err != nil {
		return "", err
	}
	var sb strings.Builder
	sb.WriteString("-- regenerated from /repo/graphql/client.go and /repo/generate/operation.go.tmpl by harness/cmd/extract on every run\n")
	sb.WriteString("import Genq.Model.Skel\nnamespace Genq.Extracted\nopen Genq.Skel\n")
	sb.WriteString("def httpClientSkeleton : List Fn := " + a + "\n\n")
	sb.WriteString("def operationTmpl : List String := [\n")
	for i, l := range ls {
		sb.WriteString("  " + leanStr(l))
		if i+1 < len(ls) {
			sb.WriteString(",")
		}
		sb.WriteString("\n")
	}
	sb.WriteString("]\nend Genq.Extracted\n")
	return sb.String(), nil
}
