package main

import "strings"

func init() { register("Conv.lean", extractConv) }

// the functions of package generate that the hand-written models transcribe, as effect skeletons: one definition
// per group, named after what the models call them
var convGroups = []struct {
	def   string
	file  string
	funcs []string
}{
	{"namingSkeleton", "generate/names.go", []string{"joinPrefixList", "typeNameParts", "nextPrefix", "makeTypeName", "makeLongTypeName", "Casing.enumValueName"}},
	{"typeMapSkeleton", "generate/convert.go", []string{"generator.getType", "generator.addType"}},
	{"selectionsMatchSkeleton", "generate/validation.go", []string{"selectionsMatch"}},
	{"convertTypeSkeleton", "generate/convert.go", []string{"generator.convertType", "generator.getStructReference", "possibleObjectTypes", "fragmentMatches"}},
	{"directiveMergeSkeleton", "generate/genqlient_directive.go", []string{"genqlientDirective.mergeOperationDirective", "fillDefaultBool", "fillDefaultString"}},
	{"documentSkeleton", "generate/generate.go", []string{"generator.usedFragments", "generator.preprocessQueryDocument", "generator.addOperation"}},
	{"parseSkeleton", "generate/parse.go", []string{"getAndValidateQueries", "getQueries", "getQueriesFromString", "getQueriesFromGo"}},
	{"errorsSkeleton", "generate/errors.go", []string{"errorPos.String", "splitFilename", "genqlientError.Error", "errorf"}},
	{"importsSkeleton", "generate/imports.go", []string{"generator.addImportFor", "generator.ref"}},
	{"casingSkeleton", "generate/config.go", []string{"Casing.validate", "Casing.forEnum"}},
}

func extractConv(repo string) (string, error) {
	var sb strings.Builder
	sb.WriteString("-- regenerated from /repo/generate/*.go by harness/cmd/extract on every run\n")
	sb.WriteString("import Genq.Model.Skel\nnamespace Genq.Extracted\nopen Genq.Skel\n")
	for _, g := range convGroups {
		a, err := skeletonsOf(repo, g.file, g.funcs)
		if err != nil {
			return "", err
		}
		sb.WriteString("def " + g.def + " : List Fn := " + a + "\n\n")
	}
	sb.WriteString("end Genq.Extracted\n")
	return sb.String(), nil
}
