// extract: Tie B translator. Reads /repo's Go sources with go/parser (it does not import
// them) and regenerates lean/Genq/Extracted/*.lean. A file is rewritten only when its
// content changes, so unchanged sources trigger no Lean rebuild.
package main

import (
	"flag"
	"fmt"
	"os"
	"path/filepath"
	"sort"
)

type extractor func(repo string) (string, error)

var extractors = map[string]extractor{}

func register(file string, f extractor) { extractors[file] = f }

func main() {
	repo := flag.String("repo", "/repo", "repository root")
	out := flag.String("out", "", "output dir (lean/Genq/Extracted)")
	flag.Parse()
	if *out == "" {
		fmt.Fprintln(os.Stderr, "extract: -out required")
		os.Exit(2)
	}
	os.MkdirAll(*out, 0o755)
	names := []string{}
	for n := range extractors {
		names = append(names, n)
	}
	sort.Strings(names)
	failed := false
	for _, n := range names {
		src, err := extractors[n](*repo)
		if err != nil {
			// fail closed: the Lean file then contains an `unknown` marker no model term equals
			fmt.Fprintf(os.Stderr, "extract: %s: %v\n", n, err)
			src = fmt.Sprintf("-- extraction failed: %v\nnamespace Genq.Extracted\ndef %sExtractionFailed : Bool := true\nend Genq.Extracted\n", err, n[:len(n)-5])
			failed = true
		}
		p := filepath.Join(*out, n)
		old, _ := os.ReadFile(p)
		if string(old) != src {
			if err := os.WriteFile(p, []byte(src), 0o644); err != nil {
				fmt.Fprintln(os.Stderr, "extract:", err)
				os.Exit(2)
			}
		}
	}
	_ = failed
}
