package main

import (
	"bytes"
	"fmt"
	"go/ast"
	"go/parser"
	"go/printer"
	"go/token"
	"os"
	"path/filepath"
	"sort"
	"strings"
)

func init() { register("Main.lean", extractMain) }

func src(fset *token.FileSet, n ast.Node) string {
	var b bytes.Buffer
	printer.Fprint(&b, fset, n)
	return strings.Join(strings.Fields(b.String()), " ")
}

func leanStr(s string) string { return fmt.Sprintf("%q", s) }

var writeFns = map[string]bool{"WriteFile": true, "Create": true, "OpenFile": true, "MkdirAll": true, "Mkdir": true,
	"Remove": true, "RemoveAll": true, "Rename": true, "Truncate": true, "Chmod": true, "Chtimes": true, "Symlink": true,
	"Link": true, "CreateTemp": true, "MkdirTemp": true, "Chown": true}

func extractMain(repo string) (string, error) {
	fset := token.NewFileSet()
	dir := filepath.Join(repo, "generate")
	ents, err := os.ReadDir(dir)
	if err != nil {
		return "", err
	}
	var target *ast.FuncDecl
	effFns := map[string]bool{}
	for _, e := range ents {
		n := e.Name()
		if !strings.HasSuffix(n, ".go") || strings.HasSuffix(n, "_test.go") {
			continue
		}
		f, err := parser.ParseFile(fset, filepath.Join(dir, n), nil, 0)
		if err != nil {
			return "", err
		}
		for _, d := range f.Decls {
			fd, ok := d.(*ast.FuncDecl)
			if !ok || fd.Body == nil {
				continue
			}
			if fd.Name.Name == "readConfigGenerateAndWrite" && fd.Recv == nil {
				target = fd
			}
			ast.Inspect(fd.Body, func(x ast.Node) bool {
				if ce, ok := x.(*ast.CallExpr); ok {
					if se, ok := ce.Fun.(*ast.SelectorExpr); ok {
						if id, ok := se.X.(*ast.Ident); ok && (id.Name == "os" || id.Name == "ioutil") && writeFns[se.Sel.Name] {
							name := fd.Name.Name
							if fd.Recv != nil {
								name = "(method)." + name
							}
							effFns[name] = true
						}
					}
				}
				return true
			})
		}
	}
	if target == nil {
		return "", fmt.Errorf("readConfigGenerateAndWrite not found")
	}
	var sb strings.Builder
	sb.WriteString("-- regenerated from /repo/generate/main.go by harness/cmd/extract on every run\n")
	sb.WriteString("import Genq.Model.Main\nnamespace Genq.Extracted\nopen Genq.Main\n")
	sb.WriteString("def mainSkeleton : List Stmt := " + stmtList(fset, target.Body.List, "  ") + "\n")
	names := []string{}
	for n := range effFns {
		names = append(names, n)
	}
	sort.Strings(names)
	q := []string{}
	for _, n := range names {
		q = append(q, leanStr(n))
	}
	sb.WriteString("def writeEffectFns : List String := [" + strings.Join(q, ", ") + "]\n")
	sb.WriteString("end Genq.Extracted\n")
	return sb.String(), nil
}

func stmtList(fset *token.FileSet, l []ast.Stmt, ind string) string {
	var items []string
	for _, s := range l {
		items = append(items, mainStmts(fset, s, ind+"  ")...)
	}
	if len(items) == 0 {
		return "[]"
	}
	return "[\n" + ind + "  " + strings.Join(items, ",\n"+ind+"  ") + " ]"
}

func isErrNotNil(e ast.Expr) bool {
	be, ok := e.(*ast.BinaryExpr)
	if !ok || be.Op != token.NEQ {
		return false
	}
	x, ok1 := be.X.(*ast.Ident)
	y, ok2 := be.Y.(*ast.Ident)
	return ok1 && ok2 && x.Name == "err" && y.Name == "nil"
}

func classifyCall(fset *token.FileSet, ce *ast.CallExpr) string {
	t := src(fset, ce)
	switch {
	case t == "ReadAndValidateConfig(configFilename)":
		return ".call .readConfig"
	case t == "ReadAndValidateConfigFromDefaultLocations()":
		return ".call .readConfigDefault"
	case t == "Generate(config)":
		return ".call .generate"
	case t == "os.MkdirAll(filepath.Dir(filename), 0o755)":
		return ".call .mkdirAll"
	case t == "os.WriteFile(filename, content, 0o644)":
		return ".call .writeFile"
	}
	return ".call (.other " + leanStr(t) + ")"
}

func mainStmts(fset *token.FileSet, s ast.Stmt, ind string) []string {
	switch s := s.(type) {
	case *ast.DeclStmt:
		// `var config *Config`, `var err error`: no effect
		if gd, ok := s.Decl.(*ast.GenDecl); ok && gd.Tok == token.VAR {
			for _, sp := range gd.Specs {
				if vs, ok := sp.(*ast.ValueSpec); !ok || len(vs.Values) != 0 {
					return []string{".unknown " + leanStr(src(fset, s))}
				}
			}
			return nil
		}
	case *ast.AssignStmt:
		if len(s.Rhs) == 1 {
			if ce, ok := s.Rhs[0].(*ast.CallExpr); ok {
				// the error result must land in `err`
				last, ok := s.Lhs[len(s.Lhs)-1].(*ast.Ident)
				if ok && last.Name == "err" {
					return []string{classifyCall(fset, ce)}
				}
			}
		}
	case *ast.IfStmt:
		if s.Init == nil && isErrNotNil(s.Cond) && s.Else == nil && len(s.Body.List) == 1 {
			if rs, ok := s.Body.List[0].(*ast.ReturnStmt); ok && len(rs.Results) == 1 {
				if id, ok := rs.Results[0].(*ast.Ident); !ok || id.Name != "nil" {
					return []string{".ifErrReturn"}
				}
			}
		}
		if s.Init == nil && !isErrNotNil(s.Cond) {
			var els []ast.Stmt
			if s.Else != nil {
				if b, ok := s.Else.(*ast.BlockStmt); ok {
					els = b.List
				} else {
					return []string{".unknown " + leanStr(src(fset, s))}
				}
			}
			return []string{".ifElse " + leanStr(src(fset, s.Cond)) + "\n" + ind + "  " + stmtList(fset, s.Body.List, ind+"  ") + "\n" + ind + "  " + stmtList(fset, els, ind+"  ")}
		}
	case *ast.RangeStmt:
		k, ok1 := s.Key.(*ast.Ident)
		v, ok2 := s.Value.(*ast.Ident)
		x, ok3 := s.X.(*ast.Ident)
		if ok1 && ok2 && ok3 && k.Name == "filename" && v.Name == "content" && x.Name == "generated" {
			return []string{".rangeGenerated " + stmtList(fset, s.Body.List, ind)}
		}
	case *ast.ReturnStmt:
		if len(s.Results) == 1 {
			if id, ok := s.Results[0].(*ast.Ident); ok && id.Name == "nil" {
				return []string{".retNil"}
			}
		}
	}
	return []string{".unknown " + leanStr(src(fset, s))}
}
