// gprog-demo is the acceptance test of the random program generator G_prog
// (internal/gen): it generates N programs, validates each independently with
// gqlparser, runs the real genqlient generator on it in-process, and batch
// compiles a sample of the accepted outputs.
package main

import (
	"bytes"
	"encoding/json"
	"flag"
	"fmt"
	"os"
	"os/exec"
	"path/filepath"
	"regexp"
	"sort"
	"strings"

	"github.com/Khan/genqlient/generate"
	"github.com/vektah/gqlparser/v2"
	"github.com/vektah/gqlparser/v2/ast"

	"verifharness/internal/gen"
)

type result struct {
	seed      uint64
	prog      *gen.Program
	gqlErr    string
	genErr    string
	panicked  string
	generated []byte
}

func toGenerateConfig(p *gen.Program, dir string, schemaFiles []string, opsFile string) *generate.Config {
	c := p.Config
	cfg := &generate.Config{
		Schema:              schemaFiles,
		Operations:          []string{opsFile},
		Generated:           filepath.Join(dir, "generated.go"),
		Package:             "gen",
		ContextType:         c.ContextType,
		ClientGetter:        c.ClientGetter,
		Optional:            c.Optional,
		OptionalGenericType: c.OptionalGenericType,
		StructReferences:    c.StructReferences,
		Extensions:          c.Extensions,
	}
	if cfg.ContextType == "" {
		cfg.ContextType = "context.Context"
	}
	if c.ExportOperations {
		cfg.ExportOperations = filepath.Join(dir, "operations.json")
	}
	cfg.Casing.Default = generate.CasingAlgorithm(c.CasingDefault)
	cfg.Casing.AllEnums = generate.CasingAlgorithm(c.CasingAllEnums)
	if len(c.CasingEnums) > 0 {
		cfg.Casing.Enums = map[string]generate.CasingAlgorithm{}
		for k, v := range c.CasingEnums {
			cfg.Casing.Enums[k] = generate.CasingAlgorithm(v)
		}
	}
	if len(c.Bindings) > 0 {
		cfg.Bindings = map[string]*generate.TypeBinding{}
		for k, v := range c.Bindings {
			cfg.Bindings[k] = &generate.TypeBinding{Type: v.Type, Marshaler: v.Marshaler, Unmarshaler: v.Unmarshaler}
		}
	}
	return cfg
}

func runGenqlient(cfg *generate.Config) (out map[string][]byte, err error, panicked string) {
	defer func() {
		if r := recover(); r != nil {
			panicked = fmt.Sprint(r)
		}
	}()
	out, err = generate.Generate(cfg)
	return out, err, ""
}

func validate(p *gen.Program) string {
	var srcs []*ast.Source
	for i, s := range p.Schema {
		srcs = append(srcs, &ast.Source{Name: fmt.Sprintf("schema%d.graphql", i), Input: s})
	}
	schema, err := gqlparser.LoadSchema(srcs...)
	if err != nil {
		return "schema: " + err.Error()
	}
	_, errs := gqlparser.LoadQuery(schema, p.OperationsText())
	if errs != nil {
		return "query: " + errs.Error()
	}
	return ""
}

var reNum = regexp.MustCompile(`[0-9]+`)
var rePath = regexp.MustCompile(`/[^ :]*/`)
var rePos = regexp.MustCompile(`^\S+\.graphql:[0-9]+: `)

func classify(msg string, n int) string {
	msg = rePath.ReplaceAllString(msg, "")
	msg = rePos.ReplaceAllString(msg, "")
	msg = strings.ReplaceAll(msg, "\n", " ")
	if len(msg) > n {
		msg = msg[:n]
	}
	return msg
}

var reOpt = regexp.MustCompile(`sup\.Option\[[^\]]*\]`)
var reLong = regexp.MustCompile(`\b[A-Za-z_][A-Za-z0-9_]{11,}\b`)
var reNew = regexp.MustCompile(`new\([^)]*\)`)

func normCompileErr(m string) string {
	m = reNum.ReplaceAllString(m, "N")
	m = reOpt.ReplaceAllString(m, "sup.Option[T]")
	m = reNew.ReplaceAllString(m, "new(T)")
	m = reLong.ReplaceAllStringFunc(m, func(w string) string {
		if strings.HasPrefix(w, "implementsGraphQL") {
			return "implementsGraphQLInterfaceT"
		}
		if strings.HasPrefix(w, "__premarshal") || strings.HasPrefix(w, "__marshal") || strings.HasPrefix(w, "__unmarshal") {
			return w[:strings.IndexAny(w[2:], "ABCDEFGHIJKLMNOPQRSTUVWXYZ")+2] + "T"
		}
		return "T"
	})
	return m
}

func histogram(title string, h map[string]int, example map[string]uint64) {
	fmt.Printf("%s\n", title)
	type kv struct {
		k string
		v int
	}
	var kvs []kv
	for k, v := range h {
		kvs = append(kvs, kv{k, v})
	}
	sort.Slice(kvs, func(i, j int) bool {
		if kvs[i].v != kvs[j].v {
			return kvs[i].v > kvs[j].v
		}
		return kvs[i].k < kvs[j].k
	})
	for _, e := range kvs {
		if example != nil {
			fmt.Printf("  %5d  %s   (e.g. seed %d)\n", e.v, e.k, example[e.k])
		} else {
			fmt.Printf("  %5d  %s\n", e.v, e.k)
		}
	}
	if len(kvs) == 0 {
		fmt.Printf("  (none)\n")
	}
}

// offlineEnv makes the go tool work without network, as the sandbox requires.
func offlineEnv() []string {
	env := os.Environ()
	for _, kv := range []string{"GOFLAGS=-mod=mod", "GOPROXY=off", "GOSUMDB=off", "GOTOOLCHAIN=local"} {
		if os.Getenv(kv[:strings.Index(kv, "=")]) == "" {
			env = append(env, kv)
		}
	}
	return env
}

// checkDir runs genqlient on a hand-written program (for minimal examples).
func checkDir(dir, harness string) {
	dir, _ = filepath.Abs(dir)
	p := &gen.Program{}
	if b, err := os.ReadFile(filepath.Join(dir, "config.json")); err == nil {
		if err := json.Unmarshal(b, &p.Config); err != nil {
			fmt.Println("config.json:", err)
			return
		}
	}
	sb, _ := os.ReadFile(filepath.Join(dir, "schema.graphql"))
	ob, _ := os.ReadFile(filepath.Join(dir, "operations.graphql"))
	p.Schema = []string{string(sb)}
	schema, err := gqlparser.LoadSchema(&ast.Source{Name: "schema.graphql", Input: string(sb)})
	if err != nil {
		fmt.Println("gqlparser schema:", err)
	} else if _, errs := gqlparser.LoadQuery(schema, string(ob)); errs != nil {
		fmt.Println("gqlparser query:", errs)
	} else {
		fmt.Println("gqlparser: valid")
	}
	cfg := toGenerateConfig(p, dir, []string{filepath.Join(dir, "schema.graphql")}, filepath.Join(dir, "operations.graphql"))
	out, err, pan := runGenqlient(cfg)
	switch {
	case pan != "":
		fmt.Println("genqlient PANIC:", pan)
		return
	case err != nil:
		fmt.Println("genqlient error:", err)
		return
	}
	fmt.Println("genqlient: accepted")
	tmp := filepath.Join(harness, "internal", "gprogtmp", "chk")
	os.MkdirAll(tmp, 0o755)
	defer os.RemoveAll(filepath.Join(harness, "internal", "gprogtmp"))
	os.WriteFile(filepath.Join(tmp, "generated.go"), out[cfg.Generated], 0o644)
	os.WriteFile(filepath.Join(dir, "generated.go.txt"), out[cfg.Generated], 0o644)
	cmd := exec.Command("go", "build", "./internal/gprogtmp/chk")
	cmd.Dir = harness
	cmd.Env = offlineEnv()
	b, err := cmd.CombinedOutput()
	if err != nil {
		fmt.Printf("go build FAILED:\n%s", b)
	} else {
		fmt.Println("go build: ok")
	}
}

func main() {
	n := flag.Int("n", 300, "number of seeds")
	seed0 := flag.Uint64("seed", 1, "first seed")
	adv := flag.Bool("adversarial", false, "Options.Adversarial")
	noDir := flag.Bool("nodirectives", false, "Options.NoDirectives")
	plain := flag.Bool("plainconfig", false, "Options.PlainConfig")
	safe := flag.Bool("safe", false, "switch every deliberately risky construct off")
	sample := flag.Int("sample", 100, "how many accepted programs to compile")
	harness := flag.String("harness", "/verif/harness", "harness module root (for the batch build)")
	scratch := flag.String("scratch", "/tmp/gprog-scratch", "scratch directory")
	dump := flag.Int64("dump", -1, "print the program of this seed and exit")
	keep := flag.Bool("keep", false, "keep scratch dir and gprogtmp")
	check := flag.String("check", "", "directory with schema.graphql, operations.graphql and optional config.json (a gen.Config): run genqlient on it, compile the output, and exit")
	flag.Parse()

	if *check != "" {
		checkDir(*check, *harness)
		return
	}

	opts := gen.Options{Adversarial: *adv, NoDirectives: *noDir, PlainConfig: *plain}
	if *safe {
		opts.RateNoTypeCond, opts.RateIfaceIface, opts.RateGenericAbstract = -1, -1, -1
		opts.RateSubGetter, opts.RateBacktick, opts.RateInvalidDir, opts.RateVarShadow = -1, -1, -1, -1
	}

	if *dump >= 0 {
		p := gen.GenerateSeed(uint64(*dump), opts)
		fmt.Printf("### config\n%+v\n", p.Config)
		for i, s := range p.Schema {
			fmt.Printf("### schema %d\n%s", i, s)
		}
		fmt.Printf("### operations\n%s", p.OperationsText())
		fmt.Printf("### features\n")
		for _, k := range p.FeatureNames() {
			fmt.Printf("  %s=%d\n", k, p.Features[k])
		}
		fmt.Printf("### gqlparser: %q\n", validate(p))
		return
	}

	if err := os.MkdirAll(*scratch, 0o755); err != nil {
		panic(err)
	}
	var results []*result
	featProgs := map[string]int{}
	featTotal := map[string]int{}
	for i := 0; i < *n; i++ {
		seed := *seed0 + uint64(i)
		p := gen.GenerateSeed(seed, opts)
		// determinism check
		if q := gen.GenerateSeed(seed, opts); q.OperationsText() != p.OperationsText() || q.SchemaText() != p.SchemaText() || fmt.Sprint(q.Config) != fmt.Sprint(p.Config) {
			fmt.Printf("NONDETERMINISTIC seed %d\n", seed)
		}
		res := &result{seed: seed, prog: p}
		results = append(results, res)
		for k, v := range p.Features {
			featProgs[k]++
			featTotal[k] += v
		}
		res.gqlErr = validate(p)

		dir := filepath.Join(*scratch, fmt.Sprintf("s%d", seed))
		os.MkdirAll(dir, 0o755)
		var schemaFiles []string
		for j, s := range p.Schema {
			f := filepath.Join(dir, fmt.Sprintf("schema%d.graphql", j))
			os.WriteFile(f, []byte(s), 0o644)
			schemaFiles = append(schemaFiles, f)
		}
		opsFile := filepath.Join(dir, "operations.graphql")
		os.WriteFile(opsFile, []byte(p.OperationsText()), 0o644)
		cfg := toGenerateConfig(p, dir, schemaFiles, opsFile)
		out, err, pan := runGenqlient(cfg)
		if pan != "" {
			res.panicked = pan
		} else if err != nil {
			res.genErr = err.Error()
		} else {
			res.generated = out[cfg.Generated]
		}
	}

	// ---- report ----
	nValid, nAccepted := 0, 0
	gqlH, rejH, panH := map[string]int{}, map[string]int{}, map[string]int{}
	gqlEx, rejEx, panEx := map[string]uint64{}, map[string]uint64{}, map[string]uint64{}
	rejDeliberate := 0
	for _, r := range results {
		if r.gqlErr == "" {
			nValid++
		} else {
			k := classify(r.gqlErr, 100)
			gqlH[k]++
			if _, ok := gqlEx[k]; !ok {
				gqlEx[k] = r.seed
			}
		}
		switch {
		case r.panicked != "":
			k := classify(r.panicked, 80)
			panH[k]++
			if _, ok := panEx[k]; !ok {
				panEx[k] = r.seed
			}
		case r.genErr != "":
			k := classify(r.genErr, 80)
			if r.prog.Features["dir:invalid"] > 0 {
				k = "[deliberate dir:invalid] " + k
				rejDeliberate++
			}
			rejH[k]++
			if _, ok := rejEx[k]; !ok {
				rejEx[k] = r.seed
			}
		default:
			nAccepted++
		}
	}
	fmt.Printf("programs: %d   options: %+v\n", len(results), opts)
	fmt.Printf("gqlparser-valid: %d/%d (%.1f%%)\n", nValid, len(results), 100*float64(nValid)/float64(len(results)))
	fmt.Printf("genqlient accepted: %d/%d (%.1f%%)   [rejections that are deliberate invalid directives: %d]\n",
		nAccepted, len(results), 100*float64(nAccepted)/float64(len(results)), rejDeliberate)
	histogram("gqlparser errors:", gqlH, gqlEx)
	histogram("genqlient rejections:", rejH, rejEx)
	histogram("genqlient panics:", panH, panEx)

	fmt.Printf("features (programs having it / %d, total count):\n", len(results))
	var fk []string
	for k := range featProgs {
		fk = append(fk, k)
	}
	sort.Strings(fk)
	for _, k := range fk {
		fmt.Printf("  %-34s %5d  %5.1f%%  total %d\n", k, featProgs[k], 100*float64(featProgs[k])/float64(len(results)), featTotal[k])
	}

	// ---- batch compile ----
	tmpRoot := filepath.Join(*harness, "internal", "gprogtmp")
	os.RemoveAll(tmpRoot)
	count := 0
	pkgSeed := map[string]uint64{}
	stride := 1
	if *sample > 0 && nAccepted > *sample {
		stride = (nAccepted + *sample - 1) / *sample
	}
	accIdx := 0
	for _, r := range results {
		if r.generated == nil {
			continue
		}
		accIdx++
		if (accIdx-1)%stride != 0 || count >= *sample {
			continue
		}
		pk := fmt.Sprintf("p%03d", count)
		d := filepath.Join(tmpRoot, pk)
		os.MkdirAll(d, 0o755)
		os.WriteFile(filepath.Join(d, "generated.go"), r.generated, 0o644)
		pkgSeed[pk] = r.seed
		count++
	}
	if count > 0 {
		cmd := exec.Command("go", "build", "./internal/gprogtmp/...")
		cmd.Dir = *harness
		cmd.Env = offlineEnv()
		var buf bytes.Buffer
		cmd.Stdout, cmd.Stderr = &buf, &buf
		err := cmd.Run()
		failed := map[string]bool{}
		errH := map[string]int{}
		errEx := map[string]uint64{}
		reLine := regexp.MustCompile(`^internal/gprogtmp/(p[0-9]+)/generated\.go:[0-9]+:[0-9]+: (.*)$`)
		rePkg := regexp.MustCompile(`^# verifharness/internal/gprogtmp/(p[0-9]+)`)
		seenPerPkg := map[string]bool{}
		for _, line := range strings.Split(buf.String(), "\n") {
			if m := rePkg.FindStringSubmatch(line); m != nil {
				failed[m[1]] = true
				continue
			}
			if m := reLine.FindStringSubmatch(line); m != nil {
				failed[m[1]] = true
				k := classify(normCompileErr(m[2]), 110)
				if seenPerPkg[m[1]+"|"+k] {
					continue
				}
				seenPerPkg[m[1]+"|"+k] = true
				errH[k]++
				if _, ok := errEx[k]; !ok {
					errEx[k] = pkgSeed[m[1]]
				}
			}
		}
		if err != nil && len(failed) == 0 {
			fmt.Printf("go build failed without attributable errors:\n%s\n", buf.String())
		}
		fmt.Printf("compiled: %d/%d packages ok (%.1f%%)\n", count-len(failed), count, 100*float64(count-len(failed))/float64(count))
		var fs []string
		for pk := range failed {
			fs = append(fs, fmt.Sprintf("%s=seed%d", pk, pkgSeed[pk]))
		}
		sort.Strings(fs)
		if len(fs) > 0 {
			fmt.Printf("failed packages: %s\n", strings.Join(fs, " "))
		}
		histogram("distinct compile errors (packages having it):", errH, errEx)
	}
	if !*keep {
		os.RemoveAll(tmpRoot)
		os.RemoveAll(*scratch)
	}
}
