// Package proto: line protocol to the Lean driver, PRNG, result records.
package proto

import (
	"bufio"
	"encoding/hex"
	"encoding/json"
	"fmt"
	"io"
	"os"
	"os/exec"
	"sort"
	"time"
)

// ---------- PRNG (splitmix64); every random choice in a run derives from one seed ----------

type Rng struct{ s uint64 }

func NewRng(seed uint64, stream string, n uint64) *Rng {
	h := seed ^ 0x9e3779b97f4a7c15
	for _, c := range []byte(stream) {
		h = (h ^ uint64(c)) * 0x100000001b3
	}
	r := &Rng{s: h ^ (n * 0xbf58476d1ce4e5b9)}
	r.Next()
	return r
}
func (r *Rng) Next() uint64 {
	r.s += 0x9e3779b97f4a7c15
	z := r.s
	z = (z ^ (z >> 30)) * 0xbf58476d1ce4e5b9
	z = (z ^ (z >> 27)) * 0x94d049bb133111eb
	return z ^ (z >> 31)
}
func (r *Rng) Intn(n int) int {
	if n <= 0 {
		return 0
	}
	return int(r.Next() % uint64(n))
}
func (r *Rng) Bool() bool          { return r.Next()&1 == 1 }
func (r *Rng) Chance(num, den int) bool { return r.Intn(den) < num }
func Pick[T any](r *Rng, xs []T) T { return xs[r.Intn(len(xs))] }

// ---------- driver ----------

type Driver struct {
	cmd   *exec.Cmd
	in    io.WriteCloser
	out   *bufio.Reader
	Calls int
}

func StartDriver(path string) (*Driver, error) {
	cmd := exec.Command(path)
	in, err := cmd.StdinPipe()
	if err != nil {
		return nil, err
	}
	out, err := cmd.StdoutPipe()
	if err != nil {
		return nil, err
	}
	cmd.Stderr = os.Stderr
	if err := cmd.Start(); err != nil {
		return nil, err
	}
	return &Driver{cmd: cmd, in: in, out: bufio.NewReaderSize(out, 1<<20)}, nil
}

// Call sends one request and returns the decoded reply object.
func (d *Driver) Call(req map[string]any) (map[string]any, error) {
	b, err := json.Marshal(req)
	if err != nil {
		return nil, err
	}
	d.Calls++
	if _, err := d.in.Write(append(b, '\n')); err != nil {
		return nil, err
	}
	line, err := d.out.ReadBytes('\n')
	if err != nil {
		return nil, fmt.Errorf("driver read: %w", err)
	}
	var m map[string]any
	dec := json.NewDecoder(bytesReader(line))
	dec.UseNumber()
	if err := dec.Decode(&m); err != nil {
		return nil, fmt.Errorf("driver reply %q: %w", line, err)
	}
	if e, ok := m["error"]; ok {
		return m, fmt.Errorf("driver error: %v (req %s)", e, trunc(string(b), 300))
	}
	return m, nil
}

func (d *Driver) Close() {
	d.in.Close()
	done := make(chan struct{})
	go func() { d.cmd.Wait(); close(done) }()
	select {
	case <-done:
	case <-time.After(2 * time.Second):
		d.cmd.Process.Kill()
	}
}

type br struct {
	b []byte
	i int
}

func (r *br) Read(p []byte) (int, error) {
	if r.i >= len(r.b) {
		return 0, io.EOF
	}
	n := copy(p, r.b[r.i:])
	r.i += n
	return n, nil
}
func bytesReader(b []byte) io.Reader { return &br{b: b} }

func trunc(s string, n int) string {
	if len(s) > n {
		return s[:n] + "…"
	}
	return s
}

func Hex(b []byte) string { return hex.EncodeToString(b) }
func UnHex(s string) []byte {
	b, _ := hex.DecodeString(s)
	return b
}

// ---------- results ----------

// Finding is one candidate violation or correspondence mismatch.
type Finding struct {
	Kind   string `json:"kind"`   // "violation" | "mismatch" | "known"
	Class  string `json:"class"`  // failure-signature class (matched against known_findings.json)
	What   string `json:"what"`   // one line, human readable
	Case   any    `json:"case"`   // fully expanded input (replayable)
	Impl   any    `json:"impl,omitempty"`
	Model  any    `json:"model,omitempty"`
}

type Result struct {
	Property     string         `json:"property"`
	Tier         string         `json:"tier"`
	Seed         uint64         `json:"seed"`
	Evaluations  int            `json:"evaluations"`
	Distinct     int            `json:"distinct_nontrivial"`
	Rule         string         `json:"rule"`
	Samples      []any          `json:"samples"`
	Distribution map[string]int `json:"distribution"`
	ModelCalls   int            `json:"model_calls"`
	Findings     []Finding      `json:"findings"`
	Notes        []string       `json:"notes,omitempty"`
	Exhaustive   bool           `json:"exhaustive,omitempty"`

	distinct map[string]bool
}

func NewResult(prop, tier string, seed uint64, rule string) *Result {
	return &Result{Property: prop, Tier: tier, Seed: seed, Rule: rule,
		Distribution: map[string]int{}, distinct: map[string]bool{}, Samples: []any{}, Findings: []Finding{}}
}

func (r *Result) Count(key string)            { r.Distribution[key]++ }
func (r *Result) Eval()                        { r.Evaluations++ }
func (r *Result) NonTrivial(canonicalKey string) {
	if !r.distinct[canonicalKey] {
		r.distinct[canonicalKey] = true
		r.Distinct++
	}
}
func (r *Result) Sample(x any) {
	if len(r.Samples) < 5 {
		r.Samples = append(r.Samples, x)
	}
}
func (r *Result) Add(f Finding) {
	// keep at most 20 findings per class to bound output
	n := 0
	for _, g := range r.Findings {
		if g.Class == f.Class && g.Kind == f.Kind {
			n++
		}
	}
	if n < 20 {
		r.Findings = append(r.Findings, f)
	}
	r.Count("finding:" + f.Kind + ":" + f.Class)
}

func (r *Result) Write(path string) error {
	keys := make([]string, 0, len(r.Distribution))
	for k := range r.Distribution {
		keys = append(keys, k)
	}
	sort.Strings(keys)
	b, err := json.MarshalIndent(r, "", " ")
	if err != nil {
		return err
	}
	return os.WriteFile(path, b, 0o644)
}
