// Package gen holds the PRNG-seeded generators of the verification harness.
// This file is the public API of G_prog, the type-directed,
// valid-by-construction random *program* generator: a program is GraphQL
// schema text + named operations and fragments + genqlient configuration +
// `# @genqlient(...)` comment directives.
package gen

import (
	"sort"
	"strings"

	"verifharness/internal/proto"
)

// SupPkg is the import path of the support package generated code binds to.
const SupPkg = "verifharness/sup"

// Def is one operation or fragment definition.
type Def struct {
	Kind string // "query" | "mutation" | "subscription" | "fragment"
	Name string
	// Comment is the comment block that precedes the definition: zero or more
	// lines each starting with "#", incl. any "# @genqlient(...)" line(s); ""
	// if none; each line ends with "\n".
	Comment string
	// Text is the definition itself, starting at the keyword, multi-line,
	// ending with "}\n".  Every selection and every variable definition is on
	// its own line; a "# @genqlient(...)" line that applies to a field or
	// variable is on the line directly above it.
	Text string
	// Uses lists the names of fragments spread directly inside this definition.
	Uses []string
}

// Binding mirrors generate.TypeBinding.
type Binding struct{ Type, Marshaler, Unmarshaler string }

// Config mirrors the generate.Config fields that affect output.
type Config struct {
	Optional                      string // "" | "value" | "pointer" | "generic"
	OptionalGenericType           string // SupPkg+".Option" when Optional=="generic"
	StructReferences              bool
	Extensions                    bool
	ContextType                   string // "" (=> context.Context) | "-" | SupPkg+".MyContext"
	ClientGetter                  string // "" | SupPkg+".GetClient" | ".GetClientNoCtx" | ".GetClientMyCtx" (matches ContextType)
	CasingDefault, CasingAllEnums string // "" | "default" | "raw" | "auto_camel_case"
	CasingEnums                   map[string]string
	Bindings                      map[string]Binding // GraphQL scalar (or type) name -> binding
	ExportOperations              bool
}

// Program is one generated program.
type Program struct {
	Seed uint64
	// Schema holds one or more schema documents; the first holds `type Query`;
	// later ones (probability ~1/5) use `extend type` / `extend union` etc.
	Schema []string
	// Defs are the operations and fragments; fragments may appear before or
	// after their users.
	Defs   []Def
	Config Config
	// Features counts what was generated, e.g. "interface", "union",
	// "inlineFragment", "dir:flatten", "literal:null" ...
	Features map[string]int
}

// Options steer Generate.  The zero value gives the defaults.
type Options struct {
	MaxTypes, MaxOps, MaxFrags, MaxDepth int // 0 => defaults (10 types, 4 ops, 4 frags, selection depth 4); MaxFrags < 0 => no fragments

	Adversarial  bool // use the adversarial name pools with higher probability
	NoDirectives bool // never emit @genqlient comment directives
	PlainConfig  bool // default config only

	// Subscriptions are allowed by default (also with the zero Options);
	// set NoSubscriptions to forbid them.  Subscriptions==true overrides
	// NoSubscriptions.
	Subscriptions   bool
	NoSubscriptions bool

	// Rates of deliberately risky constructs which the present genqlient is
	// known (or suspected) to mishandle.  0 => the default rate given below,
	// <0 => never, n>0 => in about 1 of n programs.
	RateNoTypeCond      int // inline fragment without type condition (panics genqlient); default 30
	RateIfaceIface      int // interface implementing an interface (rejected); default 8
	RateGenericAbstract int // with optional:generic, leave abstract / custom-marshaled types nullable (does not compile); default 16; otherwise such types are made non-null
	RateSubGetter       int // subscription together with client_getter (does not compile); default 30; otherwise no subscription when a getter is configured
	RateBacktick        int // backtick inside a string literal (breaks the generated raw string); default 40
	RateInvalidDir      int // one deliberately invalid @genqlient placement; default 40
	RateVarShadow       int // (Adversarial only) a variable named like an imported package; default 10
	RateFragKeyTwin     int // a fragment named exactly like a (lower-case) field of its type, e.g. `fragment id on User { id … }`: the spread's Go type name equals a sibling response key; default 20 (per fragment)
	RateInnerCaseTwin   int // a member name that differs from another member of the same type only in the case of a non-first letter (userId / userID); default 40 (per member drawn)
}

// DefaultOptions returns the defaults, spelled out.
func DefaultOptions() Options {
	return Options{MaxTypes: 10, MaxOps: 4, MaxFrags: 4, MaxDepth: 4, Subscriptions: true}
}

func (o Options) withDefaults() Options {
	if o.MaxTypes <= 0 {
		o.MaxTypes = 10
	}
	if o.MaxOps <= 0 {
		o.MaxOps = 4
	}
	if o.MaxFrags < 0 {
		o.MaxFrags = 0
	} else if o.MaxFrags == 0 {
		o.MaxFrags = 4
	}
	if o.MaxDepth <= 0 {
		o.MaxDepth = 4
	}
	if !o.NoSubscriptions {
		o.Subscriptions = true
	}
	def := func(p *int, d int) {
		if *p == 0 {
			*p = d
		}
	}
	def(&o.RateNoTypeCond, 30)
	def(&o.RateIfaceIface, 8)
	def(&o.RateGenericAbstract, 16)
	def(&o.RateSubGetter, 30)
	def(&o.RateBacktick, 40)
	def(&o.RateInvalidDir, 40)
	def(&o.RateVarShadow, 10)
	def(&o.RateInnerCaseTwin, 40)
	def(&o.RateFragKeyTwin, 20)
	return o
}

// Generate makes one program.  The same (state of r, o) always gives the
// same Program.
func Generate(r *proto.Rng, o Options) *Program {
	g := newPG(r, o.withDefaults())
	g.run()
	return g.p
}

// GenerateSeed is Generate with the generator's own stream of the given
// seed; it also records the seed in the Program.
func GenerateSeed(seed uint64, o Options) *Program {
	p := Generate(proto.NewRng(seed, "gprog", 0), o)
	p.Seed = seed
	return p
}

// OperationsText returns all Defs concatenated (Comment+Text, blank line
// between): the single-.graphql-file layout.
func (p *Program) OperationsText() string {
	var b strings.Builder
	for i, d := range p.Defs {
		if i > 0 {
			b.WriteString("\n")
		}
		b.WriteString(d.Comment)
		b.WriteString(d.Text)
	}
	return b.String()
}

// SchemaText returns the schema documents joined.
func (p *Program) SchemaText() string { return strings.Join(p.Schema, "\n") }

// FeatureNames returns the feature keys in sorted order.
func (p *Program) FeatureNames() []string {
	ks := make([]string, 0, len(p.Features))
	for k := range p.Features {
		ks = append(ks, k)
	}
	sort.Strings(ks)
	return ks
}
