package gen

import (
	"sort"
	"strings"
	"unicode"

	"verifharness/internal/proto"
)

// ---------- pools ----------

var (
	poolObject = []string{"User", "Account", "Post", "Comment", "Team", "Project", "Order", "Item", "Product",
		"Review", "Tag", "Message", "Channel", "Event", "Ticket", "Invoice", "Device", "Session", "Profile",
		"Group", "Page", "Image", "Video", "Article", "Topic", "Book", "Author", "Shop", "Cart", "Folder",
		"Playlist", "Track", "Animal", "Planet", "Robot"}
	poolIface   = []string{"Node", "Entity", "Content", "Actor", "Resource", "Named", "Timestamped", "Searchable", "Owned", "Likeable", "Being"}
	poolUnion   = []string{"SearchResult", "FeedEntry", "Media", "Subject", "Target", "Attachment", "Hit", "Anything"}
	poolEnum    = []string{"Role", "Status", "Color", "Priority", "Visibility", "Direction", "Unit", "Level", "Mood", "Species", "SortOrder"}
	poolEnumVal = []string{"ACTIVE", "INACTIVE", "PENDING", "ADMIN", "MEMBER", "OWNER", "RED", "GREEN", "BLUE", "LOW",
		"HIGH", "MEDIUM", "ASC", "DESC", "VERY_HIGH", "NOT_SET", "IN_PROGRESS", "DONE", "UNKNOWN", "NORTH",
		"SOUTH", "PUBLIC", "PRIVATE", "DRAFT", "ARCHIVED_V2", "Mixed_Case", "lower", "camelCase", "X"}
	poolInput = []string{"UserFilter", "PageInput", "SortSpec", "NewUser", "UpdatePost", "DateRange", "SearchOptions",
		"Where", "Point", "Range", "Patch", "Criteria", "Params"}
	poolField = []string{"id", "name", "title", "body", "email", "age", "score", "count", "createdAt", "updatedAt",
		"url", "slug", "description", "active", "verified", "rating", "price", "quantity", "tags", "labels",
		"owner", "author", "parent", "children", "items", "members", "comments", "posts", "friends", "manager",
		"related", "first", "latest", "total", "weight", "height", "width", "notes", "code", "status", "role",
		"color", "kind", "level", "location", "avatar", "best", "pinned", "history", "nickname", "x", "y",
		"value", "key", "node", "edges", "cursor", "hasNext", "summary", "details", "previous", "next"}
	poolArg = []string{"first", "after", "limit", "offset", "filter", "where", "orderBy", "id", "ids", "query",
		"includeHidden", "since", "format", "size", "lang", "input", "max", "min", "only", "sort", "at", "n"}
	poolRootQ   = []string{"viewer", "me", "node", "search", "users", "user", "feed", "lookup", "random", "all", "find", "top", "recent", "byId", "list"}
	poolRootM   = []string{"create", "update", "delete", "add", "remove", "set", "publish", "rename", "upsert", "touch"}
	poolRootS   = []string{"onEvent", "changes", "ticks", "watch", "updates", "created", "stream"}
	poolOpVerbQ = []string{"Get", "List", "Find", "Fetch", "Load", "Search", "Show", "Read", "get", "list", "fetch", "load"}
	poolOpVerbM = []string{"Create", "Update", "Delete", "Add", "Remove", "Set", "Do", "Make", "create", "update", "doIt"}
	poolOpVerbS = []string{"Watch", "On", "Subscribe", "Follow", "watch", "on"}
	poolOpNoun  = []string{"Things", "Stuff", "Data", "Everything", "Details", "Overview", "Dashboard", "Home", "Summary", "Detail", "Bits", "It", "All", "Some", "More"}
	poolFragSuf = []string{"Parts", "Fields", "Frag", "Info", "Basics", "Core", "Piece", "Shape"}
	poolAliasPx = []string{"my", "other", "alt", "the", "second", "extra", "more", "same", "also"}
	poolAlias   = []string{"a", "b", "c", "it", "that", "thing", "primary", "secondary", "main", "result", "out", "res", "one", "two"}
	poolDesc    = []string{"A thing.", "The unique identifier.", "Multi-line\ndescription with \"quotes\".", "Deprecated-ish, do not use.", "See https://example.com/docs#x", "Très bien: ünïcödé ✓", "Has a `backtick`."}

	advSnake    = []string{"created_at", "user_id", "first_name", "last_seen_at", "is_admin", "blog_post", "line_item", "http_url", "x_y_z"}
	advUnder    = []string{"_id", "_internal", "_meta", "_rev", "_Private", "_x"}
	advDouble   = []string{"foo__bar", "ns__thing", "a__b", "my__Field", "x__"}
	advTypeSnk  = []string{"blog_post", "user_account", "line_item", "Order_Line", "api_key", "_Meta", "Ns__Thing", "xml_HTTP_doc"}
	advTypePfx  = []string{"Admin", "Super", "Sub", "Base", "Meta", "Box", "My"}
	advEnumVal  = []string{"type", "func", "default", "_UNDER", "A_B", "AB", "a_b", "Active", "active", "_x2", "go", "X_1", "x1"}
	advPkgNames = []string{"graphql", "json", "context", "sup", "fmt", "errors"}

	goKeywords = []string{"break", "default", "func", "interface", "select", "case", "defer", "go", "map", "struct",
		"chan", "else", "goto", "package", "switch", "const", "fallthrough", "if", "range", "type", "continue",
		"for", "import", "return", "var"}
)

var goKeywordSet = func() map[string]bool {
	m := map[string]bool{}
	for _, k := range goKeywords {
		m[k] = true
	}
	return m
}()

// names the generated helpers use for their own parameters and locals.
var helperIdents = map[string]bool{"ctx_": true, "client_": true, "data_": true, "err_": true, "req_": true,
	"resp_": true, "ext_": true, "dataChan_": true, "subscriptionID_": true}

// norm is the collision key: Go-export casing (upperFirst, leading
// underscores trimmed) and auto_camel_case both map names with equal norm to
// equal or confusable identifiers.
func norm(s string) string {
	return strings.ToLower(strings.ReplaceAll(s, "_", ""))
}

// bannedFieldNorm reports names whose Go field name would clash with a
// method or field genqlient itself generates on response structs.
func bannedFieldNorm(n string) bool {
	if n == "" || n == "typename" || n == "marshaljson" || n == "unmarshaljson" || n == "premarshaljson" || n == "nounmarshaljson" {
		return true
	}
	return strings.HasPrefix(n, "get") || strings.HasPrefix(n, "implementsgraphqlinterface")
}

type nameSet map[string]bool

func (s nameSet) has(n string) bool { return s[norm(n)] }
func (s nameSet) add(n string)      { s[norm(n)] = true }

func upperFirst(s string) string {
	s = strings.TrimLeft(s, "_")
	if s == "" {
		return s
	}
	r := []rune(s)
	r[0] = unicode.ToUpper(r[0])
	return string(r)
}

func lowerFirst(s string) string {
	if s == "" {
		return s
	}
	r := []rune(s)
	r[0] = unicode.ToLower(r[0])
	return string(r)
}

func flipFirst(s string) string {
	if s == "" {
		return s
	}
	r := []rune(s)
	if unicode.IsUpper(r[0]) {
		r[0] = unicode.ToLower(r[0])
	} else {
		r[0] = unicode.ToUpper(r[0])
	}
	return string(r)
}

// snakeOf turns camelCase into snake_case.
func snakeOf(s string) string {
	var b strings.Builder
	for i, c := range s {
		if unicode.IsUpper(c) && i > 0 {
			b.WriteByte('_')
		}
		b.WriteRune(unicode.ToLower(c))
	}
	return b.String()
}

// adv reports whether to draw the next name from an adversarial pool.
func (g *pg) adv() bool {
	if g.o.Adversarial {
		return g.r.Chance(1, 3)
	}
	return g.r.Chance(1, 14)
}

// uniq makes base unique w.r.t. ok().  It tries suffixes first, then
// prefixes (for predicates that forbid extending an existing name).
func (g *pg) uniq(base string, ok func(string) bool) string {
	if ok(base) {
		return base
	}
	for _, suf := range []string{"2", "B", "Alt", "X", "3", "Other", "Bis", "4", "5"} {
		if c := base + suf; ok(c) {
			return c
		}
	}
	for _, px := range []string{"Alt", "Other", "X", "Second", "Q"} {
		if c := px + upperFirst(base); ok(c) {
			return c
		}
	}
	for i := 6; ; i++ {
		if c := base + itoa(i); ok(c) {
			return c
		}
		if c := "Z" + itoa(i) + upperFirst(base); ok(c) {
			return c
		}
		if i > 10000 {
			panic("gen: cannot make name unique: " + base)
		}
	}
}

func itoa(i int) string {
	if i == 0 {
		return "0"
	}
	neg := i < 0
	if neg {
		i = -i
	}
	var b []byte
	for i > 0 {
		b = append([]byte{byte('0' + i%10)}, b...)
		i /= 10
	}
	if neg {
		b = append([]byte{'-'}, b...)
	}
	return string(b)
}

// typeName draws a globally unique GraphQL type name.
func (g *pg) typeName(pool []string) string {
	var base string
	switch {
	case g.adv():
		switch g.r.Intn(4) {
		case 0:
			base = proto.Pick(g.r, advTypeSnk)
			g.feat("name:snakeType")
		case 1: // suffix overlap with an existing type
			if len(g.s.order) > 0 {
				ex := proto.Pick(g.r, g.s.order)
				px := proto.Pick(g.r, advTypePfx)
				base = px + upperFirst(ex)
				g.overlaps = append(g.overlaps, overlap{prefix: px, base: ex, full: base})
				g.feat("name:suffixOverlap")
			} else {
				base = proto.Pick(g.r, pool)
			}
		case 2:
			base = proto.Pick(g.r, goKeywords)
			g.feat("name:keywordType")
		default:
			base = lowerFirst(proto.Pick(g.r, pool))
			g.feat("name:lowerType")
		}
	default:
		base = proto.Pick(g.r, pool)
	}
	ok := func(c string) bool {
		n := norm(c)
		return n != "" && !g.typeNorms[n] && !g.topNorms[n] && !strings.HasPrefix(c, "__") && !g.enumPrefixClash(c)
	}
	name := g.uniq(base, ok)
	if o := g.lastOverlap(base); o != nil && name != base {
		o.full = "" // the overlap got renamed; forget it
	}
	g.typeNorms[norm(name)] = true
	return name
}

// enumPrefixClash: with default casing enum constants are EnumName+Value
// with no separator, so a type name that extends (or is extended by) an
// enum's name can collide with its constants (known genqlient finding);
// avoided unless Adversarial.
func (g *pg) enumPrefixClash(c string) bool {
	if g.o.Adversarial {
		return false
	}
	n := norm(c)
	for _, e := range g.s.enumNames {
		en := norm(e)
		if strings.HasPrefix(n, en) || strings.HasPrefix(en, n) {
			return true
		}
	}
	return false
}

func (g *pg) lastOverlap(full string) *overlap {
	if len(g.overlaps) == 0 {
		return nil
	}
	o := &g.overlaps[len(g.overlaps)-1]
	if o.full == full {
		return o
	}
	return nil
}

// memberName draws a field / argument / input-field name unique (by norm)
// within used.  kw allows Go keywords.
func (g *pg) memberName(pool []string, used nameSet, isField bool) string {
	// an "inner case twin" of a member of the SAME type: differs from it only in the case of a letter other than
	// the first, so the Go field names stay distinct (UserId / UserID) while the JSON names differ only in case
	if g.o.RateInnerCaseTwin > 0 && g.r.Intn(g.o.RateInnerCaseTwin) == 0 {
		var raws []string
		for k := range used {
			if strings.HasPrefix(k, "\x00") {
				raws = append(raws, k[1:])
			}
		}
		sort.Strings(raws)
		if len(raws) > 0 {
			o := proto.Pick(g.r, raws)
			rs := []rune(o)
			for i := len(rs) - 1; i >= 1; i-- {
				if unicode.IsLetter(rs[i]) {
					if unicode.IsUpper(rs[i]) {
						rs[i] = unicode.ToLower(rs[i])
					} else {
						rs[i] = unicode.ToUpper(rs[i])
					}
					break
				}
			}
			t := string(rs)
			if t != o && !used["\x00"+t] && upperFirst(t) != upperFirst(o) && !goKeywordSet[t] {
				used["\x00"+t] = true
				g.allMembers = append(g.allMembers, t)
				g.feat("name:innerCaseTwin")
				return t
			}
		}
	}
	var base string
	if g.adv() {
		switch g.r.Intn(6) {
		case 0:
			base = proto.Pick(g.r, advSnake)
			g.feat("name:snake")
		case 1:
			base = proto.Pick(g.r, advUnder)
			g.feat("name:leadingUnderscore")
		case 2:
			base = proto.Pick(g.r, advDouble)
			g.feat("name:doubleUnderscore")
		case 3:
			base = proto.Pick(g.r, goKeywords)
			g.feat("name:keyword")
		case 4: // case twin of a name used in another type
			if len(g.allMembers) > 0 {
				base = flipFirst(proto.Pick(g.r, g.allMembers))
				g.feat("name:caseTwin")
			} else {
				base = proto.Pick(g.r, pool)
			}
		default:
			base = snakeOf(proto.Pick(g.r, pool))
			g.feat("name:snake")
		}
	} else {
		base = proto.Pick(g.r, pool)
	}
	ok := func(c string) bool {
		n := norm(c)
		if used[n] || strings.HasPrefix(c, "__") {
			return false
		}
		if isField && (bannedFieldNorm(n) || g.fragNorms[n]) {
			return false
		}
		return true
	}
	name := g.uniq(base, ok)
	used.add(name)
	used["\x00"+name] = true
	g.allMembers = append(g.allMembers, name)
	if isField {
		g.fieldNorms.add(name)
	}
	return name
}

// goPredeclared: identifiers a package-level type must not be called in generated code: Go's predeclared
// identifiers and the import names the generated file uses.
var goPredeclared = func() map[string]bool {
	m := map[string]bool{}
	for _, k := range strings.Fields("any bool byte comparable complex64 complex128 error float32 float64 int int8 int16 int32 int64 rune string uint uint8 uint16 uint32 uint64 uintptr true false iota nil append cap clear close complex copy delete imag len make max min new panic print println real recover json fmt graphql context time errors sup testutil bytes strings data err resp req client ctx v b dst src i") {
		m[k] = true
	}
	return m
}()
