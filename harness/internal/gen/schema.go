package gen

import (
	"sort"
	"strings"

	"verifharness/internal/proto"
)

// ---------- model ----------

type tkind int

const (
	kScalar tkind = iota
	kEnum
	kInput
	kObject
	kIface
	kUnion
)

// tref is a GraphQL type reference.
type tref struct {
	Name    string // named type (when Elem == nil)
	NonNull bool
	Elem    *tref // list element
}

func named(n string, nn bool) *tref { return &tref{Name: n, NonNull: nn} }
func listOf(e *tref, nn bool) *tref { return &tref{Elem: e, NonNull: nn} }

func (t *tref) String() string {
	var s string
	if t.Elem != nil {
		s = "[" + t.Elem.String() + "]"
	} else {
		s = t.Name
	}
	if t.NonNull {
		s += "!"
	}
	return s
}

func (t *tref) base() string {
	for t.Elem != nil {
		t = t.Elem
	}
	return t.Name
}

func (t *tref) listDepth() int {
	d := 0
	for t.Elem != nil {
		t = t.Elem
		d++
	}
	return d
}

func (t *tref) clone() *tref {
	if t == nil {
		return nil
	}
	c := *t
	c.Elem = t.Elem.clone()
	return &c
}

// allNonNull sets NonNull at every level.
func (t *tref) allNonNull() *tref {
	for x := t; x != nil; x = x.Elem {
		x.NonNull = true
	}
	return t
}

type argDef struct {
	Name    string
	Type    *tref
	Default string // literal text; "" => none
}

func (a *argDef) required() bool { return a.Type.NonNull && a.Default == "" }

type fieldDef struct {
	Name       string
	Type       *tref
	Args       []*argDef
	Default    string // input fields only
	Desc       string
	Deprecated bool
}

func (f *fieldDef) clone() *fieldDef {
	c := *f
	c.Type = f.Type.clone()
	c.Args = nil
	for _, a := range f.Args {
		ac := *a
		ac.Type = a.Type.clone()
		c.Args = append(c.Args, &ac)
	}
	return &c
}

type typeDef struct {
	Kind       tkind
	Name       string
	Fields     []*fieldDef
	Implements []string
	Members    []string
	Values     []string
	Desc       string
	spec       *scalarSpec // custom scalars
	root       bool
}

func (t *typeDef) field(name string) *fieldDef {
	for _, f := range t.Fields {
		if f.Name == name {
			return f
		}
	}
	return nil
}

type scalarSpec struct {
	names  []string
	bind   Binding
	custom bool   // bound with marshaler and/or unmarshaler functions
	lit    string // literal flavour
	gobind string // matching Go type for a local `bind:` ("" => Raw)
}

var scalarCatalog = []*scalarSpec{
	{names: []string{"Date", "Day", "Birthday"}, bind: Binding{Type: SupPkg + ".Date"}, lit: "date"},
	{names: []string{"DateTime", "Timestamp", "Instant"}, bind: Binding{Type: SupPkg + ".Stamp", Marshaler: SupPkg + ".MarshalStamp", Unmarshaler: SupPkg + ".UnmarshalStamp"}, custom: true, lit: "stamp"},
	{names: []string{"UUID", "Cursor", "Handle", "Key"}, bind: Binding{Type: SupPkg + ".ID"}, lit: "string"},
	{names: []string{"JSON", "Any", "Payload"}, bind: Binding{Type: SupPkg + ".Raw"}, lit: "any"},
	{names: []string{"Money", "Cents"}, bind: Binding{Type: SupPkg + ".Money", Unmarshaler: SupPkg + ".UnmarshalMoney"}, custom: true, lit: "money"},
	{names: []string{"Blob", "Bytes"}, bind: Binding{Type: SupPkg + ".Blob", Marshaler: SupPkg + ".MarshalBlob"}, custom: true, lit: "string"},
	{names: []string{"Long", "BigInt"}, bind: Binding{Type: "int64"}, lit: "int"},
	{names: []string{"Props", "Dict"}, bind: Binding{Type: "map[string]interface{}"}, lit: "map"},
	{names: []string{"Time", "Moment"}, bind: Binding{Type: "time.Time"}, lit: "stamp"},
}

var builtinScalars = []string{"String", "Int", "Float", "Boolean", "ID"}

type schema struct {
	types map[string]*typeDef
	order []string // every user-defined type incl. roots, in definition order

	scalarNames, enumNames, inputNames, ifaceNames, objNames, unionNames []string
	query, mutation, subscription                                        *typeDef

	possible map[string][]string
}

func (s *schema) isLeaf(name string) bool {
	t := s.types[name]
	return t == nil || t.Kind == kScalar || t.Kind == kEnum
}

func (s *schema) isAbstract(name string) bool {
	t := s.types[name]
	return t != nil && (t.Kind == kIface || t.Kind == kUnion)
}

func (s *schema) add(t *typeDef) {
	s.types[t.Name] = t
	s.order = append(s.order, t.Name)
}

// computePossible fills possible[composite type] = sorted object names.
func (s *schema) computePossible() {
	s.possible = map[string][]string{}
	for _, n := range s.order {
		t := s.types[n]
		switch t.Kind {
		case kObject:
			s.possible[n] = []string{n}
			for _, i := range t.Implements {
				s.possible[i] = append(s.possible[i], n)
			}
		case kUnion:
			s.possible[n] = append([]string(nil), t.Members...)
		case kIface:
			if s.possible[n] == nil {
				s.possible[n] = []string{}
			}
		}
	}
	for k := range s.possible {
		sort.Strings(s.possible[k])
	}
}

func (s *schema) overlap(a, b string) bool {
	pa, pb := s.possible[a], s.possible[b]
	for _, x := range pa {
		for _, y := range pb {
			if x == y {
				return true
			}
		}
	}
	return false
}

// compat returns the composite types whose possible types intersect those
// of parent (the spread rule), in schema order.
func (s *schema) compat(parent string) []string {
	var out []string
	for _, n := range s.order {
		t := s.types[n]
		if t.Kind != kObject && t.Kind != kIface && t.Kind != kUnion {
			continue
		}
		if t.root && n != parent {
			continue
		}
		if s.overlap(parent, n) {
			out = append(out, n)
		}
	}
	return out
}

// fragmentMatches mirrors genqlient's notion (convert.go): the fragment on
// fragType is always active in a context of type ctxType.
func (s *schema) fragmentMatches(ctxType, fragType string) bool {
	if ctxType == fragType {
		return true
	}
	c, f := s.types[ctxType], s.types[fragType]
	if c == nil || f == nil {
		return false
	}
	for _, i := range c.Implements {
		if i == fragType {
			return true
		}
	}
	if f.Kind == kUnion {
		for _, m := range f.Members {
			if m == ctxType {
				return true
			}
		}
	}
	return false
}

// ---------- generation ----------

func (g *pg) genSchema() {
	s := g.s
	r := g.r
	maxT := g.o.MaxTypes

	// custom scalars
	nSc := r.Intn(4)
	if r.Chance(1, 4) {
		nSc = 0
	}
	perm := g.perm(len(scalarCatalog))
	for i := 0; i < nSc && i < len(perm); i++ {
		sp := scalarCatalog[perm[i]]
		name := g.uniq(proto.Pick(r, sp.names), func(c string) bool { return !g.typeNorms[norm(c)] })
		g.typeNorms[norm(name)] = true
		s.add(&typeDef{Kind: kScalar, Name: name, spec: sp, Desc: g.maybeDesc(8)})
		s.scalarNames = append(s.scalarNames, name)
		g.cfg.Bindings[name] = sp.bind
		g.feat("customScalar")
		if sp.custom {
			g.feat("customScalar:marshalFuncs")
		}
	}
	if !g.o.PlainConfig && r.Chance(1, 8) {
		g.cfg.Bindings["ID"] = Binding{Type: SupPkg + ".ID"}
		g.feat("bindBuiltinID")
	}

	// enums
	nEn := r.Intn(4)
	for i := 0; i < nEn; i++ {
		g.genEnum()
	}
	// inputs
	nIn := r.Intn(4)
	rec := -1
	if nIn > 0 && r.Chance(1, 4) {
		rec = r.Intn(nIn)
	}
	for i := 0; i < nIn; i++ {
		g.genInput(i == rec)
	}

	// names of composite types first, then their fields.
	nIf := r.Intn(4)
	if r.Chance(1, 5) {
		nIf = 0
	}
	nObj := 2 + r.Intn(5)
	if r.Chance(1, 6) {
		nObj = 2 + r.Intn(9)
	}
	if nObj > maxT {
		nObj = maxT
	}
	if nObj < 2 {
		nObj = 2
	}
	nUn := r.Intn(3)
	for i := 0; i < nIf; i++ {
		n := g.typeName(poolIface)
		s.add(&typeDef{Kind: kIface, Name: n, Desc: g.maybeDesc(6)})
		s.ifaceNames = append(s.ifaceNames, n)
		g.feat("interface")
	}
	for i := 0; i < nObj; i++ {
		n := g.typeName(poolObject)
		s.add(&typeDef{Kind: kObject, Name: n, Desc: g.maybeDesc(6)})
		s.objNames = append(s.objNames, n)
	}
	for i := 0; i < nUn; i++ {
		n := g.typeName(poolUnion)
		t := &typeDef{Kind: kUnion, Name: n, Desc: g.maybeDesc(6)}
		k := 2 + r.Intn(3)
		if k > len(s.objNames) {
			k = len(s.objNames)
		}
		for _, j := range g.perm(len(s.objNames))[:k] {
			t.Members = append(t.Members, s.objNames[j])
		}
		sort.Strings(t.Members)
		s.add(t)
		s.unionNames = append(s.unionNames, n)
		g.feat("union")
	}

	// interface fields: names unique across all interfaces, so that an
	// object may implement any set of them.
	ifaceUsed := nameSet{}
	for idx, n := range s.ifaceNames {
		t := s.types[n]
		if g.risk.ifaceIface && idx == 1 {
			// second interface implements the first
			base := s.types[s.ifaceNames[0]]
			t.Implements = []string{base.Name}
			for _, f := range base.Fields {
				t.Fields = append(t.Fields, f.clone())
			}
			g.feat("ifaceImplementsIface")
		}
		nf := 1 + r.Intn(3)
		for i := 0; i < nf; i++ {
			t.Fields = append(t.Fields, g.genOutField(ifaceUsed, i == 0 && len(t.Fields) == 0, 5))
		}
	}
	// objects
	for _, n := range s.objNames {
		t := s.types[n]
		used := nameSet{}
		for k := range ifaceUsed {
			used[k] = true // keep object fields disjoint from every interface's fields
		}
		for _, in := range s.ifaceNames {
			if !r.Chance(2, 5) {
				continue
			}
			it := s.types[in]
			// implementing J (which implements I) requires implementing I
			for _, sup := range it.Implements {
				if !contains(t.Implements, sup) {
					t.Implements = append(t.Implements, sup)
					g.copyIfaceFields(t, s.types[sup])
				}
			}
			if !contains(t.Implements, in) {
				t.Implements = append(t.Implements, in)
				g.copyIfaceFields(t, it)
			}
		}
		nf := 1 + r.Intn(5)
		if len(t.Fields) == 0 {
			nf++
		}
		for i := 0; i < nf; i++ {
			t.Fields = append(t.Fields, g.genOutField(used, i == 0 && len(t.Fields) == 0, 3))
		}
		if g.o.Adversarial && len(g.overlaps) > 0 && r.Chance(1, 3) {
			g.addAmbiguityKit(t, used)
		}
	}
	// every interface needs at least one implementation to be useful
	for _, in := range s.ifaceNames {
		it := s.types[in]
		has := false
		for _, on := range s.objNames {
			if contains(s.types[on].Implements, in) {
				has = true
			}
		}
		if !has {
			t := s.types[proto.Pick(r, s.objNames)]
			for _, sup := range it.Implements {
				if !contains(t.Implements, sup) {
					t.Implements = append(t.Implements, sup)
					g.copyIfaceFields(t, s.types[sup])
				}
			}
			t.Implements = append(t.Implements, in)
			g.copyIfaceFields(t, it)
		}
	}

	// roots
	g.typeNorms["query"], g.typeNorms["mutation"], g.typeNorms["subscription"] = true, true, true
	s.query = &typeDef{Kind: kObject, Name: "Query", root: true}
	s.add(s.query)
	used := nameSet{}
	nq := 2 + r.Intn(4)
	for i := 0; i < nq; i++ {
		s.query.Fields = append(s.query.Fields, g.genRootField(poolRootQ, used, 3, 4))
	}
	s.computePossible()
	g.ensureReachable(used)

	if r.Chance(3, 5) {
		s.mutation = &typeDef{Kind: kObject, Name: "Mutation", root: true}
		s.add(s.mutation)
		used := nameSet{}
		n := 1 + r.Intn(3)
		for i := 0; i < n; i++ {
			s.mutation.Fields = append(s.mutation.Fields, g.genRootField(poolRootM, used, 1, 2))
		}
	}
	if g.o.Subscriptions && r.Chance(1, 2) && (g.cfg.ClientGetter == "" || g.risk.subGetter) {
		s.subscription = &typeDef{Kind: kObject, Name: "Subscription", root: true}
		s.add(s.subscription)
		used := nameSet{}
		n := 1 + r.Intn(2)
		for i := 0; i < n; i++ {
			s.subscription.Fields = append(s.subscription.Fields, g.genRootField(poolRootS, used, 1, 2))
		}
	}
	s.computePossible()
}

func contains(xs []string, x string) bool {
	for _, y := range xs {
		if x == y {
			return true
		}
	}
	return false
}

func (g *pg) perm(n int) []int {
	p := make([]int, n)
	for i := range p {
		p[i] = i
	}
	for i := n - 1; i > 0; i-- {
		j := g.r.Intn(i + 1)
		p[i], p[j] = p[j], p[i]
	}
	return p
}

func (g *pg) maybeDesc(den int) string {
	if g.r.Chance(1, den) {
		return proto.Pick(g.r, poolDesc)
	}
	return ""
}

func (g *pg) genEnum() {
	r := g.r
	name := g.typeName(poolEnum)
	t := &typeDef{Kind: kEnum, Name: name, Desc: g.maybeDesc(6)}
	casing := g.cfg.CasingAllEnums
	if casing == "" {
		casing = g.cfg.CasingDefault
	}
	if !g.o.PlainConfig && r.Chance(1, 4) {
		casing = proto.Pick(r, []string{"default", "raw", "auto_camel_case"})
		g.cfg.CasingEnums[name] = casing
		g.feat("cfg:casingEnum")
	}
	n := 1 + r.Intn(5)
	used := nameSet{}
	exact := map[string]bool{}
	for i := 0; i < n; i++ {
		var v string
		if g.adv() {
			v = proto.Pick(r, advEnumVal)
			g.feat("name:advEnumValue")
		} else {
			v = proto.Pick(r, poolEnumVal)
		}
		if v == "true" || v == "false" || v == "null" {
			continue
		}
		if used.has(v) {
			// a case / underscore twin: only distinguishable with raw casing
			if exact[v] || !(g.o.Adversarial || r.Chance(1, 3)) || g.o.PlainConfig {
				continue
			}
			if casing != "raw" {
				g.cfg.CasingEnums[name] = "raw"
				casing = "raw"
			}
			g.feat("enumCaseTwin")
		}
		used.add(v)
		exact[v] = true
		t.Values = append(t.Values, v)
	}
	g.s.add(t)
	g.s.enumNames = append(g.s.enumNames, name)
	g.topNorms.add(name)
	g.topNorms.add("All" + name)
	g.feat("enum")
}

// leafBase picks a scalar / enum type name.
func (g *pg) leafBase() string {
	r := g.r
	s := g.s
	x := r.Intn(10)
	switch {
	case x < 2 && len(s.enumNames) > 0:
		return proto.Pick(r, s.enumNames)
	case x < 4 && len(s.scalarNames) > 0:
		return proto.Pick(r, s.scalarNames)
	default:
		return proto.Pick(r, builtinScalars)
	}
}

// risky reports whether a nullable reference to base is known not to
// compile under optional:generic.
func (g *pg) risky(base string) bool {
	if g.cfg.Optional != "generic" || g.risk.genericAbstract {
		return false
	}
	if g.s.isAbstract(base) {
		return true
	}
	// names of interfaces / unions that have been named but whose kind is
	// known (all composite names are registered before fields are made)
	if t := g.s.types[base]; t != nil && t.Kind == kScalar && t.spec != nil && t.spec.custom {
		return true
	}
	return false
}

// wrap draws list / non-null wrappers around base.
func (g *pg) wrap(base string, maxList int) *tref {
	r := g.r
	d := 0
	switch x := r.Intn(100); {
	case x < 58:
		d = 0
	case x < 85:
		d = 1
	case x < 95:
		d = 2
	default:
		d = 3
	}
	if d > maxList {
		d = maxList
	}
	t := named(base, r.Chance(1, 2))
	for i := 0; i < d; i++ {
		t = listOf(t, r.Chance(1, 2))
	}
	if g.risky(base) {
		t.allNonNull()
	}
	return t
}

func (g *pg) genOutField(used nameSet, forceLeaf bool, compositeIn10 int) *fieldDef {
	r := g.r
	s := g.s
	f := &fieldDef{Name: g.memberName(poolField, used, true), Desc: g.maybeDesc(10)}
	var comp []string
	comp = append(comp, s.objNames...)
	comp = append(comp, s.ifaceNames...)
	comp = append(comp, s.unionNames...)
	if !forceLeaf && len(comp) > 0 && r.Intn(10) < compositeIn10 {
		f.Type = g.wrap(proto.Pick(r, comp), 3)
	} else {
		f.Type = g.wrap(g.leafBase(), 3)
	}
	if !forceLeaf && r.Chance(1, 3) {
		f.Args = g.genArgs(1 + r.Intn(3))
	}
	if r.Chance(1, 20) {
		f.Deprecated = true
	}
	return f
}

func (g *pg) inputBase(allowInputs []string) string {
	r := g.r
	x := r.Intn(10)
	switch {
	case x < 3 && len(allowInputs) > 0:
		return proto.Pick(r, allowInputs)
	default:
		return g.leafBase()
	}
}

func (g *pg) genArgs(n int) []*argDef {
	r := g.r
	used := nameSet{}
	var out []*argDef
	for i := 0; i < n; i++ {
		a := &argDef{Name: g.memberName(poolArg, used, false)}
		a.Type = g.wrap(g.inputBase(g.s.inputNames), 2)
		if r.Chance(1, 4) {
			a.Default = g.literal(a.Type, 2, litOpts{noNull: a.Type.NonNull, constOnly: true})
			g.feat("argDefault")
		}
		out = append(out, a)
	}
	return out
}

func (g *pg) genInput(recursive bool) {
	r := g.r
	name := g.typeName(poolInput)
	t := &typeDef{Kind: kInput, Name: name, Desc: g.maybeDesc(6)}
	prev := append([]string(nil), g.s.inputNames...)
	used := nameSet{}
	n := 1 + r.Intn(5)
	for i := 0; i < n; i++ {
		f := &fieldDef{Name: g.memberName(poolField, used, false), Desc: g.maybeDesc(10)}
		f.Type = g.wrap(g.inputBase(prev), 2)
		if r.Chance(1, 4) {
			f.Default = g.literal(f.Type, 2, litOpts{noNull: f.Type.NonNull, constOnly: true})
			g.feat("inputFieldDefault")
		}
		t.Fields = append(t.Fields, f)
	}
	g.s.add(t) // before the self reference so that literals can look it up
	if recursive {
		f := &fieldDef{Name: g.memberName([]string{"and", "or", "not", "child", "nested", "next", "parent"}, used, false)}
		// A direct (non-list) self reference only compiles as a pointer;
		// without directives that needs optional:pointer or struct references.
		directOK := !g.o.NoDirectives || g.cfg.Optional == "pointer" || g.cfg.StructReferences
		if r.Bool() && directOK {
			f.Type = named(name, false)
			g.recDirect[name+"."+f.Name] = true
			g.feat("recursiveInput:direct")
		} else {
			f.Type = listOf(named(name, r.Bool()), false)
			if r.Chance(1, 3) {
				f.Type = listOf(f.Type, false)
			}
		}
		t.Fields = append(t.Fields, f)
		g.feat("recursiveInput")
	}
	g.s.inputNames = append(g.s.inputNames, name)
	g.topNorms.add(name)
	g.feat("input")
}

func (g *pg) copyIfaceFields(obj, it *typeDef) {
	r := g.r
	for _, f := range it.Fields {
		if obj.field(f.Name) != nil {
			continue
		}
		c := f.clone()
		c.Desc = ""
		if !c.Type.NonNull && r.Chance(1, 8) {
			c.Type.NonNull = true // covariant: non-null is a subtype of nullable
			g.feat("covariantField")
		} else if bt := g.s.types[c.Type.base()]; bt != nil && bt.Kind == kIface && r.Chance(1, 6) {
			// covariant narrowing to an implementation, if one is known already
			var impls []string
			for _, on := range g.s.objNames {
				if contains(g.s.types[on].Implements, bt.Name) {
					impls = append(impls, on)
				}
			}
			if len(impls) > 0 {
				x := c.Type
				for x.Elem != nil {
					x = x.Elem
				}
				x.Name = proto.Pick(r, impls)
				g.feat("covariantField")
			}
		}
		obj.Fields = append(obj.Fields, c)
	}
}

// addAmbiguityKit adds fields `x: PrefixBase` and `xPrefix: Base` whose
// generated type names concatenate to the same string.
func (g *pg) addAmbiguityKit(t *typeDef, used nameSet) {
	o := g.overlaps[g.r.Intn(len(g.overlaps))]
	if o.full == "" || !g.composite(o.base) || !g.composite(o.full) {
		return
	}
	x := proto.Pick(g.r, []string{"main", "last", "old", "new", "top"})
	a, b := x, x+o.prefix
	if used.has(a) || used.has(b) {
		return
	}
	used.add(a)
	used.add(b)
	t.Fields = append(t.Fields,
		&fieldDef{Name: a, Type: named(o.full, false)},
		&fieldDef{Name: b, Type: named(o.base, false)})
	g.feat("name:concatAmbiguity")
}

func (g *pg) composite(n string) bool {
	t := g.s.types[n]
	return t != nil && (t.Kind == kObject || t.Kind == kIface || t.Kind == kUnion) && !t.root
}

func (g *pg) genRootField(pool []string, used nameSet, argNum, argDen int) *fieldDef {
	r := g.r
	s := g.s
	f := &fieldDef{Name: g.memberName(pool, used, true), Desc: g.maybeDesc(10)}
	var comp []string
	comp = append(comp, s.objNames...)
	comp = append(comp, s.ifaceNames...)
	comp = append(comp, s.unionNames...)
	if r.Chance(3, 4) {
		f.Type = g.wrap(proto.Pick(r, comp), 3)
	} else {
		f.Type = g.wrap(g.leafBase(), 2)
	}
	if r.Chance(argNum, argDen) {
		f.Args = g.genArgs(1 + r.Intn(3))
	}
	return f
}

// ensureReachable adds Query fields until every composite type can be
// reached from Query (through fields and possible types).
func (g *pg) ensureReachable(used nameSet) {
	s := g.s
	for {
		seen := map[string]bool{}
		var visit func(n string)
		visit = func(n string) {
			if seen[n] {
				return
			}
			seen[n] = true
			t := s.types[n]
			if t == nil {
				return
			}
			for _, f := range t.Fields {
				if !s.isLeaf(f.Type.base()) {
					visit(f.Type.base())
				}
			}
			for _, p := range s.possible[n] {
				visit(p)
			}
			if t.Kind == kObject {
				for _, i := range t.Implements {
					visit(i)
				}
			}
		}
		visit("Query")
		missing := ""
		for _, n := range s.order {
			if g.composite(n) && !seen[n] {
				missing = n
				break
			}
		}
		if missing == "" {
			return
		}
		f := &fieldDef{Name: g.memberName([]string{lowerFirst(strings.TrimLeft(missing, "_")), "some" + upperFirst(missing)}, used, true)}
		f.Type = g.wrap(missing, 2)
		if g.r.Chance(1, 2) {
			f.Args = g.genArgs(1 + g.r.Intn(2))
		}
		s.query.Fields = append(s.query.Fields, f)
	}
}

// ---------- rendering ----------

func descText(d, indent string) string {
	if d == "" {
		return ""
	}
	if strings.Contains(d, "\n") || strings.Contains(d, `"`) {
		lines := strings.Split(d, "\n")
		return indent + `"""` + "\n" + indent + strings.Join(lines, "\n"+indent) + "\n" + indent + `"""` + "\n"
	}
	return indent + `"` + d + `"` + "\n"
}

func renderField(f *fieldDef, isInput bool) string {
	var b strings.Builder
	b.WriteString(descText(f.Desc, "  "))
	b.WriteString("  " + f.Name)
	if len(f.Args) > 0 {
		b.WriteString("(")
		for i, a := range f.Args {
			if i > 0 {
				b.WriteString(", ")
			}
			b.WriteString(a.Name + ": " + a.Type.String())
			if a.Default != "" {
				b.WriteString(" = " + a.Default)
			}
		}
		b.WriteString(")")
	}
	b.WriteString(": " + f.Type.String())
	if isInput && f.Default != "" {
		b.WriteString(" = " + f.Default)
	}
	if f.Deprecated && !isInput {
		b.WriteString(` @deprecated(reason: "old")`)
	}
	b.WriteString("\n")
	return b.String()
}

// renderSchema renders the schema into one or two documents.
func (g *pg) renderSchema() []string {
	s := g.s
	r := g.r
	split := r.Chance(1, 5)
	var main, ext strings.Builder
	if r.Chance(1, 6) {
		main.WriteString("schema {\n  query: Query\n")
		if s.mutation != nil {
			main.WriteString("  mutation: Mutation\n")
		}
		if s.subscription != nil {
			main.WriteString("  subscription: Subscription\n")
		}
		main.WriteString("}\n\n")
		g.feat("schemaBlock")
	}
	// order: shuffle the definitions a little (roots may come anywhere)
	order := append([]string(nil), s.order...)
	if r.Chance(1, 2) {
		p := g.perm(len(order))
		sh := make([]string, len(order))
		for i, j := range p {
			sh[i] = order[j]
		}
		order = sh
	}
	nExt := 0
	for _, n := range order {
		t := s.types[n]
		out := &main
		if split && n != "Query" && r.Chance(1, 4) {
			out = &ext // whole definition lives in the second document
			nExt++
		}
		// how many trailing items go to an `extend` block
		cut := 0
		items := len(t.Fields)
		switch t.Kind {
		case kEnum:
			items = len(t.Values)
		case kUnion:
			items = len(t.Members)
		}
		if split && t.Kind != kScalar && items >= 2 && r.Chance(1, 3) {
			cut = 1 + r.Intn(items-1)
			nExt++
		}
		keep := items - cut
		out.WriteString(descText(t.Desc, ""))
		switch t.Kind {
		case kScalar:
			out.WriteString("scalar " + n + "\n\n")
		case kEnum:
			out.WriteString("enum " + n + " {\n")
			for _, v := range t.Values[:keep] {
				out.WriteString("  " + v + "\n")
			}
			out.WriteString("}\n\n")
			if cut > 0 {
				ext.WriteString("extend enum " + n + " {\n")
				for _, v := range t.Values[keep:] {
					ext.WriteString("  " + v + "\n")
				}
				ext.WriteString("}\n\n")
				g.feat("extend:enum")
			}
		case kUnion:
			out.WriteString("union " + n + " = " + strings.Join(t.Members[:keep], " | ") + "\n\n")
			if cut > 0 {
				ext.WriteString("extend union " + n + " = " + strings.Join(t.Members[keep:], " | ") + "\n\n")
				g.feat("extend:union")
			}
		case kInput, kObject, kIface:
			kw := map[tkind]string{kInput: "input", kObject: "type", kIface: "interface"}[t.Kind]
			head := kw + " " + n
			if len(t.Implements) > 0 {
				head += " implements " + strings.Join(t.Implements, " & ")
			}
			out.WriteString(head + " {\n")
			for _, f := range t.Fields[:keep] {
				out.WriteString(renderField(f, t.Kind == kInput))
			}
			out.WriteString("}\n\n")
			if cut > 0 {
				ext.WriteString("extend " + kw + " " + n + " {\n")
				for _, f := range t.Fields[keep:] {
					ext.WriteString(renderField(f, t.Kind == kInput))
				}
				ext.WriteString("}\n\n")
				g.feat("extend:" + kw)
			}
		}
	}
	docs := []string{main.String()}
	if ext.Len() > 0 {
		docs = append(docs, ext.String())
		g.feat("schemaDocs2")
	}
	_ = nExt
	return docs
}
