package gen

import (
	"verifharness/internal/proto"
)

type overlap struct{ prefix, base, full string }

// pg is the state of one program generation.
type pg struct {
	r   *proto.Rng
	o   Options
	p   *Program
	s   *schema
	cfg *Config

	risk struct {
		noTypeCond, ifaceIface, genericAbstract, subGetter, backtick, invalidDir, varShadow bool
	}
	usedNoTypeCond, usedInvalidDir bool

	typeNorms    map[string]bool // GraphQL type names (by norm)
	topNorms     nameSet         // top-level Go identifiers genqlient will emit
	fieldNorms   nameSet         // every field name / alias / alias option anywhere
	fragNorms    nameSet         // fragment names (embedded-field names)
	allVarNorms  nameSet
	fragVarNorms nameSet
	allMembers   []string
	overlaps     []overlap
	prefixNames  []string // operation and fragment names (type-name prefixes)
	opNames      []string

	recDirect map[string]bool // "Input.field" with a direct self reference

	frags   []*fragInfo // completed fragments, in completion order
	fragCtx map[string]*defCtx
	nFrags  int
	fresh   int
}

func newPG(r *proto.Rng, o Options) *pg {
	g := &pg{r: r, o: o}
	g.p = &Program{Features: map[string]int{}}
	g.p.Config.CasingEnums = map[string]string{}
	g.p.Config.Bindings = map[string]Binding{}
	g.cfg = &g.p.Config
	g.s = &schema{types: map[string]*typeDef{}}
	g.typeNorms = map[string]bool{}
	for _, b := range builtinScalars {
		g.typeNorms[norm(b)] = true
	}
	g.topNorms = nameSet{}
	g.fieldNorms = nameSet{}
	g.fragNorms = nameSet{}
	g.allVarNorms = nameSet{}
	g.fragVarNorms = nameSet{}
	g.fragCtx = map[string]*defCtx{}
	g.recDirect = map[string]bool{}
	return g
}

func (g *pg) feat(k string) { g.p.Features[k]++ }

func (g *pg) rate(n int) bool {
	if n <= 0 {
		return false
	}
	return g.r.Chance(1, n)
}

func (g *pg) run() {
	r := g.r
	o := g.o
	// the gates are always drawn, in a fixed order, to keep streams aligned
	g.risk.noTypeCond = g.rate(o.RateNoTypeCond)
	g.risk.ifaceIface = g.rate(o.RateIfaceIface)
	g.risk.genericAbstract = g.rate(o.RateGenericAbstract)
	g.risk.subGetter = g.rate(o.RateSubGetter)
	g.risk.backtick = g.rate(o.RateBacktick)
	g.risk.invalidDir = g.rate(o.RateInvalidDir) && !o.NoDirectives
	g.risk.varShadow = g.rate(o.RateVarShadow)

	g.genConfig()
	if g.risk.genericAbstract && g.cfg.Optional == "generic" {
		g.feat("risk:genericNullableAbstractOrCustom")
	}
	if g.risk.subGetter && g.cfg.ClientGetter != "" {
		g.feat("risk:subscriptionWithGetterAllowed")
	}
	g.genSchema()

	nOps := 1 + r.Intn(o.MaxOps)
	var ops []*defCtx
	for i := 0; i < nOps; i++ {
		kind := "query"
		x := r.Intn(100)
		switch {
		case x < 25 && g.s.mutation != nil:
			kind = "mutation"
		case x >= 25 && x < 45 && g.s.subscription != nil:
			kind = "subscription"
		}
		ops = append(ops, g.genOperation(kind))
	}
	type rendered struct {
		d    Def
		frag bool
	}
	var defs []rendered
	for _, c := range ops {
		d := Def{Kind: c.kind, Name: c.name, Uses: append([]string(nil), c.uses...)}
		d.Comment = c.decorateOp() // may add directives to nodes and variables
		d.Text = c.renderDef()
		defs = append(defs, rendered{d, false})
	}
	for _, f := range g.frags {
		c := g.fragCtx[f.name]
		d := Def{Kind: "fragment", Name: f.name, Comment: f.comment, Uses: append([]string(nil), f.uses...)}
		d.Text = c.renderDef()
		defs = append(defs, rendered{d, true})
		g.feat("fragment")
	}
	// order: operations first, fragments first, or shuffled
	switch r.Intn(3) {
	case 0:
	case 1:
		var fs, os []rendered
		for _, d := range defs {
			if d.frag {
				fs = append(fs, d)
			} else {
				os = append(os, d)
			}
		}
		defs = append(fs, os...)
	default:
		p := g.perm(len(defs))
		sh := make([]rendered, len(defs))
		for i, j := range p {
			sh[i] = defs[j]
		}
		defs = sh
	}
	for _, d := range defs {
		g.p.Defs = append(g.p.Defs, d.d)
	}
	g.p.Schema = g.renderSchema()
}

func (g *pg) genConfig() {
	r := g.r
	c := g.cfg
	if g.o.PlainConfig {
		return
	}
	switch x := r.Intn(20); {
	case x < 8:
	case x < 10:
		c.Optional = "value"
	case x < 15:
		c.Optional = "pointer"
	default:
		c.Optional = "generic"
		c.OptionalGenericType = SupPkg + ".Option"
	}
	if c.Optional != "" {
		g.feat("cfg:optional:" + c.Optional)
	}
	if r.Chance(1, 5) {
		c.StructReferences = true
		g.feat("cfg:structReferences")
	}
	if r.Chance(1, 4) {
		c.Extensions = true
		g.feat("cfg:extensions")
	}
	switch x := r.Intn(10); {
	case x < 6:
	case x < 8:
		c.ContextType = "-"
		g.feat("cfg:noContext")
	default:
		c.ContextType = SupPkg + ".MyContext"
		g.feat("cfg:myContext")
	}
	if r.Chance(1, 3) {
		switch c.ContextType {
		case "":
			c.ClientGetter = SupPkg + ".GetClient"
		case "-":
			c.ClientGetter = SupPkg + ".GetClientNoCtx"
		default:
			c.ClientGetter = SupPkg + ".GetClientMyCtx"
		}
		g.feat("cfg:clientGetter")
	}
	switch x := r.Intn(20); {
	case x < 11:
	case x < 13:
		c.CasingDefault = "default"
	case x < 15:
		c.CasingDefault = "raw"
	default:
		c.CasingDefault = "auto_camel_case"
	}
	if c.CasingDefault != "" {
		g.feat("cfg:casing:" + c.CasingDefault)
	}
	switch x := r.Intn(10); {
	case x < 6:
	case x < 8:
		c.CasingAllEnums = "raw"
	case x < 9:
		c.CasingAllEnums = "auto_camel_case"
	default:
		c.CasingAllEnums = "default"
	}
	if c.CasingAllEnums != "" {
		g.feat("cfg:casingAllEnums:" + c.CasingAllEnums)
	}
	if r.Chance(1, 4) {
		c.ExportOperations = true
		g.feat("cfg:exportOperations")
	}
}
