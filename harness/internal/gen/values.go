package gen

import (
	"strings"

	"verifharness/internal/proto"
)

type litOpts struct {
	noNull    bool    // the position does not admit null
	constOnly bool    // schema default value: no variables, nothing exotic
	ctx       *defCtx // where variables may be declared (nil => none)
}

var (
	litInts    = []string{"0", "1", "-7", "42", "2147483647", "-2147483648", "100"}
	litFloats  = []string{"1.5", "-0.25", "6.02e23", "1E3", "0.0", "3.14159", "1e-9", "-2.5E+2"}
	litPlain   = []string{`"plain"`, `""`, `"hello world"`, `"x"`, `"CamelCase"`, `"with, commas: and {braces} [brackets] $dollar @at #hash"`}
	litEscapes = []string{`"with \"quotes\" and \\ backslash"`, `"tab\tnewline\nreturn\r"`, `"esc \u00e9\u4e2d done"`, `"slash \/ bs \b ff \f"`,
		// an escaped backslash in front of every escape letter: any post-processing of the printed document that is not
		// escape-aware changes the value
		`"C:\\videos\\audio \\x41 \\u0041 \\n\\t\\r\\b\\f \\\" end"`, `"^\\d+\\.\\w*$"`}
	litUnicode = []string{`"unicode é ü 日本語"`, `"emoji 😀 ok"`, `"ελληνικά"`, `"zero\u200Bwidth"`}
	litBlock   = []string{`"""block "quoted" text"""`, `"""multi word block"""`, `"""esc \""" inside"""`}
	litDates   = []string{`"2024-02-29"`, `"1999-12-31"`, `"2000-01-01"`}
	litStamps  = []string{`"2024-02-29T12:34:56Z"`, `"1970-01-01T00:00:00Z"`}
	litMoney   = []string{`"12.34"`, `"0.99"`, `100`}
)

func (g *pg) stringLit(o litOpts) string {
	r := g.r
	if !o.constOnly && g.risk.backtick && r.Chance(1, 3) {
		g.feat("literal:backtick")
		return "\"tick ` tock\""
	}
	switch x := r.Intn(10); {
	case x < 5:
		g.feat("literal:string")
		return proto.Pick(r, litPlain)
	case x < 7:
		g.feat("literal:stringEscape")
		return proto.Pick(r, litEscapes)
	case x < 9:
		g.feat("literal:stringUnicode")
		return proto.Pick(r, litUnicode)
	default:
		if o.constOnly {
			g.feat("literal:string")
			return proto.Pick(r, litPlain)
		}
		g.feat("literal:blockString")
		return proto.Pick(r, litBlock)
	}
}

// literal renders a GraphQL value of type t.
func (g *pg) literal(t *tref, depth int, o litOpts) string {
	r := g.r
	if !t.NonNull && !o.noNull && r.Chance(1, 8) {
		g.feat("literal:null")
		return "null"
	}
	if t.Elem != nil {
		eo := o
		eo.noNull = t.Elem.NonNull
		if r.Chance(1, 20) && t.Elem.Elem == nil {
			// input coercion: a single item where a list is expected
			eo.noNull = true
			g.feat("literal:listCoercion")
			return g.literal(t.Elem, depth-1, eo)
		}
		n := r.Intn(4)
		if depth <= 0 && n > 1 {
			n = 1
		}
		parts := make([]string, 0, n)
		for i := 0; i < n; i++ {
			parts = append(parts, g.literal(t.Elem, depth-1, eo))
		}
		g.feat("literal:list")
		return "[" + strings.Join(parts, ", ") + "]"
	}
	switch t.Name {
	case "Int":
		g.feat("literal:int")
		return proto.Pick(r, litInts)
	case "Float":
		if r.Chance(1, 4) {
			g.feat("literal:int")
			return proto.Pick(r, litInts)
		}
		g.feat("literal:float")
		return proto.Pick(r, litFloats)
	case "String":
		return g.stringLit(o)
	case "Boolean":
		g.feat("literal:boolean")
		return proto.Pick(r, []string{"true", "false"})
	case "ID":
		if r.Bool() {
			g.feat("literal:int")
			return proto.Pick(r, []string{"1", "42", "1000"})
		}
		g.feat("literal:string")
		return proto.Pick(r, []string{`"id-1"`, `"42"`, `"dXNlcjox"`})
	}
	td := g.s.types[t.Name]
	if td == nil {
		return "null"
	}
	switch td.Kind {
	case kEnum:
		g.feat("literal:enum")
		return proto.Pick(r, td.Values)
	case kScalar:
		switch td.spec.lit {
		case "date":
			g.feat("literal:string")
			return proto.Pick(r, litDates)
		case "stamp":
			g.feat("literal:string")
			return proto.Pick(r, litStamps)
		case "money":
			return proto.Pick(r, litMoney)
		case "int":
			g.feat("literal:int")
			return proto.Pick(r, []string{"0", "9007199254740993", "-1"})
		case "map":
			g.feat("literal:object")
			return proto.Pick(r, []string{`{a: 1, b: "two"}`, `{}`, `{nested: {deep: [1, 2, {x: "y"}]}}`})
		case "any":
			return proto.Pick(r, []string{`{a: 1}`, `[1, "two", 3.0, true, RED]`, `"str"`, `7`, `true`, `{k: {l: []}}`})
		default:
			return g.stringLit(o)
		}
	case kInput:
		var parts []string
		for _, f := range td.Fields {
			req := f.Type.NonNull && f.Default == ""
			if !req {
				if depth <= 0 || !r.Chance(1, 2) {
					continue
				}
			}
			fo := o
			fo.noNull = f.Type.NonNull
			var v string
			if o.ctx != nil && !o.constOnly && r.Chance(1, 6) {
				v = o.ctx.variableFor(f.Type, f.Name, false)
				g.feat("literal:varInObject")
			} else {
				v = g.literal(f.Type, depth-1, fo)
			}
			parts = append(parts, f.Name+": "+v)
		}
		g.feat("literal:object")
		return "{" + strings.Join(parts, ", ") + "}"
	}
	return "null"
}
