package gen

import (
	"sort"
	"strings"

	"verifharness/internal/proto"
)

// ---------- selection tree ----------

type selKind int

const (
	selField selKind = iota
	selInline
	selSpread
)

type selNode struct {
	kind selKind

	// field
	alias, name string    // alias "" => none
	parent      string    // type on which the field is selected
	fdef        *fieldDef // nil for __typename
	args        string    // rendered "(a: 1, b: $x)" or ""
	children    []*selNode

	// inline fragment
	typeCond string // "" => no type condition

	// spread
	frag string

	noDir   bool     // a repeated leaf: no further @genqlient option here
	owner   string   // name of the definition the node is written in
	gql     string   // GraphQL directives, e.g. " @include(if: $x)"
	genq    []string // @genqlient argument strings, one comment line each
	comment string   // optional plain comment line (without "#")
}

func (n *selNode) key() string {
	if n.alias != "" {
		return n.alias
	}
	return n.name
}

func (n *selNode) hasGenq(prefix string) bool {
	for _, q := range n.genq {
		if strings.Contains(q, prefix) {
			return true
		}
	}
	return false
}

func renderSel(b *strings.Builder, nodes []*selNode, ind string) {
	for _, n := range nodes {
		if n.comment != "" {
			b.WriteString(ind + "# " + n.comment + "\n")
		}
		for _, q := range n.genq {
			b.WriteString(ind + "# @genqlient(" + q + ")\n")
		}
		switch n.kind {
		case selField:
			b.WriteString(ind)
			if n.alias != "" {
				b.WriteString(n.alias + ": ")
			}
			b.WriteString(n.name + n.args + n.gql)
			if len(n.children) > 0 {
				b.WriteString(" {\n")
				renderSel(b, n.children, ind+"  ")
				b.WriteString(ind + "}")
			}
			b.WriteString("\n")
		case selInline:
			b.WriteString(ind + "...")
			if n.typeCond != "" {
				b.WriteString(" on " + n.typeCond)
			}
			b.WriteString(n.gql + " {\n")
			renderSel(b, n.children, ind+"  ")
			b.WriteString(ind + "}\n")
		case selSpread:
			b.WriteString(ind + "..." + n.frag + n.gql + "\n")
		}
	}
}

// ---------- response-key scopes ----------

type keyInfo struct {
	sig    string // parent type + field name + rendered args
	leaf   bool
	parent string
	name   string
	args   string
	node   *selNode // the (first) field node with this key
}

// scope is the set of response keys of one selection set, including
// everything flattened into it through inline fragments and spreads.
type scope struct {
	keys  map[string]keyInfo
	norms map[string]string // norm(key) -> key
	outer *scope            // the scope a lazily created fragment will be spread into
}

func newScope(outer *scope) *scope {
	return &scope{keys: map[string]keyInfo{}, norms: map[string]string{}, outer: outer}
}

// find returns the info for key anywhere in the chain; own tells whether it
// was found in s itself.
func (s *scope) find(key string) (ki keyInfo, found, own bool) {
	for x := s; x != nil; x = x.outer {
		if k, ok := x.keys[key]; ok {
			return k, true, x == s
		}
	}
	return keyInfo{}, false, false
}

// normClash: a different key with the same Go name exists.
func (s *scope) normClash(key string) bool {
	n := norm(key)
	for x := s; x != nil; x = x.outer {
		if k, ok := x.norms[n]; ok && k != key {
			return true
		}
	}
	return false
}

func (s *scope) add(key string, ki keyInfo) {
	if _, ok := s.keys[key]; !ok {
		s.keys[key] = ki
	}
	if _, ok := s.norms[norm(key)]; !ok {
		s.norms[norm(key)] = key
	}
}

func sortedKeys[V any](m map[string]V) []string {
	ks := make([]string, 0, len(m))
	for k := range m {
		ks = append(ks, k)
	}
	sort.Strings(ks)
	return ks
}

// ---------- definitions being generated ----------

type varDef struct {
	Name      string
	Type      *tref
	Default   string
	genq      []string
	inherited bool
}

type fragInfo struct {
	name, typeCond string
	keys           map[string]keyInfo // flattened response keys
	vars           []*varDef          // transitive
	uses           []string
	sel            []*selNode
	comment        string
	spreads        int
	users          map[string]bool
}

type defCtx struct {
	g     *pg
	kind  string
	name  string
	frag  *fragInfo
	vars  []*varDef
	varBy map[string]*varDef
	vnorm nameSet
	uses  []string
	occ   map[string][]*selNode // "Type.field" -> field nodes directly in this definition
	sel   []*selNode
	root  *typeDef
}

func (g *pg) newDefCtx(kind, name string) *defCtx {
	return &defCtx{g: g, kind: kind, name: name, varBy: map[string]*varDef{}, vnorm: nameSet{}, occ: map[string][]*selNode{}}
}

type selMode struct {
	noFrags    bool // struct: true target: fields only
	inlineNest int
	subRoot    bool // subscription root: exactly one plain field
	top        bool
}

// genSelSet generates a non-empty selection set on parent type pt.
func (c *defCtx) genSelSet(pt *typeDef, depth int, sc *scope, m selMode) []*selNode {
	g := c.g
	r := g.r
	n := 1 + r.Intn(3)
	if m.top {
		n = 1 + r.Intn(4)
	}
	if m.inlineNest > 0 {
		n = 1 + r.Intn(2)
	}
	if m.subRoot {
		n = 1
	}
	abstract := pt.Kind == kIface || pt.Kind == kUnion
	inlineP, spreadP, tnP := 6, 14, 7
	if abstract {
		inlineP = 32
	}
	if m.noFrags || m.subRoot {
		inlineP, spreadP = 0, 0
	}
	if m.inlineNest >= 2 {
		inlineP = 0
	}
	if g.o.MaxFrags == 0 {
		spreadP = 0
	}
	if m.subRoot {
		tnP = 0
	}
	var out []*selNode
	for tries := 0; len(out) < n && tries < n+5; tries++ {
		x := r.Intn(100)
		var nd *selNode
		switch {
		case x < inlineP:
			nd = c.genInline(pt, depth, sc, m)
		case x < inlineP+spreadP:
			nd = c.genSpread(pt, depth, sc, "")
		case x < inlineP+spreadP+tnP:
			nd = c.genTypename(pt, sc, false)
		default:
			if pt.Kind == kUnion {
				if m.noFrags || m.subRoot {
					nd = c.genTypename(pt, sc, false)
				} else {
					nd = c.genInline(pt, depth, sc, m)
				}
			} else {
				nd = c.genField(pt, c.pickField(pt, depth), depth, sc, m, false)
			}
		}
		if nd != nil {
			out = append(out, nd)
		}
	}
	if len(out) == 0 {
		if pt.Kind == kUnion {
			out = append(out, c.genTypename(pt, sc, true))
		} else {
			var lf *fieldDef
			for _, f := range pt.Fields {
				if g.s.isLeaf(f.Type.base()) {
					lf = f
					break
				}
			}
			if lf == nil {
				lf = pt.Fields[0]
			}
			out = append(out, c.genField(pt, lf, depth, sc, m, true))
		}
	}
	return out
}

func (c *defCtx) pickField(pt *typeDef, depth int) *fieldDef {
	g := c.g
	if depth >= g.o.MaxDepth {
		var leaves []*fieldDef
		for _, f := range pt.Fields {
			if g.s.isLeaf(f.Type.base()) {
				leaves = append(leaves, f)
			}
		}
		if len(leaves) > 0 {
			return proto.Pick(g.r, leaves)
		}
	}
	return proto.Pick(g.r, pt.Fields)
}

func (c *defCtx) genTypename(pt *typeDef, sc *scope, force bool) *selNode {
	g := c.g
	ki, found, _ := sc.find("__typename")
	if found && !(force || g.r.Chance(1, 10)) {
		return nil
	}
	if !found && sc.normClash("__typename") {
		if !force {
			return nil
		}
	}
	_ = ki
	if found {
		g.feat("repeatLeaf")
	}
	sc.add("__typename", keyInfo{sig: "__typename", leaf: true, name: "__typename"})
	g.feat("explicitTypename")
	return &selNode{kind: selField, name: "__typename", parent: pt.Name}
}

// genArgs renders the arguments of one field use.
func (c *defCtx) genArgs(f *fieldDef) string {
	g := c.g
	r := g.r
	var parts []string
	for _, a := range f.Args {
		if !a.required() && !r.Chance(1, 2) {
			continue
		}
		var v string
		varP := 2
		if c.frag != nil {
			varP = 4
		}
		if r.Chance(1, varP) {
			v = c.variableFor(a.Type, a.Name, a.Default != "")
		} else {
			v = g.literal(a.Type, 2, litOpts{noNull: a.Type.NonNull, ctx: c})
		}
		parts = append(parts, a.Name+": "+v)
	}
	if len(parts) == 0 {
		return ""
	}
	return "(" + strings.Join(parts, ", ") + ")"
}

// genField generates the use of field f on pt.  With force it never gives up.
func (c *defCtx) genField(pt *typeDef, f *fieldDef, depth int, sc *scope, m selMode, force bool) *selNode {
	g := c.g
	r := g.r
	s := g.s
	leaf := s.isLeaf(f.Type.base())
	nd := &selNode{kind: selField, name: f.Name, parent: pt.Name, fdef: f, owner: c.name}

	key := f.Name
	wantAlias := r.Chance(1, 4)
	ki, found, own := sc.find(key)
	repeated := false
	if found && !wantAlias && leaf && own && ki.name == f.Name && ki.parent == pt.Name && ki.leaf &&
		ki.node != nil && (ki.node.owner == c.name || len(ki.node.genq) == 0) && r.Chance(1, 10) {
		// repeat a leaf with identical field + arguments + options
		nd.args = ki.args
		nd.genq = append([]string(nil), ki.node.genq...)
		nd.noDir, ki.node.noDir = true, true
		repeated = true
		g.feat("repeatLeaf")
	}
	if !repeated {
		if found || sc.normClash(key) || wantAlias {
			key = c.aliasName(sc, f.Name)
			nd.alias = key
			g.feat("alias")
		}
		nd.args = c.genArgs(f)
	}
	sc.add(key, keyInfo{sig: pt.Name + "." + f.Name + nd.args, leaf: leaf, parent: pt.Name, name: f.Name, args: nd.args, node: nd})
	if nd.args != "" {
		g.feat("fieldArgs")
	}

	if !leaf {
		ft := s.types[f.Type.base()]
		sub := newScope(nil)
		abstract := ft.Kind == kIface || ft.Kind == kUnion
		switch {
		case !g.o.NoDirectives && !m.subRoot && r.Chance(1, 7) && c.tryFlatten(nd, ft, depth+1, sub):
			// children set by tryFlatten
		case !g.o.NoDirectives && abstract && r.Chance(1, 5):
			nd.children = c.genSelSet(ft, depth+1, sub, selMode{noFrags: true})
			nd.genq = append(nd.genq, "struct: true")
			g.feat("dir:struct")
		default:
			nd.children = c.genSelSet(ft, depth+1, sub, selMode{})
		}
	}
	if d := f.Type.listDepth(); d >= 2 {
		g.feat("listDepth" + itoa(d))
	}
	if !m.subRoot {
		nd.gql = c.gqlDirs()
	}
	if !g.o.NoDirectives && !nd.noDir && r.Chance(1, 4) {
		c.fieldDirective(nd, f, leaf)
	}
	if r.Chance(1, 25) {
		nd.comment = proto.Pick(r, []string{"the interesting one", "TODO: drop this", "note: nullable", "see schema"})
	}
	c.occ[pt.Name+"."+f.Name] = append(c.occ[pt.Name+"."+f.Name], nd)
	return nd
}

// aliasName draws a response key unique (by Go name) in the scope chain.
func (c *defCtx) aliasName(sc *scope, field string) string {
	g := c.g
	r := g.r
	var base string
	switch r.Intn(3) {
	case 0:
		base = proto.Pick(r, poolAlias)
	default:
		base = proto.Pick(r, poolAliasPx) + upperFirst(field)
	}
	if g.adv() {
		switch r.Intn(4) {
		case 0:
			base = snakeOf(base)
			g.feat("name:snake")
		case 1:
			base = "_" + base
			g.feat("name:leadingUnderscore")
		case 2:
			base = upperFirst(base)
			g.feat("name:caseTwin")
		default:
			base = proto.Pick(r, goKeywords)
			g.feat("name:keyword")
		}
	}
	ok := func(x string) bool {
		n := norm(x)
		if bannedFieldNorm(n) || g.fragNorms[n] || strings.HasPrefix(x, "__") {
			return false
		}
		if _, found, _ := sc.find(x); found {
			return false
		}
		return !sc.normClash(x)
	}
	name := g.uniq(base, ok)
	g.fieldNorms.add(name)
	return name
}

// gqlDirs occasionally attaches @skip / @include.
func (c *defCtx) gqlDirs() string {
	g := c.g
	r := g.r
	if !r.Chance(1, 10) {
		return ""
	}
	out := ""
	one := func(d string) {
		var cond string
		if r.Bool() {
			cond = proto.Pick(r, []string{"true", "false"})
		} else {
			cond = c.variableFor(named("Boolean", true), proto.Pick(r, []string{"flag", "with" + upperFirst(d), "show", "verbose"}), false)
		}
		out += " @" + d + "(if: " + cond + ")"
	}
	switch r.Intn(5) {
	case 0, 1:
		one("include")
	case 2, 3:
		one("skip")
	default:
		one("skip")
		one("include")
	}
	g.feat("skipInclude")
	return out
}

// genInline generates an inline fragment sharing the enclosing scope.
func (c *defCtx) genInline(pt *typeDef, depth int, sc *scope, m selMode) *selNode {
	g := c.g
	r := g.r
	nd := &selNode{kind: selInline}
	var inner *typeDef
	if g.risk.noTypeCond && !g.usedNoTypeCond && r.Chance(1, 3) {
		inner = pt
		g.usedNoTypeCond = true
		g.feat("inlineFragmentNoTypeCond")
	} else {
		cands := g.s.compat(pt.Name)
		if len(cands) == 0 {
			return nil
		}
		// prefer concrete possibilities; sometimes the parent type itself
		tn := proto.Pick(r, cands)
		if r.Chance(1, 2) {
			if ps := g.s.possible[pt.Name]; len(ps) > 0 {
				tn = proto.Pick(r, ps)
			}
		}
		inner = g.s.types[tn]
		nd.typeCond = tn
	}
	m2 := m
	m2.inlineNest++
	m2.top = false
	nd.children = c.genSelSet(inner, depth, sc, m2)
	nd.gql = c.gqlDirs()
	g.feat("inlineFragment")
	return nd
}

// spreadable reports whether f's keys can be merged into sc.
func (c *defCtx) spreadable(f *fragInfo, sc *scope) bool {
	allowRepeat := c.g.r.Chance(1, 10)
	for _, k := range sortedKeys(f.keys) {
		ki := f.keys[k]
		if have, found, _ := sc.find(k); found {
			if !(allowRepeat && ki.leaf && have.leaf && have.sig == ki.sig) {
				return false
			}
		} else if sc.normClash(k) {
			return false
		}
	}
	return true
}

// genSpread spreads an existing compatible fragment or creates a new one.
// want, if set, is the required type condition.
func (c *defCtx) genSpread(pt *typeDef, depth int, sc *scope, want string) *selNode {
	return c.genSpread2(pt, depth, sc, want, false)
}

func (c *defCtx) genSpread2(pt *typeDef, depth int, sc *scope, want string, plain bool) *selNode {
	g := c.g
	r := g.r
	var cands []*fragInfo
	for _, f := range g.frags {
		if c.frag != nil && f == c.frag {
			continue
		}
		if want != "" && f.typeCond != want {
			continue
		}
		if !g.s.overlap(pt.Name, f.typeCond) {
			continue
		}
		cands = append(cands, f)
	}
	var f *fragInfo
	canNew := g.nFrags < g.o.MaxFrags
	if len(cands) > 0 && (!canNew || r.Chance(3, 5)) {
		x := proto.Pick(r, cands)
		if c.spreadable(x, sc) {
			f = x
		}
	}
	if f == nil {
		if !canNew {
			return nil
		}
		f = g.newFragment(c, pt, depth, sc, want)
		if f == nil {
			return nil
		}
	}
	return c.spread(f, sc, plain)
}

func (c *defCtx) spread(f *fragInfo, sc *scope, plain bool) *selNode {
	g := c.g
	for _, k := range sortedKeys(f.keys) {
		sc.add(k, f.keys[k])
	}
	for _, v := range f.vars {
		if c.varBy[v.Name] == nil {
			cp := *v
			cp.genq = nil
			cp.inherited = true
			c.vars = append(c.vars, &cp)
			c.varBy[v.Name] = &cp
			c.vnorm.add(v.Name)
		}
	}
	if !contains(c.uses, f.name) {
		c.uses = append(c.uses, f.name)
	}
	f.spreads++
	if f.spreads == 2 {
		g.feat("sharedFragment")
	}
	f.users[c.name] = true
	g.feat("namedFragment")
	if c.frag != nil {
		g.feat("nestedFragment")
	}
	nd := &selNode{kind: selSpread, frag: f.name}
	if !plain && g.r.Chance(1, 12) {
		nd.gql = c.gqlDirs()
	}
	return nd
}

// newFragment lazily creates a fragment that can be spread into a selection
// on pt whose scope is sc.  Fragments in progress are not in g.frags, so the
// fragment graph is a DAG by construction.
func (g *pg) newFragment(user *defCtx, pt *typeDef, depth int, sc *scope, want string) *fragInfo {
	r := g.r
	tc := want
	if tc == "" {
		tc = pt.Name
		if r.Chance(1, 2) {
			if cs := g.s.compat(pt.Name); len(cs) > 0 {
				tc = proto.Pick(r, cs)
			}
		}
	}
	g.nFrags++
	td := g.s.types[tc]
	name := g.fragName(td)
	f := &fragInfo{name: name, typeCond: tc, users: map[string]bool{}}
	fc := g.newDefCtx("fragment", name)
	fc.frag = f
	fsc := newScope(sc)
	fc.sel = fc.genSelSet(td, depth, fsc, selMode{top: true})
	f.sel = fc.sel
	f.keys = fsc.keys
	f.vars = fc.vars
	f.uses = fc.uses
	if !g.o.NoDirectives {
		f.comment = fc.decorateFragment()
	}
	if f.comment == "" && r.Chance(1, 8) {
		f.comment = "# " + name + " is shared.\n"
	}
	g.frags = append(g.frags, f)
	g.fragCtx[name] = fc
	if td.Kind == kIface {
		g.feat("fragmentOnInterface")
	} else if td.Kind == kUnion {
		g.feat("fragmentOnUnion")
	}
	return f
}

func (g *pg) fragName(td *typeDef) string {
	r := g.r
	stem := upperFirst(strings.ReplaceAll(td.Name, "_", ""))
	if stem == "" {
		stem = "X"
	}
	base := stem + proto.Pick(r, poolFragSuf)
	if r.Chance(1, 6) {
		base = lowerFirst(base)
		g.feat("name:lowerFragment")
	}
	if g.o.Adversarial && r.Chance(1, 8) && len(g.opNames) > 0 {
		// named like a type genqlient would generate for an operation
		base = proto.Pick(r, g.opNames) + upperFirst(proto.Pick(r, g.s.query.Fields).Name)
		g.feat("name:fragLikeGenerated")
	}
	if g.rate(g.o.RateFragKeyTwin) && len(td.Fields) > 0 {
		// named exactly like a lower-case field of its type: the Go type of the spread (`id`) and the Go field of the
		// key (`Id`) differ, so this is valid input; fragment type names and response keys are separate namespaces
		f := proto.Pick(r, td.Fields).Name
		if f != "" && f[0] >= 'a' && f[0] <= 'z' && !strings.Contains(f, "_") && !g.topNorms[norm(f)] && !goKeywordSet[f] && f != "on" && !goPredeclared[f] && !g.prefixClash(f) {
			g.feat("name:fragLikeFieldKey")
			g.topNorms.add(f)
			g.fragNorms.add(f)
			g.prefixNames = append(g.prefixNames, f)
			if td.Kind != kObject {
				for _, p := range g.s.possible[td.Name] {
					g.topNorms.add(f + upperFirst(p))
					g.fragNorms.add(f + upperFirst(p))
				}
			}
			return f
		}
	}
	ok := func(c string) bool {
		n := norm(c)
		if g.topNorms[n] || g.fieldNorms[n] || goKeywordSet[c] || c == "on" {
			return false
		}
		for _, p := range g.s.possible[td.Name] {
			if g.topNorms[norm(c+upperFirst(p))] {
				return false
			}
		}
		return !g.prefixClash(c)
	}
	name := g.uniq(base, ok)
	g.topNorms.add(name)
	g.fragNorms.add(name)
	g.prefixNames = append(g.prefixNames, name)
	if td.Kind != kObject {
		for _, p := range g.s.possible[td.Name] {
			g.topNorms.add(name + upperFirst(p))
			g.fragNorms.add(name + upperFirst(p))
		}
	}
	return name
}

// prefixClash: generated type names are OperationName+Field+Type... with no
// separator, so top-level names that extend one another can collide;
// avoided unless Adversarial.
func (g *pg) prefixClash(c string) bool {
	if g.o.Adversarial {
		return false
	}
	n := norm(c)
	for _, o := range g.prefixNames {
		on := norm(o)
		if strings.HasPrefix(n, on) || strings.HasPrefix(on, n) {
			return true
		}
	}
	return false
}

// tryFlatten makes the selection of nd exactly one spread of a fragment
// whose type the field type implements, and marks it flatten: true.
func (c *defCtx) tryFlatten(nd *selNode, ft *typeDef, depth int, sub *scope) bool {
	g := c.g
	r := g.r
	// type conditions T with fragmentMatches(ft, T)
	cands := []string{ft.Name}
	cands = append(cands, ft.Implements...)
	if ft.Kind == kObject {
		for _, u := range g.s.unionNames {
			if contains(g.s.types[u].Members, ft.Name) {
				cands = append(cands, u)
			}
		}
	}
	want := ft.Name
	if r.Chance(1, 3) {
		want = proto.Pick(r, cands)
	}
	sp := c.genSpread2(ft, depth, sub, want, true)
	if sp == nil {
		return false
	}
	nd.children = []*selNode{sp}
	nd.genq = append(nd.genq, "flatten: true")
	g.feat("dir:flatten")
	return true
}

// ---------- variables ----------

func compatibleVar(v, pos *tref) bool {
	// mirrors ast.Type.IsCompatible: v may be used where pos is expected
	if v.Elem != nil || pos.Elem != nil {
		if v.Elem == nil || pos.Elem == nil {
			return false
		}
		if pos.NonNull && !v.NonNull {
			return false
		}
		return compatibleVar(v.Elem, pos.Elem)
	}
	if v.Name != pos.Name {
		return false
	}
	return v.NonNull || !pos.NonNull
}

// variableFor returns "$name" of a (new or re-used) variable usable at a
// position of type pos.
func (c *defCtx) variableFor(pos *tref, hint string, posHasDefault bool) string {
	g := c.g
	r := g.r
	if len(c.vars) > 0 && r.Chance(1, 3) {
		var ok []*varDef
		for _, v := range c.vars {
			if compatibleVar(v.Type, pos) {
				ok = append(ok, v)
			}
		}
		if len(ok) > 0 {
			g.feat("variableReuse")
			return "$" + proto.Pick(r, ok).Name
		}
	}
	vt := pos.clone()
	v := &varDef{Type: vt}
	switch {
	case !vt.NonNull && r.Chance(1, 4):
		vt.NonNull = true // stricter than the position
		if g.risky(vt.base()) {
			vt.allNonNull()
		}
	case vt.NonNull && r.Chance(1, 15) && !g.risky(vt.base()):
		// nullable variable with a non-null default is allowed in a non-null position
		vt.NonNull = false
		v.Default = g.literal(vt, 2, litOpts{noNull: true, constOnly: true})
		g.feat("defaultValue")
		g.feat("variable:nullableWithDefault")
	}
	if v.Default == "" && r.Chance(1, 5) {
		v.Default = g.literal(vt, 2, litOpts{noNull: vt.NonNull, constOnly: true})
		g.feat("defaultValue")
	}
	base := strings.TrimLeft(hint, "_")
	if base == "" {
		base = "v"
	}
	if goKeywordSet[base] {
		base += "Arg"
	}
	if g.o.Adversarial && g.risk.varShadow && r.Chance(1, 4) {
		base = proto.Pick(r, advPkgNames)
		g.feat("name:varShadowsPackage")
	} else if g.adv() {
		switch r.Intn(3) {
		case 0:
			base = snakeOf(base)
		case 1:
			base = "_" + base
		default:
			base = upperFirst(base)
		}
		g.feat("name:advVariable")
	}
	ok := func(x string) bool {
		n := norm(x)
		if n == "" || goKeywordSet[x] || helperIdents[x] || c.vnorm[n] {
			return false
		}
		if c.frag != nil {
			return !g.allVarNorms[n]
		}
		return !g.fragVarNorms[n]
	}
	v.Name = g.uniq(base, ok)
	c.vars = append(c.vars, v)
	c.varBy[v.Name] = v
	c.vnorm.add(v.Name)
	g.allVarNorms.add(v.Name)
	if c.frag != nil {
		g.fragVarNorms.add(v.Name)
		g.feat("variableInFragment")
	}
	g.feat("variable")
	if d := vt.listDepth(); d >= 2 {
		g.feat("listDepth" + itoa(d))
	}
	return "$" + v.Name
}

// ---------- operations ----------

func (g *pg) opName(kind string) string {
	r := g.r
	verbs := poolOpVerbQ
	switch kind {
	case "mutation":
		verbs = poolOpVerbM
	case "subscription":
		verbs = poolOpVerbS
	}
	base := proto.Pick(r, verbs) + proto.Pick(r, poolOpNoun)
	if g.adv() {
		switch r.Intn(3) {
		case 0:
			base = snakeOf(base)
			g.feat("name:snakeOperation")
		case 1:
			base = strings.Replace(snakeOf(base), "_", "__", 1)
			g.feat("name:doubleUnderscoreOperation")
		default:
			base = proto.Pick(r, verbs)
			g.feat("name:shortOperation")
		}
	}
	ok := func(c string) bool {
		n := norm(c)
		if goKeywordSet[c] || g.topNorms[n] || g.topNorms[n+"response"] || g.topNorms[n+"operation"] ||
			g.topNorms[n+"input"] || g.topNorms[n+"wsresponse"] || g.topNorms[n+"forwarddata"] {
			return false
		}
		if strings.HasPrefix(c, "__") {
			return false
		}
		return !g.prefixClash(c)
	}
	name := g.uniq(base, ok)
	for _, suf := range []string{"", "Response", "Operation", "Input", "WsResponse", "ForwardData"} {
		g.topNorms.add(name + suf)
	}
	g.prefixNames = append(g.prefixNames, name)
	g.opNames = append(g.opNames, name)
	return name
}

func (g *pg) genOperation(kind string) *defCtx {
	var root *typeDef
	switch kind {
	case "query":
		root = g.s.query
	case "mutation":
		root = g.s.mutation
	case "subscription":
		root = g.s.subscription
	}
	c := g.newDefCtx(kind, g.opName(kind))
	c.root = root
	sc := newScope(nil)
	c.sel = c.genSelSet(root, 1, sc, selMode{top: true, subRoot: kind == "subscription"})
	g.feat("op:" + kind)
	return c
}

// renderDef renders the definition text (without the comment block).
func (c *defCtx) renderDef() string {
	var b strings.Builder
	if c.frag != nil {
		b.WriteString("fragment " + c.name + " on " + c.frag.typeCond + " {\n")
	} else {
		b.WriteString(c.kind + " " + c.name)
		if len(c.vars) > 0 {
			b.WriteString("(\n")
			for _, v := range c.vars {
				for _, q := range v.genq {
					b.WriteString("  # @genqlient(" + q + ")\n")
				}
				b.WriteString("  $" + v.Name + ": " + v.Type.String())
				if v.Default != "" {
					b.WriteString(" = " + v.Default)
				}
				b.WriteString("\n")
			}
			b.WriteString(")")
		}
		b.WriteString(" {\n")
	}
	renderSel(&b, c.sel, "  ")
	b.WriteString("}\n")
	return b.String()
}
