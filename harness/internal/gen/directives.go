package gen

import (
	"strings"

	"verifharness/internal/proto"
)

// optList is an ordered list of @genqlient options.
type optList []struct{ k, v string }

func (o *optList) set(k, v string) {
	for i := range *o {
		if (*o)[i].k == k {
			(*o)[i].v = v
			return
		}
	}
	*o = append(*o, struct{ k, v string }{k, v})
}

func (o optList) get(k string) string {
	for _, e := range o {
		if e.k == k {
			return e.v
		}
	}
	return ""
}

func (o optList) String() string {
	parts := make([]string, len(o))
	for i, e := range o {
		parts[i] = e.k + ": " + e.v
	}
	return strings.Join(parts, ", ")
}

func quote(s string) string { return `"` + s + `"` }

// freshType returns a Go type name that clashes with nothing generated.
func (g *pg) freshType() string {
	g.fresh++
	base := proto.Pick(g.r, []string{"Named", "Custom", "Chosen", "Picked", "Own"}) + "T" + itoa(g.fresh)
	name := g.uniq(base, func(c string) bool { return !g.topNorms.has(c) })
	g.topNorms.add(name)
	return name
}

// freshField returns a Go field name used by nothing else.
func (g *pg) freshField() string {
	g.fresh++
	base := proto.Pick(g.r, []string{"Renamed", "Aka", "GoName", "Shown"}) + "F" + itoa(g.fresh)
	name := g.uniq(base, func(c string) bool { return !g.fieldNorms.has(c) && !g.topNorms.has(c) })
	g.fieldNorms.add(name)
	return name
}

// bindFor picks a sup type that can hold JSON of GraphQL type t.
func (g *pg) bindFor(t *tref) string {
	r := g.r
	if r.Chance(1, 4) {
		return SupPkg + ".Raw"
	}
	var b string
	switch t.base() {
	case "String":
		b = SupPkg + ".Text"
	case "ID":
		b = SupPkg + ".ID"
	case "Int":
		b = SupPkg + ".Count"
	case "Float":
		b = SupPkg + ".Real"
	case "Boolean":
		b = SupPkg + ".Flag"
	default:
		td := g.s.types[t.base()]
		if td != nil && td.spec != nil && !td.spec.custom {
			b = td.spec.bind.Type
		} else {
			return SupPkg + ".Raw"
		}
	}
	return strings.Repeat("[]", t.listDepth()) + b
}

// typenameOK tells whether `typename:` may be put on something of this base
// type, and whether it needs `bind: "-"` next to it.
func (g *pg) typenameOK(base string) (ok, needsUnbind bool) {
	_, bound := g.cfg.Bindings[base]
	td := g.s.types[base]
	if td == nil { // builtin scalar
		return true, bound
	}
	switch td.Kind {
	case kScalar:
		return false, false // custom scalars have global bindings
	default:
		return !bound, false
	}
}

func isScalar(g *pg, base string) bool {
	td := g.s.types[base]
	return td == nil || td.Kind == kScalar
}

// fieldDirective attaches one (sometimes two) valid @genqlient options to a
// field node.
func (c *defCtx) fieldDirective(nd *selNode, f *fieldDef, leaf bool) {
	g := c.g
	r := g.r
	base := f.Type.base()
	var opts optList
	if len(nd.genq) > 0 {
		// already struct / flatten: only orthogonal extras
		if r.Bool() {
			return
		}
		if r.Bool() {
			opts.set("pointer", "true")
			g.feat("dir:pointer")
		} else {
			opts.set("alias", quote(g.freshField()))
			g.feat("dir:alias")
		}
		nd.genq = append(nd.genq, opts.String())
		g.feat("dir:multiLine")
		return
	}
	pick := func() {
		switch x := r.Intn(10); {
		case x < 3:
			opts.set("pointer", "true")
			g.feat("dir:pointer")
		case x < 4:
			opts.set("pointer", "false")
			g.feat("dir:pointerFalse")
		case x < 6:
			opts.set("alias", quote(g.freshField()))
			g.feat("dir:alias")
		case x < 8:
			if ok, unbind := g.typenameOK(base); ok && opts.get("bind") == "" {
				opts.set("typename", quote(g.freshType()))
				if unbind {
					opts.set("bind", quote("-"))
				}
				g.feat("dir:typename")
			}
		default:
			if leaf && isScalar(g, base) && opts.get("typename") == "" {
				opts.set("bind", quote(g.bindFor(f.Type)))
				g.feat("dir:bind")
			}
		}
	}
	pick()
	if r.Chance(1, 5) {
		pick()
		if len(opts) > 1 {
			g.feat("dir:combined")
		}
	}
	if len(opts) == 0 {
		return
	}
	if len(opts) > 1 && r.Chance(1, 3) {
		// one option per comment line
		for _, e := range opts {
			nd.genq = append(nd.genq, e.k+": "+e.v)
		}
		g.feat("dir:multiLine")
		return
	}
	nd.genq = append(nd.genq, opts.String())
}

// outputFor builds `for: "Type.field"` entries for fields selected directly
// in this definition.
func (c *defCtx) outputFor(fors map[string]*optList, order *[]string, max int) {
	g := c.g
	r := g.r
	keys := sortedKeys(c.occ)
	if len(keys) == 0 {
		return
	}
	n := 1 + r.Intn(max)
	for i := 0; i < n; i++ {
		k := proto.Pick(r, keys)
		if fors[k] != nil {
			continue
		}
		nodes := c.occ[k]
		clean := true
		for _, nd := range nodes {
			if len(nd.genq) > 0 || nd.fdef == nil || nd.noDir {
				clean = false
			}
		}
		if !clean {
			continue
		}
		f := nodes[0].fdef
		base := f.Type.base()
		leaf := g.s.isLeaf(base)
		o := &optList{}
		switch x := r.Intn(10); {
		case x < 4:
			o.set("pointer", "true")
		case x < 5:
			o.set("pointer", "false")
		case x < 7 && leaf && isScalar(g, base):
			o.set("bind", quote(g.bindFor(f.Type)))
		case x < 8 && len(nodes) == 1:
			o.set("alias", quote(g.freshField()))
		case len(nodes) == 1:
			if ok, unbind := g.typenameOK(base); ok {
				o.set("typename", quote(g.freshType()))
				if unbind {
					o.set("bind", quote("-"))
				}
			}
		}
		if len(*o) == 0 {
			continue
		}
		fors[k] = o
		*order = append(*order, k)
		g.feat("dir:for")
		g.feat("dir:for:output")
	}
}

// inputFields lists "Type.field" of every input-object field reachable from
// the variables of this operation.
func (c *defCtx) inputFields() (keys []string, defs map[string]*fieldDef) {
	g := c.g
	defs = map[string]*fieldDef{}
	seen := map[string]bool{}
	var visit func(n string)
	visit = func(n string) {
		td := g.s.types[n]
		if td == nil || td.Kind != kInput || seen[n] {
			return
		}
		seen[n] = true
		for _, f := range td.Fields {
			k := n + "." + f.Name
			keys = append(keys, k)
			defs[k] = f
			visit(f.Type.base())
		}
	}
	for _, v := range c.vars {
		visit(v.Type.base())
	}
	return keys, defs
}

// fixInputDirs adds `for:` overrides so that operation-wide omitempty /
// pointer options stay valid on every reachable input field (convert.go
// rejects omitempty on a required field and pointer without omitempty on a
// non-null field).
func (c *defCtx) fixInputDirs(main *optList, fors map[string]*optList, order *[]string) {
	g := c.g
	// a direct self reference must be a pointer, or the Go type is invalid
	if keys, _ := c.inputFields(); len(g.recDirect) > 0 {
		for _, k := range keys {
			if !g.recDirect[k] {
				continue
			}
			ptr := main.get("pointer")
			if fo := fors[k]; fo != nil && fo.get("pointer") != "" {
				ptr = fo.get("pointer")
			}
			auto := g.cfg.Optional == "pointer" || g.cfg.StructReferences
			if ptr == "true" || (auto && ptr == "" && !g.r.Chance(1, 3)) {
				continue
			}
			if fors[k] == nil {
				fors[k] = &optList{}
				*order = append(*order, k)
				g.feat("dir:for")
			}
			fors[k].set("pointer", "true")
			g.feat("dir:for:recursivePointer")
		}
	}
	if g.cfg.StructReferences {
		return // genqlient skips these checks with use_struct_references
	}
	keys, defs := c.inputFields()
	for _, k := range keys {
		if g.recDirect[k] {
			continue
		}
		f := defs[k]
		eff := func(opt string) string {
			if fo := fors[k]; fo != nil && fo.get(opt) != "" {
				return fo.get(opt)
			}
			return main.get(opt)
		}
		override := func(opt, v string) {
			if fors[k] == nil {
				fors[k] = &optList{}
				*order = append(*order, k)
				g.feat("dir:for")
			}
			fors[k].set(opt, v)
			g.feat("dir:for:fixup")
		}
		if eff("omitempty") == "true" && f.Type.NonNull && f.Default == "" {
			override("omitempty", "false")
		}
		ptr := eff("pointer")
		isPtr := ptr != "false" && (ptr == "true" || (!f.Type.NonNull && g.cfg.Optional == "pointer"))
		if f.Type.Elem == nil && f.Type.NonNull && isPtr && eff("omitempty") != "true" {
			override("pointer", "false")
		}
	}
}

// decorateOp chooses operation-level and variable-level directives and
// returns the comment block.
func (c *defCtx) decorateOp() string {
	g := c.g
	r := g.r
	var lines []string
	if r.Chance(1, 6) {
		lines = append(lines, "# "+c.name+" "+proto.Pick(r, []string{"does a thing.", "is generated.", "fetches data;\n# second line of the comment."}))
	}
	if g.o.NoDirectives {
		return joinLines(lines)
	}
	main := &optList{}
	fors := map[string]*optList{}
	var order []string
	if r.Chance(1, 8) {
		main.set("typename", quote(g.freshType()))
		g.feat("dir:typename")
		g.feat("dir:op:typename")
	}
	if len(c.vars) > 0 && r.Chance(1, 6) {
		main.set("omitempty", "true")
		g.feat("dir:omitempty")
		g.feat("dir:op:omitempty")
	}
	if r.Chance(1, 7) {
		main.set("pointer", "true")
		g.feat("dir:pointer")
		g.feat("dir:op:pointer")
	} else if r.Chance(1, 25) {
		main.set("pointer", "false")
	}
	if r.Chance(1, 12) {
		main.set("struct", "true")
		g.feat("dir:struct")
		g.feat("dir:op:struct")
	}
	if r.Chance(1, 20) {
		main.set("flatten", "true")
		g.feat("dir:flatten")
		g.feat("dir:op:flatten")
	}
	if r.Chance(1, 4) {
		c.outputFor(fors, &order, 2)
	}
	// `for:` on input-object fields
	if keys, defs := c.inputFields(); len(keys) > 0 && r.Chance(1, 2) {
		n := 1 + r.Intn(3)
		for i := 0; i < n; i++ {
			k := proto.Pick(r, keys)
			if fors[k] != nil {
				continue
			}
			f := defs[k]
			o := &optList{}
			optional := !f.Type.NonNull || f.Default != ""
			switch x := r.Intn(10); {
			case x < 4 && optional:
				o.set("omitempty", "true")
				g.feat("dir:omitempty")
			case x < 6 && optional:
				o.set("omitempty", "true")
				o.set("pointer", "true")
				g.feat("dir:omitempty")
				g.feat("dir:pointer")
			case x < 7 && !f.Type.NonNull:
				o.set("pointer", "true")
				g.feat("dir:pointer")
			case x < 8:
				o.set("pointer", "false")
			case x < 9 && isScalar(g, f.Type.base()):
				o.set("bind", quote(g.bindFor(f.Type)))
				g.feat("dir:bind")
			default:
				if !f.Type.NonNull {
					o.set("omitempty", "false")
				}
			}
			if len(*o) == 0 {
				continue
			}
			fors[k] = o
			order = append(order, k)
			g.feat("dir:for")
			g.feat("dir:for:input")
		}
	}
	c.fixInputDirs(main, fors, &order)

	// variable-level
	for _, v := range c.vars {
		if !r.Chance(1, 4) {
			continue
		}
		base := v.Type.base()
		o := optList{}
		switch x := r.Intn(10); {
		case x < 3 && !v.Type.NonNull:
			o.set("omitempty", proto.Pick(r, []string{"true", "true", "true", "false"}))
			g.feat("dir:omitempty")
		case x < 5:
			o.set("pointer", "true")
			g.feat("dir:pointer")
			if !v.Type.NonNull && r.Bool() {
				o.set("omitempty", "true")
				g.feat("dir:omitempty")
			}
		case x < 6:
			o.set("pointer", "false")
		case x < 8 && isScalar(g, base):
			o.set("bind", quote(g.bindFor(v.Type)))
			g.feat("dir:bind")
		default:
			if ok, unbind := g.typenameOK(base); ok {
				o.set("typename", quote(g.freshType()))
				if unbind {
					o.set("bind", quote("-"))
				}
				g.feat("dir:typename")
				g.feat("dir:var:typename")
			}
		}
		if len(o) > 0 {
			v.genq = append(v.genq, o.String())
			g.feat("dir:variableLevel")
		}
	}

	if g.risk.invalidDir && !g.usedInvalidDir {
		g.usedInvalidDir = true
		c.injectInvalid(main, fors, &order)
	}

	// render
	if len(*main) > 0 {
		if len(*main) > 1 && r.Chance(1, 2) {
			for _, e := range *main {
				lines = append(lines, "# @genqlient("+e.k+": "+e.v+")")
			}
			g.feat("dir:multiLine")
		} else {
			lines = append(lines, "# @genqlient("+main.String()+")")
		}
		g.feat("dir:operationLevel")
	}
	for _, k := range order {
		lines = append(lines, "# @genqlient(for: "+quote(k)+", "+fors[k].String()+")")
	}
	return joinLines(lines)
}

// decorateFragment chooses fragment-level directives.
func (c *defCtx) decorateFragment() string {
	g := c.g
	r := g.r
	main := &optList{}
	fors := map[string]*optList{}
	var order []string
	if r.Chance(1, 8) {
		main.set("pointer", "true")
		g.feat("dir:pointer")
	}
	if r.Chance(1, 25) {
		main.set("flatten", "true")
		g.feat("dir:flatten")
	}
	if r.Chance(1, 5) {
		c.outputFor(fors, &order, 2)
	}
	var lines []string
	if len(*main) > 0 {
		lines = append(lines, "# @genqlient("+main.String()+")")
		g.feat("dir:fragmentLevel")
	}
	for _, k := range order {
		lines = append(lines, "# @genqlient(for: "+quote(k)+", "+fors[k].String()+")")
		g.feat("dir:fragmentLevel")
	}
	return joinLines(lines)
}

func joinLines(lines []string) string {
	if len(lines) == 0 {
		return ""
	}
	return strings.Join(lines, "\n") + "\n"
}

func (c *defCtx) allFieldNodes() []*selNode {
	var out []*selNode
	var walk func(ns []*selNode)
	walk = func(ns []*selNode) {
		for _, n := range ns {
			if n.kind == selField && n.fdef != nil {
				out = append(out, n)
			}
			walk(n.children)
		}
	}
	walk(c.sel)
	return out
}

// injectInvalid adds exactly one @genqlient placement that
// genqlientDirective.validate (or add) rejects.
func (c *defCtx) injectInvalid(main *optList, fors map[string]*optList, order *[]string) {
	g := c.g
	r := g.r
	nodes := c.allFieldNodes()
	kind := r.Intn(7)
	switch kind {
	case 0:
		if len(nodes) > 0 {
			nd := proto.Pick(r, nodes)
			nd.genq = append(nd.genq, "omitempty: true")
			g.feat("dir:invalid:omitemptyOnField")
		} else {
			kind = 1
		}
	case 3:
		var nn []*varDef
		for _, v := range c.vars {
			if v.Type.NonNull {
				nn = append(nn, v)
			}
		}
		if len(nn) > 0 {
			v := proto.Pick(r, nn)
			v.genq = append(v.genq, "omitempty: true")
			g.feat("dir:invalid:omitemptyOnRequiredVar")
		} else {
			kind = 1
		}
	case 4:
		var cand []*selNode
		for _, nd := range nodes {
			if !g.s.isAbstract(nd.fdef.Type.base()) && !nd.hasGenq("struct") {
				cand = append(cand, nd)
			}
		}
		if len(cand) > 0 {
			nd := proto.Pick(r, cand)
			nd.genq = append(nd.genq, "struct: true")
			g.feat("dir:invalid:structOnNonInterface")
		} else {
			kind = 1
		}
	case 6:
		var cand []*selNode
		for _, nd := range nodes {
			if len(nd.children) == 0 {
				cand = append(cand, nd)
			}
		}
		if len(cand) > 0 {
			nd := proto.Pick(r, cand)
			nd.genq = append(nd.genq, "flatten: true")
			g.feat("dir:invalid:flattenOnLeaf")
		} else {
			kind = 1
		}
	}
	switch kind {
	case 1:
		main.set("bind", quote(SupPkg+".Raw"))
		g.feat("dir:invalid:bindOnOperation")
	case 2:
		k := "NoSuchType.nope"
		fors[k] = &optList{}
		fors[k].set("pointer", "true")
		*order = append(*order, k)
		g.feat("dir:invalid:forUnknownType")
	case 5:
		main.set("frobnicate", "true")
		g.feat("dir:invalid:unknownOption")
	}
	g.feat("dir:invalid")
}
