package gen

import (
	"fmt"
	"regexp"
	"strings"
	"testing"

	"github.com/vektah/gqlparser/v2"
	"github.com/vektah/gqlparser/v2/ast"
)

func validateProgram(p *Program) error {
	var srcs []*ast.Source
	for i, s := range p.Schema {
		srcs = append(srcs, &ast.Source{Name: fmt.Sprintf("schema%d.graphql", i), Input: s})
	}
	schema, err := gqlparser.LoadSchema(srcs...)
	if err != nil {
		return fmt.Errorf("schema: %w", err)
	}
	if _, errs := gqlparser.LoadQuery(schema, p.OperationsText()); errs != nil {
		return fmt.Errorf("query: %w", errs)
	}
	return nil
}

var reSpread = regexp.MustCompile(`(?m)^\s*\.\.\.([A-Za-z_][A-Za-z0-9_]*)`)

func checkShape(t *testing.T, p *Program) {
	t.Helper()
	names := map[string]bool{}
	used := map[string]bool{}
	nOps := 0
	for _, d := range p.Defs {
		if names[d.Name] {
			t.Errorf("seed %d: duplicate definition name %s", p.Seed, d.Name)
		}
		names[d.Name] = true
		if goKeywordSet[d.Name] {
			t.Errorf("seed %d: keyword name %s", p.Seed, d.Name)
		}
		if c := d.Name[0]; !(c >= 'a' && c <= 'z' || c >= 'A' && c <= 'Z') {
			t.Errorf("seed %d: name %q does not start with a letter", p.Seed, d.Name)
		}
		if !strings.HasPrefix(d.Text, d.Kind+" "+d.Name) || !strings.HasSuffix(d.Text, "}\n") {
			t.Errorf("seed %d: bad text framing for %s", p.Seed, d.Name)
		}
		for _, l := range strings.Split(strings.TrimSuffix(d.Comment, "\n"), "\n") {
			if d.Comment != "" && !strings.HasPrefix(l, "#") {
				t.Errorf("seed %d: comment line %q", p.Seed, l)
			}
		}
		if d.Kind != "fragment" {
			nOps++
		}
		// Uses == the set of directly spread fragment names ("... on T" has a space)
		direct := map[string]bool{}
		for _, m := range reSpread.FindAllStringSubmatch(d.Text, -1) {
			direct[m[1]] = true
		}
		if len(direct) != len(d.Uses) {
			t.Errorf("seed %d: %s Uses=%v but text spreads %v", p.Seed, d.Name, d.Uses, direct)
		}
		for _, u := range d.Uses {
			used[u] = true
			if !direct[u] {
				t.Errorf("seed %d: %s lists unused fragment %s", p.Seed, d.Name, u)
			}
		}
		// a directive line is never the last thing in a block
		lines := strings.Split(d.Text, "\n")
		for i, l := range lines {
			if strings.Contains(l, "# @genqlient") && i+1 < len(lines) {
				if nx := strings.TrimSpace(lines[i+1]); nx == "" || nx == "}" {
					t.Errorf("seed %d: directive above nothing in %s", p.Seed, d.Name)
				}
			}
		}
	}
	if nOps == 0 {
		t.Errorf("seed %d: no operations", p.Seed)
	}
	for _, d := range p.Defs {
		if d.Kind == "fragment" && !used[d.Name] {
			t.Errorf("seed %d: fragment %s never used", p.Seed, d.Name)
		}
	}
}

func TestValidByConstruction(t *testing.T) {
	combos := []Options{
		{},
		{Adversarial: true},
		{NoDirectives: true},
		{PlainConfig: true, NoSubscriptions: true},
		{MaxDepth: 1},
		{MaxDepth: 2, MaxTypes: 2, MaxOps: 1, MaxFrags: -1},
		{MaxDepth: 6, MaxFrags: 8, MaxOps: 6, Adversarial: true},
	}
	for ci, o := range combos {
		for seed := uint64(1); seed <= 150; seed++ {
			p := GenerateSeed(seed, o)
			q := GenerateSeed(seed, o)
			if p.OperationsText() != q.OperationsText() || p.SchemaText() != q.SchemaText() || fmt.Sprint(p.Config) != fmt.Sprint(q.Config) || fmt.Sprint(p.Features) != fmt.Sprint(q.Features) {
				t.Fatalf("combo %d seed %d: not deterministic", ci, seed)
			}
			if err := validateProgram(p); err != nil {
				t.Errorf("combo %d seed %d: %v", ci, seed, err)
			}
			checkShape(t, p)
			if o.NoDirectives && strings.Contains(p.OperationsText(), "@genqlient") {
				t.Errorf("combo %d seed %d: directive despite NoDirectives", ci, seed)
			}
			if o.MaxFrags < 0 && strings.Contains(p.OperationsText(), "fragment ") {
				t.Errorf("combo %d seed %d: fragment despite MaxFrags<0", ci, seed)
			}
			if o.NoSubscriptions && strings.Contains(p.SchemaText(), "type Subscription") {
				t.Errorf("combo %d seed %d: subscription despite NoSubscriptions", ci, seed)
			}
			if o.PlainConfig && fmt.Sprint(p.Config) != fmt.Sprint(Config{CasingEnums: map[string]string{}, Bindings: p.Config.Bindings}) {
				t.Errorf("combo %d seed %d: non-plain config %+v", ci, seed, p.Config)
			}
		}
	}
}
