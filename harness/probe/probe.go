// Package probe is linked into the batch binary next to the generated packages: a registry of
// their types and functions plus reflection-driven commands (line protocol on stdin/stdout).
package probe

import (
	"bufio"
	"bytes"
	"context"
	"encoding/json"
	"errors"
	"fmt"
	"os"
	"reflect"
	"runtime/debug"
	"sort"
	"strings"

	"github.com/Khan/genqlient/graphql"
	"verifharness/sup"
)

type pkgReg struct {
	types map[string]reflect.Type // name -> struct/interface/named type (not pointer)
	funcs map[string]reflect.Value
}

var registry = map[string]*pkgReg{}

// Register is called from each generated package's init.
func Register(pkg string, types map[string]any, funcs map[string]any) {
	r := &pkgReg{types: map[string]reflect.Type{}, funcs: map[string]reflect.Value{}}
	for n, p := range types {
		r.types[n] = reflect.TypeOf(p).Elem()
	}
	for n, f := range funcs {
		r.funcs[n] = reflect.ValueOf(f)
	}
	registry[pkg] = r
}

type node = map[string]any

func isOpaque(t reflect.Type) bool {
	// types the generated code treats as leaves: builtins and the bound support types
	if t.PkgPath() == "verifharness/sup" && !strings.HasPrefix(t.Name(), "Option[") {
		return true
	}
	if t.PkgPath() == "verifharness/altsup/sup" || t.PkgPath() == "time" || t.PkgPath() == "encoding/json" {
		return true
	}
	return false
}

// Dump renders a value as a tree that keeps nil-vs-empty, dynamic types and embedded structs.
func Dump(v reflect.Value, depth int) any {
	if depth > 64 {
		return node{"t": "too-deep"}
	}
	if !v.IsValid() {
		return node{"t": "invalid"}
	}
	t := v.Type()
	if isOpaque(t) {
		if st, ok := v.Interface().(sup.Stamp); ok {
			// Stamp has no JSON methods of its own (it is bound with free functions)
			b, _ := sup.MarshalStamp(&st)
			return node{"t": "val", "type": t.String(), "v": json.RawMessage(b), "zero": st.IsZero()}
		}
		b, err := json.Marshal(v.Interface())
		if err != nil {
			return node{"t": "val", "type": t.String(), "err": err.Error()}
		}
		return node{"t": "val", "type": t.String(), "v": json.RawMessage(b), "zero": v.IsZero()}
	}
	switch t.Kind() {
	case reflect.Ptr:
		if v.IsNil() {
			return node{"t": "nil-ptr"}
		}
		return node{"t": "ptr", "v": Dump(v.Elem(), depth+1)}
	case reflect.Slice:
		if v.IsNil() {
			return node{"t": "nil-slice"}
		}
		xs := make([]any, v.Len())
		for i := range xs {
			xs[i] = Dump(v.Index(i), depth+1)
		}
		return node{"t": "slice", "v": xs}
	case reflect.Interface:
		if v.IsNil() {
			return node{"t": "nil-iface"}
		}
		e := v.Elem()
		return node{"t": "iface", "dyn": e.Type().String(), "v": Dump(e, depth+1)}
	case reflect.Struct:
		if strings.HasPrefix(t.Name(), "Option[") {
			set := v.FieldByName("Set")
			if set.IsValid() && !set.Bool() {
				return node{"t": "opt-unset"}
			}
			return node{"t": "opt", "v": Dump(v.FieldByName("V"), depth+1)}
		}
		fs := []any{}
		for i := 0; i < t.NumField(); i++ {
			f := t.Field(i)
			if f.PkgPath != "" && !f.Anonymous {
				continue
			}
			if f.Type.PkgPath() == "github.com/Khan/genqlient/graphql" {
				continue // NoUnmarshalJSON etc.
			}
			fs = append(fs, []any{f.Name, f.Anonymous, f.Tag.Get("json"), Dump(v.Field(i), depth+1)})
		}
		n := node{"t": "struct", "name": t.Name(), "f": fs}
		// getters (value or pointer receiver), zero-argument, one result
		gs := node{}
		pv := v
		if v.CanAddr() && v.CanInterface() {
			pv = v.Addr()
		} else if v.CanInterface() {
			c := reflect.New(t)
			c.Elem().Set(v)
			pv = c
		} else {
			// reached through an unexported (lower-case fragment name) embedded field: reflection may read
			// but not call methods on it; the promoted getters of the outer struct cover it
			return n
		}
		pt := pv.Type()
		for i := 0; i < pt.NumMethod(); i++ {
			m := pt.Method(i)
			if strings.HasPrefix(m.Name, "Get") && m.Type.NumIn() == 1 && m.Type.NumOut() == 1 {
				func() {
					defer func() {
						if r := recover(); r != nil {
							gs[m.Name] = node{"t": "getter-panic", "msg": fmt.Sprint(r)}
						}
					}()
					gs[m.Name] = Dump(pv.Method(i).Call(nil)[0], depth+1)
				}()
			}
		}
		if len(gs) > 0 {
			n["g"] = gs
		}
		return n
	case reflect.Map:
		b, _ := json.Marshal(v.Interface())
		return node{"t": "val", "type": t.String(), "v": json.RawMessage(b), "zero": v.IsNil()}
	default:
		b, err := json.Marshal(v.Interface())
		if err != nil {
			return node{"t": "val", "type": t.String(), "err": err.Error()}
		}
		return node{"t": "val", "type": t.String(), "v": json.RawMessage(b), "zero": v.IsZero()}
	}
}

type recClient struct {
	reqs []*graphql.Request
	resp string
	err  error
}

func (c *recClient) MakeRequest(ctx context.Context, req *graphql.Request, resp *graphql.Response) error {
	c.reqs = append(c.reqs, req)
	if c.err != nil {
		return c.err
	}
	if c.resp != "" {
		return json.Unmarshal([]byte(c.resp), resp)
	}
	return nil
}

var errInjected = errors.New("injected client failure")

func handle(req map[string]any) (out node) {
	out = node{}
	defer func() {
		if r := recover(); r != nil {
			out["panic"] = fmt.Sprint(r)
			out["stack"] = firstLines(string(debug.Stack()), 24)
		}
	}()
	pkg, _ := req["pkg"].(string)
	reg := registry[pkg]
	if reg == nil {
		out["error"] = "unknown package " + pkg
		return
	}
	switch req["cmd"] {
	case "types":
		ns := []string{}
		for n := range reg.types {
			ns = append(ns, n)
		}
		sort.Strings(ns)
		out["types"] = ns
	case "unmarshal":
		tn, _ := req["type"].(string)
		t, ok := reg.types[tn]
		if !ok {
			out["error"] = "unknown type " + tn
			return
		}
		js, _ := req["json"].(string)
		pv := reflect.New(t)
		err := json.Unmarshal([]byte(js), pv.Interface())
		if err != nil {
			out["err"] = err.Error()
			return
		}
		out["dump"] = Dump(pv.Elem(), 0)
		// C06: marshal what was decoded, decode that again, compare
		b, merr := json.Marshal(pv.Interface())
		if merr != nil {
			out["marshalErr"] = merr.Error()
			return
		}
		out["remarshal"] = string(b)
		pv2 := reflect.New(t)
		if err2 := json.Unmarshal(b, pv2.Interface()); err2 != nil {
			out["reunmarshalErr"] = err2.Error()
			return
		}
		out["roundtripEqual"] = reflect.DeepEqual(pv.Interface(), pv2.Interface())
		if !reflect.DeepEqual(pv.Interface(), pv2.Interface()) {
			out["dump2"] = Dump(pv2.Elem(), 0)
		}
	case "call":
		// helper(ctx?, client?, args...) with a recording client; args are JSON texts decoded into the parameter types
		fn, ok := reg.funcs[req["func"].(string)]
		if !ok {
			out["error"] = "unknown func"
			return
		}
		ft := fn.Type()
		rc := &recClient{}
		if s, ok := req["response"].(string); ok {
			rc.resp = s
		}
		if b, _ := req["clientFails"].(bool); b {
			rc.err = errInjected
		}
		getterFails, _ := req["getterFails"].(bool)
		if getterFails {
			sup.SetClient(nil, errInjected)
		} else {
			sup.SetClient(rc, nil)
		}
		argsJ, _ := req["args"].([]any)
		var in []reflect.Value
		ai := 0
		ctxT := reflect.TypeOf((*context.Context)(nil)).Elem()
		clT := reflect.TypeOf((*graphql.Client)(nil)).Elem()
		for i := 0; i < ft.NumIn(); i++ {
			pt := ft.In(i)
			switch {
			case pt == ctxT:
				in = append(in, reflect.ValueOf(context.Background()))
			case pt.Kind() == reflect.Interface && pt.Implements(ctxT):
				in = append(in, reflect.ValueOf(sup.NewMyContext(context.Background(), "x")))
			case pt == clT:
				in = append(in, reflect.ValueOf(rc).Convert(clT))
			default:
				av := reflect.New(pt)
				if ai < len(argsJ) {
					s, _ := argsJ[ai].(string)
					if err := json.Unmarshal([]byte(s), av.Interface()); err != nil {
						out["argErr"] = fmt.Sprintf("arg %d: %v", ai, err)
						return
					}
				}
				ai++
				in = append(in, av.Elem())
			}
		}
		res := fn.Call(in)
		out["nreq"] = len(rc.reqs)
		if len(rc.reqs) > 0 {
			r := rc.reqs[0]
			out["opName"] = r.OpName
			out["query"] = r.Query
			if r.Variables != nil {
				b, err := json.Marshal(r.Variables)
				if err != nil {
					out["varsErr"] = err.Error()
				} else {
					out["vars"] = string(b)
				}
			}
		}
		// results: data_, [ext_], err_
		if len(res) > 0 {
			d := res[0]
			out["dataNil"] = d.Kind() == reflect.Ptr && d.IsNil()
			e := res[len(res)-1]
			if !e.IsNil() {
				out["err"] = e.Interface().(error).Error()
				out["errIsInjected"] = errors.Is(e.Interface().(error), errInjected)
			}
		}
		// parameter types, for the argument generator
	case "sig":
		fn, ok := reg.funcs[req["func"].(string)]
		if !ok {
			out["error"] = "unknown func"
			return
		}
		ft := fn.Type()
		var ps, ks []string
		for i := 0; i < ft.NumIn(); i++ {
			ps = append(ps, ft.In(i).String())
			ks = append(ks, ft.In(i).Kind().String())
		}
		out["params"] = ps
		out["kinds"] = ks
	case "forward":
		fn, ok := reg.funcs[req["func"].(string)]
		if !ok {
			out["error"] = "unknown func"
			return
		}
		// XForwardData(interfaceChan interface{}, jsonRawMsg json.RawMessage) error — with a buffered channel of the right type
		tn, _ := req["chanType"].(string)
		t, ok := reg.types[tn]
		if !ok {
			out["error"] = "unknown chan elem type " + tn
			return
		}
		ch := reflect.MakeChan(reflect.ChanOf(reflect.BothDir, t), 1)
		js, _ := req["json"].(string)
		res := fn.Call([]reflect.Value{ch, reflect.ValueOf(json.RawMessage(js))})
		if !res[0].IsNil() {
			out["err"] = res[0].Interface().(error).Error()
		} else if ch.Len() == 1 {
			v, _ := ch.Recv()
			out["dump"] = Dump(v, 0)
		}
	default:
		out["error"] = "unknown cmd"
	}
	return
}

func firstLines(s string, n int) string {
	l := strings.Split(s, "\n")
	if len(l) > n {
		l = l[:n]
	}
	return strings.Join(l, "\n")
}

// Main is the probe binary's main loop.
func Main() {
	in := bufio.NewReaderSize(os.Stdin, 1<<20)
	w := bufio.NewWriter(os.Stdout)
	for {
		line, err := in.ReadBytes('\n')
		if len(bytes.TrimSpace(line)) > 0 {
			var req map[string]any
			var out node
			if e := json.Unmarshal(line, &req); e != nil {
				out = node{"error": "bad request: " + e.Error()}
			} else {
				out = handle(req)
			}
			b, _ := json.Marshal(out)
			w.Write(b)
			w.WriteByte('\n')
			w.Flush()
		}
		if err != nil {
			return
		}
	}
}
