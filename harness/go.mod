module verifharness

go 1.23

require (
	github.com/Khan/genqlient v0.0.0
	github.com/vektah/gqlparser/v2 v2.5.19
)

require github.com/google/uuid v1.6.0 // indirect

replace github.com/Khan/genqlient => /repo
