module verifharness

go 1.23

require (
	github.com/Khan/genqlient v0.0.0
	github.com/vektah/gqlparser/v2 v2.5.19
)

require (
	github.com/agnivade/levenshtein v1.1.1 // indirect
	github.com/alexflint/go-arg v1.5.1 // indirect
	github.com/alexflint/go-scalar v1.2.0 // indirect
	github.com/bmatcuk/doublestar/v4 v4.6.1 // indirect
	github.com/google/uuid v1.6.0 // indirect
	golang.org/x/mod v0.20.0 // indirect
	golang.org/x/sync v0.8.0 // indirect
	golang.org/x/tools v0.24.0 // indirect
	gopkg.in/yaml.v2 v2.4.0 // indirect
)

replace github.com/Khan/genqlient => /repo
