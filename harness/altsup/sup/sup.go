// Package sup (import path verifharness/altsup/sup) deliberately has the same base name as
// verifharness/sup: binding scalars to both makes the generator allocate numbered import
// aliases, whose numbering must not depend on file enumeration order (C08, C17).
package sup

// Tag is a plain string-kind scalar type.
type Tag string
