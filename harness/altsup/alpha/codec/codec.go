// Package codec (import path verifharness/altsup/alpha/codec) holds (un)marshal functions only; it deliberately
// has the same base name as verifharness/altsup/beta/codec.  Both packages are first needed while the generated
// types are WRITTEN (the templates reference the functions), not while operations are converted, so the numbering
// of their import aliases depends on the order in which types are rendered (C08).
package codec

import "verifharness/sup"

func MarshalStamp(s *sup.Stamp) ([]byte, error) { return sup.MarshalStamp(s) }
func UnmarshalStamp(b []byte, s *sup.Stamp) error { return sup.UnmarshalStamp(b, s) }

// Tag is a type of this package (a target for `bind:`); verifharness/altsup/beta/codec has one of the same name.
type Tag string
