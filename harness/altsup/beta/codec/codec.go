// Package codec (import path verifharness/altsup/beta/codec): see verifharness/altsup/alpha/codec.
package codec

import (
	"encoding/json"

	"verifharness/sup"
)

func MarshalDate(d *sup.Date) ([]byte, error) { return json.Marshal(d) }
func UnmarshalDate(b []byte, d *sup.Date) error { return json.Unmarshal(b, d) }

// Tag is a type of this package (a target for `bind:`); verifharness/altsup/alpha/codec has one of the same name.
type Tag string
