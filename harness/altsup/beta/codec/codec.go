// Package codec (import path verifharness/altsup/beta/codec): see verifharness/altsup/alpha/codec.
package codec

import (
	"encoding/json"

	"verifharness/sup"
)

func MarshalDate(d *sup.Date) ([]byte, error) { return json.Marshal(d) }
func UnmarshalDate(b []byte, d *sup.Date) error { return json.Unmarshal(b, d) }
