#!/bin/bash
# run every claimed check (quick tier) on the current /repo tree and validate evidence + manifest
cd /verif
git -C /repo status --short | grep -v '^??' | head -3
ids=$(python3 -c "import json; print(' '.join(c['property_id'] for c in json.load(open('MANIFEST.json'))['checks']))")
for id in $ids; do
  out=$(VERIF_SEED=${VERIF_SEED:-1} ./check $id 2>&1 | grep -E "^check |^VIOLATION" | tr '\n' ' ')
  echo "$out"
done
python3-vt - <<'PY'
import json,jsonschema,glob
man=json.load(open('/verif/MANIFEST.json'))
jsonschema.validate(man, json.load(open('/root/.vp/MANIFEST.schema.json')))
sch=json.load(open('/root/.vp/EVIDENCE.schema.json'))
for c in man['checks']:
    e=json.load(open(c['evidence_file']))
    jsonschema.validate(e, sch)
    cov=e['coverage']
    assert cov['obligations']==cov['discharged']>=1, (c['property_id'],cov['obligations'],cov['discharged'])
    assert e.get('violations',0)==0, c['property_id']
print('manifest + evidence valid for', len(man['checks']), 'checks')
PY
