#!/bin/bash
# tools/mutrun.sh <patch.diff> <property> [tier] [seed]
# Evaluate one seeded change WITHOUT touching /repo or /verif: scratch worktree of /repo + scratch copy of
# /verif (with its Lean build output) under /tmp, patch applied there, ./check run there with VERIF_REPO.
# Prints the check's summary lines; removes both scratch trees afterwards.
set -u
patch=$(readlink -f "$1"); prop=$2; tier=${3:-quick}; seed=${4:-1}
tag=$(basename $(dirname "$patch"))-$$
R=/tmp/mr-$tag; V=/tmp/mv-$tag
git -C /repo worktree add -q --detach "$R" HEAD || exit 3
mkdir -p "$V"; rsync -a --exclude .cache --exclude replays --exclude .git /verif/ "$V"/
mkdir -p "$V/.cache"
if ! git -C "$R" apply "$patch"; then echo "mutrun: patch does not apply"; rc=3; else
  (cd "$V" && GOCACHE=/tmp/mutrun-gocache VERIF_REPO="$R" VERIF_SEED=$seed ./check "$prop" --tier "$tier" > "$V/.out" 2>&1); rc=$?
  grep -E '^(check |VIOLATION|KNOWN-FINDING)' "$V/.out"
  if [ -n "${MUTRUN_KEEP_REPLAYS:-}" ]; then mkdir -p "$MUTRUN_KEEP_REPLAYS"; cp -r "$V/replays/." "$MUTRUN_KEEP_REPLAYS"/ 2>/dev/null; fi
fi
git -C /repo worktree remove --force "$R"; rm -rf "$V"
exit $rc
