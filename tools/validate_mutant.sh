#!/bin/bash
# tools/validate_mutant.sh <outdir> <seeded-id> <property>
# Confirm a sub-agent's change independently in a fresh scratch worktree: demo passes on the clean tree,
# patch applies, project builds, the existing suite passes, demo fails with the patch.  On success store it as
# /verif/seeded/<seeded-id>/ (patch.diff, demo/, meta.json).
out=$1; id=$2; prop=$3
export GOFLAGS=-mod=mod GOPROXY=off GOSUMDB=off GOTOOLCHAIN=local
W=/tmp/val-$id-$$
git -C /repo worktree add -q --detach $W HEAD || exit 3
(cd $out && bash demo/run.sh $W) > /tmp/val-$id-clean.log 2>&1; clean=$?
git -C $W status --short | grep -q . && { echo "demo left files in the checkout:"; git -C $W status --short; git -C $W checkout -- . ; git -C $W clean -fdq; }
git -C $W apply $out/patch.diff; applied=$?
(cd $W && go build ./... ) > /tmp/val-$id-build.log 2>&1; build=$?
(cd $W && go test -vet=off -count=1 ./... ) > /tmp/val-$id-test.log 2>&1; tests=$?
(cd $out && bash demo/run.sh $W) > /tmp/val-$id-patched.log 2>&1; patched=$?
touched=$(git -C $W diff --name-only | tr '\n' ' ')
git -C /repo worktree remove --force $W
res="$id clean_demo=$clean applied=$applied build=$build tests=$tests patched_demo=$patched files=[$touched]"
echo "$res"
if [ $clean -eq 0 ] && [ $applied -eq 0 ] && [ $build -eq 0 ] && [ $tests -eq 0 ] && [ $patched -ne 0 ]; then
  d=/verif/seeded/$id; rm -rf $d; mkdir -p $d; cp $out/patch.diff $d/; cp -r $out/demo $d/demo
  python3 - "$out/notes.json" "$d/meta.json" "$prop" "$res" <<'PY'
import json,sys
n=json.load(open(sys.argv[1]))
m={"property":sys.argv[3],"breaks":n.get("breaks"),"needs":n.get("needs"),"files_changed":n.get("files_changed"),
   "author":"independent sub-agent given only the property text and a scratch worktree",
   "validated_by_me":{"how":"fresh worktree of /repo HEAD under /tmp: demo/run.sh on the clean tree (exit 0), git apply patch.diff, go build ./..., go test -vet=off -count=1 ./... (all ok), demo/run.sh again (exit != 0)","result":sys.argv[4]},
   "detected_by":"see seeded/RESULTS-*.txt and DESIGN.md §13.5"}
json.dump(m,open(sys.argv[2],"w"),indent=1)
PY
  echo "stored $d"
else
  echo "NOT VALID — see /tmp/val-$id-*.log"; tail -5 /tmp/val-$id-clean.log /tmp/val-$id-test.log /tmp/val-$id-patched.log
fi
