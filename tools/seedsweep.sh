#!/bin/bash
# tools/seedsweep.sh [tier] [jobs] [ids...] — run the owning property's check against every seeded change (scratch copies),
# several at a time; writes seeded/RESULTS-<tier>.txt (one line per change: caught / MISSED + the VIOLATION classes)
cd /verif
tier=${1:-quick}; jobs=${2:-5}; shift 2 2>/dev/null
ids=${@:-$(ls seeded | grep -v RESULTS)}
out=seeded/RESULTS-$tier.txt; tmp=$(mktemp -d)
run1() {
  id=$1; tier=$2; tmp=$3
  prop=$(python3 -c "import json;print(json.load(open('seeded/$id/meta.json'))['property'])")
  stale=$(python3 -c "import json;print(json.load(open('seeded/$id/meta.json')).get('stale',''))")
  if [ -n "$stale" ]; then echo "$id $prop $tier not-applicable :: $stale" > $tmp/$id.line; return; fi
  keep=$tmp/replays-$id
  o=$(MUTRUN_KEEP_REPLAYS=$keep tools/mutrun.sh seeded/$id/patch.diff $prop $tier 2>&1); rc=$?
  cls=$(python3 - "$keep" <<'PY'
import json,glob,sys
c=[]
for f in sorted(glob.glob(sys.argv[1]+'/*.json')):
    j=json.load(open(f)); c.append(j.get('class') or ('broken: '+'; '.join(j.get('no_longer_checks',[]))[:200]))
print(' || '.join(c))
PY
)
  if [ $rc -eq 1 ]; then v=caught; elif [ $rc -eq 0 ]; then v=MISSED; else v="MACHINERY-FAIL($rc)"; fi
  echo "$id $prop $tier $v :: $cls :: $(echo "$o" | grep '^check ' | sed 's/^check //')" > $tmp/$id.line
}
export -f run1
printf '%s\n' $ids | xargs -P $jobs -I{} bash -c "run1 {} $tier $tmp"
cat $tmp/*.line | sort > $out; rm -rf $tmp; cat $out
# the scratch worktrees have unique paths, so their build-cache entries are never reused: drop them
rm -rf /tmp/mutrun-gocache
