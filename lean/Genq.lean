import Genq.Model.Http
import Genq.Props.C11
