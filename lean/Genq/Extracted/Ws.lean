-- regenerated from /repo/graphql/websocket.go and subscription.go by harness/cmd/extract on every run
import Genq.Model.Skel
namespace Genq.Extracted
open Genq.Skel
def wsSkeleton : List Fn := [
  { name := "webSocketClient.sendInit", body := [
      .eff "call w.sendStructAsJSON(connInitMsg)",
      .ret "<call>" ] },
  { name := "webSocketClient.sendStructAsJSON", body := [
      .ite "err != nil"
        [
          .ret "err" ]
        [],
      .eff "call w.conn.WriteMessage(textMessage, jsonBytes)",
      .ret "<call>" ] },
  { name := "webSocketClient.waitForConnAck", body := [
      .loop "for !connAckReceived" [
        .eff "call w.receiveWebSocketConnAck()",
        .ite "err != nil"
          [
            .ret "err" ]
          [],
        .ite "time.Since(start) > websocketConnAckTimeOut"
          [
            .ret "<call>" ]
          [] ],
      .ret "nil" ] },
  { name := "webSocketClient.handleErr", body := [
      .eff "call w.Lock()",
      .eff "defer w.Unlock()",
      .ite "!w.isClosing"
        [
          .eff "call verifYield(\"handleErr.send\")",
          .eff "send w.errChan" ]
        [] ] },
  { name := "webSocketClient.closing", body := [
      .eff "call w.Lock()",
      .eff "defer w.Unlock()",
      .ret "<expr>" ] },
  { name := "webSocketClient.listenWebSocket", body := [
      .eff "defer verifYield(\"listen.exit\")",
      .loop "for" [
        .eff "call w.closing()",
        .ite "w.closing()"
          [
            .ret "" ]
          [],
        .eff "call w.conn.ReadMessage()",
        .ite "err != nil"
          [
            .eff "call w.handleErr(err)",
            .ret "" ]
          [],
        .eff "call w.forwardWebSocketData(message)",
        .ite "err != nil"
          [
            .eff "call w.handleErr(err)",
            .ret "" ]
          [] ] ] },
  { name := "webSocketClient.forwardWebSocketData", body := [
      .ite "err != nil"
        [
          .ret "err" ]
        [],
      .eff "call w.subscriptions.Read(wsMsg.ID)",
      .ite "!ok"
        [
          .ret "<call>" ]
        [],
      .ite "sub.hasBeenUnsubscribed"
        [
          .ret "nil" ]
        [],
      .ite "wsMsg.Type == webSocketTypeComplete"
        [
          .eff "call w.subscriptions.Unsubscribe(wsMsg.ID)",
          .ret "<call>" ]
        [],
      .eff "call sub.forwardDataFunc(sub.interfaceChan, wsMsg.Payload)",
      .ret "<call>" ] },
  { name := "webSocketClient.receiveWebSocketConnAck", body := [
      .eff "call w.conn.ReadMessage()",
      .ite "err != nil"
        [
          .ret "false, err" ]
        [],
      .ret "<call>" ] },
  { name := "webSocketClient.Start", body := [
      .eff "call w.Dialer.DialContext(ctx, w.endpoint, w.header)",
      .eff "set w.conn",
      .ite "err != nil"
        [
          .ret "nil, err" ]
        [],
      .eff "call w.sendInit()",
      .ite "err != nil"
        [
          .eff "call w.conn.Close()",
          .ret "nil, err" ]
        [],
      .eff "call w.waitForConnAck()",
      .ite "err != nil"
        [
          .eff "call w.conn.Close()",
          .ret "nil, err" ]
        [],
      .eff "go w.listenWebSocket()",
      .ret "<expr>, err" ] },
  { name := "webSocketClient.Close", body := [
      .ite "w.conn == nil"
        [
          .ret "nil" ]
        [],
      .eff "call w.UnsubscribeAll()",
      .ite "err != nil"
        []
        [],
      .eff "call w.conn.WriteMessage(closeMessage, formatCloseMessage(closeNormalClosure, \"\"))",
      .ite "err != nil && firstErr == nil"
        []
        [],
      .eff "call w.Lock()",
      .eff "defer w.Unlock()",
      .eff "set w.isClosing",
      .eff "call close(w.errChan)",
      .eff "call w.conn.Close()",
      .ite "err != nil && firstErr == nil"
        []
        [],
      .ret "firstErr" ] },
  { name := "webSocketClient.Subscribe", body := [
      .ite "req.Query != \"\""
        [
          .ite "strings.HasPrefix(strings.TrimSpace(req.Query), \"query\")"
            [
              .ret "<expr>, <call>" ]
            [],
          .ite "strings.HasPrefix(strings.TrimSpace(req.Query), \"mutation\")"
            [
              .ret "<expr>, <call>" ]
            [] ]
        [],
      .eff "call w.subscriptions.Create(subscriptionID, interfaceChan, forwardDataFunc)",
      .eff "call w.sendStructAsJSON(subscriptionMsg)",
      .ite "err != nil"
        [
          .eff "call w.subscriptions.Delete(subscriptionID)",
          .ret "<expr>, err" ]
        [],
      .ret "<expr>, nil" ] },
  { name := "webSocketClient.Unsubscribe", body := [
      .eff "call w.sendStructAsJSON(completeMsg)",
      .ite "err != nil"
        [
          .ret "err" ]
        [],
      .eff "call w.subscriptions.Unsubscribe(subscriptionID)",
      .ite "err != nil"
        [
          .ret "err" ]
        [],
      .ret "nil" ] },
  { name := "webSocketClient.UnsubscribeAll", body := [
      .eff "call w.subscriptions.GetAllIDs()",
      .loop "range subscriptionIDs" [
        .eff "call w.Unsubscribe(subscriptionID)",
        .ite "err != nil"
          [
            .ret "err" ]
          [] ],
      .ret "nil" ] } ]

def subMapSkeleton : List Fn := [
  { name := "subscriptionMap.Create", body := [
      .eff "call s.Lock()",
      .eff "defer s.Unlock()",
      .eff "set s.map_[subscriptionID]" ] },
  { name := "subscriptionMap.Read", body := [
      .eff "call s.RLock()",
      .eff "defer s.RUnlock()",
      .ret "<expr>, <expr>" ] },
  { name := "subscriptionMap.Unsubscribe", body := [
      .eff "call s.Lock()",
      .eff "defer s.Unlock()",
      .ite "!success"
        [
          .ret "<call>" ]
        [],
      .ite "unsub.hasBeenUnsubscribed"
        [
          .ret "nil" ]
        [],
      .eff "set unsub.hasBeenUnsubscribed",
      .eff "set s.map_[subscriptionID]",
      .eff "call reflect.ValueOf(s.map_[subscriptionID].interfaceChan).Close()",
      .ret "nil" ] },
  { name := "subscriptionMap.GetAllIDs", body := [
      .eff "call s.RLock()",
      .eff "defer s.RUnlock()",
      .loop "range s.map_" [
        .ite "sub.hasBeenUnsubscribed"
          [
            .eff "continue" ]
          [] ],
      .ret "<expr>" ] },
  { name := "subscriptionMap.Delete", body := [
      .eff "call s.Lock()",
      .eff "defer s.Unlock()",
      .eff "call delete(s.map_, subscriptionID)" ] } ]

/-- capacity of the error channel created in NewClientUsingWebSocket -/
def errChanCap : Nat := 1
end Genq.Extracted
