-- regenerated from /repo/generate/{unmarshal,unmarshal_helper,marshal,marshal_helper}.go.tmpl and types.go by harness/cmd/extract on every run
import Genq.Model.Skel
namespace Genq.Extracted
open Genq.Skel
def unmarshalTmpl : List String := [
  "func (v *{{.GoName}}) UnmarshalJSON(b []byte) error {",
  "if string(b) == \"null\" {",
  "return nil",
  "}",
  "var firstPass struct{",
  "*{{.GoName}}",
  "{{range .Fields -}}",
  "{{if and .NeedsMarshaling (not .IsEmbedded) -}}",
  "{{.GoName}} {{repeat .GoType.SliceDepth \"[]\"}}{{ref \"encoding/json.RawMessage\"}} `json:\"{{.JSONName}}\"`",
  "{{end -}}",
  "{{end -}}",
  "{{ref \"github.com/Khan/genqlient/graphql.NoUnmarshalJSON\"}}",
  "}",
  "firstPass.{{.GoName}} = v",
  "err := {{ref \"encoding/json.Unmarshal\"}}(b, &firstPass)",
  "if err != nil {",
  "return err",
  "}",
  "{{range $field := .Fields -}}",
  "{{if $field.NeedsMarshaling -}}",
  "{{if $field.IsEmbedded -}}",
  "err = {{$field.Unmarshaler $.Generator}}(",
  "b, &v.{{$field.GoType.Unwrap.Reference}})",
  "if err != nil {",
  "return err",
  "}",
  "{{else -}}",
  "{",
  "dst := &v.{{$field.GoName}}",
  "src := firstPass.{{$field.GoName}}",
  "{{range $i := intRange $field.GoType.SliceDepth -}}",
  "*dst = make(",
  "{{repeat (sub $field.GoType.SliceDepth $i) \"[]\"}}{{if $field.GoType.IsPointer}}*{{end}}{{$field.GoType.Unwrap.Reference}},",
  "len(src))",
  "for i, src := range src {",
  "dst := &(*dst)[i]",
  "{{end -}}",
  "if len(src) != 0 && string(src) != \"null\" {",
  "{{if $field.GoType.IsPointer -}}",
  "*dst = new({{$field.GoType.Unwrap.Reference}})",
  "{{end -}}",
  "err = {{$field.Unmarshaler $.Generator}}(",
  "src, {{if $field.GoType.IsPointer}}*{{end}}dst)",
  "if err != nil {",
  "return fmt.Errorf(",
  "\"unable to unmarshal {{$.GoName}}.{{$field.GoName}}: %w\", err)",
  "}",
  "}",
  "{{range $i := intRange $field.GoType.SliceDepth -}}",
  "}",
  "{{end -}}",
  "}",
  "{{end}}",
  "{{end}}",
  "{{end}}",
  "return nil",
  "}"
]

def unmarshalHelperTmpl : List String := [
  "func __unmarshal{{.GoName}}(b []byte, v *{{.GoName}}) error {",
  "if string(b) == \"null\" {",
  "return nil",
  "}",
  "var tn struct {",
  "TypeName string `json:\"__typename\"`",
  "}",
  "err := {{ref \"encoding/json.Unmarshal\"}}(b, &tn)",
  "if err != nil {",
  "return err",
  "}",
  "switch tn.TypeName {",
  "{{range .Implementations -}}",
  "case \"{{.GraphQLName}}\":",
  "*v = new({{.GoName}})",
  "return {{ref \"encoding/json.Unmarshal\"}}(b, *v)",
  "{{end -}}",
  "case \"\":",
  "return {{ref \"fmt.Errorf\"}}(",
  "\"response was missing {{.GraphQLName}}.__typename\")",
  "default:",
  "return {{ref \"fmt.Errorf\"}}(",
  "`unexpected concrete type for {{.GoName}}: \"%v\"`, tn.TypeName)",
  "}",
  "}"
]

def marshalTmpl : List String := [
  "type __premarshal{{.GoName}} struct{",
  "{{range .FlattenedFields -}}",
  "{{if .NeedsMarshaling -}}",
  "{{.GoName}} {{repeat .GoType.SliceDepth \"[]\"}}{{ref \"encoding/json.RawMessage\"}} `json:\"{{.JSONName}}{{if .Omitempty -}},omitempty{{end}}\"`",
  "{{else}}",
  "{{.GoName}} {{.GoType.Reference}} `json:\"{{.JSONName}}{{if .Omitempty -}},omitempty{{end}}\"`",
  "{{end}}",
  "{{end}}",
  "}",
  "func (v *{{.GoName}}) MarshalJSON() ([]byte, error) {",
  "premarshaled, err := v.__premarshalJSON()",
  "if err != nil {",
  "return nil, err",
  "}",
  "return json.Marshal(premarshaled)",
  "}",
  "func (v *{{.GoName}}) __premarshalJSON() (*__premarshal{{.GoName}}, error) {",
  "var retval __premarshal{{.GoName}}",
  "{{range $field := .FlattenedFields -}}",
  "{{if $field.NeedsMarshaling -}}",
  "{",
  "dst := &retval.{{$field.GoName}}",
  "src := v.{{$field.Selector}}",
  "{{range $i := intRange $field.GoType.SliceDepth -}}",
  "*dst = make(",
  "{{repeat (sub $field.GoType.SliceDepth $i) \"[]\"}}{{ref \"encoding/json.RawMessage\"}},",
  "len(src))",
  "for i, src := range src {",
  "dst := &(*dst)[i]",
  "{{end -}}",
  "{{if $field.GoType.IsPointer -}}",
  "if src != nil {",
  "{{end -}}",
  "var err error",
  "*dst, err = {{$field.Marshaler $.Generator}}(",
  "{{if not $field.GoType.IsPointer}}&{{end}}src)",
  "if err != nil {",
  "return nil, fmt.Errorf(",
  "\"unable to marshal {{$.GoName}}.{{$field.Selector}}: %w\", err)",
  "}",
  "{{if $field.GoType.IsPointer -}}",
  "}",
  "{{end -}}",
  "{{range $i := intRange $field.GoType.SliceDepth -}}",
  "}",
  "{{end -}}",
  "}",
  "{{else -}}",
  "retval.{{$field.GoName}} = v.{{$field.Selector}}",
  "{{end -}}",
  "{{end -}}",
  "return &retval, nil",
  "}"
]

def marshalHelperTmpl : List String := [
  "func __marshal{{.GoName}}(v *{{.GoName}}) ([]byte, error) {",
  "var typename string",
  "switch v := (*v).(type) {",
  "{{range .Implementations -}}",
  "case *{{.GoName}}:",
  "typename = \"{{.GraphQLName}}\"",
  "{{if .NeedsMarshaling -}}",
  "premarshaled, err := v.__premarshalJSON()",
  "if err != nil {",
  "return nil, err",
  "}",
  "result := struct {",
  "TypeName string `json:\"__typename\"`",
  "*__premarshal{{.GoName}}",
  "}{typename, premarshaled}",
  "{{else -}}",
  "result := struct {",
  "TypeName string `json:\"__typename\"`",
  "*{{.GoName}}",
  "}{typename, v}",
  "{{end -}}",
  "return json.Marshal(result)",
  "{{end -}}",
  "case nil:",
  "return []byte(\"null\"), nil",
  "default:",
  "return nil, {{ref \"fmt.Errorf\"}}(",
  "`unexpected concrete type for {{.GoName}}: \"%T\"`, v)",
  "}",
  "}"
]

def flattenedFieldsSkeleton : List Fn := [
  { name := "goStructType.FlattenedFields", body := [
      .loop "range typ.Fields" [
        .eff "call field.Selector()",
        .eff "set queue[i]" ],
      .loop "for len(queue) > 0" [
        .eff "call field.IsEmbedded()",
        .ite "field.IsEmbedded()"
          [
            .ite "!ok"
              [
                .ret "nil, <call>" ]
              [],
            .loop "range structField.Fields" [
              .eff "call subField.Selector()" ],
            .eff "continue" ]
          [],
        .ite "seenJSONNames[field.JSONName]"
          [
            .eff "continue" ]
          [],
        .eff "set seenJSONNames[field.JSONName]" ],
      .ret "<expr>, nil" ] },
  { name := "goStructType.WriteDefinition", body := [
      .eff "call structDescription(typ)",
      .eff "call writeDescription(w, structDescription(typ))",
      .eff "call fmt.Fprintf(w, \"type %s struct {\\n\", typ.GoName)",
      .loop "range typ.Fields" [
        .eff "call writeDescription(w, field.Description)",
        .ite "field.Omitempty"
          []
          [],
        .eff "call field.NeedsMarshaling()",
        .ite "field.NeedsMarshaling()"
          []
          [],
        .eff "call field.GoType.Reference()",
        .eff "call fmt.Fprintf(w, \"\\t%s %s `json:%s`\\n\", field.GoName, field.GoType.Reference(), jsonTag)" ],
      .eff "call fmt.Fprintf(w, \"}\\n\")",
      .eff "call typ.FlattenedFields()",
      .ite "err != nil"
        [
          .ret "err" ]
        [],
      .loop "range flattened" [
        .eff "call writeDescription(w, description)",
        .eff "call field.GoType.Reference()",
        .eff "call fmt.Fprintf(w, \"func (v *%s) Get%s() %s { return v.%s }\\n\", typ.GoName, field.GoName, field.GoType.Reference(), field.Selector)" ],
      .eff "call typ.NeedsMarshaling()",
      .ite "typ.NeedsMarshaling()"
        [
          .eff "call g.render(\"unmarshal.go.tmpl\", w, typ)",
          .ite "err != nil"
            [
              .ret "err" ]
            [],
          .eff "call g.render(\"marshal.go.tmpl\", w, typ)",
          .ite "err != nil"
            [
              .ret "err" ]
            [] ]
        [],
      .ret "nil" ] },
  { name := "goStructType.NeedsMarshaling", body := [
      .loop "range typ.Fields" [
        .eff "call f.NeedsMarshaling()",
        .ite "f.NeedsMarshaling()"
          [
            .ret "true" ]
          [] ],
      .ret "false" ] },
  { name := "goStructField.NeedsMarshaling", body := [
      .eff "call field.marshaler()",
      .eff "call field.unmarshaler()",
      .ret "<expr>" ] },
  { name := "goInterfaceType.WriteDefinition", body := [
      .eff "call interfaceDescription(typ)",
      .eff "call writeDescription(w, interfaceDescription(typ))",
      .eff "call fmt.Fprintf(w, \"type %s interface {\\n\", typ.GoName)",
      .eff "call fmt.Fprintf(w, \"\\t%s()\\n\", implementsMethodName)",
      .loop "range typ.SharedFields" [
        .ite "sharedField.GoName == \"\""
          [
            .eff "call sharedField.GoType.Reference()",
            .eff "call fmt.Fprintf(w, \"\\t%s\\n\", sharedField.GoType.Reference())",
            .eff "continue" ]
          [],
        .ite "sharedField.GraphQLName == \"__typename\""
          []
          [
            .ite "sharedField.Description != \"\""
              []
              [] ],
        .eff "call writeDescription(w, description)",
        .eff "call sharedField.GoType.Reference()",
        .eff "call fmt.Fprintf(w, \"\\t%s() %s\\n\", methodName, sharedField.GoType.Reference())" ],
      .eff "call fmt.Fprintf(w, \"}\\n\")",
      .loop "range typ.Implementations" [
        .eff "call impl.Reference()",
        .eff "call fmt.Fprintf(w, \"func (v *%s) %s() {}\\n\", impl.Reference(), implementsMethodName)" ],
      .eff "call g.render(\"unmarshal_helper.go.tmpl\", w, typ)",
      .ite "err != nil"
        [
          .ret "err" ]
        [],
      .eff "call g.render(\"marshal_helper.go.tmpl\", w, typ)",
      .ret "<call>" ] } ]
end Genq.Extracted
