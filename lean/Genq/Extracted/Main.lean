-- regenerated from /repo/generate/main.go by harness/cmd/extract on every run
import Genq.Model.Main
namespace Genq.Extracted
open Genq.Main
def mainSkeleton : List Stmt := [
    .ifElse "configFilename != \"\""
      [
        .call .readConfig,
        .ifErrReturn ]
      [
        .call .readConfigDefault,
        .ifErrReturn ],
    .call .generate,
    .ifErrReturn,
    .rangeGenerated [
      .call .mkdirAll,
      .ifErrReturn,
      .call .writeFile,
      .ifErrReturn ],
    .retNil ]
def writeEffectFns : List String := ["initConfig", "readConfigGenerateAndWrite"]
end Genq.Extracted
