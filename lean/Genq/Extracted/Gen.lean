-- regenerated from /repo/generate/parse.go and generate.go by harness/cmd/extract on every run
import Genq.Model.Skel
namespace Genq.Extracted
open Genq.Skel
def expandFilenamesSkeleton : List Fn := [
  { name := "expandFilenames", body := [
      .loop "range globs" [
        .eff "call doublestar.Glob(os.DirFS(base), pattern, doublestar.WithFilesOnly())",
        .ite "err != nil"
          [
            .ret "nil, <call>" ]
          [],
        .ite "len(matches) == 0"
          [
            .ret "nil, <call>" ]
          [],
        .loop "range matches" [
          .eff "set uniqFilenames[path.Join(base, match)]" ] ],
      .loop "range uniqFilenames" [],
      .eff "call sort.Strings(filenames)",
      .ret "<expr>, nil" ] } ]

def writeTypesSkeleton : List Fn := [
  { name := "generator.WriteTypes", body := [
      .loop "range g.typeMap" [],
      .eff "call sort.Strings(names)",
      .loop "range names" [
        .eff "call g.typeMap[name].WriteDefinition(w, g)",
        .ite "err != nil"
          [
            .ret "err" ]
          [],
        .eff "call io.WriteString(w, \"\\n\\n\")",
        .ite "err != nil"
          [
            .ret "err" ]
          [] ],
      .ret "nil" ] } ]

def parsePrecedingCommentSkeleton : List Fn := [
  { name := "generator.parsePrecedingComment", body := [
      .eff "call newGenqlientDirective(pos)",
      .ite "pos != nil && pos.Src != nil"
        [
          .eff "call strings.NewReplacer(\"\\r\\n\", \"\\n\", \"\\r\", \"\\n\")",
          .eff "call strings.NewReplacer(\"\\r\\n\", \"\\n\", \"\\r\", \"\\n\").Replace(pos.Src.Input)",
          .eff "call strings.Split( strings.NewReplacer(\"\\r\\n\", \"\\n\", \"\\r\", \"\\n\").Replace(pos.Src.Input), \"\\n\")",
          .loop "for i > 0; i--" [
            .eff "call strings.TrimPrefix(line, \"#\")",
            .ite "strings.HasPrefix(line, \"# @genqlient\")"
              [
                .eff "call parseDirective(trimmed, pos)",
                .ite "err != nil"
                  [
                    .ret "<expr>, nil, err" ]
                  [],
                .eff "call directive.add(graphQLDirective, pos)",
                .ite "err != nil"
                  [
                    .ret "<expr>, nil, err" ]
                  [] ]
              [
                .ite "strings.HasPrefix(line, \"#\")"
                  []
                  [
                    .eff "break" ] ] ] ]
        [],
      .ite "hasDirective"
        [
          .eff "call directive.validate(node, g.schema)",
          .ite "err != nil"
            [
              .ret "<expr>, nil, err" ]
            [] ]
        [],
      .ite "queryOptions != nil"
        [
          .eff "call directive.mergeOperationDirective(node, parentIfInputField, queryOptions)",
          .ite "directive.TypeName != \"\" && directive.Bind != \"\" && directive.Bind != \"-\""
            [
              .ret "<expr>, nil, <call>" ]
            [] ]
        [],
      .eff "call reverse(commentLines)",
      .eff "call strings.Join(commentLines, \"\\n\")",
      .ret "<call>, <expr>, nil" ] } ]
end Genq.Extracted
