-- regenerated from /repo/generate/parse.go and generate.go by harness/cmd/extract on every run
import Genq.Model.Skel
namespace Genq.Extracted
open Genq.Skel
def expandFilenamesSkeleton : List Fn := [
  { name := "expandFilenames", body := [
      .loop "range globs" [
        .eff "call doublestar.Glob(os.DirFS(base), pattern, doublestar.WithFilesOnly())",
        .ite "err != nil"
          [
            .ret "nil, <call>" ]
          [],
        .ite "len(matches) == 0"
          [
            .ret "nil, <call>" ]
          [],
        .loop "range matches" [
          .eff "set uniqFilenames[path.Join(base, match)]" ] ],
      .loop "range uniqFilenames" [],
      .eff "call sort.Strings(filenames)",
      .ret "<expr>, nil" ] } ]

def writeTypesSkeleton : List Fn := [
  { name := "generator.WriteTypes", body := [
      .loop "range g.typeMap" [],
      .eff "call sort.Strings(names)",
      .loop "range names" [
        .eff "call g.typeMap[name].WriteDefinition(w, g)",
        .ite "err != nil"
          [
            .ret "err" ]
          [],
        .eff "call io.WriteString(w, \"\\n\\n\")",
        .ite "err != nil"
          [
            .ret "err" ]
          [] ],
      .ret "nil" ] } ]
end Genq.Extracted
