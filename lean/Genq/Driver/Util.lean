import Lean.Data.Json
open Lean
namespace Genq.Driver

def hexVal (c : Char) : Option Nat :=
  if '0' ≤ c ∧ c ≤ '9' then some (c.toNat - 48)
  else if 'a' ≤ c ∧ c ≤ 'f' then some (c.toNat - 87)
  else if 'A' ≤ c ∧ c ≤ 'F' then some (c.toNat - 55)
  else none

def unhexStr (s : String) : Except String (List Nat) :=
  let rec go : List Char → Except String (List Nat)
    | [] => .ok []
    | [_] => .error "odd hex"
    | a :: b :: r =>
      match hexVal a, hexVal b, go r with
      | some x, some y, .ok t => .ok ((x * 16 + y) :: t)
      | _, _, .error e => .error e
      | _, _, _ => .error "bad hex"
  go s.toList

def hexChar (n : Nat) : Char := if n < 10 then Char.ofNat (48 + n) else Char.ofNat (87 + n)

def hexStr (bs : List Nat) : String :=
  String.ofList (bs.flatMap fun b => [hexChar (b / 16), hexChar (b % 16)])

def getStr (j : Json) (k : String) : Except String String := j.getObjValAs? String k
def getNat (j : Json) (k : String) : Except String Nat := j.getObjValAs? Nat k
def getBool (j : Json) (k : String) : Except String Bool := j.getObjValAs? Bool k
def getArr (j : Json) (k : String) : Except String (Array Json) := do
  let v ← j.getObjVal? k
  v.getArr?

def getHex (j : Json) (k : String) : Except String (List Nat) := do
  unhexStr (← getStr j k)

/-- optional hex field: JSON null / absent ↦ none -/
def getHexOpt (j : Json) (k : String) : Except String (Option (List Nat)) :=
  match j.getObjVal? k with
  | .error _ => .ok none
  | .ok .null => .ok none
  | .ok (.str s) => (unhexStr s).map some
  | .ok _ => .error s!"{k}: expected hex string or null"

/-- string field as code points -/
def getCps (j : Json) (k : String) : Except String (List Nat) := do
  return (← getStr j k).toList.map Char.toNat

def chars (s : String) : List Char := s.toList
def str (cs : List Char) : String := String.ofList cs

end Genq.Driver
