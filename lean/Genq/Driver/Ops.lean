import Lean.Data.Json
import Genq.Driver.Util
import Genq.Model.Http
import Genq.Model.HttpResp
import Genq.Model.Names
import Genq.Model.TypeNames
import Genq.Model.Main
import Genq.Model.Ws
import Genq.Model.Doc
import Genq.Model.Files
import Genq.Model.Config
import Genq.Model.Conv
import Genq.Model.Types
import Genq.Model.Collect
import Genq.Model.CollectSpread
import Genq.Model.Vars
import Genq.Model.TypeMap
import Genq.Model.Imports
import Genq.Model.Codec
import Genq.Model.InputClosure
import Genq.Model.CodecIn
import Genq.Model.Errors
import Genq.Model.Lines
import Genq.Model.DirApply
open Lean
namespace Genq.Driver

def gateStr : Http.Gate → String
  | .pass => "pass" | .refuseQuery => "refuseQuery"
  | .refuseMutation => "refuseMutation" | .refuseSubscription => "refuseSubscription"

def opHttp (op : String) (j : Json) : Except String Json := do
  match op with
  | "http.escape" => return Json.mkObj [("out", hexStr (Http.queryEscape (← getHex j "s")))]
  | "http.unescape" =>
    match Http.queryUnescape (← getHex j "s") with
    | some r => return Json.mkObj [("out", hexStr r)]
    | none => return Json.mkObj [("out", Json.null)]
  | "http.parseQuery" =>
    let ps := Http.parseQuery (← getHex j "s")
    return Json.mkObj [("out", Json.arr (ps.map fun kv => Json.arr #[hexStr kv.1, hexStr kv.2]).toArray)]
  | "http.gate" =>
    let m ← match (← getStr j "method") with
      | "GET" => pure Http.Method.get | "POST" => pure Http.Method.post | "WS" => pure Http.Method.ws
      | m => throw s!"method {m}"
    return Json.mkObj [("out", gateStr (Http.kindGate m (← getCps j "q")))]
  | "http.getRawQuery" =>
    let r := Http.getRawQuery (← getHex j "existing") (← getHex j "query") (← getHex j "opName") (← getHexOpt j "vars")
    return Json.mkObj [("out", hexStr r)]
  | _ => throw s!"unknown op {op}"

def opResp (op : String) (j : Json) : Except String Json := do
  match op with
  | "resp.classify" =>
    let r ← if (← getBool j "transport") then pure HttpResp.DoResult.transportErr else do
      let b : HttpResp.BodyFacts := {
        readAllFails := (← getBool j "readAllFails"), unmarshalOk := (← getBool j "unmarshalOk"),
        unmarshalErrors := (← getBool j "unmarshalErrors"), decodeOk := (← getBool j "decodeOk"),
        decodeErrors := (← getBool j "decodeErrors") }
      pure (HttpResp.DoResult.resp (← getNat j "status") b)
    let run := HttpResp.makeRequest r
    let (o, st, c) : String × Nat × String := match run.outcome with
      | .transport => ("transport", 0, "")
      | .httpError s (.decoded e) => ("httpError", s, if e then "decoded+errors" else "decoded")
      | .httpError s .rawText => ("httpError", s, "rawText")
      | .httpError s .unreadableText => ("httpError", s, "unreadableText")
      | .decodeError => ("decodeError", 0, "")
      | .gqlErrors => ("gqlErrors", 0, "")
      | .ok => ("ok", 0, "")
    return Json.mkObj [("outcome", o), ("status", st), ("carry", c), ("closes", run.closes), ("dataDecoded", run.dataDecoded)]
  | "resp.helper" =>
    let g : Option Bool := match j.getObjVal? "getterFails" with
      | .ok (.bool b) => some b
      | _ => none
    let h := HttpResp.helper g .transportErr
    return Json.mkObj [("dataNonNil", h.dataNonNil), ("errUnchanged", h.errUnchanged), ("requests", h.requests)]
  | _ => throw s!"unknown op {op}"

def parseCasing (s : String) : Except String (Option Names.Casing) :=
  match s with
  | "" => .ok none
  | "default" => .ok (some .default)
  | "raw" => .ok (some .raw)
  | "auto_camel_case" => .ok (some .autoCamelCase)
  | s => .error s!"casing {s}"

def asciiName (s : String) : Except String (List Char) :=
  if s.toList.all (fun c => c.isAlphanum || c == '_') then .ok s.toList else .error s!"non-ASCII-identifier name {s}"

def getCasingCfg (j : Json) : Except String Names.CasingCfg := do
  let d ← parseCasing ((j.getObjValAs? String "casingDefault").toOption.getD "")
  let a ← parseCasing ((j.getObjValAs? String "casingAllEnums").toOption.getD "")
  let es ← match j.getObjVal? "casingEnums" with
    | .ok (.obj kvs) => kvs.toList.mapM fun (k, v) => do
        let c ← parseCasing (← v.getStr?)
        match c with
        | some c => pure (k.toList, c)
        | none => throw "empty per-enum casing"
    | _ => pure []
  return { default := d, allEnums := a, enums := es }

def opNames (op : String) (j : Json) : Except String Json := do
  match op with
  | "names.enum" =>
    let cfg ← getCasingCfg j
    let gql ← asciiName (← getStr j "gqlName")
    let goName ← match j.getObjValAs? String "goName" with
      | .ok s => asciiName s
      | .error _ => pure (Names.enumGoTypeName cfg gql)
    let vals ← (← getArr j "values").toList.mapM fun v => do asciiName (← v.getStr?)
    match Names.convertEnum cfg goName gql vals with
    | .ok cs => return Json.mkObj [("ok", true), ("goType", str goName),
        ("consts", Json.arr (cs.map fun c => Json.arr #[str c.goName, str c.gqlName]).toArray)]
    | .conflict a b n => return Json.mkObj [("ok", false), ("goType", str goName), ("val", str a), ("other", str b), ("goName", str n)]
  | "names.enums" =>
    let cfg ← getCasingCfg j
    let ds ← (← getArr j "enums").toList.mapM fun e => do
      let gql ← asciiName (← getStr e "gqlName")
      let goName ← match e.getObjValAs? String "goName" with
        | .ok s => asciiName s
        | .error _ => pure (Names.enumGoTypeName cfg gql)
      let vals ← (← getArr e "values").toList.mapM fun v => do asciiName (← v.getStr?)
      pure (⟨goName, gql, vals⟩ : Names.EnumDecl)
    match Names.convertEnums cfg ds with
    | .ok css => return Json.mkObj [("res", "ok"),
        ("consts", Json.arr (css.map fun cs => Json.arr (cs.map fun c => Json.arr #[str c.goName, str c.gqlName]).toArray).toArray)]
    | .conflict k a b n => return Json.mkObj [("res", "conflict"), ("enum", k), ("val", str a), ("other", str b), ("goName", str n)]
    | .crossConflict k a n => return Json.mkObj [("res", "cross"), ("enum", k), ("val", str a), ("goName", str n)]
  | "names.typeName" =>
    -- the Go name of the type generated for `typeName` at the end of a path of (declaring type, alias) steps
    let algo := (← parseCasing ((j.getObjValAs? String "casing").toOption.getD "")).getD .default
    let root ← asciiName (← getStr j "root")
    let steps ← (← getArr j "steps").toList.mapM fun e => do
      let p ← e.getArr?
      if h : p.size = 2 then pure ((← asciiName (← p[0].getStr?)), (← asciiName (← p[1].getStr?))) else throw "step"
    let tn ← asciiName (← getStr j "typeName")
    let pre := Names.walk root steps algo
    return Json.mkObj [("name", str (Names.makeTypeName pre tn algo)), ("long", str (Names.makeLongTypeName pre tn algo))]
  | "names.fn" =>
    let s ← asciiName (← getStr j "s")
    let r ← match (← getStr j "fn") with
      | "upperFirst" => pure (Names.upperFirst s)
      | "lowerFirst" => pure (Names.lowerFirst s)
      | "snakeToCamel" => pure (Names.snakeToCamel s)
      | "goConstName" => pure (Names.goConstName s)
      | f => throw s!"fn {f}"
    return Json.mkObj [("out", str r)]
  | _ => throw s!"unknown op {op}"

def getFiles (j : Json) (k : String) : Except String (List (Nat × List Nat)) := do
  (← getArr j k).toList.mapM fun e => do
    let a ← e.getArr?
    if h : a.size = 2 then
      let p ← a[0].getNat?
      let b ← unhexStr (← a[1].getStr?)
      pure (p, b)
    else throw "file entry"

def opMain (op : String) (j : Json) : Except String Json := do
  match op with
  | "main.run" =>
    let gen ← match j.getObjVal? "gen" with
      | .ok .null => pure none
      | .ok _ => do pure (some (← getFiles j "gen"))
      | .error _ => pure none
    let ec ← getBool j "explicitConfig"
    let cf ← getBool j "cfgFails"
    let env : Main.Env := ⟨ec, cf, gen, fun _ => false, fun _ => false⟩
    let st := Main.run env (← getFiles j "fs")
    let paths := ((← getFiles j "fs").map (·.1) ++ (gen.getD []).map (·.1)).eraseDups
    let fsOut := paths.filterMap fun p => (Main.fsGet st.fs p).map fun b => Json.arr #[Json.num p, hexStr b]
    let ret := match st.returned with | some true => "error" | some false => "nil" | none => "none"
    return Json.mkObj [("returned", ret), ("stuck", st.stuck), ("fs", Json.arr fsOut.toArray)]
  | _ => throw s!"unknown op {op}"

def getFlags (j : Json) : Except String Ws.Flags := do
  let fj ← j.getObjVal? "flags"
  return { idempotentEnd := (← getBool fj "idempotentEnd"), closeLiveOnly := (← getBool fj "closeLiveOnly"),
           completeBeforeClose := (← getBool fj "completeBeforeClose"), closeAlwaysCleans := (← getBool fj "closeAlwaysCleans"),
           errChanBuffered := (← getBool fj "errChanBuffered") }

def parseEv (j : Json) : Except String Ws.Ev := do
  match (← getStr j "e") with
  | "subscribe" => pure .subscribe
  | "unsubscribe" => pure (.unsubscribe (← getNat j "i"))
  | "close" => pure .close
  | "step" => pure (.step (← getNat j "c"))
  | "stepFail" => pure (.stepFail (← getNat j "c"))
  | "rstep" => pure .rstep
  | "readErr" => pure .readErr
  | "recvData" => pure (.recvData (← getNat j "i"))
  | "recvErr" => pure .recvErr
  | "server" =>
    match (← getStr j "m") with
    | "next" => pure (.server (.next (← getNat j "i") (← getNat j "p") ((j.getObjValAs? Bool "dec").toOption.getD true)))
    | "complete" => pure (.server (.complete (← getNat j "i")))
    | "other" => pure (.server (.other (← getNat j "i")))
    | "garbage" => pure (.server .garbage)
    | m => throw s!"msg {m}"
  | e => throw s!"event {e}"

def frameJson : Ws.Frame → Json
  | .init => Json.arr #["init"]
  | .subscribe i => Json.arr #["subscribe", i]
  | .complete i => Json.arr #["complete", i]
  | .close => Json.arr #["close"]

def callJson : Ws.Call → Json
  | .subWrite i => Json.arr #["inWrite", "subscribe", i]
  | .unsubWrite i => Json.arr #["inWrite", "complete", i]
  | .closeUnsubWrite i .. => Json.arr #["inWrite", "complete", i]
  | .closeFrameWrite .. => Json.arr #["inWrite", "close"]
  | .ret ok => Json.arr #["ret", ok]
  | .closeFinal _ => Json.arr #["blocked", "mutex"]
  | _ => Json.arr #["internal"]

def readerJson : Ws.Reader → Json
  | .top => "top" | .read => "read" | .send i p => Json.arr #["send", i, p] | .herr => "herr"
  | .herrSend => "herrSend" | .done => "done"

def panicJson : Option Ws.PanicKind → Json
  | none => Json.null
  | some (.closeOfClosed i) => Json.arr #["closeOfClosed", i]
  | some (.sendOnClosed i) => Json.arr #["sendOnClosed", i]
  | some .closeOfClosedErrChan => Json.arr #["closeOfClosedErrChan"]
  | some .sendOnClosedErrChan => Json.arr #["sendOnClosedErrChan"]

def worldJson (w : Ws.World) : Json :=
  Json.mkObj [
    ("frames", Json.arr (w.frames.map frameJson).toArray),
    ("written", Json.arr (w.written.map frameJson).toArray),
    ("subs", Json.arr (w.subs.map fun s => Json.mkObj [("registered", s.registered), ("ended", s.ended), ("closes", s.closes),
        ("nexts", Json.arr (s.nexts.map fun (n : Nat) => (n : Json)).toArray), ("delivered", Json.arr (s.delivered.map fun (n : Nat) => (n : Json)).toArray)]).toArray),
    ("isClosing", w.isClosing), ("connCloses", w.connCloses), ("errChanCloses", w.errChanCloses),
    ("errQueued", w.errQueued), ("errReceived", w.errReceived), ("mu", w.mu),
    ("reader", readerJson w.reader), ("calls", Json.arr (w.calls.map callJson).toArray), ("panic", panicJson w.panic)]

def opWs (op : String) (j : Json) : Except String Json := do
  match op with
  | "ws.run" =>
    -- park-level run; reports the index of the first event that is not enabled (if any)
    let f ← getFlags j
    let evs ← (← getArr j "evs").toList.mapM parseEv
    let rec go (w : Ws.World) (k : Nat) : List Ws.Ev → Ws.World × Option Nat
      | [] => (w, none)
      | e :: es => match Ws.stepPark f w e with
        | none => (w, some k)
        | some w' => go w' (k + 1) es
    let order : List Nat := match j.getObjVal? "closeOrder" with
      | .ok (.arr a) => a.toList.filterMap fun x => x.getNat?.toOption
      | _ => []
    let (w, bad) := go { Ws.init with closeOrder := order } 0 evs
    return Json.mkObj [("world", worldJson w), ("disabledAt", match bad with | some k => (k : Json) | none => Json.null)]
  | _ => throw s!"unknown op {op}"

partial def parseSel (j : Json) : Except String Doc.Sel := do
  match (← getStr j "k") with
  | "f" =>
    let sub ← (← getArr j "sub").toList.mapM parseSel
    return .field (← getStr j "a").toList (← getStr j "n").toList (← getStr j "args") (← getStr j "dirs") (← getBool j "ab") sub
  | "i" =>
    let sub ← (← getArr j "sub").toList.mapM parseSel
    return .inline (← getStr j "tc").toList (← getStr j "dirs") sub
  | "s" => return .spread (← getStr j "n").toList (← getStr j "dirs")
  | k => throw s!"sel kind {k}"

partial def selJson : Doc.Sel → Json
  | .field a n args dirs ab sub => Json.mkObj [("k", "f"), ("a", str a), ("n", str n), ("args", args), ("dirs", dirs), ("ab", ab),
      ("sub", Json.arr (sub.map selJson).toArray)]
  | .inline tc dirs sub => Json.mkObj [("k", "i"), ("tc", str tc), ("dirs", dirs), ("sub", Json.arr (sub.map selJson).toArray)]
  | .spread n dirs => Json.mkObj [("k", "s"), ("n", str n), ("dirs", dirs)]

def parseSelList (j : Json) (k : String) : Except String (List Doc.Sel) := do
  (← getArr j k).toList.mapM parseSel

def opDoc (op : String) (j : Json) : Except String Json := do
  match op with
  | "doc.assemble" =>
    let frags ← (← getArr j "frags").toList.mapM fun f => do
      pure ({ name := (← getStr f "name").toList, on := (← getStr f "on").toList, header := (← getStr f "header"), sel := (← parseSelList f "sel") } : Doc.Frag)
    let oj ← j.getObjVal? "operation"
    let o : Doc.Op := { kind := (← getStr oj "kind"), name := (← getStr oj "name").toList, header := (← getStr oj "header"), sel := (← parseSelList oj "sel") }
    let out := Doc.assemble frags o
    return Json.mkObj [("op", Json.arr (out.op.sel.map selJson).toArray),
      ("frags", Json.arr (out.frags.map fun f => Json.mkObj [("name", str f.name), ("on", str f.on), ("header", f.header),
        ("sel", Json.arr (f.sel.map selJson).toArray)]).toArray)]
  | "doc.onlyTypenameAdded" =>
    return Json.mkObj [("out", Doc.onlyTypenameAddedList (← parseSelList j "src") (← parseSelList j "emitted"))]
  | _ => throw s!"unknown op {op}"

def opFiles (op : String) (j : Json) : Except String Json := do
  match op with
  | "files.posString" =>
    return Json.mkObj [("out", str (Files.posString (← getStr j "filename").toList (← getNat j "line")))]
  | "files.selected" =>
    return Json.mkObj [("out", Files.selected (← getStr j "value").toList)]
  | "files.merged" =>
    -- files: [{kind: "graphql"|"go"|"other", defs: [names], lits: [{value, defs:[names]}]}]
    let files ← (← getArr j "files").toList.mapM fun f => do
      let kind ← match (← getStr f "kind") with
        | "graphql" => pure Files.FileKind.graphql | "go" => pure Files.FileKind.go | _ => pure Files.FileKind.other
      let defs ← (← getArr f "defs").toList.mapM fun d => d.getStr?
      let lits ← (← getArr f "lits").toList.mapM fun l => do
        let ds ← (← getArr l "defs").toList.mapM fun d => d.getStr?
        pure ({ value := (← getStr l "value").toList, defs := ds } : Files.Lit String)
      pure ({ name := (← getStr f "name").toList, kind := kind, defs := defs, lits := lits } : Files.File String)
    return Json.mkObj [("out", Json.arr ((Files.merged files).map Json.str).toArray)]
  | _ => throw s!"unknown op {op}"

/-- an error tree: {"k":"none"} | {"k":"foreign","text"} | {"k":"wrapf","pre","inner"} |
    {"k":"gql","file","line"?,"msg","inner"} | {"k":"list","items":[{file,line?,msg}]} |
    {"k":"errorf","pos":{file,line}?,"pre","post","inner"}  (evaluated with the model's errorf) -/
partial def parseErr (j : Json) : Except String Errors.E := do
  let optLine (x : Json) : Option Nat := (x.getObjValAs? Nat "line").toOption
  match (← getStr j "k") with
  | "none" => pure .none
  | "foreign" => pure (.foreign (← getStr j "text").toList)
  | "wrapf" => pure (.wrapf (← getStr j "pre").toList (← parseErr (← j.getObjVal? "inner")))
  | "gql" => pure (.gql (← getStr j "file").toList (optLine j) (← getStr j "msg").toList (← parseErr (← j.getObjVal? "inner")))
  | "list" =>
    let items ← (← getArr j "items").toList.mapM fun x => do
      pure ((← getStr x "file").toList, optLine x, (← getStr x "msg").toList)
    pure (.gqlList items)
  | "errorf" =>
    let pos : Option Errors.Pos ← match j.getObjVal? "pos" with
      | .ok (.obj kvs) => do
        let pj := Json.obj kvs
        pure (some ⟨(← getStr pj "file").toList, (← getNat pj "line")⟩)
      | _ => pure none
    pure (Errors.errorf pos (← getStr j "pre").toList (← getStr j "post").toList (← parseErr (← j.getObjVal? "inner")))
  | k => throw s!"error kind {k}"

def opErrors (op : String) (j : Json) : Except String Json := do
  match op with
  | "errors.errorf" =>
    let e ← parseErr (← j.getObjVal? "err")
    return Json.mkObj [("text", str e.text)]
  | _ => throw s!"unknown op {op}"

def opLines (op : String) (j : Json) : Except String Json := do
  match op with
  | "lines.info" =>
    -- s: the source text; offsets: positions (in characters) of token starts.  Returns the lexer's line number of
    -- each offset, the lexer's lines and the line slice of parsePrecedingComment (fixed and old)
    let s := (← getStr j "s").toList
    let offs ← (← getArr j "offsets").toList.mapM fun x => x.getNat?
    let strs (ls : List (List Char)) : Json := Json.arr (ls.map (fun l => Json.str (str l))).toArray
    return Json.mkObj [
      ("lineOf", Json.arr (offs.map (fun o => (toJson (Lines.lexBreaks (s.take o) + 1 : Nat)))).toArray),
      ("lex", strs (Lines.lexLines s)), ("fixed", strs (Lines.linesFixed s)), ("old", strs (Lines.linesOld s))]
  | _ => throw s!"unknown op {op}"

def opConfig (op : String) (j : Json) : Except String Json := do
  match op with
  | "config.casing" =>
    let enums ← match j.getObjVal? "enums" with
      | .ok (.obj kvs) => kvs.toList.mapM fun (k, v) => do pure (k, ← v.getStr?)
      | _ => pure []
    let c : Config.Casing := { default := (← getStr j "default"), allEnums := (← getStr j "allEnums"), enums := enums }
    let name ← getStr j "enum"
    return Json.mkObj [("validate", c.validate), ("forEnum", c.forEnum name), ("panics", Config.enumValueNamePanics c name)]
  | _ => throw s!"unknown op {op}"

def optBool (j : Json) (k : String) : Option Bool :=
  match j.getObjVal? k with
  | .ok (.bool b) => some b
  | _ => none

def parseDir (j : Json) : Conv.Dir :=
  { pointer := optBool j "pointer", omitempty := optBool j "omitempty", struct := optBool j "struct", flatten := optBool j "flatten",
    bind := (j.getObjValAs? String "bind").toOption.getD "", typename := (j.getObjValAs? String "typename").toOption.getD "",
    alias := (j.getObjValAs? String "alias").toOption.getD "" }

partial def parseTRef (j : Json) : Except String Conv.TRef := do
  match j.getObjVal? "elem" with
  | .ok e => return .list (← parseTRef e) (← getBool j "nonNull")
  | .error _ => return .named (← getStr j "name") (← getBool j "nonNull")

def gtStr : Conv.GT → String
  | .base => "B"
  | .opaque r => s!"R({r})"
  | .slice e => "[]" ++ gtStr e
  | .ptr e => "*" ++ gtStr e
  | .generic e => "O[" ++ gtStr e ++ "]"

def opConv (op : String) (j : Json) : Except String Json := do
  match op with
  | "conv.fieldType" =>
    let optional ← match (j.getObjValAs? String "optional").toOption.getD "" with
      | "" | "value" => pure Conv.OptMode.value | "pointer" => pure Conv.OptMode.pointer | "generic" => pure Conv.OptMode.generic
      | o => throw s!"optional {o}"
    let cfg : Conv.Cfg := { optional := optional, structRefs := (optBool j "structRefs").getD false }
    let kind ← match (← getStr j "kind") with
      | "scalar" => pure Conv.Kind.scalar | "enum" => pure Conv.Kind.enum | "object" => pure Conv.Kind.object
      | "interface" => pure Conv.Kind.interface | "union" => pure Conv.Kind.union | "input" => pure Conv.Kind.input
      | k => throw s!"kind {k}"
    let node := parseDir ((j.getObjVal? "node").toOption.getD (Json.mkObj []))
    let opd := parseDir ((j.getObjVal? "opDir").toOption.getD (Json.mkObj []))
    -- the for: table of the operation directive: [{type, field, dir}]
    let table : Conv.ForTable ← match j.getObjVal? "forTable" with
      | .ok (.arr a) => a.toList.mapM fun e => do pure (((← getStr e "type"), (← getStr e "field")), parseDir ((e.getObjVal? "dir").toOption.getD (Json.mkObj [])))
      | _ => pure []
    let isVar := (optBool j "isVariable").getD false
    let pt := (j.getObjValAs? String "parentType").toOption.getD ""
    let fn := (j.getObjValAs? String "fieldName").toOption.getD ""
    let al := (j.getObjValAs? String "alias").toOption.getD ""
    let ff := if isVar then ({} : Conv.Dir) else Conv.forLookup table pt fn al
    let o := Conv.merge node ff opd
    let t ← parseTRef (← j.getObjVal? "type")
    return Json.mkObj [("type", gtStr (Conv.convertType cfg kind o t)), ("omitempty", Conv.omitemptyAfter cfg kind o t),
      ("goAlias", o.alias), ("typename", o.typename)]
  | "conv.accepts" =>
    -- does the generator accept this combination of options (Model/DirApply.lean)?
    let kindOf (s : String) : Except String Conv.Kind := match s with
      | "scalar" => pure Conv.Kind.scalar | "enum" => pure Conv.Kind.enum | "object" => pure Conv.Kind.object
      | "interface" => pure Conv.Kind.interface | "union" => pure Conv.Kind.union | "input" => pure Conv.Kind.input
      | k => throw s!"kind {k}"
    let k ← kindOf (← getStr j "kind")
    let b (n : String) : Bool := (optBool j n).getD false
    let node := parseDir ((j.getObjVal? "node").toOption.getD (Json.mkObj []))
    let opd := parseDir ((j.getObjVal? "opDir").toOption.getD (Json.mkObj []))
    let ford := parseDir ((j.getObjVal? "forDir").toOption.getD (Json.mkObj []))
    let target : DirApply.Target ←
      if b "isVariable" then do
        let fields ← match j.getObjVal? "inputFields" with
          | .ok (.arr a) => a.toList.mapM fun e => do
              pure ({ nonNull := (optBool e "nonNull").getD false, hasDefault := (optBool e "hasDefault").getD false } : DirApply.InField)
          | _ => pure []
        pure (DirApply.Target.var k (b "nonNull") (b "boundInConfig") fields)
      else pure (DirApply.Target.field k (b "boundInConfig") (b "hasFragments") (b "onlySpread"))
    let v := DirApply.verdict (b "structRefs") ((j.getObjValAs? String "optional").toOption.getD "" == "pointer") target node ford opd
    return Json.mkObj [("accepts", v == .ok), ("verdict", toString (repr v))]
  | _ => throw s!"unknown op {op}"

partial def parseSField (j : Json) : Except String Types.SField := do
  if (← getBool j "embedded") then
    let sub ← match j.getObjVal? "sub" with
      | .ok (.arr a) => a.toList.mapM parseSField
      | _ => pure []
    return .embed (← getStr j "name") sub
  else return .plain (← getStr j "name") (← getStr j "json")

partial def toJ : Json → Types.J
  | .null => .null
  | .bool b => .bool b
  | .num n => .num (toString n)
  | .str s => .str s
  | .arr a => .arr (a.toList.map toJ)
  | .obj kvs => .obj (kvs.toList.map fun (k, v) => (k, toJ v))

def opTypes (op : String) (j : Json) : Except String Json := do
  match op with
  | "types.flatten" =>
    let fs ← (← getArr j "fields").toList.mapM parseSField
    return Json.mkObj [("out", Json.arr ((Types.flattenedFields fs).map fun p => Json.str p.2).toArray)]
  | "types.decodeIface" =>
    -- impls: [[typename, goStruct]...]; kvs: [[key, value]...] (order and duplicates preserved) or value: non-object JSON
    let impls ← (← getArr j "impls").toList.mapM fun e => do
      let a ← e.getArr?
      if h : a.size = 2 then pure ((← a[0].getStr?), (← a[1].getStr?)) else throw "impl entry"
    let v : Types.J ← match j.getObjVal? "kvs" with
      | .ok (.arr a) => do
        let kvs ← a.toList.mapM fun e => do
          let p ← e.getArr?
          if h : p.size = 2 then pure ((← p[0].getStr?), toJ p[1]) else throw "kv entry"
        pure (Types.J.obj kvs)
      | _ => pure (toJ ((j.getObjVal? "value").toOption.getD Json.null))
    let r := Types.decodeIface impls v
    return Json.mkObj [("out", match r with
      | .nil => Json.arr #["nil"]
      | .impl tn g => Json.arr #["impl", tn, g]
      | .errNotObject => Json.arr #["err", "not-object"]
      | .errMissingTypename => Json.arr #["err", "missing-typename"]
      | .errUnexpectedType tn => Json.arr #["err", "unexpected-type", tn])]
  | _ => throw s!"unknown op {op}"

partial def parseS (j : Json) : Except String Collect.S := do
  match j.getObjVal? "key" with
  | .ok (.str k) => return .field k
  | _ =>
    let sub ← (← getArr j "sub").toList.mapM parseS
    match j.getObjVal? "cond" with
    | .ok (.str c) => return .inline (if c == "" then none else some c) sub
    | _ => return .inline none sub

partial def parseS2 (j : Json) : Except String Collect.S2 := do
  match j.getObjVal? "key" with
  | .ok (.str k) => return .field k
  | _ =>
    match j.getObjVal? "spread" with
    | .ok (.str n) => return .spread n
    | _ =>
      let sub ← (← getArr j "sub").toList.mapM parseS2
      match j.getObjVal? "cond" with
      | .ok (.str c) => return .inline (if c == "" then none else some c) sub
      | _ => return .inline none sub

def opCollect (op : String) (j : Json) : Except String Json := do
  match op with
  | "collect.keys2" =>
    let tds ← (← getArr j "types").toList.mapM fun t => do
      let kind ← match (← getStr t "kind") with
        | "OBJECT" => pure Collect.Kind.object | "INTERFACE" => pure Collect.Kind.interface | "UNION" => pure Collect.Kind.union
        | k => throw s!"kind {k}"
      let ifs ← (← getArr t "interfaces").toList.mapM fun x => x.getStr?
      let ms ← (← getArr t "members").toList.mapM fun x => x.getStr?
      pure ({ name := (← getStr t "name"), kind := kind, interfaces := ifs, members := ms } : Collect.TypeDef)
    let lookup : String → Option Collect.TypeDef := fun n => tds.find? (·.name == n)
    let fr ← (← getArr j "frags").toList.mapM fun f => do
      pure ((← getStr f "name"), ((← getStr f "cond"), (← (← getArr f "sel").toList.mapM parseS2)))
    let frags : Collect.Frags := fun n => fr.lookup n
    let objName ← getStr j "object"
    let some obj := lookup objName | throw s!"unknown object {objName}"
    let sel ← (← getArr j "sel").toList.mapM parseS2
    let fuel := 64
    return Json.mkObj [("genq", Json.arr ((sel.flatMap (Collect.genqKeys2 lookup frags obj fuel)).map Json.str).toArray),
                       ("spec", Json.arr ((sel.flatMap (Collect.specKeys2 lookup frags obj fuel)).map Json.str).toArray)]
  | "collect.keys" =>
    let tds ← (← getArr j "types").toList.mapM fun t => do
      let kind ← match (← getStr t "kind") with
        | "OBJECT" => pure Collect.Kind.object | "INTERFACE" => pure Collect.Kind.interface | "UNION" => pure Collect.Kind.union
        | k => throw s!"kind {k}"
      let ifs ← (← getArr t "interfaces").toList.mapM fun x => x.getStr?
      let ms ← (← getArr t "members").toList.mapM fun x => x.getStr?
      pure ({ name := (← getStr t "name"), kind := kind, interfaces := ifs, members := ms } : Collect.TypeDef)
    let lookup : String → Option Collect.TypeDef := fun n => tds.find? (·.name == n)
    let objName ← getStr j "object"
    let some obj := lookup objName | throw s!"unknown object {objName}"
    let sel ← (← getArr j "sel").toList.mapM parseS
    return Json.mkObj [("genq", Json.arr ((Collect.genqKeysList lookup obj sel).map Json.str).toArray),
                       ("spec", Json.arr ((Collect.specKeysList lookup obj sel).map Json.str).toArray)]
  | _ => throw s!"unknown op {op}"

partial def parseTSel (j : Json) : Except String TypeMap.Sel := do
  match (← getStr j "k") with
  | "f" => return .field (← getStr j "a") (← getStr j "n") (← (← getArr j "s").toList.mapM parseTSel)
  | "i" => return .inline (← getStr j "c") (← (← getArr j "s").toList.mapM parseTSel)
  | "s" => return .spread (← getStr j "n")
  | k => throw s!"sel kind {k}"

def parseNeed (j : Json) : Except String TypeMap.Need := do
  return ⟨← getStr j "gql", ← (← getArr j "sel").toList.mapM parseTSel⟩

def outStr : TypeMap.Out → String
  | .absent => "absent" | .reuse => "reuse" | .conflict => "conflict" | .inserted => "inserted" | .written => "written"

def tmRun : TypeMap.TMap → List TypeMap.Req → List String
  | _, [] => []
  | m, r :: rs =>
    match TypeMap.step m r with
    | (_, .conflict) => ["conflict"]
    | (m', o) => outStr o :: tmRun m' rs

def opTypeMap (op : String) (j : Json) : Except String Json := do
  match op with
  | "tm.match" =>
    let a ← (← getArr j "a").toList.mapM parseTSel
    let b ← (← getArr j "b").toList.mapM parseTSel
    return Json.mkObj [("out", Json.bool (TypeMap.selsMatch a b))]
  | "tm.run" =>
    let reqs ← (← getArr j "reqs").toList.mapM fun r => do
      let need ← parseNeed r
      let n ← getStr r "name"
      match (← getStr r "kind") with
      | "get" => pure (TypeMap.Req.get n need)
      | "add" => pure (TypeMap.Req.add n need)
      | "write" => pure (TypeMap.Req.write n need)
      | "peek" => pure (TypeMap.Req.peek n need)
      | k => throw s!"req kind {k}"
    return Json.mkObj [("out", Json.arr ((tmRun [] reqs).map Json.str).toArray)]
  | _ => throw s!"unknown op {op}"

def opImports (op : String) (j : Json) : Except String Json := do
  match op with
  | "imports.refs" =>
    let own ← getStr j "own"
    let names ← (← getArr j "names").toList.mapM fun n => n.getStr?
    let (st, outs) := Imports.refs own.toList Imports.St.empty (names.map String.toList)
    let outJ := outs.map fun o => match o with
      | .ok t => Json.str (String.ofList t)
      | .err => Json.str "error"
      | .stuck => Json.str "stuck"
    let imps := st.imports.map fun p => Json.arr #[Json.str (String.ofList p.1), Json.str (String.ofList p.2)]
    return Json.mkObj [("out", Json.arr outJ.toArray), ("imports", Json.arr imps.toArray)]
  | _ => throw s!"unknown op {op}"

def opVars (op : String) (j : Json) : Except String Json := do
  match op with
  | "vars.keys" =>
    let vs ← (← getArr j "vars").toList.mapM fun v => do
      let shape ← match (← getStr v "shape") with
        | "nilPointer" => pure Vars.Shape.nilPointer | "nilOrEmptySlice" => pure Vars.Shape.nilOrEmptySlice
        | "zeroScalar" => pure Vars.Shape.zeroScalar | "nonEmpty" => pure Vars.Shape.nonEmpty
        | s => throw s!"shape {s}"
      pure ({ name := (← getStr v "name"), omitempty := (← getBool v "omitempty"), special := (← getBool v "special"), shape := shape } : Vars.Var)
    return Json.mkObj [("out", Json.arr ((Vars.keys vs).map Json.str).toArray)]
  | _ => throw s!"unknown op {op}"


/-! ### codec.* — the model of the generated (un)marshalers (Model/Codec.lean) -/

/-- tagged JSON (order and duplicate keys of objects preserved, numbers as tokens):
    null | {"b":bool} | {"n":"tok"} | {"s":"…"} | {"a":[…]} | {"o":[[k,v],…]} -/
partial def parseTJ (j : Json) : Except String Types.J := do
  match j with
  | .null => return .null
  | _ =>
    match j.getObjVal? "b" with
    | .ok (.bool b) => return .bool b
    | _ =>
    match j.getObjVal? "n" with
    | .ok (.str t) => return .num t
    | _ =>
    match j.getObjVal? "s" with
    | .ok (.str t) => return .str t
    | _ =>
    match j.getObjVal? "a" with
    | .ok (.arr a) => return .arr (← a.toList.mapM parseTJ)
    | _ =>
    match j.getObjVal? "o" with
    | .ok (.arr a) =>
      let kvs ← a.toList.mapM fun e => do
        let p ← e.getArr?
        if h : p.size = 2 then pure ((← p[0].getStr?), (← parseTJ p[1])) else throw "kv entry"
      return .obj kvs
    | _ => throw "tagged JSON"

partial def tjOut : Types.J → Json
  | .null => Json.null
  | .bool b => Json.mkObj [("b", b)]
  | .num t => Json.mkObj [("n", t)]
  | .str t => Json.mkObj [("s", t)]
  | .arr xs => Json.mkObj [("a", Json.arr (xs.map tjOut).toArray)]
  | .obj kvs => Json.mkObj [("o", Json.arr (kvs.map fun (k, v) => Json.arr #[Json.str k, tjOut v]).toArray)]

mutual
partial def parseTy (j : Json) : Except String Codec.Ty := do
  match (← getStr j "k") with
  | "leaf" =>
    match (← getStr j "leaf") with
    | "str" => return .leaf .str | "int" => return .leaf .int | "float" => return .leaf .float
    | "bool" => return .leaf .bool | "any" => return .leaf .any | "custom" => return .leaf .custom | "map" => return .leaf .map
    | l => throw s!"leaf {l}"
  | "ptr" => return .ptr (← parseTy (← j.getObjVal? "t"))
  | "slice" => return .slice (← parseTy (← j.getObjVal? "t"))
  | "struct" => return .struct (← parseFlds (← getArr j "fs").toList)
  | "iface" => return .iface (← parseImpls (← getArr j "impls").toList)
  | k => throw s!"type kind {k}"
partial def parseFlds : List Json → Except String Codec.Flds
  | [] => return .nil
  | f :: rest => do
    return .cons (← getStr f "json") (← getBool f "emb") (← parseTy (← f.getObjVal? "t")) (← parseFlds rest)
partial def parseImpls : List Json → Except String Codec.Impls
  | [] => return .nil
  | f :: rest => do
    return .cons (← getStr f "tn") (← parseTy (← f.getObjVal? "t")) (← parseImpls rest)
end

partial def valOut : Codec.Val → Json
  | .leaf j => Json.mkObj [("leaf", tjOut j)]
  | .struct vs => Json.mkObj [("struct", Json.arr (vs.map valOut).toArray)]
  | .nilPtr => Json.str "nilPtr"
  | .ptr v => Json.mkObj [("ptr", valOut v)]
  | .nilSlice => Json.str "nilSlice"
  | .slice vs => Json.mkObj [("slice", Json.arr (vs.map valOut).toArray)]
  | .nilIface => Json.str "nilIface"
  | .iface tn v => Json.mkObj [("iface", tn), ("v", valOut v)]

def errOut : Codec.Err → String
  | .typeMismatch => "type-mismatch" | .missingTypename => "missing-typename"
  | .unexpectedType tn => "unexpected-type:" ++ tn | .shape => "shape"

def opCodec (op : String) (j : Json) : Except String Json := do
  match op with
  | "codec.run" =>
    -- decode the input with the model, marshal the decoded value, decode that again
    let t ← parseTy (← j.getObjVal? "ty")
    let inp ← parseTJ ((j.getObjVal? "json").toOption.getD Json.null)
    let supported := Codec.noFoldTwins t
    match Codec.dec t inp with
    | .error e => return Json.mkObj [("supported", supported), ("ok", false), ("err", errOut e)]
    | .ok v =>
      let out := Codec.enc t v
      let again : Json := match Codec.dec t out with
        | .error e => Json.mkObj [("ok", false), ("err", errOut e)]
        | .ok v2 => Json.mkObj [("ok", true), ("val", valOut v2)]
      return Json.mkObj [("supported", supported), ("ok", true), ("val", valOut v), ("enc", tjOut out), ("again", again)]
  | "codec.vars" =>
    -- what a helper call sends: fields of the __<Op>Input struct (names tagged ",omitempty"), one argument JSON each
    let fs ← parseFlds (← getArr j "fs").toList
    let args ← (← getArr j "args").toList.mapM parseTJ
    match Codec.encVars fs args with
    | .error e => return Json.mkObj [("ok", false), ("err", errOut e)]
    | .ok out => return Json.mkObj [("ok", true), ("enc", tjOut out)]
  | _ => throw s!"unknown op {op}"


def opInputs (op : String) (j : Json) : Except String Json := do
  match op with
  | "inputs.closure" =>
    -- types: [[name, [field type names]]…]; root: name
    let ts ← (← getArr j "types").toList.mapM fun e => do
      let p ← e.getArr?
      if h : p.size = 2 then
        let fs ← (← p[1].getArr?).toList.mapM fun x => x.getStr?
        pure ((← p[0].getStr?), fs)
      else throw "type entry"
    let S : InputClosure.InSchema := ⟨fun n => (ts.lookup n).getD []⟩
    let root ← getStr j "root"
    match InputClosure.visit S (ts.length + 1) root [] with
    | some d => return Json.mkObj [("ok", true), ("visited", Json.arr (d.map Json.str).toArray)]
    | none => return Json.mkObj [("ok", false)]
  | _ => throw s!"unknown op {op}"

def dispatch (j : Json) : Json :=
  let r : Except String Json := do
    let op ← getStr j "op"
    if op.startsWith "http." then opHttp op j
    else if op.startsWith "resp." then opResp op j
    else if op.startsWith "names." then opNames op j
    else if op.startsWith "main." then opMain op j
    else if op.startsWith "ws." then opWs op j
    else if op.startsWith "doc." then opDoc op j
    else if op.startsWith "files." then opFiles op j
    else if op.startsWith "errors." then opErrors op j
    else if op.startsWith "lines." then opLines op j
    else if op.startsWith "config." then opConfig op j
    else if op.startsWith "conv." then opConv op j
    else if op.startsWith "types." then opTypes op j
    else if op.startsWith "collect." then opCollect op j
    else if op.startsWith "vars." then opVars op j
    else if op.startsWith "tm." then opTypeMap op j
    else if op.startsWith "imports." then opImports op j
    else if op.startsWith "codec." then opCodec op j
    else if op.startsWith "inputs." then opInputs op j
    else throw s!"unknown op {op}"
  let idf := match j.getObjVal? "id" with | .ok v => [("id", v)] | .error _ => []
  match r with
  | .ok (.obj kvs) => Json.mkObj (idf ++ (kvs.toList.map fun (k, v) => (k, v)))
  | .ok v => Json.mkObj (idf ++ [("out", v)])
  | .error e => Json.mkObj (idf ++ [("error", Json.str e)])

end Genq.Driver
