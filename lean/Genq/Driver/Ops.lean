import Lean.Data.Json
import Genq.Driver.Util
import Genq.Model.Http
open Lean
namespace Genq.Driver

def gateStr : Http.Gate → String
  | .pass => "pass" | .refuseQuery => "refuseQuery"
  | .refuseMutation => "refuseMutation" | .refuseSubscription => "refuseSubscription"

def opHttp (op : String) (j : Json) : Except String Json := do
  match op with
  | "http.escape" => return Json.mkObj [("out", hexStr (Http.queryEscape (← getHex j "s")))]
  | "http.unescape" =>
    match Http.queryUnescape (← getHex j "s") with
    | some r => return Json.mkObj [("out", hexStr r)]
    | none => return Json.mkObj [("out", Json.null)]
  | "http.parseQuery" =>
    let ps := Http.parseQuery (← getHex j "s")
    return Json.mkObj [("out", Json.arr (ps.map fun kv => Json.arr #[hexStr kv.1, hexStr kv.2]).toArray)]
  | "http.gate" =>
    let m ← match (← getStr j "method") with
      | "GET" => pure Http.Method.get | "POST" => pure Http.Method.post | "WS" => pure Http.Method.ws
      | m => throw s!"method {m}"
    return Json.mkObj [("out", gateStr (Http.kindGate m (← getCps j "q")))]
  | "http.getRawQuery" =>
    let r := Http.getRawQuery (← getHex j "existing") (← getHex j "query") (← getHex j "opName") (← getHexOpt j "vars")
    return Json.mkObj [("out", hexStr r)]
  | _ => throw s!"unknown op {op}"

def dispatch (j : Json) : Json :=
  let r : Except String Json := do
    let op ← getStr j "op"
    if op.startsWith "http." then opHttp op j
    else throw s!"unknown op {op}"
  let idf := match j.getObjVal? "id" with | .ok v => [("id", v)] | .error _ => []
  match r with
  | .ok (.obj kvs) => Json.mkObj (idf ++ (kvs.toList.map fun (k, v) => (k, v)))
  | .ok v => Json.mkObj (idf ++ [("out", v)])
  | .error e => Json.mkObj (idf ++ [("error", Json.str e)])

end Genq.Driver
