import Lean.Data.Json
import Genq.Driver.Util
import Genq.Model.Http
import Genq.Model.HttpResp
open Lean
namespace Genq.Driver

def gateStr : Http.Gate → String
  | .pass => "pass" | .refuseQuery => "refuseQuery"
  | .refuseMutation => "refuseMutation" | .refuseSubscription => "refuseSubscription"

def opHttp (op : String) (j : Json) : Except String Json := do
  match op with
  | "http.escape" => return Json.mkObj [("out", hexStr (Http.queryEscape (← getHex j "s")))]
  | "http.unescape" =>
    match Http.queryUnescape (← getHex j "s") with
    | some r => return Json.mkObj [("out", hexStr r)]
    | none => return Json.mkObj [("out", Json.null)]
  | "http.parseQuery" =>
    let ps := Http.parseQuery (← getHex j "s")
    return Json.mkObj [("out", Json.arr (ps.map fun kv => Json.arr #[hexStr kv.1, hexStr kv.2]).toArray)]
  | "http.gate" =>
    let m ← match (← getStr j "method") with
      | "GET" => pure Http.Method.get | "POST" => pure Http.Method.post | "WS" => pure Http.Method.ws
      | m => throw s!"method {m}"
    return Json.mkObj [("out", gateStr (Http.kindGate m (← getCps j "q")))]
  | "http.getRawQuery" =>
    let r := Http.getRawQuery (← getHex j "existing") (← getHex j "query") (← getHex j "opName") (← getHexOpt j "vars")
    return Json.mkObj [("out", hexStr r)]
  | _ => throw s!"unknown op {op}"

def opResp (op : String) (j : Json) : Except String Json := do
  match op with
  | "resp.classify" =>
    let r ← if (← getBool j "transport") then pure HttpResp.DoResult.transportErr else do
      let b : HttpResp.BodyFacts := {
        readAllFails := (← getBool j "readAllFails"), unmarshalOk := (← getBool j "unmarshalOk"),
        unmarshalErrors := (← getBool j "unmarshalErrors"), decodeOk := (← getBool j "decodeOk"),
        decodeErrors := (← getBool j "decodeErrors") }
      pure (HttpResp.DoResult.resp (← getNat j "status") b)
    let run := HttpResp.makeRequest r
    let (o, st, c) : String × Nat × String := match run.outcome with
      | .transport => ("transport", 0, "")
      | .httpError s (.decoded e) => ("httpError", s, if e then "decoded+errors" else "decoded")
      | .httpError s .rawText => ("httpError", s, "rawText")
      | .httpError s .unreadableText => ("httpError", s, "unreadableText")
      | .decodeError => ("decodeError", 0, "")
      | .gqlErrors => ("gqlErrors", 0, "")
      | .ok => ("ok", 0, "")
    return Json.mkObj [("outcome", o), ("status", st), ("carry", c), ("closes", run.closes), ("dataDecoded", run.dataDecoded)]
  | "resp.helper" =>
    let g : Option Bool := match j.getObjVal? "getterFails" with
      | .ok (.bool b) => some b
      | _ => none
    let h := HttpResp.helper g .transportErr
    return Json.mkObj [("dataNonNil", h.dataNonNil), ("errUnchanged", h.errUnchanged), ("requests", h.requests)]
  | _ => throw s!"unknown op {op}"

def dispatch (j : Json) : Json :=
  let r : Except String Json := do
    let op ← getStr j "op"
    if op.startsWith "http." then opHttp op j
    else if op.startsWith "resp." then opResp op j
    else throw s!"unknown op {op}"
  let idf := match j.getObjVal? "id" with | .ok v => [("id", v)] | .error _ => []
  match r with
  | .ok (.obj kvs) => Json.mkObj (idf ++ (kvs.toList.map fun (k, v) => (k, v)))
  | .ok v => Json.mkObj (idf ++ [("out", v)])
  | .error e => Json.mkObj (idf ++ [("error", Json.str e)])

end Genq.Driver
