/-
Committed copy of what Model/Http.lean, Model/HttpResp.lean (graphql/client.go) and the helper/forwarder parts of
Model/HttpResp.lean, Model/Vars.lean, Model/Ws.lean (generate/operation.go.tmpl) were written from.  The extractor
regenerates Genq/Extracted/Client.lean from /repo on every run; the tie theorems (Props C04, C11, C12, C14) state
that the two are equal, so any edit of client.go's control/effect structure or of the operation template breaks a
proof obligation of the properties that rest on it.

How the skeleton maps to the models:
  client.MakeRequest      — Model/HttpResp.lean `makeRequest`: request construction by method, Do, deferred Body.Close,
                            status gate (ReadAll, JSON-or-text fallback), Decode, resp.Errors
  client.createPostRequest — Model/Http.lean `postGate` / body = json.Marshal(req)
  client.createGetRequest  — Model/Http.lean `getGate`, `getURL` (merge into the endpoint's url.Values, re-encode)
  operationTmpl            — helper: Request{OpName, Query, Variables}, client getter early return, data_ allocated
                            before MakeRequest and returned with err_; forwarder: Unmarshal, type assertion, send
-/
import Genq.Model.Skel
namespace Genq.ClientSkel
open Genq.Skel
def httpClientSkeleton : List Fn := [
  { name := "newClient", body := [
      .eff "call (*http.Client)(nil)",
      .ite "httpClient == nil || httpClient == (*http.Client)(nil)"
        []
        [],
      .ret "<expr>" ] },
  { name := "client.MakeRequest", body := [
      .ite "c.method == http.MethodGet"
        [
          .eff "call c.createGetRequest(req)" ]
        [
          .eff "call c.createPostRequest(req)" ],
      .ite "err != nil"
        [
          .ret "err" ]
        [],
      .eff "call httpReq.Header.Set(\"Content-Type\", \"application/json\")",
      .ite "ctx != nil"
        [
          .eff "call httpReq.WithContext(ctx)" ]
        [],
      .eff "call c.httpClient.Do(httpReq)",
      .ite "err != nil"
        [
          .ret "err" ]
        [],
      .eff "defer httpResp.Body.Close()",
      .ite "httpResp.StatusCode != http.StatusOK"
        [
          .eff "call io.ReadAll(httpResp.Body)",
          .ite "err != nil"
            [
              .eff "call []byte(fmt.Sprintf(\"<unreadable: %v>\", err))" ]
            [],
          .ite "err != nil"
            [
              .ret "<expr>" ]
            [],
          .ret "<expr>" ]
        [],
      .eff "call json.NewDecoder(httpResp.Body)",
      .eff "call json.NewDecoder(httpResp.Body).Decode(resp)",
      .ite "err != nil"
        [
          .ret "err" ]
        [],
      .ite "len(resp.Errors) > 0"
        [
          .ret "<expr>" ]
        [],
      .ret "nil" ] },
  { name := "client.createPostRequest", body := [
      .ite "req.Query != \"\""
        [
          .ite "strings.HasPrefix(strings.TrimSpace(req.Query), \"subscription\")"
            [
              .ret "nil, <call>" ]
            [] ]
        [],
      .ite "err != nil"
        [
          .ret "nil, err" ]
        [],
      .eff "call bytes.NewReader(body)",
      .eff "call http.NewRequest( c.method, c.endpoint, bytes.NewReader(body))",
      .ite "err != nil"
        [
          .ret "nil, err" ]
        [],
      .ret "<expr>, nil" ] },
  { name := "client.createGetRequest", body := [
      .eff "call url.Parse(c.endpoint)",
      .ite "err != nil"
        [
          .ret "nil, err" ]
        [],
      .eff "call parsedURL.Query()",
      .ite "req.Query != \"\""
        [
          .ite "strings.HasPrefix(strings.TrimSpace(req.Query), \"mutation\")"
            [
              .ret "nil, <call>" ]
            [],
          .ite "strings.HasPrefix(strings.TrimSpace(req.Query), \"subscription\")"
            [
              .ret "nil, <call>" ]
            [],
          .eff "call queryParams.Set(\"query\", req.Query)" ]
        [],
      .ite "req.OpName != \"\""
        [
          .eff "call queryParams.Set(\"operationName\", req.OpName)" ]
        [],
      .ite "req.Variables != nil"
        [
          .ite "variablesErr != nil"
            [
              .ret "nil, <expr>" ]
            [],
          .eff "call queryParams.Set(\"variables\", string(variables))" ]
        [],
      .ite "queryUpdated"
        [
          .eff "call queryParams.Encode()",
          .eff "set parsedURL.RawQuery" ]
        [],
      .eff "call parsedURL.String()",
      .eff "call http.NewRequest( c.method, parsedURL.String(), http.NoBody)",
      .ite "err != nil"
        [
          .ret "nil, err" ]
        [],
      .ret "<expr>, nil" ] } ]

def operationTmpl : List String := [
  "// The {{.Type}} executed by {{.Name}}.",
  "const {{.Name}}_Operation = {{stringLiteral $.Body}}",
  "{{.Doc}}",
  "func {{.Name}}(",
  "{{if ne .Config.ContextType \"-\" -}}",
  "ctx_ {{ref .Config.ContextType}},",
  "{{end}}",
  "{{- if not .Config.ClientGetter -}}",
  "client_ {{if eq .Type \"subscription\"}}{{ref \"github.com/Khan/genqlient/graphql.WebSocketClient\"}}{{else}}{{ref \"github.com/Khan/genqlient/graphql.Client\"}}{{end}},",
  "{{end}}",
  "{{- if .Input -}}",
  "{{- range .Input.Fields -}}",
  "{{.GraphQLName}} {{.GoType.Reference}},",
  "{{end -}}",
  "{{end -}}",
  ") ({{if eq .Type \"subscription\"}}dataChan_ chan {{.Name}}WsResponse, subscriptionID_ string,{{else}}data_ *{{.ResponseName}}, {{if .Config.Extensions -}}ext_ map[string]interface{},{{end}}{{end}} err_ error) {",
  "req_ := &graphql.Request{",
  "OpName: \"{{.Name}}\",",
  "Query: {{.Name}}_Operation,",
  "{{if .Input -}}",
  "Variables: &{{.Input.GoName}}{",
  "{{range .Input.Fields -}}",
  "{{.GoName}}: {{.GraphQLName}},",
  "{{end -}}",
  "},",
  "{{end -}}",
  "}",
  "{{if .Config.ClientGetter -}}",
  "var client_ graphql.Client",
  "client_, err_ = {{ref .Config.ClientGetter}}({{if ne .Config.ContextType \"-\"}}ctx_{{else}}{{end}})",
  "if err_ != nil {",
  "return nil, {{if .Config.Extensions -}}nil,{{end -}} err_",
  "}",
  "{{end}}",
  "{{if eq .Type \"subscription\"}}",
  "dataChan_ = make(chan {{.Name}}WsResponse)",
  "subscriptionID_, err_ = client_.Subscribe(req_, dataChan_, {{.Name}}ForwardData)",
  "{{else}}",
  "data_ = &{{.ResponseName}}{}",
  "resp_ := &graphql.Response{Data: data_}",
  "err_ = client_.MakeRequest(",
  "{{if ne .Config.ContextType \"-\"}}ctx_{{else}}nil{{end}},",
  "req_,",
  "resp_,",
  ")",
  "{{end}}",
  "return {{if eq .Type \"subscription\"}}dataChan_, subscriptionID_,{{else}}data_, {{if .Config.Extensions -}}resp_.Extensions,{{end -}}{{end}} err_",
  "}",
  "{{if eq .Type \"subscription\"}}",
  "type {{.Name}}WsResponse graphql.BaseResponse[*{{.ResponseName}}]",
  "func {{.Name}}ForwardData(interfaceChan interface{}, jsonRawMsg json.RawMessage) error {",
  "var gqlResp graphql.Response",
  "var wsResp {{.Name}}WsResponse",
  "err := json.Unmarshal(jsonRawMsg, &gqlResp)",
  "if err != nil {",
  "return err",
  "}",
  "if len(gqlResp.Errors) == 0 {",
  "err = json.Unmarshal(jsonRawMsg, &wsResp)",
  "if err != nil {",
  "return err",
  "}",
  "} else {",
  "wsResp.Errors = gqlResp.Errors",
  "}",
  "dataChan_, ok := interfaceChan.(chan {{.Name}}WsResponse)",
  "if !ok {",
  "return errors.New(\"failed to cast interface into 'chan {{.Name}}WsResponse'\")",
  "}",
  "dataChan_ <- wsResp",
  "return nil",
  "}",
  "{{end}}"
]
end Genq.ClientSkel
