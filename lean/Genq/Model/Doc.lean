/-
Model of the per-operation document assembly of generate/generate.go (usedFragments,
preprocessQueryDocument) — C03.  The selection AST is what the harness serialises from
gqlparser's ast: arguments, directives and variable definitions are kept as canonical strings
(they are never touched by genqlient), `abstract` records whether the field's type is an
interface or union in the schema (`g.schema.Types[field.Definition.Type.Name()].Kind`).
-/
namespace Genq.Doc

abbrev Name := List Char

inductive Sel
  | field (alias name : Name) (args dirs : String) (abstract : Bool) (sub : List Sel)
  | inline (tc : Name) (dirs : String) (sub : List Sel)
  | spread (name : Name) (dirs : String)
deriving Repr

def typenameName : Name := "__typename".toList

/-- the node preprocessQueryDocument inserts -/
def typenameField : Sel := .field typenameName typenameName "" "" false []

def isTypename : Sel → Bool
  | .field _ name _ _ _ _ => name == typenameName
  | _ => false

/-- `hasTypename` of preprocessQueryDocument: a *direct* field child named __typename
    (whatever its alias) -/
def hasTypename (sub : List Sel) : Bool := sub.any isTypename

mutual
/-- the OnField observer applied everywhere (validator.Walk reaches every field) -/
def pre : Sel → Sel
  | .field a n args dirs abstract sub =>
    let sub' := preList sub
    if abstract && !hasTypename sub then .field a n args dirs abstract (typenameField :: sub')
    else .field a n args dirs abstract sub'
  | .inline tc dirs sub => .inline tc dirs (preList sub)
  | .spread n dirs => .spread n dirs
def preList : List Sel → List Sel
  | [] => []
  | s :: ss => pre s :: preList ss
end

structure Frag where
  name : Name
  on : Name
  header : String            -- directives of the definition, canonical
  sel : List Sel
deriving Repr

structure Op where
  kind : String
  name : Name
  header : String            -- variable definitions and directives, canonical
  sel : List Sel
deriving Repr

mutual
/-- fragment spreads in document order (what OnFragmentSpread sees while walking) -/
def spreadsOf : Sel → List Name
  | .field _ _ _ _ _ sub => spreadsOfList sub
  | .inline _ _ sub => spreadsOfList sub
  | .spread n _ => [n]
def spreadsOfList : List Sel → List Name
  | [] => []
  | s :: ss => spreadsOf s ++ spreadsOfList ss
end

/-- the `seen` check of the observer: append the names not yet present, in order -/
def addNew (names : List Name) (acc : List Name) : List Name :=
  names.foldl (fun acc n => if acc.contains n then acc else acc ++ [n]) acc

def fragSel (frags : List Frag) (n : Name) : List Sel :=
  match frags.find? (fun f => f.name == n) with
  | some f => f.sel
  | none => []

/-- the queue loop: `found` is retval (= everything ever queued), `k` the queue head -/
def usedLoop (frags : List Frag) : Nat → List Name → Nat → List Name
  | 0, found, _ => found
  | fuel + 1, found, k =>
    match found[k]? with
    | none => found
    | some n => usedLoop frags fuel (addNew (spreadsOfList (fragSel frags n)) found) (k + 1)

def usedFragments (frags : List Frag) (op : Op) : List Name :=
  usedLoop frags (frags.length + 1) (addNew (spreadsOfList op.sel) []) 0

/-- the document assembled for one operation: the operation, then its fragments in discovery
    order, all preprocessed -/
structure OutDoc where
  op : Op
  frags : List Frag
deriving Repr

def assemble (frags : List Frag) (op : Op) : OutDoc :=
  { op := { op with sel := preList op.sel },
    frags := (usedFragments frags op).filterMap fun n =>
      (frags.find? (fun f => f.name == n)).map fun f => { f with sel := preList f.sel } }

/-! ### Spec: "the user's operation plus only __typename" as an executable relation -/

mutual
def selEqShallow : Sel → Sel → Bool
  | .field a n args dirs ab sub, .field a' n' args' dirs' ab' sub' =>
    a == a' && n == n' && args == args' && dirs == dirs' && ab == ab' &&
    (onlyTypenameAddedList sub sub' ||
      (ab && !hasTypename sub &&
        match sub' with
        | t :: rest => isTypenameExact t && onlyTypenameAddedList sub rest
        | [] => false))
  | .inline tc dirs sub, .inline tc' dirs' sub' => tc == tc' && dirs == dirs' && onlyTypenameAddedList sub sub'
  | .spread n dirs, .spread n' dirs' => n == n' && dirs == dirs'
  | _, _ => false
def onlyTypenameAddedList : List Sel → List Sel → Bool
  | [], [] => true
  | s :: ss, s' :: ss' => selEqShallow s s' && onlyTypenameAddedList ss ss'
  | _, _ => false
def isTypenameExact : Sel → Bool
  | .field a n args dirs _ [] => a == typenameName && n == typenameName && args == "" && dirs == ""
  | _ => false
end

end Genq.Doc
