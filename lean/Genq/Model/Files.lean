/-
Model of generate/parse.go (which definitions reach the validator) and generate/errors.go
(how a position is rendered) — C05, C17, C18.
-/
namespace Genq.Files

abbrev Str := List Char

/-! ### errors.go: splitFilename / errorPos.String -/

def splitOnColon : Str → List Str
  | [] => [[]]
  | c :: cs =>
    if c == ':' then [] :: splitOnColon cs
    else match splitOnColon cs with
      | [] => [[c]]
      | x :: xs => (c :: x) :: xs

def digitVal (c : Char) : Option Nat :=
  if '0' ≤ c ∧ c ≤ '9' then some (c.toNat - '0'.toNat) else none

/-- unsigned decimal digits -/
def atoiNat : Str → Option Nat
  | [] => none
  | cs => cs.foldl (fun acc c => match acc, digitVal c with
      | some a, some d => some (a * 10 + d)
      | _, _ => none) (some 0)

/-- strconv.Atoi: optional sign, decimal digits, int64 range -/
def atoi : Str → Option Int
  | '-' :: cs => match atoiNat cs with
    | some n => if n ≤ 9223372036854775808 then some (-(n : Int)) else none
    | none => none
  | '+' :: cs => match atoiNat cs with
    | some n => if n ≤ 9223372036854775807 then some (n : Int) else none
    | none => none
  | cs => match atoiNat cs with
    | some n => if n ≤ 9223372036854775807 then some (n : Int) else none
    | none => none

/-- errors.go splitFilename: (name, lineOffset) -/
def splitFilename (fn : Str) : Str × Int :=
  match splitOnColon fn with
  | [name, num] =>
    match atoi num with
    | some n => (name, n - 1)
    | none => (name, 0)
  | _ => (fn, 0)

def natToStr (n : Nat) : Str := (toString n).toList

def intToStr : Int → Str
  | .ofNat n => natToStr n
  | .negSucc n => '-' :: natToStr (n + 1)

/-- errorPos.String -/
def posString (fn : Str) (line : Nat) : Str :=
  let (name, off) := splitFilename fn
  let l : Int := off + line
  if l != 0 then name ++ ':' :: intToStr l else name

/-! ### parse.go: which definitions are handed to the validator -/

inductive FileKind | graphql | go | other
deriving DecidableEq, Repr

/-- a matched operations file, already split into what the parsers see: for a .graphql file its
    definitions, for a .go file its string literals (trimmed value + the definitions inside) -/
structure Lit (D : Type) where
  value : Str                -- unquoted value of the STRING literal
  defs : List D              -- definitions the GraphQL parser finds in it

structure File (D : Type) where
  name : Str
  kind : FileKind
  defs : List D              -- .graphql: definitions of the file
  lits : List (Lit D)        -- .go: every STRING literal, in ast.Inspect order

def marker : Str := ['#', ' ', '@', 'g', 'e', 'n', 'q', 'l', 'i', 'e', 'n', 't']

def isSpaceC (c : Char) : Bool := c == ' ' || c == '\t' || c == '\n' || c == '\r' || c == '\x0b' || c == '\x0c'

def trimLeft : Str → Str
  | [] => []
  | c :: cs => if isSpaceC c then trimLeft cs else c :: cs

def hasPrefix : Str → Str → Bool
  | [], _ => true
  | _ :: _, [] => false
  | p :: ps, c :: cs => p == c && hasPrefix ps cs

/-- `strings.HasPrefix(strings.TrimSpace(value), "# @genqlient")` -/
def selected (value : Str) : Bool := hasPrefix marker (trimLeft value)

def defsOfFile {D} (f : File D) : List D :=
  match f.kind with
  | .graphql => f.defs
  | .go => (f.lits.filter (fun l => selected l.value)).flatMap (·.defs)
  | .other => []

/-- getQueries: concatenation in enumeration order -/
def merged {D} (files : List (File D)) : List D := files.flatMap defsOfFile

/-- getAndValidateQueries + the first half of Generate, with the validator a parameter -/
def accept {D} (validate : List D → Bool) (files : List (File D)) : Bool :=
  !(files.any (fun f => f.kind == .other)) && validate (merged files)

end Genq.Files

namespace Genq.Files

/-! ### genqlient_directive.go parsePrecedingComment: the upward scan -/

def isCommentLine (l : Str) : Bool :=
  match trimLeft l with
  | '#' :: _ => true
  | _ => false

/-- `above` = the source lines above the node, nearest first; the scan collects the contiguous
    block of comment lines (directive lines are among them) and stops at the first other line -/
def scanUp : List Str → List Str
  | [] => []
  | l :: rest => if isCommentLine l then l :: scanUp rest else []

end Genq.Files
