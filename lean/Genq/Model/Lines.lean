/-
Lines of a GraphQL source, as the lexer counts them and as generate/genqlient_directive.go parsePrecedingComment
splits them — C07 (the scan above a node never indexes outside the line slice), C17 (which comment lines stand
above a node does not depend on the line-ending convention of the file).

gqlparser's lexer ends a line at "\n", at "\r\n" (once) and at a bare "\r" (lexer.go: ws, comments, block strings —
the only places a raw line terminator can occur in a document that lexes).  parsePrecedingComment indexes
`sourceLines[i-1]` for i = pos.Line-1 … 1, where since fix fa11825
  sourceLines = strings.Split(strings.NewReplacer("\r\n", "\n", "\r", "\n").Replace(input), "\n")
(before the fix: strings.Split(input, "\n") — `linesOld`).
-/
namespace Genq.Lines

abbrev Str := List Char

/-- the lines of `s` as the lexer delimits them (terminators removed) -/
def consHead (c : Char) : List Str → List Str
  | [] => [[c]]
  | x :: xs => (c :: x) :: xs

def lexLines : Str → List Str
  | [] => [[]]
  | [c] => if c == '\r' then [[], []] else if c == '\n' then [[], []] else [[c]]
  | c :: d :: rest =>
    if c == '\r' then
      (if d == '\n' then [] :: lexLines rest else [] :: lexLines (d :: rest))
    else if c == '\n' then [] :: lexLines (d :: rest)
    else consHead c (lexLines (d :: rest))

/-- how many line terminators the lexer has counted after reading `s` (a token starting right after `s` is on
    line `lexBreaks s + 1`) -/
def lexBreaks : Str → Nat
  | [] => 0
  | [c] => if c == '\r' then 1 else if c == '\n' then 1 else 0
  | c :: d :: rest =>
    if c == '\r' then
      (if d == '\n' then lexBreaks rest + 1 else lexBreaks (d :: rest) + 1)
    else if c == '\n' then lexBreaks (d :: rest) + 1
    else lexBreaks (d :: rest)

/-- strings.NewReplacer("\r\n", "\n", "\r", "\n").Replace -/
def normalize : Str → Str
  | [] => []
  | [c] => if c == '\r' then ['\n'] else [c]
  | c :: d :: rest =>
    if c == '\r' then
      (if d == '\n' then '\n' :: normalize rest else '\n' :: normalize (d :: rest))
    else c :: normalize (d :: rest)

/-- strings.Split(s, "\n") -/
def splitNL : Str → List Str
  | [] => [[]]
  | c :: cs =>
    if c == '\n' then [] :: splitNL cs
    else consHead c (splitNL cs)

/-- parsePrecedingComment's line slice since fa11825 -/
def linesFixed (s : Str) : List Str := splitNL (normalize s)

/-- … and before -/
def linesOld (s : Str) : List Str := splitNL s

end Genq.Lines
