/-
Model of generate/main.go readConfigGenerateAndWrite (C20): a statement skeleton (the same
term the extractor regenerates from the Go source into Genq/Extracted/Main.lean) and a
generic interpreter over an abstract file system.  `Generate` and config loading are
parameters (`Env`); the write-effect inventory (Extracted.writeEffectFns) is what licenses
treating them as file-system-pure.
-/
namespace Genq.Main

inductive Eff
  | readConfig            -- ReadAndValidateConfig(configFilename)
  | readConfigDefault     -- ReadAndValidateConfigFromDefaultLocations()
  | generate              -- Generate(config)
  | mkdirAll              -- os.MkdirAll(filepath.Dir(filename), 0o755)
  | writeFile             -- os.WriteFile(filename, content, 0o644)
  | other (s : String)    -- anything the translator does not know: no model term contains it
deriving DecidableEq, Repr

inductive Stmt
  | call (e : Eff)                             -- …, err = e(…)
  | ifErrReturn                                -- if err != nil { return <err> }
  | ifElse (cond : String) (t e : List Stmt)
  | rangeGenerated (body : List Stmt)          -- for filename, content := range generated { … }
  | retNil
  | unknown (s : String)
deriving Repr

/-- what the present source says (must equal Extracted.mainSkeleton) -/
def skeleton : List Stmt := [
  .ifElse "configFilename != \"\""
    [.call .readConfig, .ifErrReturn]
    [.call .readConfigDefault, .ifErrReturn],
  .call .generate, .ifErrReturn,
  .rangeGenerated [.call .mkdirAll, .ifErrReturn, .call .writeFile, .ifErrReturn],
  .retNil ]

/-- functions of package generate that may create/modify/remove files -/
def writeEffectFns : List String := ["initConfig", "readConfigGenerateAndWrite"]

abbrev Path := Nat
abbrev Bytes := List Nat
abbrev FS := List (Path × Bytes)

def fsGet (fs : FS) (p : Path) : Option Bytes := fs.lookup p
def fsSet (fs : FS) (p : Path) (b : Bytes) : FS := (p, b) :: fs.filter (fun e => e.1 != p)

structure Env where
  explicitConfig : Bool                 -- configFilename != ""
  cfgFails : Bool
  genResult : Option (List (Path × Bytes))  -- none = Generate returned an error
  mkdirFails : Path → Bool              -- OS-level faults (not genqlient errors)
  writeFails : Path → Bool

structure St where
  fs : FS
  err : Bool := false
  cfgLoaded : Bool := false
  generated : List (Path × Bytes) := []
  cur : Option (Path × Bytes) := none
  returned : Option Bool := none        -- some true = returned an error, some false = returned nil
  stuck : Bool := false                 -- skeleton used something the interpreter cannot run

def callEff (env : Env) (s : St) : Eff → St
  | .readConfig | .readConfigDefault => { s with err := env.cfgFails, cfgLoaded := !env.cfgFails }
  | .generate =>
    if !s.cfgLoaded then { s with stuck := true } else
    match env.genResult with
    | none => { s with err := true }
    | some g => { s with err := false, generated := g }
  | .mkdirAll => match s.cur with
    | none => { s with stuck := true }
    | some (p, _) => { s with err := env.mkdirFails p }
  | .writeFile => match s.cur with
    | none => { s with stuck := true }
    | some (p, b) =>
      if env.writeFails p then { s with err := true, fs := fsSet s.fs p [] }   -- failed write may truncate
      else { s with err := false, fs := fsSet s.fs p b }
  | .other _ => { s with stuck := true }

/-- `for filename, content := range generated` with the loop body as a state transformer -/
def rangeLoop (body : St → St) : List (Path × Bytes) → St → St
  | [], s => s
  | f :: fs, s =>
    if s.returned.isSome || s.stuck then s else
    rangeLoop body fs (body { s with cur := some f })

mutual
def execStmt (env : Env) (s : St) : Stmt → St
  | .call e => callEff env s e
  | .ifErrReturn => if s.err then { s with returned := some true } else s
  | .ifElse _ t e => if env.explicitConfig then execList env s t else execList env s e
  | .rangeGenerated body => rangeLoop (fun s' => execList env s' body) s.generated s
  | .retNil => { s with returned := some false }
  | .unknown _ => { s with stuck := true }

def execList (env : Env) (s : St) : List Stmt → St
  | [] => s
  | st :: rest =>
    if s.returned.isSome || s.stuck then s else
    execList env (execStmt env s st) rest
end

def run (env : Env) (fs : FS) : St := execList env { fs := fs } skeleton

end Genq.Main
