/-
Model of the prefix-list naming of generated types (generate/names.go: typeNameParts, nextPrefix, makeTypeName,
makeLongTypeName) — C09 (which Go name a selection gets), C02 ("the Go field … that the documented naming rule
assigns").

A prefix list is kept front to back here (names.go keeps it reversed in a linked list): operation (or fragment)
name first, then alternately type names and field aliases.  `typeNameParts` omits the type name when the prefix is
just the operation name or when the name so far already ends with it ("shortening").
-/
import Genq.Model.Names
namespace Genq.Names

abbrev Prefix := List Name

def joinPrefix (p : Prefix) : Name := p.flatten

def isSuffixOf (s t : Name) : Bool := s.isSuffixOf t

/-- names.go typeNameParts -/
def typeNameParts (p : Prefix) (typeName : Name) (algo : Casing) : Prefix :=
  let tn := applyCasing typeName algo true
  if p.length ≤ 1 || isSuffixOf tn (joinPrefix p) then p else p ++ [tn]

/-- names.go nextPrefix: the prefix for the selections of `field` (alias `alias`, declared on type `objectType`) -/
def nextPrefix (p : Prefix) (objectType alias : Name) (algo : Casing) : Prefix :=
  typeNameParts p objectType algo ++ [applyCasing alias algo true]

/-- names.go makeTypeName: the Go name of the type generated for GraphQL type `typeName` under prefix `p` -/
def makeTypeName (p : Prefix) (typeName : Name) (algo : Casing) : Name :=
  joinPrefix (typeNameParts p typeName algo)

/-- names.go makeLongTypeName -/
def makeLongTypeName (p : Prefix) (typeName : Name) (algo : Casing) : Name :=
  joinPrefix (p ++ [applyCasing typeName algo true])

/-- the prefix reached from an operation (or fragment) name by a path of (type the field is declared on, alias) steps -/
def walk (root : Name) (steps : List (Name × Name)) (algo : Casing) : Prefix :=
  steps.foldl (fun p s => nextPrefix p s.1 s.2 algo) [root]

end Genq.Names
