/-
Model of the response half of (*client).MakeRequest (graphql/client.go) — C12.

encoding/json is third-party: its verdicts on a concrete body are inputs of the model
(`BodyFacts`, computed by the harness with the standard library, independently of the
client).  What is modelled is the client's own decision logic and its handling of the
response body (the `defer httpResp.Body.Close()` placed right after the Do error check).
-/
namespace Genq.HttpResp

structure BodyFacts where
  /-- io.ReadAll(body) fails (only consulted on the non-200 path) -/
  readAllFails : Bool
  /-- json.Unmarshal(all bytes, &Response) succeeds -/
  unmarshalOk : Bool
  /-- … and the decoded errors list is non-empty -/
  unmarshalErrors : Bool
  /-- json.NewDecoder(body).Decode(&resp) succeeds (only consulted on the 200 path) -/
  decodeOk : Bool
  /-- … and the decoded errors list is non-empty -/
  decodeErrors : Bool
deriving DecidableEq, Repr

inductive DoResult
  | transportErr
  | resp (status : Nat) (b : BodyFacts)
deriving DecidableEq, Repr

/-- what an HTTPError carries besides the status -/
inductive Carry
  | decoded (hasErrors : Bool)   -- the body decoded as a Response (errors list possibly empty)
  | rawText                       -- single error whose message is the body text
  | unreadableText                -- single error "<unreadable: …>"
deriving DecidableEq, Repr

inductive Outcome
  | transport                     -- Do's error, returned unchanged
  | httpError (status : Nat) (c : Carry)
  | decodeError                   -- some other error (undecodable 200 body / read failure)
  | gqlErrors                     -- resp.Errors returned; resp (incl. Data) was filled by the decoder
  | ok
deriving DecidableEq, Repr

structure Run where
  outcome : Outcome
  closes : Nat          -- number of Body.Close() calls
  dataDecoded : Bool    -- resp (Data, Extensions) was filled from the body
deriving DecidableEq, Repr

def makeRequest : DoResult → Run
  | .transportErr => { outcome := .transport, closes := 0, dataDecoded := false }
  | .resp status b =>
    -- defer httpResp.Body.Close()  ⇒ exactly one close on every path below
    if status != 200 then
      if b.readAllFails then
        -- respBody = "<unreadable: …>", which is not JSON
        { outcome := .httpError status .unreadableText, closes := 1, dataDecoded := false }
      else if b.unmarshalOk then
        { outcome := .httpError status (.decoded b.unmarshalErrors), closes := 1, dataDecoded := false }
      else
        { outcome := .httpError status .rawText, closes := 1, dataDecoded := false }
    else if !b.decodeOk then
      { outcome := .decodeError, closes := 1, dataDecoded := false }
    else if b.decodeErrors then
      { outcome := .gqlErrors, closes := 1, dataDecoded := true }
    else
      { outcome := .ok, closes := 1, dataDecoded := true }

/-! ### the generated helper (operation.go.tmpl), as a straight-line program -/

structure HelperRun where
  dataNonNil : Bool
  errUnchanged : Bool
  requests : Nat
deriving DecidableEq, Repr

/-- `getterFails = some true` ⇔ a client getter is configured and returns an error. -/
def helper (clientGetter : Option Bool) (_r : DoResult) : HelperRun :=
  match clientGetter with
  | some true => { dataNonNil := false, errUnchanged := true, requests := 0 }   -- `return nil, err_`
  | _ => { dataNonNil := true, errUnchanged := true, requests := 1 }

end Genq.HttpResp
