/-
Model of how generate/convert.go walks (possibly recursive) input-object types — C07 "never hangs".

convertDefinition, case ast.InputObject: the Go struct is entered into the type map BEFORE its fields are
converted ("To handle recursive types, we need to add the type to the type-map *before* converting its fields");
a type already in the map is returned at once.  So the walk is a depth-first traversal with a visited set, and its
recursion depth is bounded by the number of input types not yet visited.

`fieldsOf n` = for input object `n`, the named input-object types of its fields (in declaration order; list and
non-null wrappers stripped).  `visit` takes explicit fuel, as the real recursion has none: `fuel_sufficient`
(Props/C07.lean: `C07_recursive_inputs_terminate`) shows that `number of input types + 1` always suffices — the
recursion is well-founded for EVERY schema, however its input types refer to each other.
-/
namespace Genq.InputClosure

structure InSchema where
  fieldsOf : String → List String

/-- convertDefinition on input object `n` with the input types already in the type map `done`; result: the type map
    afterwards (most recent first), or `none` when the fuel runs out -/
def visit (S : InSchema) : Nat → String → List String → Option (List String)
  | 0, _, _ => none
  | fuel + 1, n, done =>
    if done.contains n then some done
    else (S.fieldsOf n).foldlM (fun d f => visit S fuel f d) (n :: done)

/-- input types of `U` not yet in the type map -/
def remaining (U done : List String) : Nat := (U.filter (fun x => !done.contains x)).length

end Genq.InputClosure
