/-
Model of the request-building half of graphql/client.go (C11).

Bytes are `Nat`s below 256 (the driver rejects anything else at the boundary).
`queryEscape` / `queryUnescape` mirror net/url's QueryEscape / QueryUnescape,
`encodeValues` mirrors url.Values.Encode for an already key-sorted association
list, `parseQuery` mirrors url.ParseQuery as url.URL.Query() uses it (errors
are dropped, pairs that fail to unescape are skipped, keys containing ';' are
skipped).  `kindGate` mirrors the strings.HasPrefix(strings.TrimSpace(q), kw)
tests of createPostRequest / createGetRequest.
-/
namespace Genq.Http

abbrev Bytes := List Nat

def isByte (b : Nat) : Bool := b < 256
def allBytes (s : Bytes) : Bool := s.all isByte

/-- net/url shouldEscape(c, encodeQueryComponent) == false -/
def unreserved (b : Nat) : Bool :=
  (97 ≤ b && b ≤ 122) || (65 ≤ b && b ≤ 90) || (48 ≤ b && b ≤ 57) ||
  b == 45 || b == 95 || b == 46 || b == 126

/-- "0123456789ABCDEF"[n] -/
def hexDigit (n : Nat) : Nat := if n < 10 then 48 + n else 55 + n

/-- net/url unhex, with ishex folded in -/
def unhex (c : Nat) : Option Nat :=
  if 48 ≤ c && c ≤ 57 then some (c - 48)
  else if 97 ≤ c && c ≤ 102 then some (c - 97 + 10)
  else if 65 ≤ c && c ≤ 70 then some (c - 65 + 10)
  else none

def escapeByte (b : Nat) : Bytes :=
  if unreserved b then [b]
  else if b == 32 then [43]
  else [37, hexDigit (b / 16), hexDigit (b % 16)]

def queryEscape : Bytes → Bytes
  | [] => []
  | b :: bs => escapeByte b ++ queryEscape bs

/-- net/url.QueryUnescape: '+' ↦ ' ', %XX ↦ byte, malformed escape ↦ error. -/
def queryUnescape : Bytes → Option Bytes
  | [] => some []
  | 37 :: h :: l :: rest =>
      match unhex h, unhex l, queryUnescape rest with
      | some a, some b, some r => some ((a * 16 + b) :: r)
      | _, _, _ => none
  | 37 :: _ => none
  | 43 :: rest => (queryUnescape rest).map (32 :: ·)
  | b :: rest => (queryUnescape rest).map (b :: ·)

/-! ### url.Values.Encode on a key-sorted assoc list with one value per key -/

def intercalateAmp : List Bytes → Bytes
  | [] => []
  | [x] => x
  | x :: xs => x ++ 38 :: intercalateAmp xs

def encodePair (kv : Bytes × Bytes) : Bytes :=
  queryEscape kv.1 ++ 61 :: queryEscape kv.2

def encodeValues (vs : List (Bytes × Bytes)) : Bytes :=
  intercalateAmp (vs.map encodePair)

/-! ### url.ParseQuery (as used through URL.Query(): errors dropped) -/

/-- split on a separator byte (strings.Cut in a loop) -/
def splitOn (sep : Nat) : Bytes → List Bytes
  | [] => [[]]
  | b :: bs =>
    if b == sep then [] :: splitOn sep bs
    else match splitOn sep bs with
      | [] => [[b]]
      | x :: xs => (b :: x) :: xs

/-- strings.Cut(s, "=") : before, after (after = "" when absent) -/
def cutEq : Bytes → Bytes × Bytes
  | [] => ([], [])
  | b :: bs => if b == 61 then ([], bs) else let (k, v) := cutEq bs; (b :: k, v)

def parsePair (p : Bytes) : Option (Bytes × Bytes) :=
  if p.isEmpty then none
  else if p.contains 59 then none
  else
    let (k, v) := cutEq p
    match queryUnescape k, queryUnescape v with
    | some k', some v' => some (k', v')
    | _, _ => none

def parseQuery (q : Bytes) : List (Bytes × Bytes) :=
  (splitOn 38 q).filterMap parsePair

/-! ### the operation-kind gate -/

/-- unicode.IsSpace -/
def isSpace (c : Nat) : Bool :=
  c == 9 || c == 10 || c == 11 || c == 12 || c == 13 || c == 32 ||
  c == 0x85 || c == 0xA0 || c == 0x1680 || (0x2000 ≤ c && c ≤ 0x200a) ||
  c == 0x2028 || c == 0x2029 || c == 0x202f || c == 0x205f || c == 0x3000

/-- strings.TrimSpace restricted to what a prefix test can observe: leading trim
    (code points, not bytes). -/
def trimLeft : List Nat → List Nat
  | [] => []
  | c :: cs => if isSpace c then trimLeft cs else c :: cs

def hasPrefix : List Nat → List Nat → Bool
  | [], _ => true
  | _ :: _, [] => false
  | p :: ps, c :: cs => p == c && hasPrefix ps cs

def kwQuery : List Nat := [113, 117, 101, 114, 121]
def kwMutation : List Nat := [109, 117, 116, 97, 116, 105, 111, 110]
def kwSubscription : List Nat := [115, 117, 98, 115, 99, 114, 105, 112, 116, 105, 111, 110]

inductive Method | get | post | ws
deriving DecidableEq, Repr

inductive Gate | pass | refuseQuery | refuseMutation | refuseSubscription
deriving DecidableEq, Repr

/-- The refusal logic of createGetRequest / createPostRequest / Subscribe
    (`if req.Query != ""` guards included). -/
def kindGate (m : Method) (q : List Nat) : Gate :=
  if q.isEmpty then .pass else
  let t := trimLeft q
  match m with
  | .post => if hasPrefix kwSubscription t then .refuseSubscription else .pass
  | .get =>
    if hasPrefix kwMutation t then .refuseMutation
    else if hasPrefix kwSubscription t then .refuseSubscription else .pass
  | .ws =>
    if hasPrefix kwQuery t then .refuseQuery
    else if hasPrefix kwMutation t then .refuseMutation else .pass

/-! ### the GET URL's query string

`existing` = RawQuery of the endpoint.  url.Values is a map; Set replaces all
values of a key by one; Encode sorts keys and keeps the value order per key.
We model the map as an insertion-ordered assoc list of (key, values) and sort at
the end with insertion sort on byte-lexicographic order (Go string order). -/

def bytesLt : Bytes → Bytes → Bool
  | [], [] => false
  | [], _ :: _ => true
  | _ :: _, [] => false
  | a :: as, b :: bs => a < b || (a == b && bytesLt as bs)

abbrev MultiMap := List (Bytes × List Bytes)

def mmAdd (m : MultiMap) (k v : Bytes) : MultiMap :=
  match m with
  | [] => [(k, [v])]
  | (k', vs) :: rest => if k' == k then (k', vs ++ [v]) :: rest else (k', vs) :: mmAdd rest k v

def mmSet (m : MultiMap) (k v : Bytes) : MultiMap :=
  match m with
  | [] => [(k, [v])]
  | (k', vs) :: rest => if k' == k then (k', [v]) :: rest else (k', vs) :: mmSet rest k v

def insertSorted (e : Bytes × List Bytes) : MultiMap → MultiMap
  | [] => [e]
  | x :: xs => if bytesLt e.1 x.1 then e :: x :: xs else x :: insertSorted e xs

def sortMM (m : MultiMap) : MultiMap := m.foldr insertSorted []

def flattenMM (m : MultiMap) : List (Bytes × Bytes) :=
  m.flatMap (fun kv => kv.2.map (fun v => (kv.1, v)))

def kQuery : Bytes := [113, 117, 101, 114, 121]
def kOpName : Bytes := [111, 112, 101, 114, 97, 116, 105, 111, 110, 78, 97, 109, 101]
def kVariables : Bytes := [118, 97, 114, 105, 97, 98, 108, 101, 115]

/-- RawQuery of the URL built by createGetRequest.  `vars = none` ⇔ req.Variables == nil. -/
def getRawQuery (existing query opName : Bytes) (vars : Option Bytes) : Bytes :=
  let m0 : MultiMap := (parseQuery existing).foldl (fun m kv => mmAdd m kv.1 kv.2) []
  let (m1, u1) := if query.isEmpty then (m0, false) else (mmSet m0 kQuery query, true)
  let (m2, u2) := if opName.isEmpty then (m1, u1) else (mmSet m1 kOpName opName, true)
  let (m3, u3) := match vars with
    | none => (m2, u2)
    | some v => (mmSet m2 kVariables v, true)
  if u3 then encodeValues (flattenMM (sortMM m3)) else existing

end Genq.Http
