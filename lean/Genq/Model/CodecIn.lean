/-
Model of how the generated code marshals the VARIABLES of an operation — C04.

The helper fills the hidden `__<Op>Input` struct with the caller's arguments and json.Marshals it: generated
MarshalJSON / __premarshalJSON (generate/marshal.go.tmpl) for structs with custom-marshaled fields, plain
encoding/json otherwise; input objects likewise.  What this file adds to Model/Codec.lean is `omitempty`:
a field (variable or input-object field) tagged `,omitempty` is left out exactly when its value is empty in the
encoding/json sense — judged on the PREMARSHAL struct, where a custom-marshaled field is a json.RawMessage
(empty only when a nil pointer was skipped) or a slice of them (empty when the source slice has length 0).

Types are the `Ty` trees of Model/Codec.lean; a field's JSON name carries its tag: "name,omitempty".
Input types have no embedded structs and no interfaces.
-/
import Genq.Model.Codec
namespace Genq.Codec

open Genq.Types (J)

/-- "name,omitempty" ↦ ("name", true) -/
def splitTag (tag : String) : String × Bool :=
  let cs := tag.toList
  let suf := ",omitempty".toList
  if suf.isSuffixOf cs then (String.ofList (cs.take (cs.length - suf.length)), true) else (tag, false)

/-- a JSON number token whose value is zero ("0", "-0", "0.0", "0e5") -/
def isZeroTok (tok : String) : Bool :=
  let cs := tok.toList
  let cs := match cs with | '-' :: r => r | r => r
  let mant := cs.takeWhile (fun c => c != 'e' && c != 'E')
  !mant.isEmpty && mant.all (fun c => c == '0' || c == '.')

/-- encoding/json isEmptyValue for an ordinary (not custom-marshaled) field -/
def isEmptyPlain : Ty → Val → Bool
  | .leaf .str, .leaf (.str s) => s == ""
  | .leaf .int, .leaf (.num t) => isZeroTok t
  | .leaf .float, .leaf (.num t) => isZeroTok t
  | .leaf .bool, .leaf (.bool b) => !b
  | .leaf .any, .leaf .null => true
  | .leaf .map, .leaf .null => true
  | .leaf .map, .leaf (.obj []) => true
  | .ptr _, .nilPtr => true
  | .slice _, .nilSlice => true
  | .slice _, .slice [] => true
  | _, _ => false

/-- the same for a custom-marshaled field, as the premarshal struct sees it: []…json.RawMessage is empty when
    the source slice has length 0; a json.RawMessage only when the nil pointer was skipped -/
def isEmptySpecial : Ty → Val → Bool
  | .slice _, .nilSlice => true
  | .slice _, .slice [] => true
  | .ptr _, .nilPtr => true
  | _, _ => false

mutual
/-- the type with the tags removed from the field names (what unmarshaling sees) -/
def untag : Ty → Ty
  | .leaf k => .leaf k
  | .struct fs => .struct (untagFs fs)
  | .ptr t => .ptr (untag t)
  | .slice t => .slice (untag t)
  | .iface is => .iface is
def untagFs : Flds → Flds
  | .nil => .nil
  | .cons n emb t rest => .cons (splitTag n).1 emb (untag t) (untagFs rest)
end

mutual
/-- json.Marshal of an input value -/
def encIn : Ty → Val → J
  | .leaf _, .leaf j => j
  | .struct fs, .struct vs => .obj (encInFields fs vs)
  | .ptr _, .nilPtr => .null
  | .ptr t, .ptr v => encIn t v
  | .slice _, .nilSlice => .null
  | .slice t, .slice vs => .arr (vs.map (fun v => encIn t v))
  | _, _ => .null
/-- the fields of the (pre)marshal struct, in order, minus the omitted ones -/
def encInFields : Flds → List Val → List (String × J)
  | .cons tag _ t rest, v :: vs =>
    let p := splitTag tag
    let here : List (String × J) :=
      if special t then
        (if p.2 && isEmptySpecial t v then [] else [(p.1, encInSpecial t v)])
      else
        (if p.2 && isEmptyPlain t v then [] else [(p.1, encIn t v)])
    here ++ encInFields rest vs
  | _, _ => []
/-- per-slice-depth loop of __premarshalJSON -/
def encInSpecial : Ty → Val → J
  | .slice _, .nilSlice => .arr []
  | .slice t, .slice vs => .arr (vs.map (fun v => encInSpecial t v))
  | .ptr _, .nilPtr => .null
  | .ptr t, .ptr v => encIn t v
  | .leaf _, .leaf j => j
  | .struct fs, .struct vs => .obj (encInFields fs vs)
  | _, _ => .null
end

/-- what a helper call sends: the arguments, each decoded by plain encoding/json into its parameter type, put into
    the `__<Op>Input` struct and marshaled -/
def encVars (fs : Flds) (args : List J) : Except Err J := do
  let rec go : Flds → List J → Except Err (List Val)
    | .cons _ _ t rest, a :: as => do
      let v ← dec (untag t) a
      let vs ← go rest as
      pure (v :: vs)
    | _, _ => pure []
  let vs ← go fs args
  pure (.obj (encInFields fs vs))

end Genq.Codec
