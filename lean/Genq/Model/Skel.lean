/-
Effect skeletons: the shape in which the Tie-B translator (harness/cmd/extract/skel.go) renders a
Go function — every call that is not on the translator's pure list, every channel operation,
every assignment to a struct field, with the control structure around them.  Conditions and
calls are kept as normalised source text.  Equality of two skeletons is decided by `rfl`.
-/
namespace Genq.Skel

inductive SStmt
  | eff (s : String)                         -- call / send / field assignment / go / defer
  | ite (cond : String) (t e : List SStmt)
  | loop (hdr : String) (body : List SStmt)
  | ret (s : String)
  | other (s : String)                       -- statement kinds the translator does not know
deriving Repr

structure Fn where
  name : String
  body : List SStmt
deriving Repr

end Genq.Skel
