/-
Model of how Generate depends on the files it is given (C08, C17): file names are enumerated in
an arbitrary order (a Go map in expandFilenames; globs; the file system), then — since the fix of
F-08 — sorted; everything downstream is a function of the sorted lists.
File names are abstract `Nat`s ordered by ≤ (standing for Go's string order).
-/
namespace Genq.Pipeline

abbrev FileId := Nat

/-- expandFilenames: `sorted = false` is the pinned commit (map iteration order is returned) -/
def expand (sorted : Bool) (enumerated : List FileId) : List FileId :=
  if sorted then enumerated.mergeSort (fun a b => decide (a ≤ b)) else enumerated

/-- Generate as a function of the two enumerations; `g` is everything downstream -/
def generate {Out} (sorted : Bool) (g : List FileId → List FileId → Out) (schemaEnum opEnum : List FileId) : Out :=
  g (expand sorted schemaEnum) (expand sorted opEnum)

end Genq.Pipeline
