/-
Model of generate/errors.go `errorf` — C18: which position a diagnostic carries when errors are wrapped in
errors, and what text follows it.

An error value is a tree: a foreign error (no position), a fmt.Errorf("…%w") wrapper, a *gqlerror.Error (file in
Extensions["file"], first location's line, Message, wrapped Err), a gqlerror.List, or a *genqlientError made by
errorf itself (position or none, message, wrapped error).  `asGenq` / `asGql` are errors.As for the two target
types (first match along Unwrap / As / Unwrap() []error, depth first).

errorf(pos, msg, args…): the first error among the arguments is the wrapped one.  The position is the explicit
`pos` when given; else that of the nearest genqlient error inside (even when that one has none); else file and
first line of the nearest GraphQL error that names a file.  The wrapped error's text is replaced by its bare
message (genqlient's msg / GraphQL's Message), so that an inner position never appears in the middle of the text.
The format string is modelled as `pre ++ "%v" ++ post` around the wrapped error (or `pre ++ post` with none).
-/
import Genq.Model.Files
namespace Genq.Errors

open Genq.Files (Str posString natToStr)

structure Pos where
  file : Str
  line : Nat
deriving DecidableEq, Repr

inductive E
  | none
  | foreign (text : Str)
  | wrapf (pre : Str) (inner : E)
  | gql (file : Str) (line : Option Nat) (msg : Str) (inner : E)
  | gqlList (items : List (Str × Option Nat × Str))
  | genq (pos : Option Pos) (msg : Str) (wrapped : E)
deriving Repr

/-- (*gqlerror.Error).Error() with an empty path -/
def gqlText (file : Str) (line : Option Nat) (msg : Str) : Str :=
  (if file.isEmpty then "input".toList else file) ++
    (match line with | some l => ':' :: natToStr l | .none => []) ++ ": ".toList ++ msg

/-- Error() -/
def E.text : E → Str
  | .none => []
  | .foreign t => t
  | .wrapf pre i => pre ++ i.text
  | .gql f l m _ => gqlText f l m
  | .gqlList items => (items.map (fun x => gqlText x.1 x.2.1 x.2.2 ++ ['\n'])).flatten
  | .genq (some p) m _ => posString p.file p.line ++ ": ".toList ++ m
  | .genq .none m _ => m

/-- errors.As(err, &(*genqlientError)) : (pos, msg) of the first genqlient error along the chain -/
def asGenq : E → Option (Option Pos × Str)
  | .none => .none
  | .foreign _ => .none
  | .wrapf _ i => asGenq i
  | .gql _ _ _ i => asGenq i
  | .gqlList _ => .none
  | .genq p m _ => some (p, m)

/-- errors.As(err, &(*gqlerror.Error)), falling back to the first element of a gqlerror.List -/
def asGql : E → Option (Str × Option Nat × Str)
  | .none => .none
  | .foreign _ => .none
  | .wrapf _ i => asGql i
  | .gql f l m _ => some (f, l, m)
  | .gqlList (x :: _) => some x
  | .gqlList [] => .none
  | .genq _ _ w => asGql w

def isNone : E → Bool
  | .none => true
  | _ => false

/-- the position errorf gives its result -/
def errorfPos (pos : Option Pos) (w : E) : Option Pos :=
  match pos with
  | some p => some p
  | .none =>
    match asGenq w with
    | some (gp, _) => gp
    | .none =>
      match asGql w with
      | some (f, l, _) => if f.isEmpty then .none else some ⟨f, l.getD 0⟩
      | .none => .none

/-- the text that stands for the wrapped error in errorf's message -/
def errText (w : E) : Str :=
  match asGenq w with
  | some (_, m) => m
  | .none =>
    match asGql w with
    | some (_, _, m) => m
    | .none => w.text

/-- errors.go errorf -/
def errorf (pos : Option Pos) (pre post : Str) (w : E) : E :=
  .genq (errorfPos pos w) (if isNone w then pre ++ post else pre ++ errText w ++ post) w

/-- `ws` position-less errorf calls, outermost first, around `e` -/
def wrapAll : List (Str × Str) → E → E
  | [], e => e
  | (a, b) :: ws, e => errorf .none a b (wrapAll ws e)

/-- the message those calls build around the innermost message `m` -/
def wrapMsg : List (Str × Str) → Str → Str
  | [], m => m
  | (a, b) :: ws, m => a ++ wrapMsg ws m ++ b

end Genq.Errors
