/-
Model of the WebSocket subscription client (graphql/websocket.go, graphql/subscription.go and
the forwarder of generate/operation.go.tmpl) as an interleaving state machine — C13, C14, C15.

Threads: the background reader (listenWebSocket) and one thread per in-flight API call.
One `Ev` = one atomic action of one thread, or one move of the environment (server frame,
connection loss, the application receiving from a channel, a connection write failing).

Atomicity.  The sections protected by subscriptionMap's RWMutex contain map accesses and (after
the F-13a repair) a channel close, none of which can block; each is one atomic action.  The
section protected by the client mutex in Close (set isClosing, close errChan, conn.Close) is one
atomic action; the one in handleErr is atomic when the error channel is buffered and is split
(lock held while blocked on the send) when it is not.  Tie B (Extracted/Ws.lean) records the
effect order of every method so that a moved lock or reordered step breaks an equality.

`Flags` are defect switches: all `true` describes the repaired tree; each `false` re-enables
one defect of the pinned commit (witness theorems in Props/C13–C15 replay them).
-/
namespace Genq.Ws

structure Flags where
  /-- F-13a/b: every close of a data channel goes through the entry's `hasBeenUnsubscribed`
      flag under the write lock (server `complete` included), so it happens at most once -/
  idempotentEnd : Bool
  /-- UnsubscribeAll only visits entries that have not ended -/
  closeLiveOnly : Bool
  /-- F-15a: Close unsubscribes (complete frames) before writing the close frame -/
  completeBeforeClose : Bool
  /-- F-15b: Close always closes errChan and the connection, whatever failed before -/
  closeAlwaysCleans : Bool
  /-- F-13d: the error channel has capacity 1 (the reader sends at most one error) -/
  errChanBuffered : Bool
deriving DecidableEq, Repr

def Flags.fixed : Flags := ⟨true, true, true, true, true⟩
def Flags.pinned : Flags := ⟨false, false, false, false, false⟩

abbrev SubId := Nat
abbrev Payload := Nat

inductive Frame
  | init | subscribe (i : SubId) | complete (i : SubId) | close
deriving DecidableEq, Repr

inductive Msg                          -- what ReadMessage hands to the reader
  | next (i : SubId) (p : Payload) (decodable : Bool)   -- `decodable = false`: forwarder's json.Unmarshal fails
  | complete (i : SubId)
  | other (i : SubId)                  -- any other type ("error", "ping", …) for id i: treated like `next` by the code
  | garbage                            -- not JSON: json.Unmarshal of the frame fails
deriving DecidableEq, Repr

inductive PanicKind
  | closeOfClosed (i : SubId) | sendOnClosed (i : SubId) | closeOfClosedErrChan | sendOnClosedErrChan
deriving DecidableEq, Repr

structure Sub where
  registered : Bool := true          -- present in the map (Subscribe deletes it again when its write fails)
  ended : Bool := false              -- hasBeenUnsubscribed
  closes : Nat := 0                  -- how often the data channel was closed
  nexts : List Payload := []         -- payloads of `next` frames the reader dispatched to this entry
  delivered : List Payload := []     -- payloads the application received on this channel
deriving DecidableEq, Repr

inductive Reader
  | top                                -- about to test isClosing
  | read                               -- blocked in conn.ReadMessage
  | send (i : SubId) (p : Payload)     -- blocked in the forwarder's `dataChan <- resp`
  | herr                               -- about to run handleErr (needs the client mutex)
  | herrSend                           -- holds the mutex, about to send on errChan (yield point `handleErr.send`)
  | done
deriving DecidableEq, Repr

inductive CloseAcc | noErr | failed   -- Close remembers the first error (closeAlwaysCleans)
deriving DecidableEq, Repr

/-- program counter of an API call -/
inductive Call
  | subWrite (i : SubId)                       -- Subscribe: entry created, subscribe frame handed to the conn, write not yet returned
  | unsubWrite (i : SubId)                     -- Unsubscribe: complete frame handed over, write not yet returned
  | unsubMap (i : SubId)                       -- Unsubscribe: write returned ok, map update pending
  | closeFrameWrite (todo : Option (List SubId)) (acc : CloseAcc)  -- close frame handed over; todo = ids still to unsubscribe afterwards (pinned order)
  | closeIds (acc : CloseAcc) (frameDone : Bool)                   -- about to take the id snapshot
  | closeUnsubWrite (i : SubId) (rest : List SubId) (acc : CloseAcc) (frameDone : Bool)
  | closeUnsubMap (i : SubId) (rest : List SubId) (acc : CloseAcc) (frameDone : Bool)
  | closeNext (rest : List SubId) (acc : CloseAcc) (frameDone : Bool)  -- between two Unsubscribe calls of UnsubscribeAll
  | closeFinal (acc : CloseAcc)                -- about to lock, set isClosing, close errChan, conn.Close
  | ret (ok : Bool)                            -- returned (ok = nil error)
deriving DecidableEq, Repr

structure World where
  subs : List Sub := []
  frames : List Frame := [.init]      -- frames handed to the connection (a started client has written connection_init and read the ack)
  written : List Frame := [.init]     -- frames whose write returned nil, in completion order
  isClosing : Bool := false
  connCloses : Nat := 0
  errChanCloses : Nat := 0
  errQueued : Nat := 0                -- errors sitting in the (buffered) error channel
  errReceived : Nat := 0              -- errors the application received
  mu : Bool := false                  -- client mutex held by the reader in `herrSend`
  reader : Reader := .top
  calls : List Call := []
  panic : Option PanicKind := none
  /-- Go's map iteration order in GetAllIDs is arbitrary: ids are visited in this priority
      order, ids not listed in index order (the harness learns the order the run took) -/
  closeOrder : List SubId := []
deriving DecidableEq, Repr

inductive Ev
  | subscribe                          -- application calls Subscribe (runs up to handing the frame to the conn)
  | unsubscribe (i : SubId)            -- application calls Unsubscribe(i)
  | close                              -- application calls Close
  | step (c : Nat)                     -- API call #c performs its next action; a pending conn write returns nil
  | stepFail (c : Nat)                 -- … the pending conn write of call #c returns an error
  | rstep                              -- the reader performs its next internal action
  | server (m : Msg)                   -- the reader's pending ReadMessage returns m
  | readErr                            -- the reader's pending ReadMessage returns an error
  | recvData (i : SubId)               -- the application receives from data channel i
  | recvErr                            -- the application receives from the error channel
deriving DecidableEq, Repr

def getSub (w : World) (i : SubId) : Option Sub := w.subs[i]?

def setSub (w : World) (i : SubId) (s : Sub) : World := { w with subs := w.subs.set i s }

/-- close data channel i through the map (`subscriptionMap.Unsubscribe` / the `complete` branch).
    `viaFlag`: this path marks the entry as ended. -/
def endSub (f : Flags) (w : World) (i : SubId) (viaFlag : Bool) : World :=
  match getSub w i with
  | none => w
  | some s =>
    if f.idempotentEnd then
      if s.ended then w else setSub w i { s with ended := true, closes := s.closes + 1 }
    else
      let w' := setSub w i { s with ended := s.ended || viaFlag, closes := s.closes + 1 }
      if s.closes ≥ 1 then { w' with panic := w.panic.or (some (.closeOfClosed i)) } else w'

def liveIds (f : Flags) (w : World) : List SubId :=
  (List.range w.subs.length).filter fun i =>
    match w.subs[i]? with
    | some s => s.registered && (!f.closeLiveOnly || !s.ended)
    | none => false

/-- which of the remaining ids UnsubscribeAll visits next (Go map iteration order is arbitrary:
    the first id of `closeOrder` that is still to do, else the smallest) -/
def pick (order rest : List SubId) : SubId :=
  match order.find? (rest.contains ·) with
  | some i => i
  | none => rest.headD 0

def setCall (w : World) (c : Nat) (k : Call) : World := { w with calls := w.calls.set c k }

/-- the atomic final section of Close -/
def closeFinal (w : World) : World :=
  let w1 := { w with isClosing := true, errChanCloses := w.errChanCloses + 1, connCloses := w.connCloses + 1 }
  if w.errChanCloses ≥ 1 then { w1 with panic := w.panic.or (some .closeOfClosedErrChan) } else w1

/-- continue UnsubscribeAll/Close after the Unsubscribe of one id finished with `ok` -/
def closeAfterUnsub (f : Flags) (rest : List SubId) (acc : CloseAcc) (frameDone ok : Bool) : Call :=
  if ok then .closeNext rest acc frameDone
  else if f.closeAlwaysCleans then
    -- UnsubscribeAll stops at the first failure; Close remembers it and goes on
    -- (`closeNext []` writes the close frame if that is still to be done)
    .closeNext [] .failed frameDone
  else .ret false

def stepCall (f : Flags) (w : World) (c : Nat) (writeOk : Bool) : Option World :=
  match w.calls[c]? with
  | none => none
  | some k =>
    match k with
    | .subWrite i =>
      if writeOk then some (setCall { w with written := w.written ++ [.subscribe i] } c (.ret true))
      else match getSub w i with
        | none => none
        | some s => some (setCall (setSub w i { s with registered := false }) c (.ret false))
    | .unsubWrite i =>
      if writeOk then some (setCall { w with written := w.written ++ [.complete i] } c (.unsubMap i)) else some (setCall w c (.ret false))
    | .unsubMap i =>
      if !writeOk then none else
      match getSub w i with
      | none => some (setCall w c (.ret false))
      | some s =>
        if !s.registered then some (setCall w c (.ret false))
        else some (setCall (endSub f w i true) c (.ret true))
    | .closeIds acc frameDone =>
      if !writeOk then none else
      some (setCall w c (.closeNext (liveIds f w) acc frameDone))
    | .closeNext rest acc frameDone =>
      if !writeOk then none else
      match rest with
      | [] =>
        if frameDone then some (setCall w c (.closeFinal acc))
        else some (setCall { w with frames := w.frames ++ [.close] } c (.closeFrameWrite none acc))
      | _ :: _ =>
        let i := pick w.closeOrder rest
        some (setCall { w with frames := w.frames ++ [.complete i] } c (.closeUnsubWrite i (rest.erase i) acc frameDone))
    | .closeUnsubWrite i rest acc frameDone =>
      if writeOk then some (setCall { w with written := w.written ++ [.complete i] } c (.closeUnsubMap i rest acc frameDone))
      else some (setCall w c (closeAfterUnsub f rest acc frameDone false))
    | .closeUnsubMap i rest acc frameDone =>
      if !writeOk then none else
      match getSub w i with
      | none => some (setCall w c (closeAfterUnsub f rest acc frameDone false))
      | some s =>
        if !s.registered then some (setCall w c (closeAfterUnsub f rest acc frameDone false))
        else some (setCall (endSub f w i true) c (closeAfterUnsub f rest acc frameDone true))
    | .closeFrameWrite todo acc =>
      -- the close frame was handed over; the write returns
      if writeOk then
        let w := { w with written := w.written ++ [.close] }
        match todo with
        | none => some (setCall w c (.closeFinal acc))
        | some _ => some (setCall w c (.closeIds acc true))
      else if f.closeAlwaysCleans then
        match todo with
        | none => some (setCall w c (.closeFinal .failed))
        | some _ => some (setCall w c (.closeIds .failed true))
      else some (setCall w c (.ret false))
    | .closeFinal acc =>
      if !writeOk then none else
      if w.mu then none                                    -- blocked: the reader holds the client mutex
      else some (setCall (closeFinal w) c (.ret (acc == .noErr)))
    | .ret _ => none

/-- reader dispatching one frame (forwardWebSocketData) -/
def dispatch (f : Flags) (w : World) (m : Msg) : World :=
  match m with
  | .garbage => { w with reader := .herr }
  | .complete i =>
    match getSub w i with
    | none => { w with reader := .herr }
    | some s =>
      if !s.registered then { w with reader := .herr }
      else if s.ended then { w with reader := .top }
      else { endSub f w i false with reader := .top }
  | .next i p dec =>
    match getSub w i with
    | none => { w with reader := .herr }
    | some s =>
      if !s.registered then { w with reader := .herr }
      else if s.ended then { w with reader := .top }
      else if !dec then { w with reader := .herr }
      else { setSub w i { s with nexts := s.nexts ++ [p] } with reader := .send i p }
  | .other i =>
    -- same path as `next` with a payload the forwarder cannot decode into data: the forwarder
    -- still delivers a response value; abstracted as an undecodable payload
    match getSub w i with
    | none => { w with reader := .herr }
    | some s =>
      if !s.registered then { w with reader := .herr }
      else if s.ended then { w with reader := .top }
      else { w with reader := .herr }

def step (f : Flags) (w : World) : Ev → Option World
  | .subscribe =>
    let i := w.subs.length
    some { w with subs := w.subs ++ [{}], frames := w.frames ++ [.subscribe i], calls := w.calls ++ [.subWrite i] }
  | .unsubscribe i =>
    some { w with frames := w.frames ++ [.complete i], calls := w.calls ++ [.unsubWrite i] }
  | .close =>
    if f.completeBeforeClose then some { w with calls := w.calls ++ [.closeIds .noErr false] }
    else some { w with frames := w.frames ++ [.close], calls := w.calls ++ [.closeFrameWrite (some []) .noErr] }
  | .step c => stepCall f w c true
  | .stepFail c =>
    match w.calls[c]? with
    | some (.subWrite _) | some (.unsubWrite _) | some (.closeUnsubWrite ..) | some (.closeFrameWrite ..) => stepCall f w c false
    | _ => none
  | .rstep =>
    match w.reader with
    | .top => if w.isClosing then some { w with reader := .done } else some { w with reader := .read }
    | .read => if w.connCloses ≥ 1 then some { w with reader := .herr } else none   -- reads fail once the conn is closed
    | .send i _ =>
      match getSub w i with
      | some s => if s.closes ≥ 1 then some { w with reader := .done, panic := w.panic.or (some (.sendOnClosed i)) } else none
      | none => none
    | .herr =>
      -- handleErr: Lock; isClosing?  The lock is held from here to the end of the function.
      if w.mu then none
      else if w.isClosing then some { w with reader := .done }
      else some { w with mu := true, reader := .herrSend }
    | .herrSend =>
      -- the send itself (under the lock): with capacity 1 it completes at once (the reader
      -- sends at most one error); without buffer it waits for the application (`recvErr`)
      if f.errChanBuffered then some { w with errQueued := w.errQueued + 1, mu := false, reader := .done }
      else none
    | .done => none
  | .server m =>
    match w.reader with
    | .read => if w.connCloses ≥ 1 then none else some (dispatch f w m)
    | _ => none
  | .readErr =>
    match w.reader with
    | .read => some { w with reader := .herr }
    | _ => none
  | .recvData i =>
    match w.reader with
    | .send j p =>
      if i == j then
        match getSub w i with
        | some s => if s.closes ≥ 1 then none else some { setSub w i { s with delivered := s.delivered ++ [p] } with reader := .top }
        | none => none
      else none
    | _ => none
  | .recvErr =>
    if w.errQueued ≥ 1 then some { w with errQueued := w.errQueued - 1, errReceived := w.errReceived + 1 }
    else match w.reader with
      | .herrSend =>
        if f.errChanBuffered then none
        else some { w with mu := false, errReceived := w.errReceived + 1, reader := .done }
      | _ => none

/-- Is call `c` at a point where the real goroutine is parked inside a connection write (or has
    returned)?  Everything else is an internal action the goroutine runs through eagerly. -/
def parked (w : World) (c : Nat) : Bool :=
  match w.calls[c]? with
  | some (.subWrite _) | some (.unsubWrite _) | some (.closeUnsubWrite ..) | some (.closeFrameWrite ..) | some (.ret _) => true
  | none => true
  | _ => false

/-- run call `c` forward through its internal actions until it parks, returns or blocks -/
def settle (f : Flags) (w : World) (c : Nat) : Nat → World
  | 0 => w
  | fuel + 1 =>
    if w.panic.isSome || parked w c then w else
    match stepCall f w c true with
    | none => w            -- blocked (mutex)
    | some w' => settle f w' c fuel

/-- reader actions the real goroutine runs through without stopping (`send` is a park point of
    the harness's forwarder, so it is *not* eager) -/
def settleReader (f : Flags) (w : World) : Nat → World
  | 0 => w
  | fuel + 1 =>
    if w.panic.isSome then w else
    match w.reader with
    | .top | .herr => match step f w .rstep with
      | none => w
      | some w' => settleReader f w' fuel
    | .read => if w.connCloses ≥ 1 then (match step f w .rstep with | none => w | some w' => settleReader f w' fuel) else w
    | _ => w

def settleAll (f : Flags) (w : World) : World :=
  let w1 := settleReader f w 8
  let w2 := (List.range w1.calls.length).foldl (fun w c => settle f w c 64) w1
  let w3 := settleReader f w2 8
  (List.range w3.calls.length).foldl (fun w c => settle f w c 64) w3

/-- park-level step: what the schedule controller of the harness executes -/
def stepPark (f : Flags) (w : World) (e : Ev) : Option World :=
  if w.panic.isSome then none else (step f w e).map (settleAll f)

def runPark (f : Flags) (w : World) : List Ev → Option World
  | [] => some w
  | e :: es => match stepPark f w e with
    | none => none
    | some w' => runPark f w' es

/-- run an event list; events that are not enabled are skipped (the harness only issues enabled ones) -/
def run (f : Flags) (w : World) (evs : List Ev) : World :=
  evs.foldl (fun w e => if w.panic.isSome then w else (step f w e).getD w) w

def init : World := {}

end Genq.Ws

namespace Genq.Ws

/-! ### Start (sequential; runs before the reader exists) -/

inductive ReadRes | ack | otherMsg | garbage | fail
deriving DecidableEq, Repr

structure StartRun where
  ok : Bool
  dialed : Bool
  connCloses : Nat
  readerSpawned : Bool
  framesWritten : List Frame
deriving DecidableEq, Repr

/-- waitForConnAck over the scripted read results (time-out not modelled: reads are finite) -/
def waitAck : List ReadRes → Bool
  | [] => false                      -- the script ran out: treated as a failed read
  | .ack :: _ => true
  | .otherMsg :: rest => waitAck rest
  | .garbage :: _ => false
  | .fail :: _ => false

def start (dialOk initOk : Bool) (reads : List ReadRes) : StartRun :=
  if !dialOk then ⟨false, false, 0, false, []⟩
  else if !initOk then ⟨false, true, 1, false, []⟩
  else if !waitAck reads then ⟨false, true, 1, false, [.init]⟩
  else ⟨true, true, 0, true, [.init]⟩

/-- program counters that belong to a Close call -/
def Call.isClose : Call → Bool
  | .closeFrameWrite .. | .closeIds .. | .closeUnsubWrite .. | .closeUnsubMap .. | .closeNext .. | .closeFinal _ => true
  | _ => false

end Genq.Ws
