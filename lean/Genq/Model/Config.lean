/-
Model of the casing part of generate/config.go (Casing.validate, getDefault, forEnum) with
casing algorithms as arbitrary strings (what YAML can supply) — C07: the `default: panic` branch
of names.go enumValueName is reachable exactly when forEnum returns a string that is not one of
the three algorithms.
-/
namespace Genq.Config

def validAlgo (s : String) : Bool := s == "default" || s == "raw" || s == "auto_camel_case"

structure Casing where
  default : String
  allEnums : String
  enums : List (String × String)      -- the YAML map, as an association list

/-- Casing.validate: `default` and `all_enums` are checked when set, every `enums` entry always -/
def Casing.validate (c : Casing) : Bool :=
  (c.default == "" || validAlgo c.default) && (c.allEnums == "" || validAlgo c.allEnums) &&
  c.enums.all (fun kv => validAlgo kv.2)

def Casing.getDefault (c : Casing) : String := if c.default != "" then c.default else "default"

/-- Casing.forEnum: a per-enum entry wins by *presence* of the key -/
def Casing.forEnum (c : Casing) (name : String) : String :=
  match c.enums.lookup name with
  | some a => a
  | none => if c.allEnums != "" then c.allEnums else c.getDefault

/-- names.go enumValueName reaches its `default: panic(...)` branch -/
def enumValueNamePanics (c : Casing) (enumName : String) : Bool := !validAlgo (c.forEnum enumName)

end Genq.Config
