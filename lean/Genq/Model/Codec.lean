/-
Model of what the generated (un)marshaling code computes for RESPONSE types — C02, C06, C19.

Mirrors, over an abstract Go value domain:
  * generate/unmarshal.go.tmpl          (UnmarshalJSON: null is a no-op; first pass for ordinary fields; the same
                                         bytes again into every embedded fragment struct; per-slice-depth loop with
                                         `make(…, len(src))`; the `len(src) != 0 && src != "null"` guard; pointer allocation)
  * generate/unmarshal_helper.go.tmpl   (__unmarshal<Iface>: dispatch on __typename)
  * generate/marshal.go.tmpl            (__premarshal struct over FlattenedFields: breadth first, first JSON name wins;
                                         per-slice-depth loop; nil pointer skipped)
  * generate/marshal_helper.go.tmpl     (__marshal<Iface>: __typename first, then the implementation's fields)
  * the part of encoding/json those rely on (a field is set from the LAST key that matches its name exactly or
    case-insensitively; null leaves scalars/structs untouched and nils pointers, slices, interfaces).

A response type is a finite tree (`Ty`): named fragment structs are inlined where they are embedded.
Input types (recursive, omitempty) are not covered here (C04 has its own model, `Vars`).

Modelled, not verified; tied to the compiled generated code on every run by the `codec.*` driver operations
(harness leg `codec` of C02/C06/C19).  The model is faithful for types without "fold twins" (two JSON names of one
struct closure that differ only in letter case) and inputs without duplicate keys; the harness does not compare
outside that domain and the theorems carry it as the explicit hypothesis `NoFoldTwins`.
-/
import Genq.Model.Types
namespace Genq.Codec

open Genq.Types (J)

/-- leaf kinds: Go string / int / float64 / bool / interface{} (or a bound type without methods) / a bound type
    with a configured (un)marshaler (opaque: the model keeps the JSON it was given) -/
inductive Leaf | str | int | float | bool | any | custom | map
deriving DecidableEq, Repr

mutual
inductive Ty
  | leaf (k : Leaf)
  | struct (fs : Flds)
  | ptr (t : Ty)
  | slice (t : Ty)
  | iface (impls : Impls)
inductive Flds
  | nil
  | cons (json : String) (embedded : Bool) (t : Ty) (rest : Flds)
inductive Impls
  | nil
  | cons (typename : String) (t : Ty) (rest : Impls)
end

inductive Val
  | leaf (j : J)
  | struct (vs : List Val)            -- positional, parallel to the struct's field list
  | nilPtr | ptr (v : Val)
  | nilSlice | slice (vs : List Val)
  | nilIface | iface (typename : String) (v : Val)
deriving Repr, Inhabited

inductive Err
  | typeMismatch          -- encoding/json: cannot unmarshal X into Go value of type Y
  | missingTypename       -- "response was missing X.__typename"
  | unexpectedType (tn : String)
  | shape                 -- a Val that does not fit the Ty (never produced by `dec`)
deriving Repr, DecidableEq

def fold (s : String) : String := String.ofList (s.toList.map Char.toLower)

/-- encoding/json field matching: exact, else case-insensitive (ASCII) -/
def keyEq (k n : String) : Bool := k == n || fold k == fold n

/-- the value a field named `n` ends up with: the LAST key of the object that matches it -/
def lookup : List (String × J) → String → Option J
  | [], _ => none
  | (k, v) :: rest, n =>
    match lookup rest n with
    | some x => some x
    | none => if keyEq k n then some v else none

def zeroJ : Leaf → J
  | .str => .str ""
  | .int => .num "0"
  | .float => .num "0"
  | .bool => .bool false
  | .any => .null
  | .custom => .null
  | .map => .null

def isDigits (cs : List Char) : Bool := !cs.isEmpty && cs.all Char.isDigit

def digitsVal (cs : List Char) : Nat := cs.foldl (fun n c => 10 * n + (c.toNat - 48)) 0

/-- a JSON number token that strconv.ParseInt(…, 10, 64) accepts: no fraction, no exponent, within int64 -/
def isIntTok (tok : String) : Bool :=
  match tok.toList with
  | '-' :: ds => isDigits ds && digitsVal ds ≤ 9223372036854775808
  | ds => isDigits ds && digitsVal ds ≤ 9223372036854775807

def decLeaf (k : Leaf) (j : J) : Except Err Val :=
  match k, j with
  | _, .null => .ok (.leaf (zeroJ k))                       -- null leaves the (zero) value untouched
  | .str, .str s => .ok (.leaf (.str s))
  | .int, .num tok => if isIntTok tok then .ok (.leaf (.num (if tok == "-0" then "0" else tok))) else .error .typeMismatch
  | .float, .num tok => .ok (.leaf (.num tok))
  | .bool, .bool b => .ok (.leaf (.bool b))
  | .any, j => .ok (.leaf j)
  | .custom, j => .ok (.leaf j)                             -- opaque: the configured unmarshaler keeps what it is given
  | .map, .obj o => .ok (.leaf (.obj o))                    -- a Go map[string]interface{}: objects only
  | _, _ => .error .typeMismatch

mutual
def zero : Ty → Val
  | .leaf k => .leaf (zeroJ k)
  | .struct fs => .struct (zeros fs)
  | .ptr _ => .nilPtr
  | .slice _ => .nilSlice
  | .iface _ => .nilIface
def zeros : Flds → List Val
  | .nil => []
  | .cons _ _ t rest => zero t :: zeros rest
end

/-- NeedsMarshaling of a non-embedded field: after the slices and at most one pointer comes an interface or a
    type with a custom (un)marshaler -/
def specialBase : Ty → Bool
  | .iface _ => true
  | .leaf .custom => true
  | _ => false

def special : Ty → Bool
  | .slice t => special t
  | .ptr t => specialBase t
  | t => specialBase t

def findImpl : Impls → String → Option Ty
  | .nil, _ => none
  | .cons tn t rest, n => if tn == n then some t else findImpl rest n

/-- the first-pass `struct{TypeName string "json:\"__typename\""}` of the helper -/
def typenameOf (o : List (String × J)) : Except Err String :=
  match lookup o "__typename" with
  | none => .ok ""
  | some (.str s) => .ok s
  | some .null => .ok ""
  | some _ => .error .typeMismatch

mutual
/-- json.Unmarshal into a value of type `t` (for a struct with generated UnmarshalJSON: that method) -/
def dec : Ty → J → Except Err Val
  | .leaf k, j => decLeaf k j
  | .struct fs, j =>
    match j with
    | .null => .ok (.struct (zeros fs))
    | .obj o => (decFields fs o).map .struct
    | _ => .error .typeMismatch
  | .ptr t, j =>
    match j with
    | .null => .ok .nilPtr
    | j => (dec t j).map .ptr
  | .slice t, j =>
    match j with
    | .null => .ok .nilSlice
    | .arr xs => (xs.mapM (fun x => dec t x)).map .slice
    | _ => .error .typeMismatch
  | .iface impls, j =>
    match j with
    | .null => .ok .nilIface
    | .obj o =>
      match typenameOf o with
      | .error e => .error e
      | .ok tn =>
        if tn == "" then .error .missingTypename
        else decImpl impls tn (.obj o)
    | _ => .error .typeMismatch
/-- the switch of __unmarshal<Iface> -/
def decImpl : Impls → String → J → Except Err Val
  | .nil, tn, _ => .error (.unexpectedType tn)
  | .cons n t rest, tn, j => if n == tn then (dec t j).map (.iface tn) else decImpl rest tn j
/-- the fields of one struct against one JSON object -/
def decFields : Flds → List (String × J) → Except Err (List Val)
  | .nil, _ => .ok []
  | .cons n emb t rest, o => do
    let v ← if emb then dec t (.obj o)                       -- the same bytes again into the embedded struct
            else if special t then decSpecial t ((lookup o n).getD .null)
            else match lookup o n with
              | none => .ok (zero t)
              | some j => dec t j
    let vs ← decFields rest o
    pure (v :: vs)
/-- a field handled through json.RawMessage: slices are rebuilt with make(…, len(src)), so a null or absent
    list becomes an EMPTY slice (F-02) -/
def decSpecial : Ty → J → Except Err Val
  | .slice t, j =>
    match j with
    | .null => .ok (.slice [])
    | .arr xs => (xs.mapM (fun x => decSpecial t x)).map .slice
    | _ => .error .typeMismatch
  | .ptr t, j =>
    match j with
    | .null => .ok .nilPtr
    | j => (dec t j).map .ptr
  | .iface impls, j =>                                       -- as `dec`
    match j with
    | .null => .ok .nilIface
    | .obj o =>
      match typenameOf o with
      | .error e => .error e
      | .ok tn =>
        if tn == "" then .error .missingTypename
        else decImpl impls tn (.obj o)
    | _ => .error .typeMismatch
  | .leaf k, j => decLeaf k j
  | .struct fs, j =>                                         -- (not a special type; as `dec`)
    match j with
    | .null => .ok (.struct (zeros fs))
    | .obj o => (decFields fs o).map .struct
    | _ => .error .typeMismatch
end

/-! ### marshaling -/

/-- insertion into a list ordered by depth, before the entries of equal depth (so that `sortDepth` is stable) -/
def insDepth (e : Nat × String × J) : List (Nat × String × J) → List (Nat × String × J)
  | [] => [e]
  | x :: xs => if e.1 ≤ x.1 then e :: x :: xs else x :: insDepth e xs

def sortDepth : List (Nat × String × J) → List (Nat × String × J)
  | [] => []
  | e :: es => insDepth e (sortDepth es)

/-- first entry per JSON name wins -/
def dedup : List (Nat × String × J) → List String → List (String × J)
  | [], _ => []
  | (_, n, j) :: rest, seen => if seen.contains n then dedup rest seen else (n, j) :: dedup rest (n :: seen)

/-- FlattenedFields: breadth first (= by depth, then in declaration order), first JSON name wins -/
def winners (all : List (Nat × String × J)) : List (String × J) := dedup (sortDepth all) []

mutual
/-- json.Marshal of a value of type `t` -/
def enc : Ty → Val → J
  | .leaf _, .leaf j => j
  | .struct fs, .struct vs => .obj (winners (encAll fs vs 0))
  | .ptr _, .nilPtr => .null
  | .ptr t, .ptr v => enc t v
  | .slice _, .nilSlice => .null
  | .slice t, .slice vs => .arr (vs.map (fun v => enc t v))
  | .iface _, .nilIface => .null
  | .iface impls, .iface tn v => encImpl impls tn v
  | _, _ => .null
/-- __marshal<Iface>: __typename, then the implementation's (pre-marshaled) fields; a __typename field of the
    implementation itself is shadowed by the helper's -/
def encImpl : Impls → String → Val → J
  | .nil, _, _ => .null
  | .cons n t rest, tn, v => if n == tn then encHead t tn v else encImpl rest tn v
/-- the implementation chosen by the type switch -/
def encHead : Ty → String → Val → J
  | .struct fs, tn, .struct vs => .obj (("__typename", .str tn) :: (winners (encAll fs vs 0)).filter (fun kv => kv.1 != "__typename"))
  | _, _, _ => .null
/-- every field of the struct and of the structs embedded in it, with its embedding depth -/
def encAll : Flds → List Val → Nat → List (Nat × String × J)
  | .cons n emb t rest, v :: vs, d =>
    (if emb then encEmb t v (d + 1)
     else if special t then [(d, n, encSpecial t v)]
     else [(d, n, enc t v)]) ++ encAll rest vs d
  | _, _, _ => []
/-- the fields an embedded fragment struct contributes -/
def encEmb : Ty → Val → Nat → List (Nat × String × J)
  | .struct fs, .struct ws, d => encAll fs ws d
  | _, _, _ => []
/-- a field marshaled through json.RawMessage: make([]json.RawMessage, len(src)) — a nil slice becomes [] -/
def encSpecial : Ty → Val → J
  | .slice _, .nilSlice => .arr []
  | .slice t, .slice vs => .arr (vs.map (fun v => encSpecial t v))
  | .ptr _, .nilPtr => .null
  | .ptr t, .ptr v => enc t v
  | .iface _, .nilIface => .null                             -- as `enc`
  | .iface impls, .iface tn v => encImpl impls tn v
  | .leaf _, .leaf j => j
  | .struct fs, .struct vs => .obj (winners (encAll fs vs 0))
  | _, _ => .null
end

/-! ### the supported domain -/

mutual
/-- JSON names of the fields of a struct and of everything embedded in it -/
def closureNames : Flds → List String
  | .nil => []
  | .cons n emb t rest => (if emb then embNames t else [n]) ++ closureNames rest
def embNames : Ty → List String
  | .struct fs => closureNames fs
  | _ => []
end

def noFoldTwinsIn (names : List String) : Bool :=
  names.all fun a => names.all fun b => a == b || fold a != fold b

mutual
/-- no two different JSON names of one struct closure (plus `__typename`) differ only in letter case, anywhere in the type -/
def noFoldTwins : Ty → Bool
  | .leaf _ => true
  | .struct fs => noFoldTwinsIn ("__typename" :: closureNames fs) && noFoldTwinsFs fs
  | .ptr t => noFoldTwins t
  | .slice t => noFoldTwins t
  | .iface impls => noFoldTwinsIs impls
def noFoldTwinsFs : Flds → Bool
  | .nil => true
  | .cons _ _ t rest => noFoldTwins t && noFoldTwinsFs rest
def noFoldTwinsIs : Impls → Bool
  | .nil => true
  | .cons _ t rest => noFoldTwins t && noFoldTwinsIs rest
end

end Genq.Codec
