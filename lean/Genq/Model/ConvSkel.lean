/-
Committed copy of the control/effect skeletons of the functions of package generate that the hand-written models
transcribe (names.go, convert.go getType/addType/convertType/possibleObjectTypes/fragmentMatches, validation.go
selectionsMatch, genqlient_directive.go mergeOperationDirective, generate.go usedFragments/preprocessQueryDocument/
addOperation, parse.go, errors.go, imports.go, config.go Casing).  harness/cmd/extract regenerates
Genq/Extracted/Conv.lean from /repo on every run; the `*_tie` theorems in Props state equality by `rfl`, so an edit
of any of these functions breaks a proof obligation of every property whose model rests on it — the check then
searches for a failing input and otherwise reports `no-failing-input-found`.

Which model each group belongs to:
  namingSkeleton          Model/TypeNames.lean, Model/Names.lean (enumValueName)          C09, C16
  typeMapSkeleton         Model/TypeMap.lean (getType / addType)                          C09, C01
  selectionsMatchSkeleton Model/TypeMap.lean (selsMatch)                                  C09
  convertTypeSkeleton     Model/Conv.lean (wrappers), Model/Types.lean (possible types, fragmentMatches)  C10, C02, C19
  directiveMergeSkeleton  Model/Conv.lean (node > for > operation)                        C10
  documentSkeleton        Model/Doc.lean (closure, __typename insertion, Body)            C03
  parseSkeleton           Model/Files.lean (merge, literal selection)                     C05, C17, C18
  errorsSkeleton          Model/Files.lean (posString), Model/Errors.lean (errorf)        C18
  importsSkeleton         Model/Imports.lean                                              C01, C08
  casingSkeleton          Model/Config.lean                                               C07, C16
-/
import Genq.Model.Skel
namespace Genq.ConvSkel
open Genq.Skel
def namingSkeleton : List Fn := [
  { name := "joinPrefixList", body := [
      .loop "for prefix != nil; prefix = prefix.tail" [],
      .loop "for i < l/2; i++" [
        .eff "set reversed[i]",
        .eff "set reversed[l-1-i]" ],
      .eff "call strings.Join(reversed, \"\")",
      .ret "<call>" ] },
  { name := "typeNameParts", body := [
      .eff "call ApplyCasing(typeName, algorithm, true)",
      .eff "call joinPrefixList(prefix)",
      .eff "call strings.HasSuffix(joinPrefixList(prefix), typeName)",
      .ite "prefix == nil || prefix.tail == nil || strings.HasSuffix(joinPrefixList(prefix), typeName)"
        [
          .ret "<expr>" ]
        [],
      .ret "<expr>" ] },
  { name := "nextPrefix", body := [
      .eff "call typeNameParts(prefix, field.ObjectDefinition.Name, algorithm)",
      .eff "call ApplyCasing(field.Alias, algorithm, true)",
      .ret "<expr>" ] },
  { name := "makeTypeName", body := [
      .eff "call typeNameParts(prefix, typeName, algorithm)",
      .eff "call joinPrefixList(typeNameParts(prefix, typeName, algorithm))",
      .ret "<call>" ] },
  { name := "makeLongTypeName", body := [
      .eff "call ApplyCasing(typeName, algorithm, true)",
      .eff "call joinPrefixList(&prefixList{typeName, prefix})",
      .ret "<call>" ] },
  { name := "Casing.enumValueName", body := [
      .other "switch algo := casing.forEnum(enum.Name); algo { case CasingDefault: return goTypeName + goConstName(val.Name) case CasingRaw: return goTypeName + \"_\" + val.Name case CasingAutoCamelCase: return goTypeName + ApplyCasing(val.Name, algo, true) default: panic(fmt.Sprintf(\"unknown casing algorithm %s\", algo)) }" ] } ]

def typeMapSkeleton : List Fn := [
  { name := "generator.getType", body := [
      .ite "!ok"
        [
          .eff "call g.verifTypeMapEvent(\"get:absent\", goName, graphQLName, selectionSet)",
          .ret "nil, nil" ]
        [],
      .eff "call typ.GraphQLTypeName()",
      .ite "typ.GraphQLTypeName() != graphQLName"
        [
          .eff "call g.verifTypeMapEvent(\"get:conflict\", goName, graphQLName, selectionSet)",
          .eff "call typ.GraphQLTypeName()",
          .ret "<expr>, <call>" ]
        [],
      .eff "call typ.SelectionSet()",
      .eff "call selectionsMatch(pos, selectionSet, expectedSelectionSet)",
      .ite "err != nil"
        [
          .eff "call g.verifTypeMapEvent(\"get:conflict\", goName, graphQLName, selectionSet)",
          .ret "<expr>, <call>" ]
        [],
      .eff "call g.verifTypeMapEvent(\"get:reuse\", goName, graphQLName, selectionSet)",
      .ret "<expr>, nil" ] },
  { name := "generator.addType", body := [
      .eff "call typ.GraphQLTypeName()",
      .eff "call typ.SelectionSet()",
      .eff "call g.getType(goName, typ.GraphQLTypeName(), typ.SelectionSet(), pos)",
      .ite "otherTyp != nil || err != nil"
        [
          .ret "<expr>, err" ]
        [],
      .eff "call typ.GraphQLTypeName()",
      .eff "call typ.SelectionSet()",
      .eff "call g.verifTypeMapEvent(\"insert\", goName, typ.GraphQLTypeName(), typ.SelectionSet())",
      .eff "set g.typeMap[goName]",
      .ret "<expr>, nil" ] } ]

def selectionsMatchSkeleton : List Fn := [
  { name := "selectionsMatch", body := [
      .ite "len(expectedSelectionSet) != len(actualSelectionSet)"
        [
          .ret "<call>" ]
        [],
      .loop "range expectedSelectionSet" [
        .other "switch expected := expected.(type) { case *ast.Field: actual, ok := actualSelectionSet[i].(*ast.Field) switch { case !ok: return errorf(pos, \"expected selection #%d to be field, got %T\", i, actualSelectionSet[i]) case actual.Name != expected.Name: return errorf(actual.Position, \"expected field %d to be %s, got %s\", i, expected.Name, actual.Name) case actual.Alias != expected.Alias: return errorf(actual.Position, \"expected field %d's alias to be %s, got %s\", i, expected.Alias, actual.Alias) } err := selectionsMatch(actual.Position, expected.SelectionSet, actual.SelectionSet) if err != nil { return fmt.Errorf(\"in %s sub-selection: %w\", actual.Alias, err) } case *ast.InlineFragment: actual, ok := actualSelectionSet[i].(*ast.InlineFragment) switch { case !ok: return errorf(pos, \"expected selection %d to be inline fragment, got %T\", i, actualSelectionSet[i]) case actual.TypeCondition != expected.TypeCondition: return errorf(actual.Position, \"expected fragment %d to be on type %s, got %s\", i, expected.TypeCondition, actual.TypeCondition) } err := selectionsMatch(actual.Position, expected.SelectionSet, actual.SelectionSet) if err != nil { return fmt.Errorf(\"in inline fragment on %s: %w\", actual.TypeCondition, err) } case *ast.FragmentSpread: actual, ok := actualSelectionSet[i].(*ast.FragmentSpread) switch { case !ok: return errorf(pos, \"expected selection %d to be fragment spread, got %T\", i, actualSelectionSet[i]) case actual.Name != expected.Name: return errorf(actual.Position, \"expected fragment %d to be ...%s, got ...%s\", i, expected.Name, actual.Name) } }" ],
      .ret "nil" ] } ]

def convertTypeSkeleton : List Fn := [
  { name := "generator.convertType", body := [
      .ite "localBinding != \"\" && localBinding != \"-\""
        [
          .eff "call g.ref(localBinding)",
          .eff "call typ.Name()",
          .ret "<expr>, err" ]
        [],
      .ite "typ.Elem != nil"
        [
          .eff "call g.convertType( namePrefix, typ.Elem, selectionSet, options, queryOptions)",
          .ret "<expr>, err" ]
        [],
      .eff "call typ.Name()",
      .eff "call g.convertDefinition( namePrefix, def, typ.Position, selectionSet, options, queryOptions)",
      .ite "err != nil"
        [
          .ret "nil, err" ]
        [],
      .eff "call g.getStructReference(def)",
      .ite "g.getStructReference(def)"
        [
          .ite "options.Pointer == nil || *options.Pointer"
            []
            [],
          .ite "options.Omitempty == nil || *options.Omitempty"
            [
              .eff "set options.Omitempty" ]
            [] ]
        [
          .eff "call options.PointerIsFalse()",
          .eff "call options.GetPointer()",
          .ite "!options.PointerIsFalse() && (options.GetPointer() || (!typ.NonNull && g.Config.Optional == \"pointer\"))"
            []
            [
              .ite "!typ.NonNull && g.Config.Optional == \"generic\""
                [
                  .eff "call g.ref(g.Config.OptionalGenericType)",
                  .ite "err != nil"
                    [
                      .ret "nil, err" ]
                    [] ]
                [] ] ],
      .ret "<expr>, nil" ] },
  { name := "generator.getStructReference", body := [
      .ret "<call>" ] },
  { name := "possibleObjectTypes", body := [
      .loop "range schema.GetPossibleTypes(def)" [
        .ite "typ.Kind == ast.Object"
          []
          [] ],
      .other "func literal: func(i, j int) bool { return objects[i].Name < objects[j].Name }",
      .eff "call sort.Slice(objects, func(i, j int) bool { return objects[i].Name < objects[j].Name })",
      .ret "<expr>" ] },
  { name := "fragmentMatches", body := [
      .ite "containingTypedef.Name == fragmentTypedef.Name"
        [
          .ret "true" ]
        [],
      .loop "range containingTypedef.Interfaces" [
        .ite "iface == fragmentTypedef.Name"
          [
            .ret "true" ]
          [] ],
      .ite "fragmentTypedef.Kind == ast.Union"
        [
          .loop "range fragmentTypedef.Types" [
            .ite "typeName == containingTypedef.Name"
              [
                .ret "true" ]
              [] ] ]
        [],
      .ret "false" ] } ]

def directiveMergeSkeleton : List Fn := [
  { name := "genqlientDirective.mergeOperationDirective", body := [
      .other "switch field := node.(type) { case *ast.Field: typeName := field.ObjectDefinition.Name forField = operationDirective.FieldDirectives[typeName][field.Name] case *ast.FieldDefinition: forField = operationDirective.FieldDirectives[parentIfInputField.Name][field.Name] }",
      .ite "forField == nil"
        [
          .eff "call newGenqlientDirective(nil)" ]
        [],
      .eff "call fillDefaultBool(&dir.Omitempty, forField.Omitempty, operationDirective.Omitempty)",
      .eff "call fillDefaultBool(&dir.Pointer, forField.Pointer, operationDirective.Pointer)",
      .eff "call fillDefaultBool(&dir.Struct, operationDirective.Struct)",
      .eff "call fillDefaultBool(&dir.Flatten, operationDirective.Flatten)",
      .eff "call fillDefaultString(&dir.Bind, forField.Bind, operationDirective.Bind)",
      .eff "call fillDefaultString(&dir.TypeName, forField.TypeName)",
      .eff "call fillDefaultString(&dir.Alias, forField.Alias, operationDirective.Alias)" ] },
  { name := "fillDefaultBool", body := [
      .ite "*target != nil"
        [
          .ret "" ]
        [],
      .loop "range defaults" [
        .ite "val != nil"
          [
            .ret "" ]
          [] ] ] },
  { name := "fillDefaultString", body := [
      .ite "*target != \"\""
        [
          .ret "" ]
        [],
      .loop "range defaults" [
        .ite "val != \"\""
          [
            .ret "" ]
          [] ] ] } ]

def documentSkeleton : List Fn := [
  { name := "generator.usedFragments", body := [
      .other "func literal: func(_ *validator.Walker, fragmentSpread *ast.FragmentSpread) { if seen[fragmentSpread.Name] { return } def := g.fragments[fragmentSpread.Name] seen[fragmentSpread.Name] = true retval = append(retval, def) queue = append(queue, def) }",
      .eff "call observers.OnFragmentSpread(func(_ *validator.Walker, fragmentSpread *ast.FragmentSpread) { if seen[fragmentSpread.Name] { return } def := g.fragments[fragmentSpread.Name] seen[fragmentSpread.Name] = true retval = append(retval, def) queue = append(queue, def) })",
      .eff "call validator.Walk(g.schema, &doc, &observers)",
      .loop "for len(queue) > 0" [
        .eff "call validator.Walk(g.schema, &doc, &observers)" ],
      .ret "<expr>" ] },
  { name := "generator.preprocessQueryDocument", body := [
      .other "func literal: func(_ *validator.Walker, field *ast.Field) { fieldType := g.schema.Types[field.Definition.Type.Name()] if fieldType.Kind != ast.Interface && fieldType.Kind != ast.Union { return } hasTypename := false for _, selection := range field.SelectionSet { subField, ok := selection.(*ast.Field) if ok && subField.Name == \"__typename\" { hasTypename = true } } if !hasTypename { field.SelectionSet = append(ast.SelectionSet{ &ast.Field{ Alias: \"__typename\", Name: \"__typename\", Definition: &ast.FieldDefinition{ Name: \"__typename\", Type: ast.NamedType(\"String\", nil), }, ObjectDefinition: fieldType, }, }, field.SelectionSet...) } }",
      .eff "call observers.OnField(func(_ *validator.Walker, field *ast.Field) { fieldType := g.schema.Types[field.Definition.Type.Name()] if fieldType.Kind != ast.Interface && fieldType.Kind != ast.Union { return } hasTypename := false for _, selection := range field.SelectionSet { subField, ok := selection.(*ast.Field) if ok && subField.Name == \"__typename\" { hasTypename = true } } if !hasTypename { field.SelectionSet = append(ast.SelectionSet{ &ast.Field{ Alias: \"__typename\", Name: \"__typename\", Definition: &ast.FieldDefinition{ Name: \"__typename\", Type: ast.NamedType(\"String\", nil), }, ObjectDefinition: fieldType, }, }, field.SelectionSet...) } })",
      .eff "call validator.Walk(g.schema, doc, &observers)" ] },
  { name := "generator.addOperation", body := [
      .eff "call g.validateOperation(op)",
      .ite "err != nil"
        [
          .ret "err" ]
        [],
      .eff "call g.usedFragments(op)",
      .eff "call g.preprocessQueryDocument(queryDoc)",
      .eff "call formatter.NewFormatter(&builder)",
      .eff "call f.FormatQueryDocument(queryDoc)",
      .eff "call g.parsePrecedingComment(op, nil, op.Position, nil)",
      .ite "err != nil"
        [
          .ret "err" ]
        [],
      .eff "call g.convertArguments(op, directive)",
      .ite "err != nil"
        [
          .ret "err" ]
        [],
      .eff "call g.convertOperation(op, directive)",
      .ite "err != nil"
        [
          .ret "err" ]
        [],
      .ite "commentLines != \"\""
        [
          .eff "call strings.ReplaceAll(commentLines, \"\\n\", \"\\n// \")" ]
        [],
      .ite "op.Operation == ast.Subscription"
        []
        [],
      .eff "call strings.LastIndex(sourceFilename, \":\")",
      .ite "i != -1"
        []
        [],
      .eff "call builder.String()",
      .eff "call responseType.Reference()",
      .eff "set g.Operations",
      .ret "nil" ] } ]

def parseSkeleton : List Fn := [
  { name := "getAndValidateQueries", body := [
      .eff "call getQueries(basedir, filenames)",
      .ite "err != nil"
        [
          .ret "nil, err" ]
        [],
      .eff "call validator.Validate(schema, queryDoc)",
      .ite "graphqlErrors != nil"
        [
          .ret "nil, <call>" ]
        [],
      .ret "<expr>, nil" ] },
  { name := "getQueries", body := [
      .eff "call new(ast.QueryDocument)",
      .other "func literal: func(queryDoc *ast.QueryDocument) { mergedQueryDoc.Operations = append(mergedQueryDoc.Operations, queryDoc.Operations...) mergedQueryDoc.Fragments = append(mergedQueryDoc.Fragments, queryDoc.Fragments...) }",
      .eff "call expandFilenames(globs)",
      .ite "err != nil"
        [
          .ret "nil, err" ]
        [],
      .loop "range filenames" [
        .eff "call os.ReadFile(filename)",
        .ite "err != nil"
          [
            .ret "nil, <call>" ]
          [],
        .other "switch filepath.Ext(filename) { case \".graphql\", \".graphqls\", \".gql\": queryDoc, err := getQueriesFromString(string(text), basedir, filename) if err != nil { return nil, err } addQueryDoc(queryDoc) case \".go\": queryDocs, err := getQueriesFromGo(string(text), basedir, filename) if err != nil { return nil, err } for _, queryDoc := range queryDocs { addQueryDoc(queryDoc) } default: return nil, errorf(nil, \"unknown file type: %v\", filename) }" ],
      .ret "<expr>, nil" ] },
  { name := "getQueriesFromString", body := [
      .eff "call filepath.Rel(basedir, filename)",
      .ite "err == nil"
        []
        [],
      .eff "call parser.ParseQuery( &ast.Source{Name: filename, Input: text})",
      .ite "graphqlError != nil"
        [
          .ret "nil, <call>" ]
        [],
      .ret "<expr>, nil" ] },
  { name := "getQueriesFromGo", body := [
      .eff "call goToken.NewFileSet()",
      .eff "call goParser.ParseFile(fset, filename, text, 0)",
      .ite "err != nil"
        [
          .ret "nil, <call>" ]
        [],
      .other "func literal: func(node goAst.Node) bool { if err != nil { return false } basicLit, ok := node.(*goAst.BasicLit) if !ok || basicLit.Kind != goToken.STRING { return true } var value string value, err = strconv.Unquote(basicLit.Value) if err != nil { return false } if !strings.HasPrefix(strings.TrimSpace(value), \"# @genqlient\") { return true } pos := fset.Position(basicLit.Pos()) fakeFilename := fmt.Sprintf(\"%v:%v\", pos.Filename, pos.Line) var query *ast.QueryDocument query, err = getQueriesFromString(value, basedir, fakeFilename) if err != nil { return false } retval = append(retval, query) return true }",
      .eff "call goAst.Inspect(f, func(node goAst.Node) bool { if err != nil { return false } basicLit, ok := node.(*goAst.BasicLit) if !ok || basicLit.Kind != goToken.STRING { return true } var value string value, err = strconv.Unquote(basicLit.Value) if err != nil { return false } if !strings.HasPrefix(strings.TrimSpace(value), \"# @genqlient\") { return true } pos := fset.Position(basicLit.Pos()) fakeFilename := fmt.Sprintf(\"%v:%v\", pos.Filename, pos.Line) var query *ast.QueryDocument query, err = getQueriesFromString(value, basedir, fakeFilename) if err != nil { return false } retval = append(retval, query) return true })",
      .ret "<expr>, err" ] } ]

def errorsSkeleton : List Fn := [
  { name := "errorPos.String", body := [
      .eff "call splitFilename(pos.filename)",
      .ite "line != 0"
        [
          .ret "<call>" ]
        [
          .ret "<expr>" ] ] },
  { name := "splitFilename", body := [
      .eff "call strings.Split(filename, \":\")",
      .ite "len(split) != 2"
        [
          .ret "<expr>, <expr>" ]
        [],
      .eff "call strconv.Atoi(split[1])",
      .ite "err != nil"
        [
          .ret "<expr>, <expr>" ]
        [],
      .ret "<expr>, <expr>" ] },
  { name := "genqlientError.Error", body := [
      .ite "err.pos != nil"
        [
          .eff "call err.pos.String()",
          .ret "<expr>" ]
        [
          .ret "<expr>" ] ] },
  { name := "errorf", body := [
      .loop "range args" [
        .ite "wrapped == nil"
          [
            .ite "ok"
              []
              [] ]
          [] ],
      .eff "call errors.As(wrapped, &wrappedGenqlient)",
      .eff "call errors.As(wrapped, &wrappedGraphQL)",
      .ite "!isGraphQL"
        [
          .eff "call errors.As(wrapped, &wrappedGraphQLList)",
          .ite "isGraphQLList && len(wrappedGraphQLList) > 0"
            []
            [] ]
        [],
      .ite "pos != nil"
        []
        [
          .ite "isGenqlient"
            []
            [
              .ite "isGraphQL"
                [
                  .ite "filename != \"\""
                    [
                      .ite "len(wrappedGraphQL.Locations) > 0"
                        []
                        [] ]
                    [] ]
                [] ] ],
      .ite "wrapped != nil"
        [
          .eff "call wrapped.Error()",
          .ite "isGenqlient"
            []
            [
              .ite "isGraphQL"
                []
                [] ],
          .eff "set args[wrapIndex]" ]
        [],
      .ret "<expr>" ] } ]

def importsSkeleton : List Fn := [
  { name := "generator.addImportFor", body := [
      .eff "call strings.LastIndex(pkgPath, \"/\")",
      .eff "call makeIdentifier(pkgPath[strings.LastIndex(pkgPath, \"/\")+1:])",
      .loop "for g.usedAliases[alias]" [
        .eff "call strconv.Itoa(suffix)" ],
      .eff "set g.imports[pkgPath]",
      .eff "set g.usedAliases[alias]",
      .ret "<expr>" ] },
  { name := "generator.ref", body := [
      .eff "call strings.Contains(fullyQualifiedName, \" \")",
      .ite "strings.Contains(fullyQualifiedName, \" \")"
        [
          .ret "<expr>, <call>" ]
        [],
      .eff "call _sliceOrMapPrefixRegexp.FindString(fullyQualifiedName)",
      .eff "call strings.LastIndex(nameToImport, \".\")",
      .ite "i == -1"
        [
          .eff "call types.Universe.Lookup(nameToImport)",
          .ite "nameToImport != \"interface{}\" && types.Universe.Lookup(nameToImport) == nil"
            [
              .ret "<expr>, <call>" ]
            [],
          .ret "<expr>, nil" ]
        [],
      .ite "pkgPath == g.Config.pkgPath"
        [
          .ret "<expr>, nil" ]
        [],
      .ite "!ok"
        [
          .ite "g.importsLocked"
            [
              .ret "<expr>, <call>" ]
            [],
          .eff "call g.addImportFor(pkgPath)" ]
        [],
      .ret "<expr>, nil" ] } ]

def casingSkeleton : List Fn := [
  { name := "Casing.validate", body := [
      .ite "casing.Default != \"\""
        [
          .eff "call casing.Default.validate()",
          .ite "err != nil"
            [
              .ret "err" ]
            [] ]
        [],
      .ite "casing.AllEnums != \"\""
        [
          .eff "call casing.AllEnums.validate()",
          .ite "err != nil"
            [
              .ret "err" ]
            [] ]
        [],
      .loop "range casing.Enums" [
        .eff "call algo.validate()",
        .ite "err != nil"
          [
            .ret "err" ]
          [] ],
      .ret "nil" ] },
  { name := "Casing.forEnum", body := [
      .ite "ok"
        [
          .ret "<expr>" ]
        [],
      .ite "casing.AllEnums != \"\""
        [
          .ret "<expr>" ]
        [],
      .eff "call casing.getDefault()",
      .ret "<call>" ] } ]

end Genq.ConvSkel
