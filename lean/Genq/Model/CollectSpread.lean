/-
Collect.lean with named fragment spreads — C02.

A spread `...F` inside the selection converted for concrete type `containing` makes genqlient embed the struct
generated for F (for an abstract F: the implementation struct for `containing`), provided
`fragmentMatches containing F.type`; the fields of that embedded struct are the conversion of F's own selection
for the same containing type.  The GraphQL specification collects, for a spread, the fragment's selection when
`DoesFragmentTypeApply(objectType, F.type)`.  Fuel bounds the nesting depth (selections and spreads alike), so that
fragments referring to fragments need no acyclicity argument: both sides recurse identically.
-/
import Genq.Model.Collect
namespace Genq.Collect

/-- a selection set with inline fragments and named spreads -/
inductive S2
  | field (key : String)
  | inline (cond : Option String) (sub : List S2)
  | spread (name : String)
deriving Repr

/-- named fragments: name ↦ (type condition, selection) -/
abbrev Frags := String → Option (String × List S2)

/-- response keys carried by the struct genqlient generates for `containing` and by everything embedded in it -/
def genqKeys2 (lookup : String → Option TypeDef) (frags : Frags) (containing : TypeDef) : Nat → S2 → List String
  | 0, _ => []
  | _ + 1, .field k => [k]
  | fuel + 1, .inline none sub => sub.flatMap (genqKeys2 lookup frags containing fuel)
  | fuel + 1, .inline (some c) sub =>
    match lookup c with
    | some td => if fragmentMatches containing td then sub.flatMap (genqKeys2 lookup frags containing fuel) else []
    | none => []
  | fuel + 1, .spread n =>
    match frags n with
    | some (c, sel) =>
      match lookup c with
      | some td => if fragmentMatches containing td then sel.flatMap (genqKeys2 lookup frags containing fuel) else []
      | none => []
    | none => []

/-- CollectFields (keys in order of appearance, before grouping) for runtime object type `obj` -/
def specKeys2 (lookup : String → Option TypeDef) (frags : Frags) (obj : TypeDef) : Nat → S2 → List String
  | 0, _ => []
  | _ + 1, .field k => [k]
  | fuel + 1, .inline none sub => sub.flatMap (specKeys2 lookup frags obj fuel)
  | fuel + 1, .inline (some c) sub =>
    match lookup c with
    | some td => if applies obj td then sub.flatMap (specKeys2 lookup frags obj fuel) else []
    | none => []
  | fuel + 1, .spread n =>
    match frags n with
    | some (c, sel) =>
      match lookup c with
      | some td => if applies obj td then sel.flatMap (specKeys2 lookup frags obj fuel) else []
      | none => []
    | none => []

end Genq.Collect
