/-
Model of generate/imports.go: makeIdentifier (ASCII inputs), addImportFor, ref — the allocation
of import aliases and the spelling of references to bound Go types (C01: the generated file must
build, so two imports never share an alias and every reference uses the alias that is declared).
-/
namespace Genq.Imports

abbrev Str := List Char

def isLetter (c : Char) : Bool := c.isAlpha || c == '_'

/-- token.IsIdentifier on ASCII input (keywords are identifiers for this function's purposes? no:
    token.IsIdentifier rejects keywords) -/
def keywords : List String := ["break", "case", "chan", "const", "continue", "default", "defer", "else", "fallthrough",
  "for", "func", "go", "goto", "if", "import", "interface", "map", "package", "range", "return", "select", "struct",
  "switch", "type", "var"]

def isIdentifier (s : Str) : Bool :=
  match s with
  | [] => false
  | c :: cs => isLetter c && cs.all (fun d => isLetter d || d.isDigit) && !(keywords.contains (String.ofList s))

/-- the loop of makeIdentifier: keep letters and '_' anywhere, digits only after the first kept char -/
def goodChars : Str → Str → Str
  | acc, [] => acc
  | acc, c :: cs =>
    if isLetter c || (!acc.isEmpty && c.isDigit) then goodChars (acc ++ [c]) cs else goodChars acc cs

def makeIdentifier (s : Str) : Str :=
  if isIdentifier s then s
  else
    let g := goodChars [] s
    if g.isEmpty then "alias".toList else g

/-- text after the last '/' -/
def afterLastSlash (s : Str) : Str :=
  (s.foldl (fun acc c => if c == '/' then [] else acc ++ [c]) [])

structure St where
  imports : List (Str × Str)     -- package path ↦ alias, most recent first
  used : List Str                -- aliases taken
deriving Repr, DecidableEq

def St.empty : St := ⟨[], []⟩

def St.aliasOf (s : St) (path : Str) : Option Str :=
  (s.imports.find? (fun p => p.1 == path)).map (·.2)

/-- the `for g.usedAliases[alias]` loop: pkgName, pkgName2, pkgName3, … ; `fuel` bounds the search
    (the real loop is unbounded; it ends because only finitely many aliases are taken) -/
def firstFree (used : List Str) (base : Str) : Nat → Nat → Option Str
  | 0, _ => none
  | fuel + 1, suffix =>
    let cand := if suffix < 2 then base else base ++ (toString suffix).toList
    if used.contains cand then firstFree used base fuel (if suffix < 2 then 2 else suffix + 1) else some cand

def addImportFor (s : St) (path : Str) : Option (St × Str) :=
  let base := makeIdentifier (afterLastSlash path)
  match firstFree s.used base (s.used.length + 2) 1 with
  | none => none
  | some a => some (⟨(path, a) :: s.imports, a :: s.used⟩, a)

/-- the regexp ^(\*|\[\d*\]|map\[string\])* as a scanner: returns (prefix, rest) -/
def splitPrefix : Nat → Str → Str × Str
  | 0, s => ([], s)
  | fuel + 1, s =>
    match s with
    | '*' :: r => let (p, q) := splitPrefix fuel r; ('*' :: p, q)
    | '[' :: r =>
      let ds := r.takeWhile Char.isDigit
      match r.dropWhile Char.isDigit with
      | ']' :: q0 => let (p, q) := splitPrefix fuel q0; ('[' :: ds ++ ']' :: p, q)
      | _ => ([], s)
    | _ =>
      let m := "map[string]".toList
      if m.isPrefixOf s then let (p, q) := splitPrefix fuel (s.drop m.length); (m ++ p, q) else ([], s)

/-- split at the last '.' : (before, after), none if there is no '.' -/
def splitLastDot (s : Str) : Option (Str × Str) :=
  let r := s.reverse
  if r.contains '.' then
    some ((r.dropWhile (· != '.')).drop 1 |>.reverse, (r.takeWhile (· != '.')).reverse)
  else none

inductive RefOut
  | ok (text : Str)
  | err                      -- rejected name (spaces / unknown builtin) — counted, not modelled further
  | stuck                    -- fuel exhausted (never happens with the fuel given)
deriving Repr, DecidableEq

/-- the builtins the harness uses (types.Universe.Lookup); anything else without a package is rejected -/
def goUniverse : List String := ["string", "int", "int8", "int16", "int32", "int64", "uint", "uint8", "uint16", "uint32",
  "uint64", "float32", "float64", "bool", "byte", "rune", "any", "error", "uintptr", "complex64", "complex128",
  "true", "false", "nil", "iota", "append", "cap", "clear", "close", "complex", "copy", "delete", "imag", "len", "make",
  "max", "min", "new", "panic", "print", "println", "real", "recover", "comparable"]

def ref (ownPkg : Str) (s : St) (name : Str) : St × RefOut :=
  if name.contains ' ' then (s, .err) else
  let (prefix_, rest) := splitPrefix (name.length + 1) name
  match splitLastDot rest with
  | none =>
    if rest == "interface{}".toList || goUniverse.contains (String.ofList rest) then (s, .ok name) else (s, .err)
  | some (pkg, loc) =>
    if pkg == ownPkg then (s, .ok (prefix_ ++ loc)) else
    match s.aliasOf pkg with
    | some a => (s, .ok (prefix_ ++ a ++ '.' :: loc))
    | none =>
      match addImportFor s pkg with
      | none => (s, .stuck)
      | some (s', a) => (s', .ok (prefix_ ++ a ++ '.' :: loc))

def refs (ownPkg : Str) : St → List Str → St × List RefOut
  | s, [] => (s, [])
  | s, n :: ns =>
    let (s1, o) := ref ownPkg s n
    let (s2, os) := refs ownPkg s1 ns
    (s2, o :: os)

/-- the invariant: every alias in the table is marked taken, and no two paths share one -/
def Inv (s : St) : Prop :=
  (s.imports.map (·.2)).Nodup ∧ (∀ p ∈ s.imports, p.2 ∈ s.used) ∧ (s.imports.map (·.1)).Nodup

end Genq.Imports
