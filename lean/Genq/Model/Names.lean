/-
Model of generate/util.go and generate/names.go (naming functions), and of the Enum branch of
convertDefinition (generate/convert.go).  Names are `List Char`; GraphQL names are ASCII by
grammar (`[_A-Za-z][_0-9A-Za-z]*`), on which Char.toUpper/toLower agree with Go's
unicode.ToUpper/ToLower; the driver boundary rejects anything else.
-/
namespace Genq.Names

abbrev Name := List Char

def trimLeftUnderscore : Name → Name
  | [] => []
  | c :: cs => if c == '_' then trimLeftUnderscore cs else c :: cs

/-- util.go changeFirst ∘ TrimLeft "_" -/
def upperFirst (s : Name) : Name :=
  match trimLeftUnderscore s with
  | [] => []
  | c :: cs => c.toUpper :: cs

def lowerFirst (s : Name) : Name :=
  match trimLeftUnderscore s with
  | [] => []
  | c :: cs => c.toLower :: cs

/-- util.go snakeToCamel: `nextUpper` is the carried flag -/
def snakeToCamelAux : Bool → Name → Name
  | _, [] => []
  | nextUpper, c :: cs =>
    if c == '_' then snakeToCamelAux true cs
    else if nextUpper then c.toUpper :: snakeToCamelAux false cs
    else c :: snakeToCamelAux false cs

def snakeToCamel (s : Name) : Name := snakeToCamelAux false s

/-- util.go goConstName's strings.Map callback; `prev` = none at the start (Go: prev == 0) -/
def goConstAux : Option Char → Name → Name
  | _, [] => []
  | prev, c :: cs =>
    if c == '_' then goConstAux (some c) cs
    else if prev == some '_' || prev == none then c.toUpper :: goConstAux (some c) cs
    else c.toLower :: goConstAux (some c) cs

def goConstName (s : Name) : Name :=
  if trimLeftUnderscore s == [] then s else goConstAux none s

inductive Casing | default | raw | autoCamelCase
deriving DecidableEq, Repr

/-- util.go ApplyCasing -/
def applyCasing (s : Name) (algo : Casing) (forceUpperFirst : Bool) : Name :=
  let r := match algo with
    | .autoCamelCase => snakeToCamel s
    | _ => s
  if forceUpperFirst then upperFirst r else r

/-- config.go Casing -/
structure CasingCfg where
  default : Option Casing
  allEnums : Option Casing
  enums : List (Name × Casing)

def CasingCfg.getDefault (c : CasingCfg) : Casing := c.default.getD .default

def CasingCfg.forEnum (c : CasingCfg) (gqlTypeName : Name) : Casing :=
  match c.enums.lookup gqlTypeName with
  | some a => a
  | none => match c.allEnums with
    | some a => a
    | none => c.getDefault

/-- names.go enumValueName (the `default: panic` branch is unreachable for a validated config;
    C07 covers the validation) -/
def enumValueName (algo : Casing) (goTypeName : Name) (val : Name) : Name :=
  match algo with
  | .default => goTypeName ++ goConstName val
  | .raw => goTypeName ++ '_' :: val
  | .autoCamelCase => goTypeName ++ applyCasing val .autoCamelCase true

structure EnumConst where
  goName : Name
  gqlName : Name
deriving DecidableEq, Repr

inductive EnumRes
  | ok (consts : List EnumConst)                       -- constants, in order; All<Enum> lists the same
  | conflict (val other goName : Name)                 -- "enum values %s and %s have conflicting Go name %s"
deriving DecidableEq, Repr

/-- the loop of the `ast.Enum` case: `seen` = constants emitted so far, most recent first -/
def convertEnumAux (nameOf : Name → Name) : List Name → List EnumConst → EnumRes
  | [], seen => .ok seen.reverse
  | v :: vs, seen =>
    match seen.find? (fun c => c.goName == nameOf v) with
    | some c => .conflict v c.gqlName (nameOf v)
    | none => convertEnumAux nameOf vs (⟨nameOf v, v⟩ :: seen)

def convertEnum (cfg : CasingCfg) (goTypeName gqlTypeName : Name) (values : List Name) : EnumRes :=
  convertEnumAux (enumValueName (cfg.forEnum gqlTypeName) goTypeName) values []

/-- The Go type name of an enum in convertDefinition (no `typename` option) -/
def enumGoTypeName (cfg : CasingCfg) (gqlTypeName : Name) : Name :=
  applyCasing gqlTypeName cfg.getDefault true

end Genq.Names

namespace Genq.Names

/-! ### several enums: the generator-wide table of constant names (repair of F-16) -/

structure EnumDecl where
  goTypeName : Name
  gqlTypeName : Name
  values : List Name
deriving DecidableEq, Repr

inductive EnumsRes
  | ok (consts : List (List EnumConst))                -- per enum, in conversion order
  | conflict (k : Nat) (val other goName : Name)       -- enum #k: two of its own values collide
  | crossConflict (k : Nat) (val goName : Name)        -- enum #k: a value collides with a constant of an earlier enum
deriving DecidableEq, Repr

/-- the loop of the `ast.Enum` case with the generator-wide table `taken` (names of the constants
    of the enums converted before): own conflicts are tested first, as in the code -/
def convertEnumAuxG (nameOf : Name → Name) (taken : List Name) (k : Nat) : List Name → List EnumConst → Except EnumsRes (List EnumConst)
  | [], seen => .ok seen.reverse
  | v :: vs, seen =>
    match seen.find? (fun c => c.goName == nameOf v) with
    | some c => .error (.conflict k v c.gqlName (nameOf v))
    | none =>
      if taken.contains (nameOf v) then .error (.crossConflict k v (nameOf v))
      else convertEnumAuxG nameOf taken k vs (⟨nameOf v, v⟩ :: seen)

def convertEnumsAux (cfg : CasingCfg) : List EnumDecl → Nat → List Name → List (List EnumConst) → EnumsRes
  | [], _, _, acc => .ok acc.reverse
  | d :: ds, k, taken, acc =>
    match convertEnumAuxG (enumValueName (cfg.forEnum d.gqlTypeName) d.goTypeName) taken k d.values [] with
    | .error e => e
    | .ok cs => convertEnumsAux cfg ds (k + 1) (taken ++ cs.map (·.goName)) (cs :: acc)

def convertEnums (cfg : CasingCfg) (ds : List EnumDecl) : EnumsRes := convertEnumsAux cfg ds 0 [] []

end Genq.Names
