/-
Which `# @genqlient(...)` option combinations the generator accepts — C10 ("options shape Go types exactly as
documented"): the applicability table of generate/genqlient_directive.go `validate` and the input-object checks of
generate/convert.go (convertDefinition, case ast.InputObject), for directives written on an operation, a `for:`
entry, a field or a variable.

Only what depends on the options is modelled; the documents themselves are valid.  `struct`/`flatten` on fields
need the selection set (validateStructOption / validateFlattenOption) and are part of the model as predicates of
the target (`isAbstract`, `hasFragments`, `onlySpread`).
-/
import Genq.Model.Conv
namespace Genq.DirApply

open Genq.Conv (Dir Kind merge)

/-- a field of an input object: is its type non-null, does it have a default value -/
structure InField where
  nonNull : Bool
  hasDefault : Bool
deriving DecidableEq, Repr

/-- where the node-level directive stands -/
inductive Target
  /-- a selected field whose (unwrapped) type has kind `k`; `boundInConfig`: genqlient.yaml binds that type;
      `hasFragments` / `onlySpread`: its sub-selection contains a fragment / consists of exactly one spread of a
      fragment whose type the field's type implements -/
  | field (k : Kind) (boundInConfig : Bool) (hasFragments onlySpread : Bool)
  /-- a variable `$v: T`: `nonNull` is T's outermost non-null mark, `k` the kind of the unwrapped type and
      `fields` its input fields when it is an input object -/
  | var (k : Kind) (nonNull : Bool) (boundInConfig : Bool) (fields : List InField)
deriving Repr

inductive Verdict
  | ok
  | opBind               -- "bind may not be applied to the entire operation"
  | forStructFlatten     -- "struct and flatten can't be used via for"
  | typenameAndBind      -- "typename and bind may not be used together"
  | omitemptyOnField     -- "omitempty is not applicable to variables, not fields"
  | omitemptyNonNull     -- "omitempty may only be used on optional arguments"
  | structOnVar | flattenOnVar
  | structNotAbstract | structWithFragments
  | flattenNotSpread
  | unboundScalar        -- `bind: "-"` removes the configured binding of a custom scalar
  | inputPointerNeedsOmitempty  -- "pointer on non-null input field can only be used together with omitempty"
  | inputOmitemptyNonNull       -- "omitempty may only be used on optional arguments: T.f"
deriving DecidableEq, Repr

def bindReal (b : String) : Bool := b != "" && b != "-"

/-- validate() of the operation-level directive, including its `for:` entry for the target -/
def validateOp (op forField : Dir) : Verdict :=
  if forField.struct.isSome || forField.flatten.isSome then .forStructFlatten
  else if forField.typename != "" && bindReal forField.bind then .typenameAndBind
  else if op.bind != "" then .opBind
  else .ok

/-- validate() of the node-level directive -/
def validateNode (t : Target) (node : Dir) : Verdict :=
  match t with
  | .field k _ hasFragments onlySpread =>
    if node.omitempty.isSome then .omitemptyOnField
    else if node.struct.isSome && !(k == .interface || k == .union) then .structNotAbstract
    else if node.struct.isSome && hasFragments then .structWithFragments
    else if node.flatten.isSome && !onlySpread then .flattenNotSpread
    else if node.typename != "" && bindReal node.bind then .typenameAndBind
    else .ok
  | .var _ nonNull _ _ =>
    if node.omitempty.isSome && nonNull then .omitemptyNonNull
    else if node.struct.isSome then .structOnVar
    else if node.flatten.isSome then .flattenOnVar
    else if node.typename != "" && bindReal node.bind then .typenameAndBind
    else .ok

/-- the input-object checks of convertDefinition for one field of the input type under the operation's options
    (only without use_struct_references) -/
def inputFieldVerdict (structRefs : Bool) (optionalPointer : Bool) (op : Dir) (f : InField) : Verdict :=
  if structRefs then .ok
  else
    let om := op.omitempty == some true
    let isPtr := op.pointer != some false && (op.pointer == some true || (!f.nonNull && optionalPointer))
    if f.nonNull && isPtr && !om then .inputPointerNeedsOmitempty
    else if om && f.nonNull && !f.hasDefault then .inputOmitemptyNonNull
    else .ok

def firstBad : List Verdict → Verdict
  | [] => .ok
  | .ok :: rest => firstBad rest
  | v :: _ => v

/-- does the generator accept the combination (and if not, why) -/
def verdict (structRefs optionalPointer : Bool) (t : Target) (node forField op : Dir) : Verdict :=
  let v1 := validateOp op forField
  if v1 != .ok then v1 else
  let v2 := validateNode t node
  if v2 != .ok then v2 else
  let m := merge node forField op
  if m.typename != "" && bindReal m.bind then .typenameAndBind else
  match t with
  | .field k bound _ _ =>
    if k == .scalar && bound && m.bind == "-" then .unboundScalar else .ok
  | .var k _ bound fields =>
    if k == .scalar && bound && m.bind == "-" then .unboundScalar
    else if k == .input && !bindReal m.bind then firstBad (fields.map (inputFieldVerdict structRefs optionalPointer op))
    else .ok

def accepts (structRefs optionalPointer : Bool) (t : Target) (node forField op : Dir) : Bool :=
  verdict structRefs optionalPointer t node forField op == .ok

end Genq.DirApply
