/-
Which fields the Go struct generated for a concrete object type carries (generate/convert.go:
convertSelectionSet / convertInlineFragment / fragmentMatches) against the GraphQL
specification's CollectFields / DoesFragmentTypeApply — C02.
Inline fragments only; named fragments become embedded structs whose own field list is
computed by the same functions with the fragment's selection.
-/
namespace Genq.Collect

inductive Kind | object | interface | union
deriving DecidableEq, Repr

structure TypeDef where
  name : String
  kind : Kind
  interfaces : List String     -- `implements`
  members : List String        -- union members
deriving DecidableEq, Repr

/-- a selection set with inline fragments (type condition `none` = `... { }`) -/
inductive S
  | field (key : String)
  | inline (cond : Option String) (sub : List S)
deriving Repr

/-- convert.go fragmentMatches(containingTypedef, fragmentTypedef) -/
def fragmentMatches (containing fragment : TypeDef) : Bool :=
  containing.name == fragment.name ||
  containing.interfaces.contains fragment.name ||
  (fragment.kind == .union && fragment.members.contains containing.name)

/-- spec §6.3.2 DoesFragmentTypeApply(objectType, fragmentType) -/
def applies (obj cond : TypeDef) : Bool :=
  match cond.kind with
  | .object => cond.name == obj.name
  | .interface => obj.interfaces.contains cond.name
  | .union => cond.members.contains obj.name

mutual
/-- response keys of the fields genqlient puts into the struct for `containing`
    (convertSelectionSet; nested inline fragments are matched against the SAME containing type) -/
def genqKeys (lookup : String → Option TypeDef) (containing : TypeDef) : S → List String
  | .field k => [k]
  | .inline none sub => genqKeysList lookup containing sub
  | .inline (some c) sub =>
    match lookup c with
    | some td => if fragmentMatches containing td then genqKeysList lookup containing sub else []
    | none => []
def genqKeysList (lookup : String → Option TypeDef) (containing : TypeDef) : List S → List String
  | [] => []
  | s :: ss => genqKeys lookup containing s ++ genqKeysList lookup containing ss
end

mutual
/-- CollectFields for runtime object type `obj` (keys in order of appearance, before grouping) -/
def specKeys (lookup : String → Option TypeDef) (obj : TypeDef) : S → List String
  | .field k => [k]
  | .inline none sub => specKeysList lookup obj sub
  | .inline (some c) sub =>
    match lookup c with
    | some td => if applies obj td then specKeysList lookup obj sub else []
    | none => []
def specKeysList (lookup : String → Option TypeDef) (obj : TypeDef) : List S → List String
  | [] => []
  | s :: ss => specKeys lookup obj s ++ specKeysList lookup obj ss
end

/-- schema well-formedness as far as `obj` is concerned (what gqlparser's schema validation
    guarantees): names identify definitions; `implements` lists name interfaces; `obj` is an object -/
structure WF (lookup : String → Option TypeDef) (obj : TypeDef) : Prop where
  objKind : obj.kind = .object
  named : ∀ n td, lookup n = some td → td.name = n
  self : ∀ td, lookup obj.name = some td → td = obj
  ifaces : ∀ n td, lookup n = some td → n ∈ obj.interfaces → td.kind = .interface
  notIface : ∀ n td, lookup n = some td → td.kind ≠ .interface → n ∉ obj.interfaces

end Genq.Collect
