/-
Model of how a generated helper turns its arguments into the request's variables object
(operation.go.tmpl + the `__<Op>Input` struct + marshal.go.tmpl + encoding/json's omitempty) — C04.
-/
namespace Genq.Vars

/-- what matters about an argument value for presence of its key -/
inductive Shape
  | nilPointer            -- nil pointer / unset generic optional
  | nilOrEmptySlice       -- nil or empty slice
  | zeroScalar            -- "", 0, false
  | nonEmpty              -- anything else (non-zero scalar, non-empty slice, any struct, non-nil pointer)
deriving DecidableEq, Repr

/-- encoding/json isEmptyValue on the Go value -/
def isEmpty : Shape → Bool
  | .nonEmpty => false
  | _ => true

structure Var where
  name : String
  omitempty : Bool
  special : Bool           -- the field is marshaled by generated code (custom marshaler / abstract): json:"-" + __premarshal
  shape : Shape
deriving DecidableEq, Repr

/-- is the key written?  Ordinary fields: encoding/json's omitempty.  Special fields: the
    __premarshal struct holds a json.RawMessage that stays nil only for a nil pointer source. -/
def keyPresent (v : Var) : Bool :=
  if v.special then !(v.omitempty && v.shape == .nilPointer)
  else !(v.omitempty && isEmpty v.shape)

def keys (vs : List Var) : List String := (vs.filter keyPresent).map (·.name)

/-- the helper as a straight-line program: how many requests, with which name/document -/
structure Call where
  requests : Nat
  opNameIsOperation : Bool
  queryIsEmittedDocument : Bool
  variablesAreInputStruct : Bool
deriving DecidableEq, Repr

def helperCall (getterFails : Bool) : Call :=
  if getterFails then ⟨0, true, true, true⟩ else ⟨1, true, true, true⟩

end Genq.Vars
