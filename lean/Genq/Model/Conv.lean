/-
Model of the option logic of generate/genqlient_directive.go (mergeOperationDirective) and of
the type-wrapper logic of generate/convert.go (convertType) — C10, and the wrapper-shape part
of C01.  The base type a named GraphQL type converts to is abstract (`GT.base`): which
declaration that is, is the business of the naming model (C09).
-/
namespace Genq.Conv

inductive OptMode | value | pointer | generic
deriving DecidableEq, Repr

inductive Kind | scalar | enum | object | interface | union | input
deriving DecidableEq, Repr

structure Cfg where
  optional : OptMode
  structRefs : Bool
deriving DecidableEq, Repr

/-- a parsed `# @genqlient(...)` directive (unset = none / "") -/
structure Dir where
  pointer : Option Bool := none
  omitempty : Option Bool := none
  struct : Option Bool := none
  flatten : Option Bool := none
  bind : String := ""
  typename : String := ""
  alias : String := ""
deriving DecidableEq, Repr

def fillBool (target : Option Bool) (defaults : List (Option Bool)) : Option Bool :=
  match target with
  | some b => some b
  | none => defaults.findSome? id

def fillString (target : String) (defaults : List String) : String :=
  if target != "" then target else (defaults.find? (· != "")).getD ""

/-- mergeOperationDirective: `node` is the directive on the node itself, `forField` the
    `for: "Type.field"` entry of the enclosing operation/fragment directive for this node
    (empty when there is none), `op` the operation/fragment directive -/
def merge (node forField op : Dir) : Dir :=
  { pointer := fillBool node.pointer [forField.pointer, op.pointer],
    omitempty := fillBool node.omitempty [forField.omitempty, op.omitempty],
    struct := fillBool node.struct [op.struct],
    flatten := fillBool node.flatten [op.flatten],
    bind := fillString node.bind [forField.bind, op.bind],
    typename := fillString node.typename [forField.typename],
    alias := fillString node.alias [forField.alias, op.alias] }

/-- the `for:` table of an operation/fragment directive, keyed by (GraphQL type name, FIELD NAME) -/
abbrev ForTable := List ((String × String) × Dir)

/-- which entry applies to a selected field: the lookup is by the field's *name* in its parent
    type (never by its response alias) -/
def forLookup (t : ForTable) (parentType fieldName _alias : String) : Dir :=
  (t.lookup (parentType, fieldName)).getD {}

inductive TRef
  | named (n : String) (nonNull : Bool)
  | list (elem : TRef) (nonNull : Bool)
deriving DecidableEq, Repr

inductive GT
  | base                      -- what the named type's definition converts to
  | opaque (ref : String)     -- a `bind:` target
  | slice (e : GT)
  | ptr (e : GT)
  | generic (e : GT)
deriving DecidableEq, Repr

structure FieldType where
  type : GT
  omitempty : Bool           -- options.GetOmitempty() after convertType's side effect
deriving DecidableEq, Repr

def isStructRef (cfg : Cfg) (k : Kind) : Bool := cfg.structRefs && (k == .object || k == .input)

/-- convertType (the Kind is that of the innermost named type) -/
def convertType (cfg : Cfg) (k : Kind) (o : Dir) : TRef → GT
  | .list elem _ =>
    if o.bind != "" && o.bind != "-" then .opaque o.bind else .slice (convertType cfg k o elem)
  | .named _ nonNull =>
    if o.bind != "" && o.bind != "-" then .opaque o.bind
    else if isStructRef cfg k then
      (if o.pointer == none || o.pointer == some true then .ptr .base else .base)
    else if o.pointer != some false && (o.pointer == some true || (!nonNull && cfg.optional == .pointer)) then .ptr .base
    else if !nonNull && cfg.optional == .generic then .generic .base
    else .base

/-- the omitempty flag convertType leaves in the options (struct references default it to true) -/
def omitemptyAfter (cfg : Cfg) (k : Kind) (o : Dir) (t : TRef) : Bool :=
  let innermostStructRef := isStructRef cfg k && !(o.bind != "" && o.bind != "-")
  let _ := t
  if innermostStructRef && o.omitempty != some false then true else o.omitempty.getD false

/-! ### what the templates assume about a field's type (types.go SliceDepth/IsPointer/Unwrap) -/

def GT.sliceDepth : GT → Nat
  | .slice e => e.sliceDepth + 1
  | _ => 0

def GT.afterSlices : GT → GT
  | .slice e => e.afterSlices
  | t => t

def GT.isPointer (t : GT) : Bool :=
  match t.afterSlices with
  | .ptr _ => true
  | _ => false

def GT.unwrap : GT → GT
  | .slice e => e.unwrap
  | .ptr e => e.unwrap
  | .generic e => e.unwrap
  | t => t

/-- the type the templates *print* in `make(...)`, the first-pass struct and `__premarshal`
    from those three items -/
def rebuild (depth : Nat) (isPtr : Bool) (inner : GT) : GT :=
  match depth with
  | 0 => if isPtr then .ptr inner else inner
  | n + 1 => .slice (rebuild n isPtr inner)

end Genq.Conv
