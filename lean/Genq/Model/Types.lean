/-
Model of the parts of generate/types.go and of the (un)marshal templates that C06 and C19 are
about: FlattenedFields (which field supplies each JSON name when a value is marshaled) and the
interface unmarshal helper's dispatch on __typename.
-/
namespace Genq.Types

abbrev Name := String

/-- a struct field as FlattenedFields sees it: an embedded struct (with that struct's fields)
    or an ordinary field with its JSON name -/
inductive SField
  | plain (goName jsonName : Name)
  | embed (typeName : Name) (sub : List SField)
deriving Repr, Inhabited

/-- the queue loop of FlattenedFields: breadth first, embedded structs are expanded at the back
    of the queue, the first field seen for a JSON name wins.  `fuel` bounds the number of
    queue pops (the real loop pops until the queue is empty). -/
def flattenLoop : Nat → List SField → List Name → List (Name × Name) → List (Name × Name)
  | 0, _, _, acc => acc
  | _ + 1, [], _, acc => acc
  | fuel + 1, .embed _ sub :: q, seen, acc => flattenLoop fuel (q ++ sub) seen acc
  | fuel + 1, .plain g j :: q, seen, acc =>
    if seen.contains j then flattenLoop fuel q seen acc
    else flattenLoop fuel q (j :: seen) (acc ++ [(g, j)])

mutual
def size : SField → Nat
  | .plain _ _ => 1
  | .embed _ sub => 1 + sizeList sub
def sizeList : List SField → Nat
  | [] => 0
  | f :: fs => size f + sizeList fs
end

/-- (Go name, JSON name) of every field of the __premarshal struct, in order -/
def flattenedFields (fields : List SField) : List (Name × Name) :=
  flattenLoop (sizeList fields + 1) fields [] []

/-! ### the interface unmarshal helper (unmarshal_helper.go.tmpl) -/

inductive J
  | null | bool (b : Bool) | num (tok : String) | str (s : String)
  | arr (xs : List J) | obj (kvs : List (String × J))
deriving Repr, Inhabited

inductive IfaceRes
  | nil                                  -- JSON null: the interface value stays nil
  | impl (typename : Name) (goStruct : Name)   -- dispatched to this implementation
  | errNotObject                         -- json.Unmarshal into the {__typename} struct fails
  | errMissingTypename                   -- "response was missing X.__typename"
  | errUnexpectedType (tn : Name)        -- `unexpected concrete type for X: "tn"`
deriving Repr, DecidableEq

def lowerAscii (s : String) : String := String.ofList (s.toList.map Char.toLower)

/-- encoding/json field matching: exact name, else case-insensitive -/
def keyMatches (k : String) : Bool := lowerAscii k == "__typename"

/-- what `json.Unmarshal(b, &struct{TypeName string `json:"__typename"`})` does for an object:
    keys are processed in order; a matching key with a string sets the field, with null leaves
    it, with anything else records an error (decoding goes on, the error is returned at the
    end).  Result: none = error, some s = final field value ("" when never set). -/
def typenameFold : List (String × J) → String → Bool → Option String
  | [], cur, bad => if bad then none else some cur
  | (k, v) :: rest, cur, bad =>
    if keyMatches k then
      match v with
      | .str s => typenameFold rest s bad
      | .null => typenameFold rest cur bad
      | _ => typenameFold rest cur true
    else typenameFold rest cur bad

def typenameOf (kvs : List (String × J)) : Option String := typenameFold kvs "" false

/-- __unmarshal<Iface>: `impls` = the switch's cases, in order -/
def decodeIface (impls : List (Name × Name)) : J → IfaceRes
  | .null => .nil
  | .obj kvs =>
    match typenameOf kvs with
    | none => .errNotObject
    | some tn =>
      if tn == "" then .errMissingTypename
      else match impls.lookup tn with
        | some g => .impl tn g
        | none => .errUnexpectedType tn
  | _ => .errNotObject

end Genq.Types
