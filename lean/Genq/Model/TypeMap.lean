/-
Model of the generator's map from Go type names to declarations (generate/convert.go getType /
addType / the unchecked writes for named fragments) and of selectionsMatch
(generate/validation.go) — C09 (and the acceptance half of C01: a second visit of the same place
must be recognised as the same).
-/
namespace Genq.TypeMap

/-- what selectionsMatch looks at: names, aliases, order, fragment structure; no arguments, no
    directives, no recursion into named fragments -/
inductive Sel
  | field (alias name : String) (sub : List Sel)
  | inline (cond : String) (sub : List Sel)
  | spread (name : String)
deriving Repr, Inhabited

mutual
/-- one position of selectionsMatch's loop -/
def selMatch : Sel → Sel → Bool
  | .field a n s, .field a' n' s' => n == n' && a == a' && selsMatch s s'
  | .inline c s, .inline c' s' => c == c' && selsMatch s s'
  | .spread n, .spread n' => n == n'
  | _, _ => false
/-- selectionsMatch: equal length, then position by position -/
def selsMatch : List Sel → List Sel → Bool
  | [], [] => true
  | x :: xs, y :: ys => selMatch x y && selsMatch xs ys
  | _, _ => false
end

/-- what a place needs declared: the GraphQL type it has and the selection made on it -/
structure Need where
  gql : String
  sel : List Sel
deriving Repr, Inhabited

abbrev TMap := List (String × Need)

def lookup (n : String) : TMap → Option Need
  | [] => none
  | (k, v) :: m => if k = n then some v else lookup n m

inductive Req
  | get (name : String) (need : Need)     -- getType
  | add (name : String) (need : Need)     -- addType
  | write (name : String) (need : Need)   -- g.typeMap[name] = typ (named fragments and their implementations)
  | peek (name : String) (need : Need)    -- typ, ok := g.typeMap[fragmentSpread.Name]: whatever is there is used
deriving Repr, Inhabited

def Req.name : Req → String
  | .get n _ | .add n _ | .write n _ | .peek n _ => n
def Req.need : Req → Need
  | .get _ d | .add _ d | .write _ d | .peek _ d => d

inductive Out | absent | reuse | conflict | inserted | written
deriving DecidableEq, Repr, Inhabited

/-- getType's verdict against an existing entry -/
def compatible (need existing : Need) : Bool :=
  existing.gql == need.gql && selsMatch need.sel existing.sel

def getOut (m : TMap) (n : String) (need : Need) : Out :=
  match lookup n m with
  | none => .absent
  | some e => if compatible need e then .reuse else .conflict

def step (m : TMap) : Req → TMap × Out
  | .get n need => (m, getOut m n need)
  | .add n need =>
    match getOut m n need with
    | .absent => ((n, need) :: m, .inserted)
    | o => (m, o)
  | .write n need => ((n, need) :: m, .written)
  | .peek n _ => (m, match lookup n m with | none => .absent | some _ => .reuse)

/-- the place got a declaration under the requested name -/
def Out.resolved : Out → Bool
  | .reuse | .inserted | .written => true
  | _ => false

/-- run a request sequence; a conflict aborts generation (none) -/
def run : TMap → List Req → Option TMap
  | m, [] => some m
  | m, r :: rs =>
    match step m r with
    | (_, .conflict) => none
    | (m', _) => run m' rs

/-- the requests that resolved along a run, in order -/
def resolvedReqs : TMap → List Req → List (String × Need)
  | _, [] => []
  | m, r :: rs =>
    match step m r with
    | (m', o) => (if o.resolved then [(r.name, r.need)] else []) ++ resolvedReqs m' rs

/-- the side condition of one request: an unchecked access (fragment write, lookup by fragment
    name) targets a name that is free or already holds exactly this declaration -/
def Req.fresh (m : TMap) : Req → Prop
  | .write n need => lookup n m = none ∨ lookup n m = some need
  | .peek n need => lookup n m = none ∨ lookup n m = some need
  | _ => True

/-- every unchecked access targets a name that is free or already holds exactly this declaration -/
def WritesFresh : TMap → List Req → Prop
  | _, [] => True
  | m, r :: rs => r.fresh m ∧ WritesFresh (step m r).1 rs

end Genq.TypeMap
