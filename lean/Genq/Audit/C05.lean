import Genq.Props.C05
open Genq.Files
open Genq
#print axioms C05_all_reach_validator
#print axioms C05_reject
#print axioms C05_unknown_file_type_rejected
#print axioms C05_selected_marker
#print axioms C05_selected_iff
#print axioms C05_parse_tie
