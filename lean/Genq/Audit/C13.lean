import Genq.Props.C13
open Genq.Ws
#print axioms C13_skeleton_tie
#print axioms C13_no_double_close
#print axioms C13_closes_le_one
#print axioms C13_pinned_double_close_witness
#print axioms C13_pinned_duplicate_complete_witness
#print axioms C13_pinned_close_blocked_witness
#print axioms C13_send_on_closed_witness
