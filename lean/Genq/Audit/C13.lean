import Genq.Props.C13
open Genq.Ws
#print axioms C13_skeleton_tie
#print axioms C13_no_double_close
#print axioms C13_closes_le_one
#print axioms C13_no_call_stuck
#print axioms C13_call_actions_decrease_rank
#print axioms C13_only_own_actions_move_a_call
#print axioms C13_every_call_returns
#print axioms C13_reader_ends_partial
#print axioms C13_reader_ends_full_refuted
#print axioms C13_pinned_double_close_witness
#print axioms C13_pinned_duplicate_complete_witness
#print axioms C13_pinned_close_blocked_witness
#print axioms C13_send_on_closed_witness
