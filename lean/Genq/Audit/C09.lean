import Genq.Props.C09
open Genq.TypeMap
#print axioms C09_match_iff_same_selection
#print axioms C09_reuse_only_same_need
#print axioms C09_resolved_requests_hold
#print axioms C09_shared_name_same_need
#print axioms C09_alone_vs_together
#print axioms C09_tie_typemap_accesses
#print axioms C09_shared_name_same_need_checked
#print axioms C09_full_refuted
#print axioms C09_full_refuted_by_peek
