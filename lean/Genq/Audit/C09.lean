import Genq.Props.C09
open Genq.TypeMap
open Genq.Names
open Genq
#print axioms C09_match_iff_same_selection
#print axioms C09_reuse_only_same_need
#print axioms C09_resolved_requests_hold
#print axioms C09_shared_name_same_need
#print axioms C09_alone_vs_together
#print axioms C09_tie_typemap_accesses
#print axioms C09_shared_name_same_need_checked
#print axioms C09_full_refuted
#print axioms C09_full_refuted_by_peek
#print axioms C09_names_start_with_operation
#print axioms C09_unrelated_operations_never_share_names
#print axioms C09_name_ends_with_type
#print axioms C09_naming_is_not_injective
#print axioms C09_naming_tie
#print axioms C09_typemap_tie
#print axioms C09_selectionsMatch_tie
