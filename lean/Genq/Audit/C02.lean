import Genq.Props.C02
open Genq.Collect
open Genq.Codec
open Genq
open Genq
#print axioms C02_fragmentMatches_is_DoesFragmentTypeApply
#print axioms C02_struct_fields_are_collectFields
#print axioms C02_struct_fields_are_collectFields_with_spreads
#print axioms C02_nested_condition_witness
#print axioms C02_every_carrier_decodes_its_key
#print axioms C02_lookup_exact
#print axioms C02_fold_twin_witness
#print axioms C02_codec_template_tie
#print axioms C02_fragment_matches_tie
