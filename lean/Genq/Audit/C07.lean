import Genq.Props.C07
open Genq.Config
open Genq.Doc
open Genq.InputClosure
open Genq.Lines
open Genq
#print axioms C07_casing_never_panics
#print axioms C07_blank_enum_entry_would_panic
#print axioms C07_usedLoop_stops
#print axioms C07_recursive_inputs_terminate
#print axioms C07_entry_before_fields_matters
#print axioms C07_comment_scan_in_range
#print axioms C07_old_split_out_of_range_witness
#print axioms C07_parsePrecedingComment_tie
#print axioms C07_casing_tie
