import Genq.Props.C07
open Genq.Config
open Genq.Doc
#print axioms C07_casing_never_panics
#print axioms C07_blank_enum_entry_would_panic
#print axioms C07_usedLoop_stops
