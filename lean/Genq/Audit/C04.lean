import Genq.Props.C04
open Genq.Vars
open Genq
open Genq.Codec
open Genq
#print axioms C04_keys_subset
#print axioms C04_omitted_iff
#print axioms C04_no_omitempty_all_sent
#print axioms C04_one_request
#print axioms C04_marshal_template_tie
#print axioms C04_field_omitted_iff_empty_model
#print axioms C04_unmarked_field_always_sent_model
#print axioms C04_encoding_cases_model
#print axioms C04_operation_template_tie
