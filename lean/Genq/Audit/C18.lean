import Genq.Props.C18
open Genq.Files
open Genq.Errors
open Genq
#print axioms C18_pos_string_plain
#print axioms C18_pos_string_literal
#print axioms C18_atoi_samples
#print axioms C18_colon_in_filename_witness
#print axioms C18_errorf_position_priority
#print axioms C18_wrapped_position_survives
#print axioms C18_validator_error_position
#print axioms C18_outer_explicit_position_replaces_inner_witness
#print axioms C18_parse_tie
#print axioms C18_errors_tie
