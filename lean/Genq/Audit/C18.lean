import Genq.Props.C18
open Genq.Files
#print axioms C18_pos_string_plain
#print axioms C18_pos_string_literal
#print axioms C18_atoi_samples
#print axioms C18_colon_in_filename_witness
