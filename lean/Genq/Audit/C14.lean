import Genq.Props.C14
open Genq.Ws
open Genq
#print axioms C14_nothing_after_end
#print axioms C14_closed_exactly_once
#print axioms C14_unsubscribe_ends
#print axioms C14_pinned_next_after_complete_witness
#print axioms C14_prefix_in_order
#print axioms C14_at_most_one_in_flight
#print axioms C14_operation_template_tie
