import Genq.Props.C14
open Genq.Ws
#print axioms C14_nothing_after_end
#print axioms C14_closed_exactly_once
#print axioms C14_unsubscribe_ends
#print axioms C14_pinned_next_after_complete_witness
