import Genq.Props.C11
open Genq.Http
#print axioms C11_unescape_escape
