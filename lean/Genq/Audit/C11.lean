import Genq.Props.C11
open Genq.Http
open Genq
#print axioms C11_unescape_escape
#print axioms C11_parse_inverts_encode
#print axioms C11_get_url_decodes
#print axioms C11_get_url_untouched_when_empty
#print axioms C11_gate_on_emitted_documents
#print axioms C11_gate_comment_bypass_witness
#print axioms C11_client_skeleton_tie
