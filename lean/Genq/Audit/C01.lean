import Genq.Props.C01
open Genq.C01
#print axioms C01_placeholder
