import Genq.Props.C01
open Genq.TypeMap
open Genq.Imports
open Genq.Conv
open Genq
#print axioms C01_second_visit_accepted
#print axioms C01_import_aliases_distinct
#print axioms C01_reference_uses_declared_alias
#print axioms C01_alias_stable
#print axioms C01_template_view_complete
#print axioms C01_tie_template_views
#print axioms C01_generic_breaks_view
#print axioms C01_imports_tie
