import Genq.Props.C08
open Genq.Pipeline
open Genq
#print axioms C08_skeleton_tie
#print axioms C08_perm_invariant
#print axioms C08_expand_is_sorted_perm
#print axioms C08_pinned_order_dependence_witness
#print axioms C08_imports_tie
