import Genq.Props.C12
open Genq.HttpResp
open Genq
#print axioms C12_non200_is_HTTPError
#print axioms C12_200_errors
#print axioms C12_200_ok
#print axioms C12_other_error
#print axioms C12_exactly_one_outcome
#print axioms C12_body_closed_once
#print axioms C12_helper_returns_nonnil_partial
#print axioms C12_helper_nil_on_getter_failure
#print axioms C12_client_skeleton_tie
#print axioms C12_operation_template_tie
