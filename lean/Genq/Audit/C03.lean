import Genq.Props.C03
open Genq.Doc
open Genq
#print axioms C03_only_typename_added
#print axioms C03_preprocess_idempotent
#print axioms C03_spreads_unchanged
#print axioms C03_every_abstract_field_has_typename
#print axioms C03_closure_once
#print axioms C03_closure_sound
#print axioms C03_closure_direct
#print axioms C03_closure_complete
#print axioms C03_document_tie
