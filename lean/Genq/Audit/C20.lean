import Genq.Props.C20
open Genq.Main
#print axioms C20_skeleton_tie
#print axioms C20_fail_no_write
#print axioms C20_success_exact
#print axioms C20_write_fault_reported
#print axioms C20_faults_confined
