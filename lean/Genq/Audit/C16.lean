import Genq.Props.C16
open Genq.Names
open Genq
#print axioms C16_bijection
#print axioms C16_conflict_iff_error
#print axioms C16_raw_injective
#print axioms C16_conflict_is_real
#print axioms C16_global_unique
#print axioms C16_cross_enum_collision_reported
#print axioms C16_cross_enum_collision
#print axioms C16_enum_naming_tie
#print axioms C16_casing_tie
