import Genq.Props.C10
open Genq.Conv
open Genq
open Genq.DirApply
#print axioms C10_precedence
#print axioms C10_no_leak
#print axioms C10_bind_replaces_whole_type
#print axioms C10_lists_are_slices
#print axioms C10_named_type_wrapper
#print axioms C10_pointer_false_never_pointer
#print axioms C10_struct_references_default
#print axioms C10_convertType_tie
#print axioms C10_directive_merge_tie
#print axioms C10_omitempty_only_on_variables
#print axioms C10_bind_never_on_operations
#print axioms C10_pointer_always_applicable
