import Genq.Props.C17
open Genq.Files
open Genq
open Genq.Lines
open Genq
#print axioms C17_collect_perm
#print axioms C17_split_graphql
#print axioms C17_literal_equals_file
#print axioms C17_unselected_literal_ignored
#print axioms C17_comment_scan_local
#print axioms C17_expandFilenames_tie
#print axioms C17_lines_are_the_lexers_lines
#print axioms C17_line_ending_convention_irrelevant
#print axioms C17_old_split_cr_witness
#print axioms C17_parsePrecedingComment_tie
#print axioms C17_parse_tie
