import Genq.Props.C17
open Genq.Files
open Genq
#print axioms C17_collect_perm
#print axioms C17_split_graphql
#print axioms C17_literal_equals_file
#print axioms C17_unselected_literal_ignored
#print axioms C17_comment_scan_local
#print axioms C17_expandFilenames_tie
