import Genq.Props.C19
open Genq.Types
open Genq.Codec
open Genq
open Genq
#print axioms C19_bad_typename_is_error
#print axioms C19_dispatch_respects_typename
#print axioms C19_error_cases
#print axioms C19_codec_dispatch_sound
#print axioms C19_codec_null_special_list
#print axioms C19_codec_template_tie
#print axioms C19_possible_types_tie
