import Genq.Props.C19
open Genq.Types
#print axioms C19_bad_typename_is_error
#print axioms C19_dispatch_respects_typename
#print axioms C19_error_cases
