import Genq.Props.C15
open Genq.Ws
#print axioms C15_close_always_cleans
#print axioms C15_subscribe_failure_cleanup
#print axioms C15_start_failure_cleanup
#print axioms C15_pinned_close_frame_first_witness
#print axioms C15_pinned_close_leaves_open_witness
#print axioms C15_fixed_close_under_fault
#print axioms C15_conversation_shape
#print axioms C15_written_only_grows
#print axioms C15_valid_conversation_full_refuted
