import Genq.Props.C06
open Genq.Types
#print axioms C06_unique_keys
#print axioms C06_direct_field_wins
#print axioms C06_json_name_is_the_key
