import Genq.Props.C06
open Genq.Types
open Genq.Codec
open Genq
open Genq.FlattenAgree
#print axioms C06_unique_keys
#print axioms C06_direct_field_wins
#print axioms C06_json_name_is_the_key
#print axioms C06_roundtrip_model
#print axioms C06_roundtrip_special_model
#print axioms C06_marshaled_object_covers_every_field
#print axioms C06_marshaled_keys_unique_model
#print axioms C06_typename_once_model
#print axioms C06_roundtrip_of_decoded_model
#print axioms C06_decoded_values_are_wellformed
#print axioms C06_roundtrip_needs_coherence_witness
#print axioms C06_null_object_with_abstract_list_witness
#print axioms C06_codec_template_tie
#print axioms C06_flatten_models_agree
#print axioms C06_marshaled_keys_are_flattenedFields
