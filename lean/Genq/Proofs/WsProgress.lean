/-
Progress of the WebSocket client model (C13): under the repaired flags no API call is ever stuck
(the only blocking point of a call is the client mutex in Close's final section, and whenever it
is taken the reader can release it by itself), every action of a call strictly decreases a rank
(no livelock), and the reader reaches its end once the client is closed or the connection lost.
-/
import Genq.Model.Ws
import Genq.Proofs.WsInv
namespace Genq.Ws

/-- the client mutex is held exactly while the reader is inside handleErr's send; Close's final
    section sets isClosing and closes the connection together -/
structure MuInv (w : World) : Prop where
  mu : w.mu = true ↔ w.reader = .herrSend
  closing : w.isClosing = true → w.connCloses ≥ 1

@[simp] theorem setCall_mu (w : World) (c : Nat) (k : Call) : (setCall w c k).mu = w.mu := rfl
@[simp] theorem setCall_reader (w : World) (c : Nat) (k : Call) : (setCall w c k).reader = w.reader := rfl
@[simp] theorem setCall_isClosing (w : World) (c : Nat) (k : Call) : (setCall w c k).isClosing = w.isClosing := rfl
@[simp] theorem setCall_connCloses (w : World) (c : Nat) (k : Call) : (setCall w c k).connCloses = w.connCloses := rfl
@[simp] theorem setSub_mu (w : World) (i : Nat) (s : Sub) : (setSub w i s).mu = w.mu := rfl
@[simp] theorem setSub_reader (w : World) (i : Nat) (s : Sub) : (setSub w i s).reader = w.reader := rfl
@[simp] theorem setSub_isClosing (w : World) (i : Nat) (s : Sub) : (setSub w i s).isClosing = w.isClosing := rfl
@[simp] theorem setSub_connCloses (w : World) (i : Nat) (s : Sub) : (setSub w i s).connCloses = w.connCloses := rfl

theorem endSub_frame (f : Flags) (w : World) (i : SubId) (v : Bool) :
    (endSub f w i v).mu = w.mu ∧ (endSub f w i v).reader = w.reader ∧
    (endSub f w i v).isClosing = w.isClosing ∧ (endSub f w i v).connCloses = w.connCloses ∧
    (endSub f w i v).calls = w.calls := by
  unfold endSub
  repeat' split
  all_goals simp [setSub]

theorem closeFinal_frame (w : World) :
    (closeFinal w).mu = w.mu ∧ (closeFinal w).reader = w.reader ∧
    (closeFinal w).isClosing = true ∧ (closeFinal w).connCloses = w.connCloses + 1 := by
  unfold closeFinal; split <;> simp

/-- an action of an API call never touches the mutex flag or the reader, and keeps
    "closing ⇒ connection closed" -/
theorem stepCall_muInv (f : Flags) (w w' : World) (c : Nat) (b : Bool) (h : MuInv w)
    (hs : stepCall f w c b = some w') : MuInv w' := by
  unfold stepCall at hs
  repeat' split at hs
  all_goals (try cases hs)
  all_goals first
    | exact h
    | (constructor
       · simp only [setCall_mu, setCall_reader, setSub_mu, setSub_reader, (endSub_frame _ _ _ _).1, (endSub_frame _ _ _ _).2.1,
           (closeFinal_frame _).1, (closeFinal_frame _).2.1]; exact h.mu
       · simp only [setCall_isClosing, setCall_connCloses, setSub_isClosing, setSub_connCloses,
           (endSub_frame _ _ _ _).2.2.1, (endSub_frame _ _ _ _).2.2.2.1, (closeFinal_frame _).2.2.1, (closeFinal_frame _).2.2.2]
         first | exact h.closing | (intro _; omega))

theorem dispatch_frame (f : Flags) (w : World) (m : Msg) :
    (dispatch f w m).mu = w.mu ∧ (dispatch f w m).reader ≠ .herrSend ∧
    (dispatch f w m).isClosing = w.isClosing ∧ (dispatch f w m).connCloses = w.connCloses := by
  unfold dispatch
  repeat' split
  all_goals simp [(endSub_frame _ _ _ _).1, (endSub_frame _ _ _ _).2.2.1, (endSub_frame _ _ _ _).2.2.2.1]

theorem step_muInv (w w' : World) (e : Ev) (h : MuInv w)
    (hs : step Flags.fixed w e = some w') : MuInv w' := by
  cases e with
  | subscribe => simp only [step, Option.some.injEq] at hs; subst hs; exact ⟨h.mu, h.closing⟩
  | unsubscribe i => simp only [step, Option.some.injEq] at hs; subst hs; exact ⟨h.mu, h.closing⟩
  | close => simp only [step, Flags.fixed, if_true, Option.some.injEq] at hs; subst hs; exact ⟨h.mu, h.closing⟩
  | step c => exact stepCall_muInv _ w w' c true h hs
  | stepFail c =>
    simp only [step] at hs
    split at hs
    all_goals first
      | exact stepCall_muInv _ w w' c false h hs
      | cases hs
  | server m =>
    simp only [step] at hs
    split at hs
    · rename_i hr
      split at hs
      · cases hs
      · cases hs
        have hd := dispatch_frame Flags.fixed w m
        have hmu : w.mu = false := by
          cases hm : w.mu with
          | false => rfl
          | true => have := h.mu.1 hm; rw [hr] at this; cases this
        constructor
        · rw [hd.1, hmu]; constructor
          · intro hh; cases hh
          · intro hh; exact absurd hh hd.2.1
        · rw [hd.2.2.1, hd.2.2.2]; exact h.closing
    · cases hs
  | rstep =>
    simp only [step] at hs
    have hmu := h.mu
    have hcl := h.closing
    repeat' split at hs
    all_goals (try cases hs)
    all_goals (rename_i hr; try rename_i hr2)
    all_goals (constructor <;> simp_all)
  | readErr =>
    simp only [step] at hs
    have hmu := h.mu
    have hcl := h.closing
    repeat' split at hs
    all_goals (try cases hs)
    all_goals (constructor <;> simp_all)
  | recvData i =>
    simp only [step] at hs
    have hmu := h.mu
    have hcl := h.closing
    repeat' split at hs
    all_goals (try cases hs)
    all_goals (constructor <;> simp_all)
  | recvErr =>
    simp only [step] at hs
    have hmu := h.mu
    have hcl := h.closing
    repeat' split at hs
    all_goals (try cases hs)
    all_goals (constructor <;> simp_all [Flags.fixed])

theorem run_muInv (w : World) (evs : List Ev) (h : MuInv w) : MuInv (run Flags.fixed w evs) := by
  induction evs generalizing w with
  | nil => exact h
  | cons e es ih =>
    simp only [run, List.foldl_cons]
    apply ih
    split
    · exact h
    · cases hs : step Flags.fixed w e with
      | none => simpa using h
      | some w' => simpa using step_muInv w w' e h hs

theorem init_muInv (order : List SubId) : MuInv { init with closeOrder := order } :=
  ⟨by simp [init], by simp [init]⟩

/-! ### no call is ever stuck -/

/-- with its pending connection write (if any) completing, an action of call `c` is enabled unless
    the call has returned or waits for the client mutex in Close's final section -/
theorem stepCall_enabled (w : World) (c : Nat) (k : Call) (hk : w.calls[c]? = some k)
    (hret : ∀ b, k ≠ .ret b) (hmu : w.mu = false ∨ ∀ acc, k ≠ .closeFinal acc) :
    (stepCall Flags.fixed w c true).isSome = true := by
  unfold stepCall
  rw [hk]
  cases k with
  | ret b => exact absurd rfl (hret b)
  | closeFinal acc =>
    rcases hmu with h | h
    · simp [h]
    · exact absurd rfl (h acc)
  | closeNext rest acc fd => cases rest <;> simp <;> split <;> simp
  | _ => simp <;> (repeat' split) <;> simp

/-- the reader inside handleErr's send finishes by itself (buffered error channel) and releases the mutex -/
theorem herrSend_releases (w : World) (h : w.reader = .herrSend) :
    step Flags.fixed w .rstep = some { w with errQueued := w.errQueued + 1, mu := false, reader := .done } := by
  simp [step, h, Flags.fixed]

/-! ### every action of a call decreases its rank -/

/-- `n` = number of subscription entries of the world (bounds the id snapshot Close takes) -/
def Call.rank (n : Nat) : Call → Nat
  | .ret _ => 0
  | .closeFinal _ => 1
  | .closeFrameWrite none _ => 2
  | .closeNext rest _ _ => 3 * rest.length + 3
  | .closeUnsubMap _ rest _ _ => 3 * rest.length + 4
  | .closeUnsubWrite _ rest _ _ => 3 * rest.length + 5
  | .closeIds _ _ => 3 * n + 4
  | .closeFrameWrite (some _) _ => 3 * n + 5
  | .subWrite _ => 1
  | .unsubWrite _ => 2
  | .unsubMap _ => 1

theorem pick_mem (order : List SubId) (x : SubId) (rest : List SubId) : pick order (x :: rest) ∈ x :: rest := by
  unfold pick
  split
  · rename_i i hf
    have := List.find?_some hf
    simpa using this
  · simp

theorem liveIds_length (f : Flags) (w : World) : (liveIds f w).length ≤ w.subs.length := by
  unfold liveIds
  calc _ ≤ (List.range w.subs.length).length := List.length_filter_le _ _
    _ = _ := List.length_range

theorem endSub_length (f : Flags) (w : World) (i : SubId) (v : Bool) : (endSub f w i v).subs.length = w.subs.length := by
  unfold endSub
  repeat' split
  all_goals simp [setSub]

theorem closeAfterUnsub_rank (n : Nat) (rest : List SubId) (acc : CloseAcc) (fd ok : Bool) :
    (closeAfterUnsub Flags.fixed rest acc fd ok).rank n ≤ 3 * rest.length + 3 := by
  unfold closeAfterUnsub
  cases ok <;> simp [Flags.fixed, Call.rank]

/-- one action of call `c`: the call's program counter moves to one of strictly smaller rank, the
    number of entries is unchanged and no other call is touched -/
theorem stepCall_rank (w w' : World) (c : Nat) (b : Bool) (k : Call) (hk : w.calls[c]? = some k)
    (hs : stepCall Flags.fixed w c b = some w') :
    ∃ k', w'.calls[c]? = some k' ∧ k'.rank w'.subs.length < k.rank w.subs.length ∧
      w'.subs.length = w.subs.length ∧ ∀ d, d ≠ c → w'.calls[d]? = w.calls[d]? := by
  have hc : c < w.calls.length := by
    rcases Nat.lt_or_ge c w.calls.length with h | h
    · exact h
    · rw [List.getElem?_eq_none h] at hk; cases hk
  have key : ∀ (w1 : World) (k' : Call), w1.calls = w.calls → w1.subs.length = w.subs.length →
      k'.rank w.subs.length < k.rank w.subs.length →
      ∃ k'', (setCall w1 c k').calls[c]? = some k'' ∧ k''.rank (setCall w1 c k').subs.length < k.rank w.subs.length ∧
        (setCall w1 c k').subs.length = w.subs.length ∧ ∀ d, d ≠ c → (setCall w1 c k').calls[d]? = w.calls[d]? := by
    intro w1 k' h1 h2 h3
    refine ⟨k', ?_, ?_, ?_, ?_⟩
    · simp only [setCall, h1]; rw [List.getElem?_set_self hc]
    · simp only [setCall_subs, h2]; exact h3
    · simp only [setCall_subs, h2]
    · intro d hd; simp only [setCall, h1]; rw [List.getElem?_set_ne (Ne.symm hd)]
  unfold stepCall at hs
  rw [hk] at hs
  cases k with
  | ret b => cases hs
  | subWrite i =>
    simp only at hs
    split at hs
    · cases hs; exact key _ _ rfl rfl (by simp [Call.rank])
    · split at hs
      · cases hs
      · cases hs; exact key _ _ rfl (by simp [setSub]) (by simp [Call.rank])
  | unsubWrite i =>
    simp only at hs
    split at hs <;> cases hs <;> exact key _ _ rfl rfl (by simp [Call.rank])
  | unsubMap i =>
    simp only at hs
    split at hs
    · cases hs
    · repeat' split at hs
      all_goals cases hs
      all_goals first
        | exact key _ _ rfl rfl (by simp [Call.rank])
        | exact key _ _ (endSub_frame _ _ _ _).2.2.2.2 (endSub_length _ _ _ _) (by simp [Call.rank])
  | closeIds acc fd =>
    simp only at hs
    split at hs
    · cases hs
    · cases hs
      exact key _ _ rfl rfl (by have := liveIds_length Flags.fixed w; simp [Call.rank]; omega)
  | closeNext rest acc fd =>
    simp only at hs
    split at hs
    · cases hs
    · cases rest with
      | nil =>
        simp only at hs
        split at hs <;> cases hs <;> exact key _ _ rfl rfl (by simp [Call.rank])
      | cons x rest =>
        simp only at hs
        cases hs
        refine key _ _ rfl rfl ?_
        have hm := pick_mem w.closeOrder x rest
        have hl := List.length_erase_of_mem hm
        simp only [Call.rank, hl, List.length_cons]
        omega
  | closeUnsubWrite i rest acc fd =>
    simp only at hs
    split at hs
    · cases hs; exact key _ _ rfl rfl (by simp [Call.rank])
    · cases hs; exact key _ _ rfl rfl (Nat.lt_of_le_of_lt (closeAfterUnsub_rank w.subs.length rest acc fd false) (by simp [Call.rank]))
  | closeUnsubMap i rest acc fd =>
    simp only at hs
    split at hs
    · cases hs
    · repeat' split at hs
      all_goals cases hs
      all_goals first
        | exact key _ _ rfl rfl (Nat.lt_of_le_of_lt (closeAfterUnsub_rank w.subs.length rest acc fd false) (by simp [Call.rank]))
        | exact key _ _ (endSub_frame _ _ _ _).2.2.2.2 (endSub_length _ _ _ _)
            (Nat.lt_of_le_of_lt (closeAfterUnsub_rank w.subs.length rest acc fd true) (by simp [Call.rank]))
  | closeFrameWrite todo acc =>
    simp only at hs
    split at hs
    · cases todo <;> simp only at hs <;> cases hs <;> exact key _ _ rfl rfl (by simp [Call.rank])
    · simp only [Flags.fixed, if_true] at hs
      cases todo <;> simp only at hs <;> cases hs <;> exact key _ _ rfl rfl (by simp [Call.rank])
  | closeFinal acc =>
    simp only at hs
    split at hs
    · cases hs
    · split at hs
      · cases hs
      · cases hs
        refine key _ _ ?_ ?_ (by simp [Call.rank])
        · unfold closeFinal; split <;> rfl
        · simp

theorem stepCall_mu_eq (f : Flags) (w w' : World) (c : Nat) (b : Bool)
    (hs : stepCall f w c b = some w') : w'.mu = w.mu := by
  unfold stepCall at hs
  repeat' split at hs
  all_goals (try cases hs)
  all_goals simp [(endSub_frame _ _ _ _).1, (closeFinal_frame _).1]

/-- the program counter of a call is moved by that call's own actions only -/
theorem step_other_preserves_call (f : Flags) (w w' : World) (e : Ev) (c : Nat) (k : Call)
    (he1 : e ≠ .step c) (he2 : e ≠ .stepFail c) (hk : w.calls[c]? = some k)
    (hs : step f w e = some w') : w'.calls[c]? = some k := by
  have hc : c < w.calls.length := by
    rcases Nat.lt_or_ge c w.calls.length with h | h
    · exact h
    · rw [List.getElem?_eq_none h] at hk; cases hk
  have stepCall_other : ∀ d b w1, d ≠ c → stepCall f w d b = some w1 → w1.calls[c]? = some k := by
    intro d b w1 hd h1
    unfold stepCall at h1
    repeat' split at h1
    all_goals (try cases h1)
    all_goals (simp only [setCall, (endSub_frame _ _ _ _).2.2.2.2, closeFinal, setSub]; try split)
    all_goals (rw [List.getElem?_set_ne hd]; exact hk)
  cases e with
  | subscribe => simp only [step, Option.some.injEq] at hs; subst hs; simp only; rw [List.getElem?_append_left hc]; exact hk
  | unsubscribe i => simp only [step, Option.some.injEq] at hs; subst hs; simp only; rw [List.getElem?_append_left hc]; exact hk
  | close =>
    simp only [step] at hs
    split at hs <;> (simp only [Option.some.injEq] at hs; subst hs; simp only; rw [List.getElem?_append_left hc]; exact hk)
  | step d =>
    have hd : d ≠ c := fun h => he1 (by rw [h])
    exact stepCall_other d true w' hd hs
  | stepFail d =>
    have hd : d ≠ c := fun h => he2 (by rw [h])
    simp only [step] at hs
    split at hs
    all_goals first
      | exact stepCall_other d false w' hd hs
      | cases hs
  | server m =>
    simp only [step] at hs
    repeat' split at hs
    all_goals (try cases hs)
    have : (dispatch f w m).calls = w.calls := by
      unfold dispatch
      repeat' split
      all_goals simp [(endSub_frame _ _ _ _).2.2.2.2, setSub]
    rw [this]; exact hk
  | rstep =>
    simp only [step] at hs
    repeat' split at hs
    all_goals (try cases hs)
    all_goals exact hk
  | readErr =>
    simp only [step] at hs
    repeat' split at hs
    all_goals (try cases hs)
    all_goals exact hk
  | recvData i =>
    simp only [step] at hs
    repeat' split at hs
    all_goals (try cases hs)
    all_goals exact hk
  | recvErr =>
    simp only [step] at hs
    repeat' split at hs
    all_goals (try cases hs)
    all_goals exact hk

/-- call `c` scheduled on its own, its connection writes completing; when it waits for the mutex
    the reader (the only other holder) is scheduled instead -/
def soloStep (f : Flags) (w : World) (c : Nat) : World :=
  match stepCall f w c true with
  | some w' => w'
  | none => (step f w .rstep).getD w

def solo (f : Flags) (c : Nat) : Nat → World → World
  | 0, w => w
  | n + 1, w => solo f c n (soloStep f w c)

theorem rstep_frame (f : Flags) (w w' : World) (hs : step f w .rstep = some w') :
    w'.calls = w.calls ∧ w'.subs.length = w.subs.length := by
  simp only [step] at hs
  repeat' split at hs
  all_goals (try cases hs)
  all_goals exact ⟨rfl, rfl⟩

theorem solo_ret (n : Nat) (w : World) (c : Nat) (b : Bool) (h : w.calls[c]? = some (.ret b)) :
    (solo Flags.fixed c n w).calls[c]? = some (.ret b) := by
  induction n generalizing w with
  | zero => exact h
  | succ n ih =>
    simp only [solo]
    apply ih
    unfold soloStep
    have : stepCall Flags.fixed w c true = none := by unfold stepCall; rw [h]
    rw [this]
    cases hr : step Flags.fixed w .rstep with
    | none => simpa using h
    | some w' => simp only [Option.getD_some]; rw [(rstep_frame _ _ _ hr).1]; exact h

/-- **every call returns**: scheduled on its own (with the reader allowed to finish its error
    report), a call reaches `ret` within rank + 1 actions, from ANY world satisfying the mutex invariant -/
theorem solo_returns (n : Nat) (w : World) (c : Nat) (k : Call) (hi : MuInv w) (hk : w.calls[c]? = some k)
    (hn : k.rank w.subs.length + (if w.mu then 1 else 0) ≤ n) :
    ∃ b, (solo Flags.fixed c n w).calls[c]? = some (.ret b) := by
  induction n generalizing w k with
  | zero =>
    have h0 : k.rank w.subs.length = 0 := by omega
    cases k <;> simp [Call.rank] at h0
    · rename_i todo acc; cases todo <;> simp at h0
    · exact ⟨_, hk⟩
  | succ n ih =>
    by_cases hret : ∃ b, k = .ret b
    · obtain ⟨b, rfl⟩ := hret
      exact ⟨b, solo_ret _ _ _ _ hk⟩
    · have hret' : ∀ b, k ≠ .ret b := fun b hb => hret ⟨b, hb⟩
      simp only [solo]
      cases hsc : stepCall Flags.fixed w c true with
      | some w' =>
        obtain ⟨k', hk', hlt, hlen, _⟩ := stepCall_rank w w' c true k hk hsc
        have hmu := stepCall_mu_eq _ _ _ _ _ hsc
        have : soloStep Flags.fixed w c = w' := by unfold soloStep; rw [hsc]
        rw [this]
        exact ih w' k' (stepCall_muInv _ _ _ _ _ hi hsc) hk' (by rw [hmu]; omega)
      | none =>
        -- not enabled: the call waits for the mutex in closeFinal and the reader holds it
        have hmu : w.mu = true := by
          cases hm : w.mu with
          | true => rfl
          | false =>
            have := stepCall_enabled w c k hk hret' (Or.inl hm)
            rw [hsc] at this; cases this
        have hrd := hi.mu.1 hmu
        have hrel := herrSend_releases w hrd
        have : soloStep Flags.fixed w c = { w with errQueued := w.errQueued + 1, mu := false, reader := .done } := by
          unfold soloStep; rw [hsc, hrel]; rfl
        rw [this]
        refine ih _ k ?_ hk ?_
        · exact step_muInv _ _ _ hi hrel
        · simp only [hmu, if_true] at hn; simp; omega

/-! ### the reader ends once the client is closed or the connection lost -/

/-- the reader running on its own for `n` actions -/
def rsteps (f : Flags) : Nat → World → World
  | 0, w => w
  | n + 1, w => rsteps f n ((step f w .rstep).getD w)

theorem reader_ends (w : World) (h : MuInv w)
    (hc : w.connCloses ≥ 1 ∨ w.reader = .herr ∨ w.reader = .herrSend ∨ w.reader = .done)
    (hsend : ∀ i p, w.reader ≠ .send i p) : (rsteps Flags.fixed 4 w).reader = .done := by
  have hmu := h.mu
  have hcl := h.closing
  cases hr : w.reader with
  | send i p => exact absurd hr (hsend i p)
  | done => simp [rsteps, step, hr]
  | herrSend => simp [rsteps, step, hr, Flags.fixed]
  | herr =>
    have hm : w.mu = false := by
      cases hm : w.mu with
      | false => rfl
      | true => have := hmu.1 hm; rw [hr] at this; cases this
    cases hcl' : w.isClosing <;> simp [rsteps, step, hr, hm, hcl', Flags.fixed]
  | read =>
    have hm : w.mu = false := by
      cases hm : w.mu with
      | false => rfl
      | true => have := hmu.1 hm; rw [hr] at this; cases this
    have hcc : w.connCloses ≥ 1 := by
      rcases hc with h1 | h1 | h1 | h1
      · exact h1
      all_goals (rw [hr] at h1; cases h1)
    cases hcl' : w.isClosing <;> simp [rsteps, step, hr, hm, hcl', hcc, Flags.fixed]
  | top =>
    have hm : w.mu = false := by
      cases hm : w.mu with
      | false => rfl
      | true => have := hmu.1 hm; rw [hr] at this; cases this
    have hcc : w.connCloses ≥ 1 := by
      rcases hc with h1 | h1 | h1 | h1
      · exact h1
      all_goals (rw [hr] at h1; cases h1)
    cases hcl' : w.isClosing <;> simp [rsteps, step, hr, hm, hcl', hcc, Flags.fixed]

end Genq.Ws
