/-
Facts about the prefix-list naming of generated types (Model/TypeNames.lean) — C09.

What the naming scheme does guarantee: a generated name always starts with the name of the operation (or
fragment) it belongs to and — below the operation's own type — ends with the (cased) GraphQL type name; so the
names of two operations neither of whose names is a prefix of the other's never coincide.  What it does not
guarantee (names.go documents this in a TODO): injectivity — see the witness in Props/C09.lean.  That is why the
type map's check (Model/TypeMap.lean) carries the property.
-/
import Genq.Model.TypeNames
namespace Genq.Names

theorem typeNameParts_extends (p : Prefix) (tn : Name) (algo : Casing) : p <+: typeNameParts p tn algo := by
  unfold typeNameParts
  simp only
  split
  · exact List.prefix_refl _
  · exact List.prefix_append _ _

theorem nextPrefix_extends (p : Prefix) (ot al : Name) (algo : Casing) : p <+: nextPrefix p ot al algo := by
  unfold nextPrefix
  exact List.IsPrefix.trans (typeNameParts_extends p ot algo) (List.prefix_append _ _)

theorem foldl_extends (algo : Casing) : ∀ (steps : List (Name × Name)) (p : Prefix),
    p <+: steps.foldl (fun p s => nextPrefix p s.1 s.2 algo) p
  | [], p => List.prefix_refl _
  | s :: rest, p => by
    simp only [List.foldl_cons]
    exact List.IsPrefix.trans (nextPrefix_extends p s.1 s.2 algo) (foldl_extends algo rest _)

theorem walk_extends (root : Name) (steps : List (Name × Name)) (algo : Casing) : [root] <+: walk root steps algo :=
  foldl_extends algo steps [root]

theorem flatten_prefix {p q : Prefix} (h : p <+: q) : joinPrefix p <+: joinPrefix q := by
  obtain ⟨r, rfl⟩ := h
  unfold joinPrefix
  simp only [List.flatten_append]
  exact List.prefix_append _ _

/-- every generated name under an operation starts with the operation's name -/
theorem makeTypeName_starts_with_root (root : Name) (steps : List (Name × Name)) (tn : Name) (algo : Casing) :
    root <+: makeTypeName (walk root steps algo) tn algo := by
  unfold makeTypeName
  have h := flatten_prefix (List.IsPrefix.trans (walk_extends root steps algo) (typeNameParts_extends _ tn algo))
  simpa [joinPrefix] using h

theorem makeLongTypeName_starts_with_root (root : Name) (steps : List (Name × Name)) (tn : Name) (algo : Casing) :
    root <+: makeLongTypeName (walk root steps algo) tn algo := by
  unfold makeLongTypeName
  have h := flatten_prefix (List.IsPrefix.trans (walk_extends root steps algo) (List.prefix_append _ [applyCasing tn algo true]))
  simpa [joinPrefix] using h

/-- below the operation's own type the generated name ends with the (cased) GraphQL type name, shortened or not -/
theorem makeTypeName_ends_with_type (p : Prefix) (tn : Name) (algo : Casing) (hp : 1 < p.length) :
    applyCasing tn algo true <:+ makeTypeName p tn algo := by
  unfold makeTypeName typeNameParts
  simp only
  have h1 : ¬ p.length ≤ 1 := by omega
  by_cases hs : isSuffixOf (applyCasing tn algo true) (joinPrefix p) = true
  · simp only [h1, decide_false, Bool.false_or, hs, if_true]
    simpa [isSuffixOf] using hs
  · simp only [h1, decide_false, Bool.false_or, hs, Bool.false_eq_true, if_false]
    unfold joinPrefix
    simp only [List.flatten_append, List.flatten_cons, List.flatten_nil, List.append_nil]
    exact List.suffix_append _ _

/-- shortening changes nothing but the repeated type name: the short name is the long one, or the long one minus
    the type name it would repeat -/
theorem makeTypeName_short_or_long (p : Prefix) (tn : Name) (algo : Casing) :
    makeTypeName p tn algo = makeLongTypeName p tn algo ∨
    makeTypeName p tn algo ++ applyCasing tn algo true = makeLongTypeName p tn algo := by
  unfold makeTypeName makeLongTypeName typeNameParts
  simp only
  split
  · right; simp [joinPrefix]
  · left; rfl

/-- names generated under two operations (or fragments) whose names are not prefixes of one another differ -/
theorem names_of_unrelated_roots_differ (r1 r2 : Name) (s1 s2 : List (Name × Name)) (t1 t2 : Name) (a1 a2 : Casing)
    (h12 : ¬ r1 <+: r2) (h21 : ¬ r2 <+: r1) :
    makeTypeName (walk r1 s1 a1) t1 a1 ≠ makeTypeName (walk r2 s2 a2) t2 a2 := by
  intro h
  have p1 := makeTypeName_starts_with_root r1 s1 t1 a1
  have p2 := makeTypeName_starts_with_root r2 s2 t2 a2
  rw [h] at p1
  rcases List.prefix_or_prefix_of_prefix p1 p2 with h' | h'
  · exact h12 h'
  · exact h21 h'

end Genq.Names
