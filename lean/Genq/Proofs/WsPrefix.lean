/-
C14: what the application received on a channel is always a prefix of the payloads the reader
dispatched to that entry (in order, none twice, none invented).  Invariant by induction over
all event lists.
-/
import Genq.Model.Ws
import Genq.Proofs.WsInv
import Genq.Proofs.WsData
namespace Genq.Ws

/-- what must hold of entry i given where the reader is -/
def EntryOK (r : Reader) (i : SubId) (s : Sub) : Prop :=
  match r with
  | .send j p => if i = j then s.nexts = s.delivered ++ [p] else s.nexts = s.delivered
  | .done => s.nexts = s.delivered ∨ ∃ p, s.nexts = s.delivered ++ [p]
  | _ => s.nexts = s.delivered

def Pref (w : World) : Prop := ∀ (i : SubId) (s : Sub), w.subs[i]? = some s → EntryOK w.reader i s

def Reader.idle : Reader → Bool
  | .send _ _ | .done => false
  | _ => true

def Reader.isSend : Reader → Bool
  | .send _ _ => true
  | _ => false

theorem entryOK_idle (r : Reader) (i : SubId) (s : Sub) (hr : r.idle = true) (h : EntryOK r i s) :
    s.nexts = s.delivered := by
  cases r <;> simp_all [EntryOK, Reader.idle]

theorem entryOK_of_eq (r : Reader) (i : SubId) (s : Sub) (hr : r.isSend = false) (h : s.nexts = s.delivered) :
    EntryOK r i s := by
  cases r <;> simp_all [EntryOK, Reader.isSend]

theorem entryOK_done (r : Reader) (i : SubId) (s : Sub) (h : EntryOK r i s) : EntryOK .done i s := by
  cases r with
  | send j p =>
    simp only [EntryOK] at h ⊢
    by_cases hij : i = j
    · simp only [hij, if_true] at h; exact Or.inr ⟨p, h⟩
    · simp only [hij, if_false] at h; exact Or.inl h
  | done => exact h
  | top => exact Or.inl h
  | read => exact Or.inl h
  | herr => exact Or.inl h
  | herrSend => exact Or.inl h

/-- same payload data -/
def SameData (s s' : Sub) : Prop := s'.delivered = s.delivered ∧ s'.nexts = s.nexts

/-- every entry of w' is an entry of w with the same payload data, or a fresh empty one -/
def KeepsD (w w' : World) : Prop :=
  ∀ (i : SubId) (s' : Sub), w'.subs[i]? = some s' →
    (∃ s, w.subs[i]? = some s ∧ SameData s s') ∨ (w.subs[i]? = none ∧ s'.nexts = [] ∧ s'.delivered = [])

theorem keepsD_of_subs_eq (w w' : World) (h : w'.subs = w.subs) : KeepsD w w' := by
  intro i s' hs'; exact Or.inl ⟨s', by rw [← h]; exact hs', rfl, rfl⟩

theorem keepsD_set (w w' : World) (k : SubId) (sk a : Sub) (hk : w.subs[k]? = some sk) (ha : SameData sk a)
    (h : w'.subs = w.subs.set k a) : KeepsD w w' := by
  intro i s' hs'
  rw [h, List.getElem?_set] at hs'
  by_cases hki : k = i
  · subst hki
    have hlt := (List.getElem?_eq_some_iff.1 hk).1
    simp only [if_true, hlt, Option.some.injEq] at hs'
    subst hs'
    exact Or.inl ⟨sk, hk, ha⟩
  · simp only [hki, if_false] at hs'
    exact Or.inl ⟨s', hs', rfl, rfl⟩

theorem keepsD_trans_subs (w w1 w2 : World) (h1 : KeepsD w w1) (h2 : w2.subs = w1.subs) : KeepsD w w2 := by
  intro i s' hs'; exact h1 i s' (by rw [← h2]; exact hs')

theorem keepsD_endSub (w : World) (k : SubId) (v : Bool) : KeepsD w (endSub Flags.fixed w k v) := by
  unfold endSub
  cases hg : getSub w k with
  | none => exact keepsD_of_subs_eq _ _ rfl
  | some sk =>
    simp only [Flags.fixed, if_true]
    by_cases he : sk.ended = true
    · simp only [he, if_true]; exact keepsD_of_subs_eq _ _ rfl
    · simp only [he, Bool.false_eq_true, if_false]
      exact keepsD_set w _ k sk { sk with ended := true, closes := sk.closes + 1 } hg ⟨rfl, rfl⟩ rfl

theorem stepCall_keepsD (w w' : World) (c : Nat) (b : Bool)
    (hs : stepCall Flags.fixed w c b = some w') : KeepsD w w' ∧ w'.reader = w.reader := by
  unfold stepCall at hs
  repeat' split at hs
  all_goals (try cases hs)
  all_goals refine ⟨?_, by simp⟩
  all_goals first
    | exact keepsD_of_subs_eq _ _ rfl
    | (refine keepsD_of_subs_eq _ _ ?_; simp only [setCall_subs, closeFinal_subs]; done)
    | exact keepsD_trans_subs _ _ _ (keepsD_endSub _ _ _) rfl
    | (refine keepsD_set _ _ _ _ _ ‹getSub w _ = some _› ?_ rfl; exact ⟨rfl, rfl⟩)

theorem entryOK_sameData (r : Reader) (i : SubId) (s s' : Sub) (hd : SameData s s') (h : EntryOK r i s) :
    EntryOK r i s' := by
  obtain ⟨h1, h2⟩ := hd
  cases r <;> simp only [EntryOK, h1, h2] at h ⊢ <;> exact h

theorem entryOK_fresh (r : Reader) (i : SubId) (s : Sub) (hn : s.nexts = []) (hd : s.delivered = [])
    (hr : ∀ p, r ≠ .send i p) : EntryOK r i s := by
  cases r with
  | send j p =>
    have : i ≠ j := fun e => hr p (by rw [e])
    simp [EntryOK, this, hn, hd]
  | done => exact Or.inl (by rw [hn, hd])
  | _ => simp [EntryOK, hn, hd]

/-- a step that keeps the payload data and the reader keeps the invariant, provided the reader is
    not delivering to an entry that does not exist yet -/
theorem pref_of_keepsD (w w' : World) (hp : Pref w) (hk : KeepsD w w') (hr : w'.reader = w.reader)
    (hfresh : ∀ i : SubId, w.subs[i]? = none → ∀ p, w.reader ≠ .send i p) : Pref w' := by
  intro i s' hs'
  rw [hr]
  rcases hk i s' hs' with ⟨s, hs, hd⟩ | ⟨hnone, hn, hd⟩
  · exact entryOK_sameData _ _ _ _ hd (hp i s hs)
  · exact entryOK_fresh _ _ _ hn hd (hfresh i hnone)

/-- the reader only ever delivers to an entry that exists -/
def SendExists (w : World) : Prop := ∀ (i : SubId) (p : Payload), w.reader = .send i p → ∃ s, w.subs[i]? = some s

theorem fresh_of_sendExists (w : World) (h : SendExists w) : ∀ i : SubId, w.subs[i]? = none → ∀ p, w.reader ≠ .send i p := by
  intro i hn p hr
  obtain ⟨s, hs⟩ := h i p hr
  rw [hn] at hs; cases hs

theorem keepsD_append (w w' : World) (t : Sub) (ht : t.nexts = [] ∧ t.delivered = [])
    (h : w'.subs = w.subs ++ [t]) : KeepsD w w' := by
  intro i s' hs'
  rw [h] at hs'
  by_cases hlt : i < w.subs.length
  · rw [List.getElem?_append_left hlt] at hs'
    exact Or.inl ⟨s', hs', rfl, rfl⟩
  · have hge : w.subs.length ≤ i := Nat.le_of_not_lt hlt
    rw [List.getElem?_append_right hge] at hs'
    have hnone : w.subs[i]? = none := List.getElem?_eq_none hge
    cases hi : i - w.subs.length with
    | zero =>
      rw [hi] at hs'
      simp only [List.getElem?_cons_zero, Option.some.injEq] at hs'
      subst hs'
      exact Or.inr ⟨hnone, ht.1, ht.2⟩
    | succ n => rw [hi] at hs'; simp at hs'

def PInv (w : World) : Prop := Pref w ∧ SendExists w

/-- forward existence: entries never disappear -/
def Grows (w w' : World) : Prop := ∀ (i : SubId) (s : Sub), w.subs[i]? = some s → ∃ s', w'.subs[i]? = some s'

theorem grows_of_keeps (w w' : World) (h : ∀ i, Keeps w w' i) : Grows w w' := by
  intro i s hs; obtain ⟨s', hs', _⟩ := h i s hs; exact ⟨s', hs'⟩

theorem sendExists_of_grows (w w' : World) (h : SendExists w) (hg : Grows w w') (hr : w'.reader = w.reader) :
    SendExists w' := by
  intro i p hp
  rw [hr] at hp
  obtain ⟨s, hs⟩ := h i p hp
  exact hg i s hs

theorem pinv_same_reader (w w' : World) (h : PInv w) (hk : KeepsD w w') (hg : Grows w w')
    (hr : w'.reader = w.reader) : PInv w' :=
  ⟨pref_of_keepsD w w' h.1 hk hr (fresh_of_sendExists w h.2), sendExists_of_grows w w' h.2 hg hr⟩

/-- the reader moves (not into a delivery), the entries stay -/
theorem pinv_reader_move (w w' : World) (h : PInv w) (hs : w'.subs = w.subs)
    (hmove : (w.reader.idle = true ∧ w'.reader.isSend = false) ∨ w'.reader = .done) : PInv w' := by
  refine ⟨?_, ?_⟩
  · intro i s hs'
    rw [hs] at hs'
    have := h.1 i s hs'
    rcases hmove with ⟨hi, hn⟩ | hd
    · exact entryOK_of_eq _ _ _ hn (entryOK_idle _ _ _ hi this)
    · rw [hd]; exact entryOK_done _ _ _ this
  · intro i p hp
    rcases hmove with ⟨_, hn⟩ | hd
    · rw [hp] at hn; simp [Reader.isSend] at hn
    · rw [hd] at hp; cases hp

theorem pinv_set_reader (w : World) (r : Reader) (h : PInv w) (hr : w.reader = .read) (hn : r.isSend = false) :
    PInv { w with reader := r } :=
  pinv_reader_move w _ h rfl (Or.inl ⟨by simp [hr, Reader.idle], hn⟩)

theorem pinv_endSub_top (w : World) (k : SubId) (h : PInv w) (hr : w.reader = .read) :
    PInv { endSub Flags.fixed w k false with reader := .top } := by
  have hidle : ∀ (i : SubId) (s : Sub), w.subs[i]? = some s → s.nexts = s.delivered := by
    intro i s hs
    have := h.1 i s hs
    rw [hr] at this; exact this
  refine ⟨?_, ?_⟩
  · intro i s hs'
    have hs'' : (endSub Flags.fixed w k false).subs[i]? = some s := hs'
    rcases keepsD_endSub w k false i s hs'' with ⟨s0, hs0, hd⟩ | ⟨_, h1, h2⟩
    · have := hidle i s0 hs0
      show s.nexts = s.delivered
      rw [hd.1, hd.2]; exact this
    · show s.nexts = s.delivered
      rw [h1, h2]
  · intro i p hp; cases hp

theorem pinv_next (w w' : World) (i : SubId) (p : Payload) (s t : Sub) (h : PInv w) (hr : w.reader = .read)
    (hg : getSub w i = some s) (ht1 : t.nexts = s.nexts ++ [p]) (ht2 : t.delivered = s.delivered)
    (hsubs : w'.subs = w.subs.set i t) (hrd : w'.reader = .send i p) : PInv w' := by
  have hidle : ∀ (i : SubId) (s : Sub), w.subs[i]? = some s → s.nexts = s.delivered := by
    intro i s hs
    have := h.1 i s hs
    rw [hr] at this; exact this
  have hlt : i < w.subs.length := (List.getElem?_eq_some_iff.1 hg).1
  refine ⟨?_, ?_⟩
  · intro j u hu
    rw [hsubs, List.getElem?_set] at hu
    rw [hrd]
    simp only [EntryOK]
    by_cases hij : i = j
    · subst hij
      simp only [if_true, hlt, Option.some.injEq] at hu
      subst hu
      simp only [if_true]
      rw [ht1, ht2, hidle i s hg]
    · have hji : ¬ j = i := fun e => hij e.symm
      simp only [hij, if_false] at hu
      simp only [hji, if_false]
      exact hidle j u hu
  · intro j q hq
    rw [hrd] at hq
    simp only [Reader.send.injEq] at hq
    obtain ⟨rfl, _⟩ := hq
    refine ⟨t, ?_⟩
    rw [hsubs, List.getElem?_set]
    simp only [if_true, hlt]

theorem dispatch_pinv (w : World) (m : Msg) (h : PInv w) (hr : w.reader = .read) :
    PInv (dispatch Flags.fixed w m) := by
  cases m with
  | garbage => exact pinv_set_reader w .herr h hr rfl
  | complete i =>
    simp only [dispatch]
    cases hg : getSub w i with
    | none => exact pinv_set_reader w .herr h hr rfl
    | some s =>
      simp only []
      by_cases hreg : s.registered = true
      · by_cases hend : s.ended = true
        · simp only [hreg, hend, Bool.not_true, Bool.false_eq_true, if_false, if_true]
          exact pinv_set_reader w .top h hr rfl
        · simp only [hreg, hend, Bool.not_true, Bool.false_eq_true, if_false]
          exact pinv_endSub_top w i h hr
      · simp only [hreg, Bool.not_false, if_true]
        exact pinv_set_reader w .herr h hr rfl
  | next i p dec =>
    simp only [dispatch]
    cases hg : getSub w i with
    | none => exact pinv_set_reader w .herr h hr rfl
    | some s =>
      simp only []
      by_cases hreg : s.registered = true
      · by_cases hend : s.ended = true
        · simp only [hreg, hend, Bool.not_true, Bool.false_eq_true, if_false, if_true]
          exact pinv_set_reader w .top h hr rfl
        · cases dec with
          | false =>
            simp only [hreg, hend, Bool.not_true, Bool.false_eq_true, if_false, Bool.not_false, if_true]
            exact pinv_set_reader w .herr h hr rfl
          | true =>
            rw [if_neg (by simp [hreg]), if_neg (by simp [hend]), if_neg (by simp)]
            exact pinv_next w _ i p s { s with nexts := s.nexts ++ [p] } h hr hg rfl rfl rfl rfl
      · simp only [hreg, Bool.not_false, if_true]
        exact pinv_set_reader w .herr h hr rfl
  | other i =>
    simp only [dispatch]
    cases hg : getSub w i with
    | none => exact pinv_set_reader w .herr h hr rfl
    | some s =>
      simp only []
      by_cases hreg : s.registered = true
      · by_cases hend : s.ended = true
        · simp only [hreg, hend, Bool.not_true, Bool.false_eq_true, if_false, if_true]
          exact pinv_set_reader w .top h hr rfl
        · simp only [hreg, hend, Bool.not_true, Bool.false_eq_true, if_false]
          exact pinv_set_reader w .herr h hr rfl
      · simp only [hreg, Bool.not_false, if_true]
        exact pinv_set_reader w .herr h hr rfl

theorem grows_of_subs_eq (w w' : World) (h : w'.subs = w.subs) : Grows w w' := by
  intro i s hs; exact ⟨s, by rw [h]; exact hs⟩

theorem step_pinv (w w' : World) (e : Ev) (h : PInv w) (hs : step Flags.fixed w e = some w') : PInv w' := by
  cases e with
  | subscribe =>
    simp only [step, Option.some.injEq] at hs; subst hs
    refine pinv_same_reader w _ h (keepsD_append _ _ {} ⟨rfl, rfl⟩ rfl) ?_ rfl
    exact grows_of_keeps _ _ (fun i => keeps_append _ _ i {} rfl)
  | unsubscribe k =>
    simp only [step, Option.some.injEq] at hs; subst hs
    exact pinv_same_reader w _ h (keepsD_of_subs_eq _ _ rfl) (grows_of_subs_eq _ _ rfl) rfl
  | close =>
    simp only [step, Flags.fixed, if_true, Option.some.injEq] at hs; subst hs
    exact pinv_same_reader w _ h (keepsD_of_subs_eq _ _ rfl) (grows_of_subs_eq _ _ rfl) rfl
  | step c =>
    obtain ⟨hk, hr⟩ := stepCall_keepsD w w' c true hs
    exact pinv_same_reader w w' h hk (grows_of_keeps _ _ (fun i => (stepCall_keeps w w' c true i hs).1)) hr
  | stepFail c =>
    simp only [step] at hs
    split at hs
    all_goals first
      | cases hs
      | (obtain ⟨hk, hr⟩ := stepCall_keepsD w w' c false hs
         exact pinv_same_reader w w' h hk (grows_of_keeps _ _ (fun i => (stepCall_keeps w w' c false i hs).1)) hr)
  | server m =>
    simp only [step] at hs
    split at hs
    · split at hs
      · cases hs
      · simp only [Option.some.injEq] at hs; subst hs
        exact dispatch_pinv w m h ‹w.reader = Reader.read›
    · cases hs
  | rstep =>
    simp only [step] at hs
    repeat' split at hs
    all_goals (try cases hs)
    all_goals first
      | exact pinv_reader_move w _ h rfl (Or.inr rfl)
      | (refine pinv_reader_move w _ h rfl (Or.inl ?_); simp_all [Reader.idle, Reader.isSend]; done)
  | readErr =>
    simp only [step] at hs
    repeat' split at hs
    all_goals (try cases hs)
    all_goals (refine pinv_reader_move w _ h rfl (Or.inl ?_); simp_all [Reader.idle, Reader.isSend]; done)
  | recvData k =>
    simp only [step] at hs
    repeat' split at hs
    all_goals (try cases hs)
    rename_i _ j p hrd hkj _ sk hgk hcl
    have hk' : k = j := by simpa using hkj
    subst hk'
    have hlt : k < w.subs.length := (List.getElem?_eq_some_iff.1 hgk).1
    have hown := h.1 k sk hgk
    rw [hrd] at hown
    simp only [EntryOK, if_true] at hown
    refine ⟨?_, ?_⟩
    · intro i t ht
      have ht' : (w.subs.set k { sk with delivered := sk.delivered ++ [p] })[i]? = some t := ht
      rw [List.getElem?_set] at ht'
      show t.nexts = t.delivered
      by_cases hki : k = i
      · subst hki
        simp only [if_true, hlt, Option.some.injEq] at ht'
        subst ht'
        exact hown
      · simp only [hki, if_false] at ht'
        have := h.1 i t ht'
        rw [hrd] at this
        have hik : ¬ i = k := fun e => hki e.symm
        simpa [EntryOK, hik] using this
    · intro i q hq; cases hq
  | recvErr =>
    simp only [step] at hs
    repeat' split at hs
    all_goals (try cases hs)
    all_goals first
      | exact pinv_same_reader w _ h (keepsD_of_subs_eq _ _ rfl) (grows_of_subs_eq _ _ rfl) rfl
      | exact pinv_reader_move w _ h rfl (Or.inr rfl)

theorem init_pinv (order : List SubId) : PInv { init with closeOrder := order } := by
  refine ⟨?_, ?_⟩
  · intro i s hs; simp [init] at hs
  · intro i p hp; simp [init] at hp

theorem run_pinv (w : World) (evs : List Ev) (h : PInv w) : PInv (run Flags.fixed w evs) := by
  induction evs generalizing w with
  | nil => exact h
  | cons e es ih =>
    simp only [run, List.foldl_cons]
    by_cases hp : w.panic.isSome = true
    · simp only [hp, if_true]; exact ih w h
    · simp only [hp, Bool.false_eq_true, if_false]
      cases hs : step Flags.fixed w e with
      | none => simp only [Option.getD_none]; exact ih w h
      | some w' => simp only [Option.getD_some]; exact ih w' (step_pinv w w' e h hs)

theorem prefix_of_entryOK (r : Reader) (i : SubId) (s : Sub) (h : EntryOK r i s) : s.delivered <+: s.nexts := by
  have := entryOK_done r i s h
  rcases this with h1 | ⟨p, h1⟩
  · rw [h1]; exact List.prefix_refl _
  · rw [h1]; exact List.prefix_append _ _

end Genq.Ws
