/-
Proofs about Model/Lines.lean: the line slice parsePrecedingComment uses (since fa11825) is exactly the lexer's
division into lines, for every input; so the scan above any node stays inside it (C07), and the lines it sees do
not depend on the file's line-ending convention (C17).
-/
import Genq.Model.Lines
namespace Genq.Lines

theorem consHead_length (c : Char) (l : List Str) (h : l ≠ []) : (consHead c l).length = l.length := by
  cases l with
  | nil => exact absurd rfl h
  | cons x xs => rfl

theorem lexLines_ne_nil (s : Str) : lexLines s ≠ [] := by
  fun_induction lexLines s
  all_goals (try simp)
  all_goals (try (split <;> simp))
  rename_i c d rest _ _ ih
  cases h : lexLines (d :: rest) with
  | nil => exact absurd h ih
  | cons x xs => simp [consHead]

/-- the fixed line slice IS the lexer's division into lines -/
theorem linesFixed_eq_lexLines (s : Str) : linesFixed s = lexLines s := by
  unfold linesFixed
  fun_induction lexLines s <;> simp_all [normalize, splitNL, consHead]

/-- as many lines as the lexer has counted terminators, plus one -/
theorem lexLines_length (s : Str) : (lexLines s).length = lexBreaks s + 1 := by
  fun_induction lexLines s <;> simp_all [lexBreaks]
  rename_i c d rest _ _ ih
  rw [consHead_length _ _ (lexLines_ne_nil _)]
  exact ih

/-- reading on never lowers the count -/
theorem lexBreaks_prefix_le (pre post : Str) : lexBreaks pre ≤ lexBreaks (pre ++ post) := by
  fun_induction lexBreaks pre
  case case1 => exact Nat.zero_le _
  all_goals (try (simp_all [lexBreaks]; done))
  all_goals (try (cases post <;> simp_all [lexBreaks] <;> (try split) <;> omega))

/-- the scan `for i := pos.Line-1; i > 0; i-- { sourceLines[i-1] }` above a token that starts right after `pre`
    (so on line `lexBreaks pre + 1`) stays inside the fixed line slice, whatever follows -/
theorem scan_in_range (pre post : Str) (i : Nat) (_h1 : 1 ≤ i) (h2 : i ≤ lexBreaks pre) :
    i - 1 < (linesFixed (pre ++ post)).length := by
  rw [linesFixed_eq_lexLines, lexLines_length]
  have := lexBreaks_prefix_le pre post
  omega

/-! ### the same lines under every line-ending convention -/

def clean (l : Str) : Prop := ∀ c ∈ l, c ≠ '\r' ∧ c ≠ '\n'

theorem lexLines_cons_clean (c : Char) (u : Str) (h1 : c ≠ '\r') (h2 : c ≠ '\n') :
    lexLines (c :: u) = consHead c (lexLines u) := by
  cases u with
  | nil => simp [lexLines, h1, h2, consHead]
  | cons d r => simp [lexLines, h1, h2]

theorem lexLines_nl (u : Str) : lexLines ('\n' :: u) = [] :: lexLines u := by
  cases u with
  | nil => decide
  | cons d r => simp [lexLines]

theorem lexLines_crlf (u : Str) : lexLines ('\r' :: '\n' :: u) = [] :: lexLines u := by
  simp [lexLines]

theorem lexLines_cr (u : Str) (h : ∀ r, u ≠ '\n' :: r) : lexLines ('\r' :: u) = [] :: lexLines u := by
  cases u with
  | nil => decide
  | cons d r =>
    have : d ≠ '\n' := fun e => h r (by rw [e])
    simp [lexLines, this]

theorem lexLines_clean_append (l : Str) (hl : clean l) (t : Str) :
    lexLines (l ++ t) = (l ++ (lexLines t).headD []) :: (lexLines t).tail := by
  induction l with
  | nil =>
    cases h : lexLines t with
    | nil => exact absurd h (lexLines_ne_nil t)
    | cons x xs => simp [h]
  | cons c l ih =>
    have hc := hl c (List.mem_cons_self)
    rw [List.cons_append, lexLines_cons_clean c (l ++ t) hc.1 hc.2, ih (fun x hx => hl x (List.mem_cons_of_mem _ hx))]
    simp [consHead]

inductive Ending | lf | crlf | cr
deriving DecidableEq, Repr

def Ending.str : Ending → Str
  | .lf => ['\n']
  | .crlf => ['\r', '\n']
  | .cr => ['\r']

/-- the file text: the lines joined by the terminator -/
def joinLines (e : Ending) : List Str → Str
  | [] => []
  | [l] => l
  | l :: l2 :: ls => l ++ e.str ++ joinLines e (l2 :: ls)

theorem joinLines_cr_not_nl : ∀ (ls : List Str), (∀ l ∈ ls, clean l) → ∀ r, joinLines .cr ls ≠ '\n' :: r
  | [], _, r => by simp [joinLines]
  | [l], h, r => by
    intro heq
    simp only [joinLines] at heq
    have := h l (List.mem_singleton.2 rfl) '\n' (by rw [heq]; exact List.mem_cons_self)
    exact this.2 rfl
  | l :: l2 :: ls, h, r => by
    intro heq
    simp only [joinLines] at heq
    cases l with
    | nil => simp [Ending.str] at heq
    | cons c l' =>
      have := h (c :: l') List.mem_cons_self c List.mem_cons_self
      simp at heq
      exact this.2 heq.1

/-- lexing the joined text gives the lines back, under each of the three conventions -/
theorem lexLines_joinLines (e : Ending) : ∀ (ls : List Str), ls ≠ [] → (∀ l ∈ ls, clean l) → lexLines (joinLines e ls) = ls
  | [], h, _ => absurd rfl h
  | [l], _, hc => by
    have := lexLines_clean_append l (hc l (List.mem_singleton.2 rfl)) []
    simpa [joinLines, lexLines] using this
  | l :: l2 :: ls, _, hc => by
    have ih := lexLines_joinLines e (l2 :: ls) (by simp) (fun x hx => hc x (List.mem_cons_of_mem _ hx))
    have hl := hc l List.mem_cons_self
    simp only [joinLines, List.append_assoc]
    rw [lexLines_clean_append l hl]
    have ht : lexLines (e.str ++ joinLines e (l2 :: ls)) = [] :: (l2 :: ls) := by
      cases e with
      | lf => simp only [Ending.str, List.cons_append, List.nil_append]; rw [lexLines_nl, ih]
      | crlf => simp only [Ending.str, List.cons_append, List.nil_append]; rw [lexLines_crlf, ih]
      | cr =>
        simp only [Ending.str, List.cons_append, List.nil_append]
        rw [lexLines_cr _ (joinLines_cr_not_nl (l2 :: ls) (fun x hx => hc x (List.mem_cons_of_mem _ hx))), ih]
    simp [ht]

end Genq.Lines
