/-
Lemmas for C11: url.ParseQuery inverts url.Values.Encode, and the GET URL built by
createGetRequest decodes to the request's values while keeping the endpoint's own parameters.
-/
import Genq.Model.Http
import Genq.Proofs.HttpEscape
namespace Genq.Http

/-! ### escaped text contains no separator bytes -/

def isSep (c : Nat) : Bool := c == 38 || c == 61 || c == 59

theorem hexDigit_not_sep : ∀ n, n < 16 → isSep (hexDigit n) = false := by decide

theorem escapeByte_no_sep (b : Nat) (hb : b < 256) : ∀ c ∈ escapeByte b, isSep c = false := by
  intro c hc
  unfold escapeByte at hc
  by_cases hu : unreserved b = true
  · simp only [hu, if_true, List.mem_singleton] at hc
    subst hc
    -- an unreserved byte is not a separator
    simp only [isSep, Bool.or_eq_false_iff, beq_eq_false_iff_ne]
    refine ⟨⟨?_, ?_⟩, ?_⟩ <;> (intro e; subst e; revert hu; decide)
  · simp only [hu, Bool.false_eq_true, if_false] at hc
    by_cases hs : (b == 32) = true
    · simp only [hs, if_true, List.mem_singleton] at hc; subst hc; decide
    · simp only [hs, Bool.false_eq_true, if_false, List.mem_cons, List.not_mem_nil, or_false] at hc
      rcases hc with rfl | rfl | rfl
      · decide
      · exact hexDigit_not_sep _ (by omega)
      · exact hexDigit_not_sep _ (by omega)

theorem escape_no_sep : ∀ (s : Bytes), allBytes s = true → ∀ c ∈ queryEscape s, isSep c = false
  | [], _, c, hc => by simp [queryEscape] at hc
  | b :: bs, hs, c, hc => by
    have h : b < 256 ∧ allBytes bs = true := by
      simp only [allBytes, List.all_cons, Bool.and_eq_true, isByte, decide_eq_true_eq] at hs ⊢
      exact hs
    simp only [queryEscape, List.mem_append] at hc
    rcases hc with hc | hc
    · exact escapeByte_no_sep b h.1 c hc
    · exact escape_no_sep bs h.2 c hc

/-! ### strings.Cut and the '&' split -/

theorem cutEq_append (a b : Bytes) (ha : ∀ c ∈ a, isSep c = false) : cutEq (a ++ 61 :: b) = (a, b) := by
  induction a with
  | nil => simp [cutEq]
  | cons x xs ih =>
    have hx : (x == 61) = false := by
      have := ha x (List.mem_cons_self ..)
      simp only [isSep, Bool.or_eq_false_iff] at this
      exact this.1.2
    simp only [List.cons_append, cutEq, hx, Bool.false_eq_true, if_false]
    rw [ih (fun c hc => ha c (List.mem_cons_of_mem _ hc))]

theorem splitOn_no_sep (x : Bytes) (hx : ∀ c ∈ x, (c == 38) = false) : splitOn 38 x = [x] := by
  induction x with
  | nil => rfl
  | cons b bs ih =>
    have hb := hx b (List.mem_cons_self ..)
    simp only [splitOn, hb, Bool.false_eq_true, if_false]
    rw [ih (fun c hc => hx c (List.mem_cons_of_mem _ hc))]

theorem splitOn_append (x rest : Bytes) (hx : ∀ c ∈ x, (c == 38) = false) :
    splitOn 38 (x ++ 38 :: rest) = x :: splitOn 38 rest := by
  induction x with
  | nil => simp [splitOn]
  | cons b bs ih =>
    have hb := hx b (List.mem_cons_self ..)
    simp only [List.cons_append, splitOn, hb, Bool.false_eq_true, if_false]
    rw [ih (fun c hc => hx c (List.mem_cons_of_mem _ hc))]

theorem splitOn_intercalate : ∀ (xs : List Bytes), xs ≠ [] → (∀ x ∈ xs, ∀ c ∈ x, (c == 38) = false) →
    splitOn 38 (intercalateAmp xs) = xs
  | [], h, _ => absurd rfl h
  | [x], _, hx => by
    simp only [intercalateAmp]
    exact splitOn_no_sep x (hx x (List.mem_singleton.2 rfl))
  | x :: y :: ys, _, hx => by
    simp only [intercalateAmp]
    rw [splitOn_append x _ (hx x (List.mem_cons_self ..))]
    rw [splitOn_intercalate (y :: ys) (by simp) (fun z hz => hx z (List.mem_cons_of_mem _ hz))]

/-! ### one pair -/

def pairBytes (kv : Bytes × Bytes) : Bool := allBytes kv.1 && allBytes kv.2

theorem encodePair_no_amp (kv : Bytes × Bytes) (h : pairBytes kv = true) :
    ∀ c ∈ encodePair kv, (c == 38) = false ∧ (c == 59) = false := by
  simp only [pairBytes, Bool.and_eq_true] at h
  intro c hc
  simp only [encodePair, List.mem_append, List.mem_cons] at hc
  have key : isSep c = false ∨ c = 61 := by
    rcases hc with hc | rfl | hc
    · exact Or.inl (escape_no_sep _ h.1 c hc)
    · exact Or.inr rfl
    · exact Or.inl (escape_no_sep _ h.2 c hc)
  rcases key with hk | rfl
  · simp only [isSep, Bool.or_eq_false_iff] at hk
    exact ⟨hk.1.1, hk.2⟩
  · decide

theorem parsePair_encodePair (kv : Bytes × Bytes) (h : pairBytes kv = true) :
    parsePair (encodePair kv) = some kv := by
  have hb := h
  simp only [pairBytes, Bool.and_eq_true] at hb
  have hne : (encodePair kv).isEmpty = false := by
    unfold encodePair
    cases queryEscape kv.1 <;> rfl
  have hsemi : (encodePair kv).contains 59 = false := by
    cases hcon : (encodePair kv).contains 59 with
    | false => rfl
    | true =>
      have hm : 59 ∈ encodePair kv := by simpa using hcon
      have := (encodePair_no_amp kv h 59 hm).2
      simp at this
  unfold parsePair
  simp only [hne, hsemi, Bool.false_eq_true, if_false]
  have hcut : cutEq (encodePair kv) = (queryEscape kv.1, queryEscape kv.2) := by
    unfold encodePair
    exact cutEq_append _ _ (escape_no_sep _ hb.1)
  rw [hcut]
  simp only [unescape_escape _ hb.1, unescape_escape _ hb.2]

/-- url.ParseQuery inverts url.Values.Encode -/
theorem parseQuery_encodeValues (kvs : List (Bytes × Bytes)) (h : ∀ kv ∈ kvs, pairBytes kv = true) :
    parseQuery (encodeValues kvs) = kvs := by
  unfold parseQuery encodeValues
  cases kvs with
  | nil => simp [intercalateAmp, splitOn, parsePair]
  | cons kv rest =>
    rw [splitOn_intercalate _ (by simp) ?_]
    · rw [List.filterMap_map]
      have : ∀ l : List (Bytes × Bytes), (∀ kv ∈ l, pairBytes kv = true) →
          l.filterMap (parsePair ∘ encodePair) = l := by
        intro l hl
        induction l with
        | nil => rfl
        | cons a as ih =>
          simp only [List.filterMap_cons, Function.comp, parsePair_encodePair a (hl a (List.mem_cons_self ..))]
          rw [ih (fun kv hkv => hl kv (List.mem_cons_of_mem _ hkv))]
      exact this _ h
    · intro x hx c hc
      simp only [List.mem_map] at hx
      obtain ⟨p, hp, rfl⟩ := hx
      exact (encodePair_no_amp p (h p hp) c hc).1

end Genq.Http

namespace Genq.Http

/-! ### the multimap (url.Values) -/

def valuesOf (k : Bytes) (l : List (Bytes × Bytes)) : List Bytes :=
  (l.filter (fun p => p.1 == k)).map (·.2)

def lookupMM (k : Bytes) (m : MultiMap) : List Bytes :=
  (m.filter (fun e => e.1 == k)).flatMap (·.2)

def KD (m : MultiMap) : Prop := (m.map (·.1)).Nodup

theorem valuesOf_append (k : Bytes) (a b : List (Bytes × Bytes)) :
    valuesOf k (a ++ b) = valuesOf k a ++ valuesOf k b := by
  simp [valuesOf, List.filter_append]

theorem valuesOf_mapKey (k k' : Bytes) (vs : List Bytes) :
    valuesOf k (vs.map fun v => (k', v)) = if (k' == k) = true then vs else [] := by
  induction vs with
  | nil => simp [valuesOf]
  | cons v vs ih =>
    simp only [valuesOf, List.map_cons, List.filter_cons] at ih ⊢
    by_cases h : (k' == k) = true <;> simp_all

theorem valuesOf_flatten (k : Bytes) : ∀ m : MultiMap, valuesOf k (flattenMM m) = lookupMM k m
  | [] => rfl
  | e :: m => by
    have ih := valuesOf_flatten k m
    simp only [flattenMM, List.flatMap_cons] at ih ⊢
    rw [valuesOf_append, ih, valuesOf_mapKey]
    simp only [lookupMM, List.filter_cons]
    by_cases he : (e.1 == k) = true
    · simp only [he, if_true, List.flatMap_cons]
    · simp only [he, Bool.false_eq_true, if_false, List.nil_append]

theorem keys_mmAdd (m : MultiMap) (k v : Bytes) :
    (mmAdd m k v).map (·.1) = if k ∈ m.map (·.1) then m.map (·.1) else m.map (·.1) ++ [k] := by
  induction m with
  | nil => simp [mmAdd]
  | cons e m ih =>
    obtain ⟨k', vs⟩ := e
    simp only [mmAdd]
    by_cases hk : (k' == k) = true
    · have : k' = k := by simpa using hk
      subst this
      simp
    · have hne : k' ≠ k := by simpa using hk
      simp only [hk, Bool.false_eq_true, if_false, List.map_cons, ih, List.mem_cons]
      have : ¬ k = k' := fun h => hne h.symm
      by_cases hm : k ∈ m.map (·.1)
      · simp [hm]
      · simp [hm, this]

theorem keys_mmSet (m : MultiMap) (k v : Bytes) :
    (mmSet m k v).map (·.1) = if k ∈ m.map (·.1) then m.map (·.1) else m.map (·.1) ++ [k] := by
  induction m with
  | nil => simp [mmSet]
  | cons e m ih =>
    obtain ⟨k', vs⟩ := e
    simp only [mmSet]
    by_cases hk : (k' == k) = true
    · have : k' = k := by simpa using hk
      subst this
      simp
    · have hne : k' ≠ k := by simpa using hk
      simp only [hk, Bool.false_eq_true, if_false, List.map_cons, ih, List.mem_cons]
      have : ¬ k = k' := fun h => hne h.symm
      by_cases hm : k ∈ m.map (·.1)
      · simp [hm]
      · simp [hm, this]

theorem nodup_append_singleton {α : Type} (l : List α) (a : α) (h : l.Nodup) (ha : a ∉ l) : (l ++ [a]).Nodup := by
  induction l with
  | nil => simp
  | cons x xs ih =>
    simp only [List.nodup_cons, List.mem_cons, not_or] at h ha
    simp only [List.cons_append, List.nodup_cons, List.mem_append, List.mem_singleton, not_or]
    exact ⟨⟨h.1, fun e => ha.1 e.symm⟩, ih h.2 ha.2⟩

theorem KD_mmAdd (m : MultiMap) (k v : Bytes) (h : KD m) : KD (mmAdd m k v) := by
  unfold KD at *
  rw [keys_mmAdd]
  split
  · exact h
  · next hm => exact nodup_append_singleton _ _ h hm

theorem KD_mmSet (m : MultiMap) (k v : Bytes) (h : KD m) : KD (mmSet m k v) := by
  unfold KD at *
  rw [keys_mmSet]
  split
  · exact h
  · next hm => exact nodup_append_singleton _ _ h hm

theorem lookup_absent (k : Bytes) (m : MultiMap) (h : k ∉ m.map (·.1)) : lookupMM k m = [] := by
  simp only [lookupMM]
  have : m.filter (fun e => e.1 == k) = [] := by
    simp only [List.filter_eq_nil_iff]
    intro e he hk
    apply h
    have : e.1 = k := by simpa using hk
    exact List.mem_map.2 ⟨e, he, this⟩
  rw [this]; rfl

theorem lookup_mmAdd_same (m : MultiMap) (k v : Bytes) (h : KD m) :
    lookupMM k (mmAdd m k v) = lookupMM k m ++ [v] := by
  induction m with
  | nil => simp [mmAdd, lookupMM]
  | cons e m ih =>
    obtain ⟨k', vs⟩ := e
    have hm : KD m := by unfold KD at *; exact (List.nodup_cons.1 h).2
    simp only [mmAdd]
    by_cases hk : (k' == k) = true
    · have hkk : k' = k := by simpa using hk
      subst hkk
      have habs : k' ∉ m.map (·.1) := by unfold KD at h; exact (List.nodup_cons.1 h).1
      have hl := lookup_absent k' m habs
      simp only [lookupMM] at hl
      simp only [hk, if_true, lookupMM, List.filter_cons, beq_self_eq_true, List.flatMap_cons, hl,
        List.append_nil]
    · simp only [hk, Bool.false_eq_true, if_false, lookupMM, List.filter_cons]
      have := ih hm
      simp only [lookupMM] at this
      exact this

theorem lookup_mmAdd_other (m : MultiMap) (k k' v : Bytes) (hne : (k == k') = false) :
    lookupMM k' (mmAdd m k v) = lookupMM k' m := by
  induction m with
  | nil => simp [mmAdd, lookupMM, hne]
  | cons e m ih =>
    obtain ⟨k0, vs⟩ := e
    simp only [mmAdd]
    by_cases hk : (k0 == k) = true
    · have hkk : k0 = k := by simpa using hk
      subst hkk
      simp [lookupMM, List.filter_cons, hne]
    · simp only [hk, Bool.false_eq_true, if_false, lookupMM, List.filter_cons]
      simp only [lookupMM] at ih
      split <;> simp [ih]

theorem lookup_mmSet_same (m : MultiMap) (k v : Bytes) (h : KD m) :
    lookupMM k (mmSet m k v) = [v] := by
  induction m with
  | nil => simp [mmSet, lookupMM]
  | cons e m ih =>
    obtain ⟨k', vs⟩ := e
    have hm : KD m := by unfold KD at *; exact (List.nodup_cons.1 h).2
    simp only [mmSet]
    by_cases hk : (k' == k) = true
    · have hkk : k' = k := by simpa using hk
      subst hkk
      have habs : k' ∉ m.map (·.1) := by unfold KD at h; exact (List.nodup_cons.1 h).1
      have hl := lookup_absent k' m habs
      simp only [lookupMM] at hl
      simp only [hk, if_true, lookupMM, List.filter_cons, beq_self_eq_true, List.flatMap_cons, hl,
        List.append_nil]
    · simp only [hk, Bool.false_eq_true, if_false, lookupMM, List.filter_cons]
      have := ih hm
      simp only [lookupMM] at this
      exact this

theorem lookup_mmSet_other (m : MultiMap) (k k' v : Bytes) (hne : (k == k') = false) :
    lookupMM k' (mmSet m k v) = lookupMM k' m := by
  induction m with
  | nil => simp [mmSet, lookupMM, hne]
  | cons e m ih =>
    obtain ⟨k0, vs⟩ := e
    simp only [mmSet]
    by_cases hk : (k0 == k) = true
    · have hkk : k0 = k := by simpa using hk
      subst hkk
      simp [lookupMM, List.filter_cons, hne]
    · simp only [hk, Bool.false_eq_true, if_false, lookupMM, List.filter_cons]
      simp only [lookupMM] at ih
      split <;> simp [ih]

theorem foldl_mmAdd (k : Bytes) : ∀ (l : List (Bytes × Bytes)) (m0 : MultiMap), KD m0 →
    KD (l.foldl (fun m kv => mmAdd m kv.1 kv.2) m0) ∧
    lookupMM k (l.foldl (fun m kv => mmAdd m kv.1 kv.2) m0) = lookupMM k m0 ++ valuesOf k l
  | [], m0, h => by simp [valuesOf, h]
  | kv :: l, m0, h => by
    have ih := foldl_mmAdd k l (mmAdd m0 kv.1 kv.2) (KD_mmAdd _ _ _ h)
    simp only [List.foldl_cons]
    refine ⟨ih.1, ?_⟩
    rw [ih.2]
    by_cases hk : (kv.1 == k) = true
    · have : kv.1 = k := by simpa using hk
      rw [← this, lookup_mmAdd_same _ _ _ h]
      simp [valuesOf, List.filter_cons]
    · have hk' : (kv.1 == k) = false := by simpa using hk
      rw [lookup_mmAdd_other _ _ _ _ hk']
      simp [valuesOf, List.filter_cons, hk']

/-! ### sorting keeps every key's values -/

theorem insertSorted_perm (e : Bytes × List Bytes) : ∀ m : MultiMap, (insertSorted e m).Perm (e :: m)
  | [] => List.Perm.refl _
  | x :: xs => by
    simp only [insertSorted]
    split
    · exact List.Perm.refl _
    · exact ((insertSorted_perm e xs).cons x).trans (List.Perm.swap e x xs)

theorem sortMM_perm : ∀ m : MultiMap, (sortMM m).Perm m
  | [] => List.Perm.refl _
  | e :: m => by
    simp only [sortMM, List.foldr_cons]
    exact (insertSorted_perm e _).trans ((sortMM_perm m).cons e)

theorem filter_key_le_one (k : Bytes) : ∀ m : MultiMap, KD m → (m.filter (fun e => e.1 == k)).length ≤ 1
  | [], _ => by simp
  | e :: m, h => by
    have hm : KD m := by unfold KD at *; exact (List.nodup_cons.1 h).2
    have habs : e.1 ∉ m.map (·.1) := by unfold KD at h; exact (List.nodup_cons.1 h).1
    simp only [List.filter_cons]
    split
    · next hk =>
      have : e.1 = k := by simpa using hk
      have hnil : m.filter (fun e => e.1 == k) = [] := by
        simp only [List.filter_eq_nil_iff]
        intro x hx hxk
        apply habs
        have : x.1 = k := by simpa using hxk
        exact List.mem_map.2 ⟨x, hx, by rw [this]; exact (by assumption : e.1 = k).symm⟩
      simp [hnil]
    · exact filter_key_le_one k m hm

theorem lookup_sortMM (k : Bytes) (m : MultiMap) (h : KD m) : lookupMM k (sortMM m) = lookupMM k m := by
  have hp := (sortMM_perm m).filter (fun e => e.1 == k)
  have hl := filter_key_le_one k m h
  simp only [lookupMM]
  generalize hb : m.filter (fun e => e.1 == k) = b at hp hl
  generalize ha : (sortMM m).filter (fun e => e.1 == k) = a at hp
  match b, hl with
  | [], _ => rw [List.Perm.eq_nil hp]
  | [x], _ => rw [List.perm_singleton.1 hp]

end Genq.Http

namespace Genq.Http

/-! ### everything stays a byte string -/

theorem allBytes_cons (b : Nat) (s : Bytes) : allBytes (b :: s) = true ↔ b < 256 ∧ allBytes s = true := by
  simp [allBytes, isByte]

theorem unhex_lt (c a : Nat) (h : unhex c = some a) : a < 16 := by
  unfold unhex at h
  split at h
  · next hc => simp only [Option.some.injEq] at h; simp only [Bool.and_eq_true, decide_eq_true_eq] at hc; omega
  · split at h
    · next hc => simp only [Option.some.injEq] at h; simp only [Bool.and_eq_true, decide_eq_true_eq] at hc; omega
    · split at h
      · next hc => simp only [Option.some.injEq] at h; simp only [Bool.and_eq_true, decide_eq_true_eq] at hc; omega
      · cases h

theorem unescape_bytes : ∀ (n : Nat) (s r : Bytes), s.length ≤ n → allBytes s = true →
    queryUnescape s = some r → allBytes r = true
  | _, [], r, _, _, h => by simp only [queryUnescape, Option.some.injEq] at h; subst h; rfl
  | 0, _ :: _, _, hl, _, _ => by simp at hl
  | n + 1, b :: rest, r, hl, hs, hq => by
    have h1 := (allBytes_cons _ _).1 hs
    have hlen : rest.length ≤ n := by simp at hl; omega
    by_cases h37 : b = 37
    · subst h37
      match rest, hq, h1, hlen with
      | [], hq, _, _ => simp [queryUnescape] at hq
      | [_], hq, _, _ => simp [queryUnescape] at hq
      | h :: l :: rest', hq, h1, hlen =>
        have h2 := (allBytes_cons _ _).1 h1.2
        have h3 := (allBytes_cons _ _).1 h2.2
        cases ha : unhex h with
        | none => simp [queryUnescape, ha] at hq
        | some a =>
          cases hb : unhex l with
          | none => simp [queryUnescape, ha, hb] at hq
          | some b' =>
            rw [unescape_pct h l rest' a b' ha hb] at hq
            simp only [Option.map_eq_some_iff] at hq
            obtain ⟨r', hr', rfl⟩ := hq
            have hl' : rest'.length ≤ n := by simp at hlen; omega
            refine (allBytes_cons _ _).2 ⟨?_, unescape_bytes n rest' r' hl' h3.2 hr'⟩
            have := unhex_lt _ _ ha; have := unhex_lt _ _ hb; omega
    · by_cases h43 : b = 43
      · subst h43
        rw [unescape_plus] at hq
        simp only [Option.map_eq_some_iff] at hq
        obtain ⟨r', hr', rfl⟩ := hq
        exact (allBytes_cons _ _).2 ⟨by omega, unescape_bytes n rest r' hlen h1.2 hr'⟩
      · rw [unescape_plain b rest h37 h43] at hq
        simp only [Option.map_eq_some_iff] at hq
        obtain ⟨r', hr', rfl⟩ := hq
        exact (allBytes_cons _ _).2 ⟨h1.1, unescape_bytes n rest r' hlen h1.2 hr'⟩

theorem splitOn_bytes (sep : Nat) : ∀ (s : Bytes), allBytes s = true → ∀ x ∈ splitOn sep s, allBytes x = true
  | [], _, x, hx => by simp only [splitOn, List.mem_singleton] at hx; subst hx; rfl
  | b :: bs, hs, x, hx => by
    have h1 := (allBytes_cons _ _).1 hs
    have ih := splitOn_bytes sep bs h1.2
    simp only [splitOn] at hx
    split at hx
    · simp only [List.mem_cons] at hx
      rcases hx with rfl | hx
      · rfl
      · exact ih x hx
    · split at hx
      · simp only [List.mem_singleton] at hx; subst hx
        exact (allBytes_cons _ _).2 ⟨h1.1, rfl⟩
      · next y ys heq =>
        simp only [List.mem_cons] at hx
        rcases hx with rfl | hx
        · exact (allBytes_cons _ _).2 ⟨h1.1, ih y (by rw [heq]; exact List.mem_cons_self ..)⟩
        · exact ih x (by rw [heq]; exact List.mem_cons_of_mem _ hx)

theorem cutEq_bytes : ∀ (p : Bytes), allBytes p = true → allBytes (cutEq p).1 = true ∧ allBytes (cutEq p).2 = true
  | [], _ => ⟨rfl, rfl⟩
  | b :: bs, hs => by
    have h1 := (allBytes_cons _ _).1 hs
    have ih := cutEq_bytes bs h1.2
    simp only [cutEq]
    split
    · exact ⟨rfl, h1.2⟩
    · exact ⟨(allBytes_cons _ _).2 ⟨h1.1, ih.1⟩, ih.2⟩

theorem parsePair_bytes (p : Bytes) (kv : Bytes × Bytes) (hp : allBytes p = true)
    (h : parsePair p = some kv) : pairBytes kv = true := by
  unfold parsePair at h
  split at h
  · cases h
  · split at h
    · cases h
    · have hc := cutEq_bytes p hp
      generalize cutEq p = c at h hc
      obtain ⟨k, v⟩ := c
      simp only [] at h
      split at h
      · next k' v' hk hv =>
        simp only [Option.some.injEq] at h
        subst h
        simp only [pairBytes, Bool.and_eq_true]
        exact ⟨unescape_bytes _ _ _ (Nat.le_refl _) hc.1 hk, unescape_bytes _ _ _ (Nat.le_refl _) hc.2 hv⟩
      · cases h

theorem parseQuery_bytes (q : Bytes) (hq : allBytes q = true) : ∀ kv ∈ parseQuery q, pairBytes kv = true := by
  intro kv hkv
  simp only [parseQuery, List.mem_filterMap] at hkv
  obtain ⟨p, hp, hpk⟩ := hkv
  exact parsePair_bytes p kv (splitOn_bytes 38 q hq p hp) hpk

/-- every key and value of the multimap is a byte string -/
def MB (m : MultiMap) : Prop := ∀ e ∈ m, allBytes e.1 = true ∧ ∀ v ∈ e.2, allBytes v = true

theorem MB_mmAdd (m : MultiMap) (k v : Bytes) (h : MB m) (hk : allBytes k = true) (hv : allBytes v = true) :
    MB (mmAdd m k v) := by
  induction m with
  | nil =>
    intro e he
    simp only [mmAdd, List.mem_singleton] at he
    subst he
    exact ⟨hk, fun x hx => by simp only [List.mem_singleton] at hx; subst hx; exact hv⟩
  | cons e0 m ih =>
    obtain ⟨k', vs⟩ := e0
    have h0 := h (k', vs) (List.mem_cons_self ..)
    have hm : MB m := fun e he => h e (List.mem_cons_of_mem _ he)
    simp only [mmAdd]
    split
    · intro e he
      simp only [List.mem_cons] at he
      rcases he with rfl | he
      · refine ⟨h0.1, fun x hx => ?_⟩
        simp only [List.mem_append, List.mem_singleton] at hx
        rcases hx with hx | rfl
        · exact h0.2 x hx
        · exact hv
      · exact hm e he
    · intro e he
      simp only [List.mem_cons] at he
      rcases he with rfl | he
      · exact h0
      · exact ih hm e he

theorem MB_mmSet (m : MultiMap) (k v : Bytes) (h : MB m) (hk : allBytes k = true) (hv : allBytes v = true) :
    MB (mmSet m k v) := by
  induction m with
  | nil =>
    intro e he
    simp only [mmSet, List.mem_singleton] at he
    subst he
    exact ⟨hk, fun x hx => by simp only [List.mem_singleton] at hx; subst hx; exact hv⟩
  | cons e0 m ih =>
    obtain ⟨k', vs⟩ := e0
    have h0 := h (k', vs) (List.mem_cons_self ..)
    have hm : MB m := fun e he => h e (List.mem_cons_of_mem _ he)
    simp only [mmSet]
    split
    · intro e he
      simp only [List.mem_cons] at he
      rcases he with rfl | he
      · exact ⟨h0.1, fun x hx => by simp only [List.mem_singleton] at hx; subst hx; exact hv⟩
      · exact hm e he
    · intro e he
      simp only [List.mem_cons] at he
      rcases he with rfl | he
      · exact h0
      · exact ih hm e he

theorem MB_foldl : ∀ (l : List (Bytes × Bytes)) (m0 : MultiMap), MB m0 → (∀ kv ∈ l, pairBytes kv = true) →
    MB (l.foldl (fun m kv => mmAdd m kv.1 kv.2) m0)
  | [], _, h, _ => h
  | kv :: l, m0, h, hl => by
    have hkv := hl kv (List.mem_cons_self ..)
    simp only [pairBytes, Bool.and_eq_true] at hkv
    exact MB_foldl l _ (MB_mmAdd m0 _ _ h hkv.1 hkv.2) (fun x hx => hl x (List.mem_cons_of_mem _ hx))

theorem flatten_bytes (m : MultiMap) (h : MB m) : ∀ kv ∈ flattenMM (sortMM m), pairBytes kv = true := by
  intro kv hkv
  simp only [flattenMM, List.mem_flatMap, List.mem_map] at hkv
  obtain ⟨e, he, v, hv, rfl⟩ := hkv
  have hem : e ∈ m := (sortMM_perm m).mem_iff.1 he
  have := h e hem
  simp only [pairBytes, Bool.and_eq_true]
  exact ⟨this.1, this.2 v hv⟩

theorem KD_sortMM (m : MultiMap) (h : KD m) : KD (sortMM m) := by
  unfold KD at *
  exact ((sortMM_perm m).map _).nodup_iff.2 h

end Genq.Http
