/-
The two models of goStructType.FlattenedFields agree.

Model/Types.lean `flattenLoop` transcribes the queue loop of generate/types.go literally (pop the front; an embedded
struct's fields go to the BACK of the queue; the first field seen for a JSON name wins).  Model/Codec.lean `winners`
describes the same choice declaratively: order all fields of the struct and of its embedded structs by embedding
depth, keeping declaration (pre-)order within a depth, and let the first JSON name win.  This file proves, for every
forest of fields (any nesting, any repetition of names), that both select the same JSON names in the same order —
breadth-first queue order IS "by depth, then declaration order".
-/
import Genq.Model.Types
import Genq.Model.Codec
import Genq.Proofs.CodecRT
namespace Genq.FlattenAgree

open Genq.Types (SField Name J flattenLoop flattenedFields sizeList size)
open Genq.Codec (insDepth sortDepth dedup winners)

/-! ### vocabulary -/

/-- JSON names of the ordinary fields of a queue, in order -/
def plains : List SField → List Name
  | [] => []
  | .plain _ j :: q => j :: plains q
  | .embed _ _ :: q => plains q

/-- the fields of the embedded structs of a queue, in order: the next level -/
def kids : List SField → List SField
  | [] => []
  | .plain _ _ :: q => kids q
  | .embed _ sub :: q => sub ++ kids q

/-- level order, `n` levels deep -/
def levels : Nat → List SField → List Name
  | 0, _ => []
  | n + 1, q => plains q ++ levels n (kids q)

/-- "first name wins", on names -/
def dedupN : List Name → List Name → List Name
  | _, [] => []
  | seen, j :: rest => if seen.contains j then dedupN seen rest else j :: dedupN (j :: seen) rest

def seenAdd : List Name → List Name → List Name
  | seen, [] => seen
  | seen, j :: rest => if seen.contains j then seenAdd seen rest else seenAdd (j :: seen) rest

/-- the queue loop on JSON names only -/
def loopN : Nat → List SField → List Name → List Name → List Name
  | 0, _, _, acc => acc
  | _ + 1, [], _, acc => acc
  | fuel + 1, .embed _ sub :: q, seen, acc => loopN fuel (q ++ sub) seen acc
  | fuel + 1, .plain _ j :: q, seen, acc =>
    if seen.contains j then loopN fuel q seen acc else loopN fuel q (j :: seen) (acc ++ [j])

mutual
/-- all fields of a struct with their embedding depth, in declaration (pre-)order — what Codec.encAll lists -/
def entries : Nat → SField → List (Nat × String × J)
  | d, .plain _ j => [(d, j, .null)]
  | d, .embed _ sub => entriesL (d + 1) sub
def entriesL : Nat → List SField → List (Nat × String × J)
  | _, [] => []
  | d, f :: fs => entries d f ++ entriesL d fs
end

def tag (d : Nat) (ns : List Name) : List (Nat × String × J) := ns.map (fun j => (d, j, J.null))

/-! ### the queue loop is level order -/

theorem loopN_proj : ∀ (fuel : Nat) (q : List SField) (seen : List Name) (acc : List (Name × Name)),
    (flattenLoop fuel q seen acc).map (·.2) = loopN fuel q seen (acc.map (·.2))
  | 0, _, _, _ => rfl
  | _ + 1, [], _, _ => rfl
  | fuel + 1, .embed _ sub :: q, seen, acc => by
    simp only [flattenLoop, loopN]; exact loopN_proj fuel _ seen acc
  | fuel + 1, .plain g j :: q, seen, acc => by
    simp only [flattenLoop, loopN]
    split
    · exact loopN_proj fuel q seen acc
    · rw [loopN_proj fuel q (j :: seen) (acc ++ [(g, j)])]; simp

theorem loopN_nil (fuel : Nat) (seen acc : List Name) : loopN fuel [] seen acc = acc := by
  cases fuel <;> rfl

/-- processing the front part `A` of the queue: its ordinary fields are emitted (first name wins), the fields of its
    embedded structs end up behind everything that was already waiting -/
theorem loopN_front : ∀ (A B : List SField) (k : Nat) (seen acc : List Name),
    loopN (A.length + k) (A ++ B) seen acc =
      loopN k (B ++ kids A) (seenAdd seen (plains A)) (acc ++ dedupN seen (plains A))
  | [], B, k, seen, acc => by simp [kids, plains, seenAdd, dedupN]
  | .embed _ sub :: A, B, k, seen, acc => by
    have h := loopN_front A (B ++ sub) k seen acc
    simp only [List.length_cons, List.cons_append, kids, plains]
    rw [show A.length + 1 + k = (A.length + k) + 1 by omega]
    simp only [loopN]
    rw [List.append_assoc] at *
    exact h
  | .plain _ j :: A, B, k, seen, acc => by
    simp only [List.length_cons, List.cons_append, kids, plains, seenAdd, dedupN]
    rw [show A.length + 1 + k = (A.length + k) + 1 by omega]
    simp only [loopN]
    by_cases hc : seen.contains j = true
    · simp only [hc, if_true]; exact loopN_front A B k seen acc
    · simp only [hc, Bool.false_eq_true, if_false]
      rw [loopN_front A B k (j :: seen) (acc ++ [j])]
      simp

theorem sizeList_append : ∀ (a b : List SField), sizeList (a ++ b) = sizeList a + sizeList b
  | [], b => by simp [sizeList]
  | f :: a, b => by simp only [List.cons_append, sizeList, sizeList_append a b]; omega

theorem sizeList_kids : ∀ (q : List SField), sizeList q = q.length + sizeList (kids q)
  | [] => rfl
  | .plain _ _ :: q => by simp only [sizeList, size, kids, List.length_cons, sizeList_kids q]; omega
  | .embed _ sub :: q => by
    simp only [sizeList, size, kids, List.length_cons, sizeList_append, sizeList_kids q]; omega

theorem size_pos : ∀ f : SField, 0 < size f
  | .plain _ _ => by simp [size]
  | .embed _ _ => by simp [size]; omega

theorem sizeList_zero (q : List SField) (h : sizeList q = 0) : q = [] := by
  cases q with
  | nil => rfl
  | cons f fs => have := size_pos f; simp [sizeList] at h; omega

theorem dedupN_append : ∀ (xs ys seen : List Name),
    dedupN seen (xs ++ ys) = dedupN seen xs ++ dedupN (seenAdd seen xs) ys
  | [], ys, seen => by simp [dedupN, seenAdd]
  | j :: xs, ys, seen => by
    simp only [List.cons_append, dedupN, seenAdd]
    by_cases hc : seen.contains j = true
    · simp only [hc, if_true]; exact dedupN_append xs ys seen
    · simp only [hc, Bool.false_eq_true, if_false, List.cons_append]; rw [dedupN_append xs ys (j :: seen)]

/-- with fuel for every node, the queue loop emits the level order, first name winning -/
theorem loopN_levels : ∀ (n : Nat) (q : List SField) (k : Nat) (seen acc : List Name), sizeList q ≤ n →
    loopN (sizeList q + k) q seen acc = acc ++ dedupN seen (levels n q)
  | 0, q, k, seen, acc, h => by
    have : q = [] := sizeList_zero q (by omega)
    subst this
    simp [loopN_nil, levels, dedupN]
  | n + 1, q, k, seen, acc, h => by
    by_cases hq : q = []
    · subst hq; simp [loopN_nil, levels, plains, kids, dedupN]
      have := loopN_levels n [] 0 seen [] (by simp [sizeList])
      simp [loopN_nil, sizeList] at this
      exact this.symm ▸ rfl
    · have hs := sizeList_kids q
      have hlen : 0 < q.length := by cases q with | nil => exact absurd rfl hq | cons _ _ => simp
      have h1 := loopN_front q [] (sizeList (kids q) + k) seen acc
      simp only [List.append_nil, List.nil_append] at h1
      rw [show sizeList q + k = q.length + (sizeList (kids q) + k) by omega, h1]
      rw [loopN_levels n (kids q) k _ _ (by omega)]
      simp only [levels, dedupN_append, List.append_assoc]

/-! ### the depth sort is level order -/

mutual
theorem depth_ge : ∀ (f : SField) (d : Nat) (e : Nat × String × J), e ∈ entries d f → d ≤ e.1
  | .plain _ j, d, e, h => by
    simp only [entries, List.mem_singleton] at h; subst h; exact Nat.le_refl _
  | .embed _ sub, d, e, h => by
    simp only [entries] at h
    have := depth_geL sub (d + 1) e h
    omega
theorem depth_geL : ∀ (q : List SField) (d : Nat) (e : Nat × String × J), e ∈ entriesL d q → d ≤ e.1
  | [], _, e, h => by simp [entriesL] at h
  | f :: fs, d, e, h => by
    simp only [entriesL, List.mem_append] at h
    rcases h with h | h
    · exact depth_ge f d e h
    · exact depth_geL fs d e h
end

theorem entriesL_append : ∀ (a b : List SField) (d : Nat), entriesL d (a ++ b) = entriesL d a ++ entriesL d b
  | [], b, d => by simp [entriesL]
  | f :: a, b, d => by simp only [List.cons_append, entriesL, entriesL_append a b d, List.append_assoc]

theorem filter_eq_level : ∀ (q : List SField) (d : Nat),
    (entriesL d q).filter (fun e => e.1 == d) = tag d (plains q)
  | [], d => by simp [entriesL, plains, tag]
  | .plain _ j :: q, d => by
    simp only [entriesL, entries, List.singleton_append, plains, tag, List.map_cons]
    rw [List.filter_cons_of_pos (by simp)]
    have := filter_eq_level q d
    simp only [tag] at this
    rw [this]
  | .embed _ sub :: q, d => by
    simp only [entriesL, entries, plains, List.filter_append]
    have h0 : (entriesL (d + 1) sub).filter (fun e => e.1 == d) = [] := by
      apply List.filter_eq_nil_iff.2
      intro e he
      have := depth_geL sub (d + 1) e he
      simp; omega
    rw [h0, List.nil_append, filter_eq_level q d]

theorem filter_ne_level : ∀ (q : List SField) (d : Nat),
    (entriesL d q).filter (fun e => !(e.1 == d)) = entriesL (d + 1) (kids q)
  | [], d => by simp [entriesL, kids]
  | .plain _ j :: q, d => by
    simp only [entriesL, entries, List.singleton_append, kids]
    rw [List.filter_cons_of_neg (by simp)]
    exact filter_ne_level q d
  | .embed _ sub :: q, d => by
    simp only [entriesL, entries, kids, List.filter_append, entriesL_append]
    have h0 : (entriesL (d + 1) sub).filter (fun e => !(e.1 == d)) = entriesL (d + 1) sub := by
      apply List.filter_eq_self.2
      intro e he
      have := depth_geL sub (d + 1) e he
      simp; omega
    rw [h0, filter_ne_level q d]

theorem mem_insDepth (e x : Nat × String × J) : ∀ (l : List (Nat × String × J)), x ∈ insDepth e l ↔ x = e ∨ x ∈ l
  | [] => by simp [insDepth]
  | y :: ys => by
    simp only [insDepth]
    split
    · simp
    · simp only [List.mem_cons, mem_insDepth e x ys]
      constructor
      · rintro (h | h | h)
        · exact Or.inr (Or.inl h)
        · exact Or.inl h
        · exact Or.inr (Or.inr h)
      · rintro (h | h | h)
        · exact Or.inr (Or.inl h)
        · exact Or.inl h
        · exact Or.inr (Or.inr h)

theorem mem_sortDepth (x : Nat × String × J) : ∀ (l : List (Nat × String × J)), x ∈ sortDepth l ↔ x ∈ l
  | [] => by simp [sortDepth]
  | e :: es => by simp only [sortDepth, mem_insDepth, mem_sortDepth x es, List.mem_cons]

/-- inserting behind a block of strictly smaller keys -/
theorem insDepth_after (e : Nat × String × J) : ∀ (small rest : List (Nat × String × J)),
    (∀ x ∈ small, x.1 < e.1) → insDepth e (small ++ rest) = small ++ insDepth e rest
  | [], rest, _ => rfl
  | x :: small, rest, h => by
    have hx := h x List.mem_cons_self
    simp only [List.cons_append, insDepth]
    rw [if_neg (by omega)]
    rw [insDepth_after e small rest (fun y hy => h y (List.mem_cons_of_mem _ hy))]

/-- inserting a minimal key in front -/
theorem insDepth_front (e : Nat × String × J) (l : List (Nat × String × J)) (h : ∀ x ∈ l, e.1 ≤ x.1) :
    insDepth e l = e :: l := by
  cases l with
  | nil => rfl
  | cons x xs => simp only [insDepth]; rw [if_pos (h x List.mem_cons_self)]

/-- a stable sort puts the elements of minimal key first, in their original order -/
theorem sortDepth_split (d : Nat) : ∀ (l : List (Nat × String × J)), (∀ x ∈ l, d ≤ x.1) →
    sortDepth l = l.filter (fun e => e.1 == d) ++ sortDepth (l.filter (fun e => !(e.1 == d)))
  | [], _ => by simp [sortDepth]
  | e :: es, h => by
    have ih := sortDepth_split d es (fun x hx => h x (List.mem_cons_of_mem _ hx))
    have he := h e List.mem_cons_self
    simp only [sortDepth]
    rw [ih]
    by_cases hd : e.1 = d
    · have hb : (e.1 == d) = true := by simpa using hd
      rw [List.filter_cons_of_pos (by simpa using hd), List.filter_cons_of_neg (by simp [hb])]
      rw [List.cons_append]
      apply insDepth_front
      intro x hx
      rcases List.mem_append.1 hx with hx | hx
      · have := (List.mem_filter.1 hx).1
        exact Nat.le_trans (by omega) (h x (List.mem_cons_of_mem _ this))
      · have := (mem_sortDepth x _).1 hx
        have := (List.mem_filter.1 this).1
        exact Nat.le_trans (by omega) (h x (List.mem_cons_of_mem _ this))
    · have hb : (e.1 == d) = false := by simpa using hd
      rw [List.filter_cons_of_neg (by simp [hb]), List.filter_cons_of_pos (by simp [hb])]
      simp only [sortDepth]
      apply insDepth_after
      intro x hx
      have := (List.mem_filter.1 hx).2
      have hx1 : x.1 = d := by simpa using this
      omega

def taggedLevels : Nat → Nat → List SField → List (Nat × String × J)
  | 0, _, _ => []
  | n + 1, d, q => tag d (plains q) ++ taggedLevels n (d + 1) (kids q)

theorem sortDepth_levels : ∀ (n : Nat) (d : Nat) (q : List SField), sizeList q ≤ n →
    sortDepth (entriesL d q) = taggedLevels n d q
  | 0, d, q, h => by
    have : q = [] := sizeList_zero q (by omega)
    subst this; simp [entriesL, sortDepth, taggedLevels]
  | n + 1, d, q, h => by
    rw [sortDepth_split d _ (depth_geL q d), filter_eq_level, filter_ne_level]
    simp only [taggedLevels]
    by_cases hq : q = []
    · subst hq
      simp only [kids, entriesL, sortDepth]
      have := sortDepth_levels n (d + 1) [] (by simp [sizeList])
      simp only [entriesL, sortDepth] at this
      rw [← this]
    · have hs := sizeList_kids q
      have hlen : 0 < q.length := by cases q with | nil => exact absurd rfl hq | cons _ _ => simp
      rw [sortDepth_levels n (d + 1) (kids q) (by omega)]

theorem taggedLevels_names : ∀ (n d : Nat) (q : List SField), (taggedLevels n d q).map (·.2.1) = levels n q
  | 0, _, _ => rfl
  | n + 1, d, q => by
    simp only [taggedLevels, levels, List.map_append, taggedLevels_names n (d + 1) (kids q), tag, List.map_map]
    congr 1
    induction plains q with
    | nil => rfl
    | cons j js ih => simp [ih]

theorem dedup_names : ∀ (l : List (Nat × String × J)) (seen : List String),
    (dedup l seen).map (·.1) = dedupN seen (l.map (·.2.1))
  | [], _ => rfl
  | (_, n, _) :: rest, seen => by
    simp only [dedup, List.map_cons, dedupN]
    split
    · exact dedup_names rest seen
    · simp only [List.map_cons]; rw [dedup_names rest (n :: seen)]

/-- **the two models of FlattenedFields select the same JSON names in the same order** -/
theorem flattenedFields_eq_winners (fields : List SField) :
    (flattenedFields fields).map (·.2) = (winners (entriesL 0 fields)).map (·.1) := by
  unfold flattenedFields winners
  rw [loopN_proj, dedup_names, sortDepth_levels (sizeList fields) 0 fields (Nat.le_refl _), taggedLevels_names]
  have := loopN_levels (sizeList fields) fields 1 [] [] (Nat.le_refl _)
  simpa using this


/-! ### … and the entries are what Codec.encAll lists for a struct type -/

open Genq.Codec (Ty Flds Val encAll encEmb WFFields WFEmb)

mutual
/-- a struct type of Model/Codec.lean as the forest FlattenedFields walks -/
def toS : Flds → List SField
  | .nil => []
  | .cons n emb t rest => (if emb then [SField.embed n (toSEmb t)] else [SField.plain n n]) ++ toS rest
def toSEmb : Ty → List SField
  | .struct fs => toS fs
  | _ => []
end

def key (e : Nat × String × J) : Nat × String := (e.1, e.2.1)

def insK (e : Nat × String) : List (Nat × String) → List (Nat × String)
  | [] => [e]
  | x :: xs => if e.1 ≤ x.1 then e :: x :: xs else x :: insK e xs

def sortK : List (Nat × String) → List (Nat × String)
  | [] => []
  | e :: es => insK e (sortK es)

theorem insDepth_key (e : Nat × String × J) : ∀ l, (insDepth e l).map key = insK (key e) (l.map key)
  | [] => rfl
  | x :: xs => by
    simp only [insDepth, List.map_cons, insK, key]
    split
    · rfl
    · have ih := insDepth_key e xs
      simp only [key] at ih
      simp only [List.map_cons, key, ih]

theorem sortDepth_key : ∀ l, (sortDepth l).map key = sortK (l.map key)
  | [] => rfl
  | e :: es => by simp only [sortDepth, List.map_cons, sortK, insDepth_key, sortDepth_key es]

/-- which names win depends on the (depth, name) pairs only -/
theorem winners_names_of_keys (l1 l2 : List (Nat × String × J)) (h : l1.map key = l2.map key) :
    (winners l1).map (·.1) = (winners l2).map (·.1) := by
  unfold winners
  rw [dedup_names, dedup_names]
  have e1 : (sortDepth l1).map (·.2.1) = ((sortDepth l1).map key).map (·.2) := by simp [key]
  have e2 : (sortDepth l2).map (·.2.1) = ((sortDepth l2).map key).map (·.2) := by simp [key]
  rw [e1, e2, sortDepth_key, sortDepth_key, h]

mutual
theorem encAll_keys : ∀ (fs : Flds) (vs : List Val) (d : Nat), WFFields fs vs →
    (encAll fs vs d).map key = (entriesL d (toS fs)).map key
  | .nil, [], _, _ => by simp [encAll, toS, entriesL]
  | .cons n emb t rest, v :: vs, d, h => by
    simp only [WFFields] at h
    have ih := encAll_keys rest vs d h.2
    cases emb with
    | true =>
      have he := encEmb_keys t v (d + 1) (by simpa using h.1)
      simp only [encAll, if_true, toS, List.singleton_append, entriesL, entries, List.map_append, he, ih]
    | false =>
      simp only [encAll, Bool.false_eq_true, if_false, toS, List.singleton_append, entriesL, entries, List.map_append, ih]
      split <;> simp [key]
  | .nil, _ :: _, _, h => by simp [WFFields] at h
  | .cons _ _ _ _, [], _, h => by simp [WFFields] at h
theorem encEmb_keys : ∀ (t : Ty) (v : Val) (d : Nat), WFEmb t v →
    (encEmb t v d).map key = (entriesL d (toSEmb t)).map key
  | .struct fs, .struct ws, d, h => by
    simp only [WFEmb] at h
    simp only [encEmb, toSEmb]
    exact encAll_keys fs ws d h
  | .struct _, .leaf _, _, h => by simp [WFEmb] at h
  | .struct _, .nilPtr, _, h => by simp [WFEmb] at h
  | .struct _, .ptr _, _, h => by simp [WFEmb] at h
  | .struct _, .nilSlice, _, h => by simp [WFEmb] at h
  | .struct _, .slice _, _, h => by simp [WFEmb] at h
  | .struct _, .nilIface, _, h => by simp [WFEmb] at h
  | .struct _, .iface _ _, _, h => by simp [WFEmb] at h
  | .leaf _, _, _, h => by simp [WFEmb] at h
  | .ptr _, _, _, h => by simp [WFEmb] at h
  | .slice _, _, _, h => by simp [WFEmb] at h
  | .iface _, _, _, h => by simp [WFEmb] at h
end

/-- **for every struct type and every well-formed value of it: the keys MarshalJSON writes (Codec.enc: `winners`
    of all fields by depth) are exactly, and in the order of, what the literal queue loop of FlattenedFields selects** -/
theorem enc_keys_eq_flattenedFields (fs : Flds) (vs : List Val) (h : WFFields fs vs) :
    (winners (encAll fs vs 0)).map (·.1) = (flattenedFields (toS fs)).map (·.2) := by
  rw [flattenedFields_eq_winners]
  exact winners_names_of_keys _ _ (encAll_keys fs vs 0 h)

end Genq.FlattenAgree
