/-
C15: monotonicity of the frame logs and freshness of subscription ids, for every event list.
-/
import Genq.Model.Ws
import Genq.Proofs.WsInv
import Genq.Proofs.WsData
namespace Genq.Ws

/-- what one step may do to the logs: append, never rewrite; subscription ids handed out are the
    entry indices -/
structure LogStep (w w' : World) : Prop where
  written : ∃ l, w'.written = w.written ++ l
  frames : ∃ l, w'.frames = w.frames ++ l ∧
    ((l = [] ∧ w'.subs.length = w.subs.length) ∨
     (∃ i, l = [.complete i] ∧ w'.subs.length = w.subs.length) ∨
     (l = [.close] ∧ w'.subs.length = w.subs.length) ∨
     (l = [.subscribe w.subs.length] ∧ w'.subs.length = w.subs.length + 1))

theorem endSub_logs (w : World) (k : SubId) (v : Bool) :
    (endSub Flags.fixed w k v).written = w.written ∧ (endSub Flags.fixed w k v).frames = w.frames ∧
    (endSub Flags.fixed w k v).subs.length = w.subs.length := by
  unfold endSub
  cases getSub w k with
  | none => exact ⟨rfl, rfl, rfl⟩
  | some s => simp only [Flags.fixed, if_true]; by_cases he : s.ended = true <;> simp [he, setSub]

theorem closeFinal_logs (w : World) :
    (closeFinal w).written = w.written ∧ (closeFinal w).frames = w.frames ∧ (closeFinal w).subs = w.subs := by
  unfold closeFinal; split <;> simp

@[simp] theorem endSub_written (w : World) (k : SubId) (v : Bool) : (endSub Flags.fixed w k v).written = w.written := (endSub_logs w k v).1
@[simp] theorem endSub_frames (w : World) (k : SubId) (v : Bool) : (endSub Flags.fixed w k v).frames = w.frames := (endSub_logs w k v).2.1
@[simp] theorem endSub_subs_length (w : World) (k : SubId) (v : Bool) : (endSub Flags.fixed w k v).subs.length = w.subs.length := (endSub_logs w k v).2.2
@[simp] theorem closeFinal_written (w : World) : (closeFinal w).written = w.written := (closeFinal_logs w).1
@[simp] theorem closeFinal_frames (w : World) : (closeFinal w).frames = w.frames := (closeFinal_logs w).2.1
@[simp] theorem setCall_written (w : World) (c : Nat) (k : Call) : (setCall w c k).written = w.written := rfl
@[simp] theorem setCall_frames (w : World) (c : Nat) (k : Call) : (setCall w c k).frames = w.frames := rfl
@[simp] theorem setSub_written (w : World) (i : Nat) (s : Sub) : (setSub w i s).written = w.written := rfl
@[simp] theorem setSub_frames (w : World) (i : Nat) (s : Sub) : (setSub w i s).frames = w.frames := rfl
@[simp] theorem setSub_subs_length (w : World) (i : Nat) (s : Sub) : (setSub w i s).subs.length = w.subs.length := by
  simp [setSub]

theorem logStep_same (w w' : World) (h1 : w'.written = w.written) (h2 : w'.frames = w.frames)
    (h3 : w'.subs.length = w.subs.length) : LogStep w w' :=
  ⟨⟨[], by simp [h1]⟩, ⟨[], by simp [h2], Or.inl ⟨rfl, h3⟩⟩⟩

theorem logStep_written (w w' : World) (f : Frame) (h1 : w'.written = w.written ++ [f]) (h2 : w'.frames = w.frames)
    (h3 : w'.subs.length = w.subs.length) : LogStep w w' :=
  ⟨⟨[f], h1⟩, ⟨[], by simp [h2], Or.inl ⟨rfl, h3⟩⟩⟩

theorem logStep_complete (w w' : World) (i : SubId) (h1 : w'.written = w.written) (h2 : w'.frames = w.frames ++ [.complete i])
    (h3 : w'.subs.length = w.subs.length) : LogStep w w' :=
  ⟨⟨[], by simp [h1]⟩, ⟨[.complete i], h2, Or.inr (Or.inl ⟨i, rfl, h3⟩)⟩⟩

theorem logStep_close (w w' : World) (h1 : w'.written = w.written) (h2 : w'.frames = w.frames ++ [.close])
    (h3 : w'.subs.length = w.subs.length) : LogStep w w' :=
  ⟨⟨[], by simp [h1]⟩, ⟨[.close], h2, Or.inr (Or.inr (Or.inl ⟨rfl, h3⟩))⟩⟩

theorem closeFinal_subs_length (w : World) : (closeFinal w).subs.length = w.subs.length :=
  congrArg List.length (closeFinal_logs w).2.2

/-- closes a projection equation definitionally or by one of the frame lemmas (hard failure otherwise) -/
macro "closer" : tactic => `(tactic| first
  | rfl
  | exact endSub_written _ _ _ | exact endSub_frames _ _ _ | exact endSub_subs_length _ _ _
  | exact closeFinal_written _ | exact closeFinal_frames _ | exact closeFinal_subs_length _
  | exact setSub_subs_length _ _ _)

theorem stepCall_logStep (w w' : World) (c : Nat) (b : Bool) (hs : stepCall Flags.fixed w c b = some w') :
    LogStep w w' := by
  unfold stepCall at hs
  repeat' split at hs
  all_goals (try cases hs)
  all_goals first
    | (refine logStep_same _ _ ?_ ?_ ?_ <;> closer)
    | (apply logStep_written <;> closer)
    | (apply logStep_complete <;> closer)
    | (refine logStep_close _ _ ?_ ?_ ?_ <;> closer)

theorem dispatch_logs (w : World) (m : Msg) :
    (dispatch Flags.fixed w m).written = w.written ∧ (dispatch Flags.fixed w m).frames = w.frames ∧
    (dispatch Flags.fixed w m).subs.length = w.subs.length := by
  unfold dispatch
  repeat' split
  all_goals first
    | exact ⟨rfl, rfl, rfl⟩
    | exact ⟨(endSub_logs _ _ _).1, (endSub_logs _ _ _).2.1, (endSub_logs _ _ _).2.2⟩
    | exact ⟨rfl, rfl, setSub_subs_length _ _ _⟩

theorem step_logStep (w w' : World) (e : Ev) (hs : step Flags.fixed w e = some w') : LogStep w w' := by
  cases e with
  | subscribe =>
    simp only [step, Option.some.injEq] at hs; subst hs
    exact ⟨⟨[], by simp⟩, ⟨[.subscribe w.subs.length], rfl, Or.inr (Or.inr (Or.inr ⟨rfl, by simp⟩))⟩⟩
  | unsubscribe k =>
    simp only [step, Option.some.injEq] at hs; subst hs
    exact ⟨⟨[], by simp⟩, ⟨[.complete k], rfl, Or.inr (Or.inl ⟨k, rfl, rfl⟩)⟩⟩
  | close =>
    simp only [step, Flags.fixed, if_true, Option.some.injEq] at hs; subst hs
    exact logStep_same _ _ rfl rfl rfl
  | step c => exact stepCall_logStep w w' c true hs
  | stepFail c =>
    simp only [step] at hs
    split at hs
    all_goals first
      | cases hs
      | exact stepCall_logStep w w' c false hs
  | server m =>
    simp only [step] at hs
    split at hs
    · split at hs
      · cases hs
      · simp only [Option.some.injEq] at hs; subst hs
        have := dispatch_logs w m
        exact logStep_same _ _ this.1 this.2.1 this.2.2
    · cases hs
  | rstep =>
    simp only [step] at hs
    repeat' split at hs
    all_goals (try cases hs)
    all_goals exact logStep_same _ _ rfl rfl rfl
  | readErr =>
    simp only [step] at hs
    repeat' split at hs
    all_goals (try cases hs)
    all_goals exact logStep_same _ _ rfl rfl rfl
  | recvData k =>
    simp only [step] at hs
    repeat' split at hs
    all_goals (try cases hs)
    all_goals exact logStep_same _ _ rfl rfl (setSub_subs_length _ _ _)
  | recvErr =>
    simp only [step] at hs
    repeat' split at hs
    all_goals (try cases hs)
    all_goals exact logStep_same _ _ rfl rfl rfl

/-- subscription ids in the frame log -/
def subIds : List Frame → List SubId
  | [] => []
  | .subscribe i :: fs => i :: subIds fs
  | _ :: fs => subIds fs

theorem subIds_append (a b : List Frame) : subIds (a ++ b) = subIds a ++ subIds b := by
  induction a with
  | nil => rfl
  | cons f fs ih => cases f <;> simp [subIds, ih]

/-- the log invariant: the successful writes start with connection_init, and the subscribe frames
    carry the ids 0, 1, 2, … in order -/
def LogInv (w : World) : Prop :=
  (∃ l, w.written = .init :: l) ∧ subIds w.frames = List.range w.subs.length

theorem logInv_step (w w' : World) (h : LogInv w) (hl : LogStep w w') : LogInv w' := by
  obtain ⟨⟨l0, hw⟩, hf⟩ := h
  obtain ⟨⟨l1, h1⟩, ⟨l2, h2, hcase⟩⟩ := hl
  refine ⟨⟨l0 ++ l1, by rw [h1, hw]; rfl⟩, ?_⟩
  rw [h2, subIds_append, hf]
  rcases hcase with ⟨rfl, hlen⟩ | ⟨i, rfl, hlen⟩ | ⟨rfl, hlen⟩ | ⟨rfl, hlen⟩
  · simp [subIds, hlen]
  · simp [subIds, hlen]
  · simp [subIds, hlen]
  · simp [subIds, hlen, List.range_succ]

theorem run_logInv (w : World) (evs : List Ev) (h : LogInv w) : LogInv (run Flags.fixed w evs) := by
  induction evs generalizing w with
  | nil => exact h
  | cons e es ih =>
    simp only [run, List.foldl_cons]
    by_cases hp : w.panic.isSome = true
    · simp only [hp, if_true]; exact ih w h
    · simp only [hp, Bool.false_eq_true, if_false]
      cases hs : step Flags.fixed w e with
      | none => simp only [Option.getD_none]; exact ih w h
      | some w' => simp only [Option.getD_some]; exact ih w' (logInv_step w w' h (step_logStep w w' e hs))

/-- writes that returned stay: the log of successful writes only grows along a run -/
theorem run_written_prefix (w : World) (evs : List Ev) : w.written <+: (run Flags.fixed w evs).written := by
  induction evs generalizing w with
  | nil => exact List.prefix_refl _
  | cons e es ih =>
    simp only [run, List.foldl_cons]
    by_cases hp : w.panic.isSome = true
    · simp only [hp, if_true]; exact ih w
    · simp only [hp, Bool.false_eq_true, if_false]
      cases hs : step Flags.fixed w e with
      | none => simp only [Option.getD_none]; exact ih w
      | some w' =>
        simp only [Option.getD_some]
        obtain ⟨l, hl⟩ := (step_logStep w w' e hs).written
        exact List.IsPrefix.trans ⟨l, hl.symm⟩ (ih w')

end Genq.Ws
