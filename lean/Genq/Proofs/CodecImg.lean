/-
Every value the model's decoder produces survives the round trip up to the F-02 normalisation — C06.

`dec t j = ok v → dec t (enc t v) = ok (norm t v)` for EVERY JSON input `j`, for every response type tree that
  * has no fold twins                       (`noFoldTwins`, decidable — the excluded point is known finding F-02t),
  * gives one Go type to one response key   (`TyOK`: `SameKeyTy` of every struct closure — excluded point: F-06k),
  * types every implementation's `__typename` field as a string (`TyOK`; what genqlient always generates),
where `norm` replaces a nil list handled through json.RawMessage by an empty one (F-02: what the generated
MarshalJSON/UnmarshalJSON pair does to it) and changes nothing else.  So in the model the three known findings are
the ONLY ways a decoded value can fail to come back.
-/
import Genq.Proofs.CodecRT
import Genq.Proofs.CodecFaithful
namespace Genq.Codec

open Genq.Types (J)

mutual
/-- as `WF`, but a list handled through json.RawMessage may be nil (what `null` for the enclosing struct leaves behind: F-02) -/
def WFn : Ty → Val → Prop
  | .leaf k, .leaf j => CanonLeaf k j
  | .struct fs, .struct vs => WFnFields fs vs ∧ Coherent (encAll fs vs 0)
  | .ptr _, .nilPtr => True
  | .ptr t, .ptr v => WFn t v ∧ isNull (enc t v) = false
  | .slice _, .nilSlice => True
  | .slice t, .slice vs => ∀ v ∈ vs, WFn t v
  | .iface _, .nilIface => True
  | .iface impls, .iface tn v => tn ≠ "" ∧ WFnImpl impls tn v
  | _, _ => False
def WFnImpl : Impls → String → Val → Prop
  | .nil, _, _ => False
  | .cons n t rest, tn, v => (n = tn ∧ WFnImplHead t tn v) ∨ (n ≠ tn ∧ WFnImpl rest tn v)
/-- the implementation struct chosen by the switch: well-formed fields, one JSON per key, and its own
    `__typename` field (if it has one) holds the name it was dispatched on -/
def WFnImplHead : Ty → String → Val → Prop
  | .struct fs, tn, .struct vs =>
    WFnFields fs vs ∧ Coherent (encAll fs vs 0) ∧ (∀ e ∈ encAll fs vs 0, e.2.1 = "__typename" → e.2.2 = .str tn)
  | _, _, _ => False
def WFnFields : Flds → List Val → Prop
  | .nil, [] => True
  | .cons _ emb t rest, v :: vs =>
    (if emb then WFnEmb t v
     else if special t then WFnSpecial t v
     else WFn t v) ∧ WFnFields rest vs
  | _, _ => False
def WFnEmb : Ty → Val → Prop
  | .struct fs, .struct ws => WFnFields fs ws
  | _, _ => False
def WFnSpecial : Ty → Val → Prop
  | .slice _, .nilSlice => True
  | .slice t, .slice vs => ∀ v ∈ vs, WFnSpecial t v
  | .ptr _, .nilPtr => True
  | .ptr t, .ptr v => WFn t v ∧ isNull (enc t v) = false
  | .iface _, .nilIface => True
  | .iface impls, .iface tn v => tn ≠ "" ∧ WFnImpl impls tn v
  | .leaf k, .leaf j => CanonLeaf k j
  | .struct fs, .struct vs => WFnFields fs vs ∧ Coherent (encAll fs vs 0)
  | _, _ => False
end

mutual
/-- nil lists handled through json.RawMessage become empty; nothing else changes -/
def norm : Ty → Val → Val
  | .struct fs, .struct vs => .struct (normFields fs vs)
  | .ptr t, .ptr v => .ptr (norm t v)
  | .slice t, .slice vs => .slice (vs.map (fun v => norm t v))
  | .iface impls, .iface tn v => .iface tn (normImpl impls tn v)
  | _, v => v
def normImpl : Impls → String → Val → Val
  | .nil, _, v => v
  | .cons n t rest, tn, v => if n == tn then norm t v else normImpl rest tn v
def normFields : Flds → List Val → List Val
  | .cons _ emb t rest, v :: vs =>
    (if emb then norm t v else if special t then normSpecial t v else norm t v) :: normFields rest vs
  | _, vs => vs
def normSpecial : Ty → Val → Val
  | .slice _, .nilSlice => .slice []
  | .slice t, .slice vs => .slice (vs.map (fun v => normSpecial t v))
  | .ptr t, .ptr v => .ptr (norm t v)
  | .iface impls, .iface tn v => .iface tn (normImpl impls tn v)
  | .struct fs, .struct vs => .struct (normFields fs vs)
  | _, v => v
end

/-! ### marshaling does not see the normalisation -/

abbrev ENt (t : Ty) : Prop := ∀ v, enc t (norm t v) = enc t v
abbrev ENs (t : Ty) : Prop := ∀ v, encSpecial t (normSpecial t v) = encSpecial t v
abbrev ENf (fs : Flds) : Prop := ∀ vs d, encAll fs (normFields fs vs) d = encAll fs vs d
abbrev ENe (t : Ty) : Prop := ∀ v d, encEmb t (norm t v) d = encEmb t v d
abbrev ENi (impls : Impls) : Prop := ∀ tn v, encImpl impls tn (normImpl impls tn v) = encImpl impls tn v
abbrev ENh (t : Ty) : Prop := ∀ tn v, encHead t tn (norm t v) = encHead t tn v

theorem map_congr_mem {α β : Type} (f g : α → β) (l : List α) (h : ∀ x ∈ l, f x = g x) : l.map f = l.map g := by
  induction l with
  | nil => rfl
  | cons x xs ih =>
    simp only [List.map_cons]
    rw [h x List.mem_cons_self, ih (fun y hy => h y (List.mem_cons_of_mem _ hy))]

theorem en_leaf (k : Leaf) : ENt (.leaf k) := by intro v; cases v <;> simp [norm]
theorem en_struct (fs : Flds) (ihF : ENf fs) : ENt (.struct fs) := by
  intro v; cases v <;> simp [norm, enc, ihF]
theorem en_ptr (t : Ty) (ih : ENt t) : ENt (.ptr t) := by
  intro v; cases v <;> simp [norm, enc, ih]
theorem en_slice (t : Ty) (ih : ENt t) : ENt (.slice t) := by
  intro v
  cases v with
  | slice vs =>
    simp only [norm, enc, List.map_map]
    congr 1
    exact map_congr_mem _ _ _ (fun x _ => ih x)
  | _ => simp [norm]
theorem en_iface (impls : Impls) (ihI : ENi impls) : ENt (.iface impls) := by
  intro v; cases v <;> simp [norm, enc, ihI]

theorem ens_leaf (k : Leaf) : ENs (.leaf k) := by intro v; cases v <;> simp [normSpecial]
theorem ens_struct (fs : Flds) (ihF : ENf fs) : ENs (.struct fs) := by
  intro v; cases v <;> simp [normSpecial, encSpecial, ihF]
theorem ens_ptr (t : Ty) (ih : ENt t) : ENs (.ptr t) := by
  intro v; cases v <;> simp [normSpecial, encSpecial, ih]
theorem ens_slice (t : Ty) (ih : ENs t) : ENs (.slice t) := by
  intro v
  cases v with
  | slice vs =>
    simp only [normSpecial, encSpecial, List.map_map]
    congr 1
    exact map_congr_mem _ _ _ (fun x _ => ih x)
  | nilSlice => simp [normSpecial, encSpecial]
  | _ => simp [normSpecial]
theorem ens_iface (impls : Impls) (ihI : ENi impls) : ENs (.iface impls) := by
  intro v; cases v <;> simp [normSpecial, encSpecial, ihI]

theorem ene_struct (fs : Flds) (ihF : ENf fs) : ENe (.struct fs) := by
  intro v d; cases v <;> simp [norm, encEmb, ihF]
theorem ene_other (t : Ty) (ht : ∀ fs, t ≠ .struct fs) : ENe t := by
  intro v d
  cases t with
  | struct fs => exact absurd rfl (ht fs)
  | _ => simp [encEmb]

theorem enh_struct (fs : Flds) (ihF : ENf fs) : ENh (.struct fs) := by
  intro tn v; cases v <;> simp [norm, encHead, ihF]
theorem enh_other (t : Ty) (ht : ∀ fs, t ≠ .struct fs) : ENh t := by
  intro tn v
  cases t with
  | struct fs => exact absurd rfl (ht fs)
  | _ => simp [encHead]

theorem enf_nil : ENf .nil := by intro vs d; simp [normFields]
theorem enf_cons (n : String) (emb : Bool) (t : Ty) (rest : Flds) (ihE : ENe t) (ihS : ENs t) (ihT : ENt t) (ihR : ENf rest) :
    ENf (.cons n emb t rest) := by
  intro vs d
  cases vs with
  | nil => simp [normFields]
  | cons v vs =>
    simp only [normFields, encAll]
    by_cases hemb : emb = true
    · simp only [hemb, if_true]; rw [ihE v (d + 1), ihR vs d]
    · simp only [hemb, Bool.false_eq_true, if_false]
      by_cases hsp : special t = true
      · simp only [hsp, if_true]; rw [ihS v, ihR vs d]
      · simp only [hsp, Bool.false_eq_true, if_false]; rw [ihT v, ihR vs d]

theorem eni_nil : ENi .nil := by intro tn v; simp [normImpl]
theorem eni_cons (n : String) (t : Ty) (rest : Impls) (ihH : ENh t) (ihR : ENi rest) : ENi (.cons n t rest) := by
  intro tn v
  simp only [normImpl, encImpl]
  by_cases hn : (n == tn) = true
  · simp only [hn, if_true]; exact ihH tn v
  · simp only [hn, Bool.false_eq_true, if_false]; exact ihR tn v

mutual
theorem enT : ∀ t : Ty, ENt t
  | .leaf k => en_leaf k
  | .struct fs => en_struct fs (enF fs)
  | .ptr t => en_ptr t (enT t)
  | .slice t => en_slice t (enT t)
  | .iface impls => en_iface impls (enI impls)
theorem enS : ∀ t : Ty, ENs t
  | .leaf k => ens_leaf k
  | .struct fs => ens_struct fs (enF fs)
  | .ptr t => ens_ptr t (enT t)
  | .slice t => ens_slice t (enS t)
  | .iface impls => ens_iface impls (enI impls)
theorem enE : ∀ t : Ty, ENe t
  | .struct fs => ene_struct fs (enF fs)
  | .leaf _ => ene_other _ (by intro fs h; cases h)
  | .ptr _ => ene_other _ (by intro fs h; cases h)
  | .slice _ => ene_other _ (by intro fs h; cases h)
  | .iface _ => ene_other _ (by intro fs h; cases h)
theorem enH : ∀ t : Ty, ENh t
  | .struct fs => enh_struct fs (enF fs)
  | .leaf _ => enh_other _ (by intro fs h; cases h)
  | .ptr _ => enh_other _ (by intro fs h; cases h)
  | .slice _ => enh_other _ (by intro fs h; cases h)
  | .iface _ => enh_other _ (by intro fs h; cases h)
theorem enF : ∀ fs : Flds, ENf fs
  | .nil => enf_nil
  | .cons n emb t rest => enf_cons n emb t rest (enE t) (enS t) (enT t) (enF rest)
theorem enI : ∀ impls : Impls, ENi impls
  | .nil => eni_nil
  | .cons n t rest => eni_cons n t rest (enH t) (enI rest)
end

/-! ### a decoded-shape value, normalised, is well-formed in the strict sense -/

abbrev WNt (t : Ty) : Prop := ∀ v, WFn t v → WF t (norm t v)
abbrev WNs (t : Ty) : Prop := ∀ v, WFnSpecial t v → WFSpecial t (normSpecial t v)
abbrev WNf (fs : Flds) : Prop := ∀ vs, WFnFields fs vs → WFFields fs (normFields fs vs)
abbrev WNe (t : Ty) : Prop := ∀ v, WFnEmb t v → WFEmb t (norm t v)
abbrev WNi (impls : Impls) : Prop := ∀ tn v, WFnImpl impls tn v → WFImpl impls tn (normImpl impls tn v)
abbrev WNh (t : Ty) : Prop := ∀ tn v, WFnImplHead t tn v → WFImplHead t tn (norm t v)

theorem wn_leaf (k : Leaf) : WNt (.leaf k) := by
  intro v h
  cases v <;> simp_all [WFn, WF, norm]
theorem wn_struct (fs : Flds) (ihF : WNf fs) : WNt (.struct fs) := by
  intro v h
  cases v with
  | struct vs =>
    simp only [WFn] at h
    simp only [norm, WF, enF fs vs 0]
    exact ⟨ihF vs h.1, h.2⟩
  | _ => simp [WFn] at h
theorem wn_ptr (t : Ty) (ih : WNt t) : WNt (.ptr t) := by
  intro v h
  cases v with
  | nilPtr => simp [norm, WF]
  | ptr w =>
    simp only [WFn] at h
    simp only [norm, WF, enT t w]
    exact ⟨ih w h.1, h.2⟩
  | _ => simp [WFn] at h
theorem wn_slice (t : Ty) (ih : WNt t) : WNt (.slice t) := by
  intro v h
  cases v with
  | nilSlice => simp [norm, WF]
  | slice vs =>
    simp only [WFn] at h
    simp only [norm, WF]
    intro w hw
    obtain ⟨x, hx, rfl⟩ := List.mem_map.1 hw
    exact ih x (h x hx)
  | _ => simp [WFn] at h
theorem wn_iface (impls : Impls) (ihI : WNi impls) : WNt (.iface impls) := by
  intro v h
  cases v with
  | nilIface => simp [norm, WF]
  | iface tn w =>
    simp only [WFn] at h
    simp only [norm, WF]
    exact ⟨h.1, ihI tn w h.2⟩
  | _ => simp [WFn] at h

theorem wns_leaf (k : Leaf) : WNs (.leaf k) := by
  intro v h
  cases v <;> simp_all [WFnSpecial, WFSpecial, normSpecial]
theorem wns_struct (fs : Flds) (ihF : WNf fs) : WNs (.struct fs) := by
  intro v h
  cases v with
  | struct vs =>
    simp only [WFnSpecial] at h
    simp only [normSpecial, WFSpecial, enF fs vs 0]
    exact ⟨ihF vs h.1, h.2⟩
  | _ => simp [WFnSpecial] at h
theorem wns_ptr (t : Ty) (ih : WNt t) : WNs (.ptr t) := by
  intro v h
  cases v with
  | nilPtr => simp [normSpecial, WFSpecial]
  | ptr w =>
    simp only [WFnSpecial] at h
    simp only [normSpecial, WFSpecial, enT t w]
    exact ⟨ih w h.1, h.2⟩
  | _ => simp [WFnSpecial] at h
theorem wns_slice (t : Ty) (ih : WNs t) : WNs (.slice t) := by
  intro v h
  cases v with
  | nilSlice => simp [normSpecial, WFSpecial]
  | slice vs =>
    simp only [WFnSpecial] at h
    simp only [normSpecial, WFSpecial]
    intro w hw
    obtain ⟨x, hx, rfl⟩ := List.mem_map.1 hw
    exact ih x (h x hx)
  | _ => simp [WFnSpecial] at h
theorem wns_iface (impls : Impls) (ihI : WNi impls) : WNs (.iface impls) := by
  intro v h
  cases v with
  | nilIface => simp [normSpecial, WFSpecial]
  | iface tn w =>
    simp only [WFnSpecial] at h
    simp only [normSpecial, WFSpecial]
    exact ⟨h.1, ihI tn w h.2⟩
  | _ => simp [WFnSpecial] at h

theorem wne_struct (fs : Flds) (ihF : WNf fs) : WNe (.struct fs) := by
  intro v h
  cases v with
  | struct ws => simp only [WFnEmb] at h; simp only [norm, WFEmb]; exact ihF ws h
  | _ => simp [WFnEmb] at h
theorem wne_other (t : Ty) (ht : ∀ fs, t ≠ .struct fs) : WNe t := by
  intro v h
  cases t with
  | struct fs => exact absurd rfl (ht fs)
  | _ => simp [WFnEmb] at h

theorem wnh_struct (fs : Flds) (ihF : WNf fs) : WNh (.struct fs) := by
  intro tn v h
  cases v with
  | struct vs =>
    simp only [WFnImplHead] at h
    simp only [norm, WFImplHead, enF fs vs 0]
    exact ⟨ihF vs h.1, h.2.1, h.2.2⟩
  | _ => simp [WFnImplHead] at h
theorem wnh_other (t : Ty) (ht : ∀ fs, t ≠ .struct fs) : WNh t := by
  intro tn v h
  cases t with
  | struct fs => exact absurd rfl (ht fs)
  | _ => simp [WFnImplHead] at h

theorem wnf_nil : WNf .nil := by
  intro vs h
  cases vs with
  | nil => simp [normFields, WFFields]
  | cons _ _ => simp [WFnFields] at h
theorem wnf_cons (n : String) (emb : Bool) (t : Ty) (rest : Flds) (ihE : WNe t) (ihS : WNs t) (ihT : WNt t) (ihR : WNf rest) :
    WNf (.cons n emb t rest) := by
  intro vs h
  cases vs with
  | nil => simp [WFnFields] at h
  | cons v vs =>
    simp only [WFnFields] at h
    simp only [normFields, WFFields]
    refine ⟨?_, ihR vs h.2⟩
    by_cases hemb : emb = true
    · simp only [hemb, if_true] at h ⊢; exact ihE v h.1
    · simp only [hemb, Bool.false_eq_true, if_false] at h ⊢
      by_cases hsp : special t = true
      · simp only [hsp, if_true] at h ⊢; exact ihS v h.1
      · simp only [hsp, Bool.false_eq_true, if_false] at h ⊢; exact ihT v h.1

theorem wni_nil : WNi .nil := by intro tn v h; simp [WFnImpl] at h
theorem wni_cons (n : String) (t : Ty) (rest : Impls) (ihH : WNh t) (ihR : WNi rest) : WNi (.cons n t rest) := by
  intro tn v h
  simp only [WFnImpl] at h
  simp only [normImpl, WFImpl]
  rcases h with ⟨h1, h2⟩ | ⟨h1, h2⟩
  · have : (n == tn) = true := by simpa using h1
    simp only [this, if_true]
    exact Or.inl ⟨h1, ihH tn v h2⟩
  · have : (n == tn) = false := by simpa using h1
    simp only [this, Bool.false_eq_true, if_false]
    exact Or.inr ⟨h1, ihR tn v h2⟩

mutual
theorem wnT : ∀ t : Ty, WNt t
  | .leaf k => wn_leaf k
  | .struct fs => wn_struct fs (wnF fs)
  | .ptr t => wn_ptr t (wnT t)
  | .slice t => wn_slice t (wnT t)
  | .iface impls => wn_iface impls (wnI impls)
theorem wnS : ∀ t : Ty, WNs t
  | .leaf k => wns_leaf k
  | .struct fs => wns_struct fs (wnF fs)
  | .ptr t => wns_ptr t (wnT t)
  | .slice t => wns_slice t (wnS t)
  | .iface impls => wns_iface impls (wnI impls)
theorem wnE : ∀ t : Ty, WNe t
  | .struct fs => wne_struct fs (wnF fs)
  | .leaf _ => wne_other _ (by intro fs h; cases h)
  | .ptr _ => wne_other _ (by intro fs h; cases h)
  | .slice _ => wne_other _ (by intro fs h; cases h)
  | .iface _ => wne_other _ (by intro fs h; cases h)
theorem wnH : ∀ t : Ty, WNh t
  | .struct fs => wnh_struct fs (wnF fs)
  | .leaf _ => wnh_other _ (by intro fs h; cases h)
  | .ptr _ => wnh_other _ (by intro fs h; cases h)
  | .slice _ => wnh_other _ (by intro fs h; cases h)
  | .iface _ => wnh_other _ (by intro fs h; cases h)
theorem wnF : ∀ fs : Flds, WNf fs
  | .nil => wnf_nil
  | .cons n emb t rest => wnf_cons n emb t rest (wnE t) (wnS t) (wnT t) (wnF rest)
theorem wnI : ∀ impls : Impls, WNi impls
  | .nil => wni_nil
  | .cons n t rest => wni_cons n t rest (wnH t) (wnI rest)
end

/-- round trip of every value of decoded shape, up to the normalisation -/
theorem rtn (t : Ty) (v : Val) (h : WFn t v) (hf : noFoldTwins t = true) : dec t (enc t v) = .ok (norm t v) := by
  rw [← enT t v]
  exact rt t (norm t v) (wnT t v h) hf

/-! ### every decoded value has the decoded shape -/

def isStructTy : Ty → Bool
  | .struct _ => true
  | _ => false

/-- one response key, one Go type, among a struct and its embedded fragments (excluded point: F-06k) -/
def SameKeyTy (l : List (String × Ty)) : Prop := ∀ a ∈ l, ∀ b ∈ l, a.1 = b.1 → a.2 = b.2
/-- an implementation's `__typename` field is a Go string (what genqlient generates) -/
def TypenameIsStr (l : List (String × Ty)) : Prop := ∀ a ∈ l, a.1 = "__typename" → a.2 = .leaf .str

mutual
def TyOK : Ty → Prop
  | .leaf _ => True
  | .struct fs => FldsOK fs ∧ SameKeyTy (closureFields fs)
  | .ptr t => TyOK t
  | .slice t => TyOK t
  | .iface impls => ImplsOK impls
def FldsOK : Flds → Prop
  | .nil => True
  | .cons _ emb t rest => (emb = true → isStructTy t = true) ∧ TyOK t ∧ FldsOK rest
def ImplsOK : Impls → Prop
  | .nil => True
  | .cons _ t rest => ImplTyOK t ∧ ImplsOK rest
def ImplTyOK : Ty → Prop
  | .struct fs => FldsOK fs ∧ SameKeyTy (closureFields fs) ∧ TypenameIsStr (closureFields fs)
  | _ => False
end

theorem mapM_ok_inv {α β : Type} (f : α → Except Err β) : ∀ (xs : List α) (vs : List β), xs.mapM f = .ok vs →
    ∀ v ∈ vs, ∃ x ∈ xs, f x = .ok v
  | [], vs, h => by
    simp only [List.mapM_nil, pure, Except.pure] at h
    cases h
    intro v hv; cases hv
  | x :: xs, vs, h => by
    simp only [List.mapM_cons] at h
    obtain ⟨a, h1, h⟩ := bind_ok_inv _ _ _ h
    obtain ⟨as, h2, h⟩ := bind_ok_inv _ _ _ h
    cases h
    intro v hv
    rcases List.mem_cons.1 hv with h3 | h3
    · subst h3; exact ⟨x, List.mem_cons_self, h1⟩
    · obtain ⟨y, hy, hf⟩ := mapM_ok_inv f xs as h2 v h3
      exact ⟨y, List.mem_cons_of_mem _ hy, hf⟩

theorem except_map_ok_inv {α β : Type} (f : α → β) (x : Except Err α) (b : β) (h : x.map f = .ok b) :
    ∃ a, x = .ok a ∧ b = f a := by
  cases x with
  | error e => cases h
  | ok a => cases h; exact ⟨a, rfl, rfl⟩

theorem canon_zero (k : Leaf) : CanonLeaf k (zeroJ k) := by
  cases k
  case int => exact ⟨by decide, by decide⟩
  all_goals simp [CanonLeaf, zeroJ]

theorem decLeaf_img (k : Leaf) (j : J) (v : Val) (h : decLeaf k j = .ok v) :
    ∃ j', v = .leaf j' ∧ CanonLeaf k j' ∧ (isNull j = false → isNull j' = false) := by
  cases j with
  | null =>
    have : decLeaf k .null = .ok (.leaf (zeroJ k)) := by cases k <;> rfl
    rw [this] at h
    cases h
    exact ⟨_, rfl, canon_zero k, by simp [isNull]⟩
  | bool b =>
    cases k
    all_goals (simp only [decLeaf] at h; cases h)
    all_goals exact ⟨_, rfl, by simp [CanonLeaf], by simp [isNull]⟩
  | str x =>
    cases k
    all_goals (simp only [decLeaf] at h; cases h)
    all_goals exact ⟨_, rfl, by simp [CanonLeaf], by simp [isNull]⟩
  | arr xs =>
    cases k
    all_goals (simp only [decLeaf] at h; cases h)
    all_goals exact ⟨_, rfl, by simp [CanonLeaf], by simp [isNull]⟩
  | obj o =>
    cases k
    all_goals (simp only [decLeaf] at h; cases h)
    all_goals exact ⟨_, rfl, by simp [CanonLeaf], by simp [isNull]⟩
  | num tok =>
    cases k
    case int =>
      simp only [decLeaf] at h
      split at h
      · rename_i hi
        cases h
        refine ⟨_, rfl, ?_, by simp [isNull]⟩
        by_cases h0 : (tok == "-0") = true
        · simp only [h0, if_true, CanonLeaf]; exact ⟨by decide, by decide⟩
        · simp only [h0, Bool.false_eq_true, if_false, CanonLeaf]
          exact ⟨hi, by simpa using h0⟩
      · cases h
    all_goals (simp only [decLeaf] at h; cases h)
    all_goals exact ⟨_, rfl, by simp [CanonLeaf], by simp [isNull]⟩

/-! zero values -/

abbrev ZEf (fs : Flds) : Prop := ∀ d, ∀ e ∈ encAll fs (zeros fs) d, ∃ t, (e.2.1, t) ∈ closureFields fs ∧ e.2.2 = fieldEnc t (zero t)
abbrev ZEe (t : Ty) : Prop := ∀ d, ∀ e ∈ encEmb t (zero t) d, ∃ t', (e.2.1, t') ∈ embFields t ∧ e.2.2 = fieldEnc t' (zero t')

theorem ze_nil : ZEf .nil := by intro d e he; simp [zeros, encAll] at he
theorem ze_cons (n : String) (emb : Bool) (t : Ty) (rest : Flds) (ihE : ZEe t) (ihR : ZEf rest) : ZEf (.cons n emb t rest) := by
  intro d e he
  simp only [zeros, encAll] at he
  simp only [closureFields]
  rcases List.mem_append.1 he with h1 | h1
  · by_cases hemb : emb = true
    · simp only [hemb, if_true] at h1 ⊢
      obtain ⟨t', hm, hj⟩ := ihE (d + 1) e h1
      exact ⟨t', List.mem_append_left _ hm, hj⟩
    · simp only [hemb, Bool.false_eq_true, if_false] at h1 ⊢
      by_cases hsp : special t = true
      · simp only [hsp, if_true] at h1
        have : e = (d, n, encSpecial t (zero t)) := by simpa using h1
        subst this
        exact ⟨t, by simp, by simp [fieldEnc, hsp]⟩
      · simp only [hsp, Bool.false_eq_true, if_false] at h1
        have : e = (d, n, enc t (zero t)) := by simpa using h1
        subst this
        exact ⟨t, by simp, by simp [fieldEnc, hsp]⟩
  · obtain ⟨t', hm, hj⟩ := ihR d e h1
    exact ⟨t', List.mem_append_right _ hm, hj⟩
theorem zee_struct (fs : Flds) (ihF : ZEf fs) : ZEe (.struct fs) := by
  intro d e he
  simp only [zero, encEmb] at he
  obtain ⟨t', hm, hj⟩ := ihF d e he
  exact ⟨t', by simp only [embFields]; exact hm, hj⟩
theorem zee_other (t : Ty) (ht : ∀ fs, t ≠ .struct fs) : ZEe t := by
  intro d e he
  cases t with
  | struct fs => exact absurd rfl (ht fs)
  | _ => simp [encEmb] at he

mutual
theorem zeF : ∀ fs : Flds, ZEf fs
  | .nil => ze_nil
  | .cons n emb t rest => ze_cons n emb t rest (zeE t) (zeF rest)
theorem zeE : ∀ t : Ty, ZEe t
  | .struct fs => zee_struct fs (zeF fs)
  | .leaf _ => zee_other _ (by intro fs h; cases h)
  | .ptr _ => zee_other _ (by intro fs h; cases h)
  | .slice _ => zee_other _ (by intro fs h; cases h)
  | .iface _ => zee_other _ (by intro fs h; cases h)
end

theorem coherent_zero (fs : Flds) (hS : SameKeyTy (closureFields fs)) : Coherent (encAll fs (zeros fs) 0) := by
  intro a ha b hb hab
  obtain ⟨t1, hm1, hj1⟩ := zeF fs 0 a ha
  obtain ⟨t2, hm2, hj2⟩ := zeF fs 0 b hb
  have : t1 = t2 := hS _ hm1 _ hm2 hab
  subst this
  rw [hj1, hj2]

theorem coherent_of_dec (fs : Flds) (o : List (String × J)) (vs : List Val) (hS : SameKeyTy (closureFields fs))
    (h : decFields fs o = .ok vs) : Coherent (encAll fs vs 0) := by
  intro a ha b hb hab
  obtain ⟨t1, v1, hm1, hd1, hj1⟩ := faithfulFields fs o vs 0 h a ha
  obtain ⟨t2, v2, hm2, hd2, hj2⟩ := faithfulFields fs o vs 0 h b hb
  have : t1 = t2 := hS _ hm1 _ hm2 hab
  subst this
  rw [hab] at hd1
  rw [hd1] at hd2
  cases hd2
  rw [hj1, hj2]

theorem typename_entries (fs : Flds) (o : List (String × J)) (vs : List Val) (tn : String)
    (hT : TypenameIsStr (closureFields fs)) (hl : lookup o "__typename" = some (.str tn)) (h : decFields fs o = .ok vs) :
    ∀ e ∈ encAll fs vs 0, e.2.1 = "__typename" → e.2.2 = .str tn := by
  intro e he hn
  obtain ⟨t, v, hm, hd, hj⟩ := faithfulFields fs o vs 0 h e he
  have ht : t = .leaf .str := hT _ hm hn
  subst ht
  rw [hn, hl] at hd
  simp only [fieldDec, special, specialBase, Bool.false_eq_true, if_false, dec, decLeaf] at hd
  cases hd
  rw [hj]
  simp [fieldEnc, special, specialBase, enc]

/-! zero values are of decoded shape -/

theorem zero_special (t : Ty) (h : special t = true) : WFnSpecial t (zero t) := by
  cases t with
  | leaf k => simp only [zero, WFnSpecial]; exact canon_zero k
  | struct fs => simp [special, specialBase] at h
  | ptr t => simp [zero, WFnSpecial]
  | slice t => simp [zero, WFnSpecial]
  | iface is => simp [zero, WFnSpecial]

abbrev ZWt (t : Ty) : Prop := TyOK t → WFn t (zero t)
abbrev ZWf (fs : Flds) : Prop := FldsOK fs → WFnFields fs (zeros fs)

theorem zw_struct (fs : Flds) (ihF : ZWf fs) : ZWt (.struct fs) := by
  intro h
  simp only [TyOK] at h
  simp only [zero, WFn]
  exact ⟨ihF h.1, coherent_zero fs h.2⟩
theorem zw_other (t : Ty) (ht : ∀ fs, t ≠ .struct fs) : ZWt t := by
  intro _
  cases t with
  | struct fs => exact absurd rfl (ht fs)
  | leaf k => simp only [zero, WFn]; exact canon_zero k
  | _ => simp [zero, WFn]
theorem zwf_nil : ZWf .nil := by intro _; simp [zeros, WFnFields]
theorem zwf_cons (n : String) (emb : Bool) (t : Ty) (rest : Flds) (ihT : ZWt t) (ihR : ZWf rest) : ZWf (.cons n emb t rest) := by
  intro h
  simp only [FldsOK] at h
  simp only [zeros, WFnFields]
  refine ⟨?_, ihR h.2.2⟩
  by_cases hemb : emb = true
  · simp only [hemb, if_true]
    have hs := h.1 hemb
    cases t with
    | struct fs =>
      have := ihT h.2.1
      simp only [zero, WFn] at this
      simp only [zero, WFnEmb]
      exact this.1
    | _ => simp [isStructTy] at hs
  · simp only [hemb, Bool.false_eq_true, if_false]
    by_cases hsp : special t = true
    · simp only [hsp, if_true]; exact zero_special t hsp
    · simp only [hsp, Bool.false_eq_true, if_false]; exact ihT h.2.1

mutual
theorem zwT : ∀ t : Ty, ZWt t
  | .struct fs => zw_struct fs (zwF fs)
  | .leaf _ => zw_other _ (by intro fs h; cases h)
  | .ptr _ => zw_other _ (by intro fs h; cases h)
  | .slice _ => zw_other _ (by intro fs h; cases h)
  | .iface _ => zw_other _ (by intro fs h; cases h)
theorem zwF : ∀ fs : Flds, ZWf fs
  | .nil => zwf_nil
  | .cons n emb t rest => zwf_cons n emb t rest (zwT t) (zwF rest)
end

/-! the image of the decoder -/

abbrev IMt (t : Ty) : Prop := ∀ (j : J) (v : Val), TyOK t → dec t j = .ok v →
  WFn t v ∧ (isNull j = false → isNull (enc t v) = false)
abbrev IMs (t : Ty) : Prop := ∀ (j : J) (v : Val), TyOK t → decSpecial t j = .ok v → WFnSpecial t v
abbrev IMf (fs : Flds) : Prop := ∀ (o : List (String × J)) (vs : List Val), FldsOK fs → decFields fs o = .ok vs → WFnFields fs vs
abbrev IMe (t : Ty) : Prop := ∀ (o : List (String × J)) (v : Val), TyOK t → isStructTy t = true → dec t (.obj o) = .ok v → WFnEmb t v
abbrev IMi (impls : Impls) : Prop := ∀ (tn : String) (o : List (String × J)) (r : Val), ImplsOK impls →
  lookup o "__typename" = some (.str tn) → decImpl impls tn (.obj o) = .ok r →
  ∃ v, r = .iface tn v ∧ WFnImpl impls tn v ∧ isNull (encImpl impls tn v) = false

theorem typenameOf_lookup (o : List (String × J)) (tn : String) (h : typenameOf o = .ok tn) (hne : tn ≠ "") :
    lookup o "__typename" = some (.str tn) := by
  unfold typenameOf at h
  cases hl : lookup o "__typename" with
  | none => rw [hl] at h; simp only at h; cases h; exact absurd rfl hne
  | some x =>
    rw [hl] at h
    cases x with
    | str s => simp only at h; cases h; rfl
    | null => simp only at h; cases h; exact absurd rfl hne
    | _ => simp only at h; cases h

/-- the struct cases of `dec`, `decSpecial` share this -/
theorem img_struct_core (fs : Flds) (ihF : IMf fs) (hok : FldsOK fs ∧ SameKeyTy (closureFields fs)) (j : J) (v : Val)
    (h : (match j with
          | .null => (Except.ok (.struct (zeros fs)) : Except Err Val)
          | .obj o => (decFields fs o).map .struct
          | _ => .error .typeMismatch) = .ok v) :
    (∃ vs, v = .struct vs ∧ WFnFields fs vs ∧ Coherent (encAll fs vs 0)) := by
  cases j with
  | null =>
    simp only at h
    cases h
    exact ⟨_, rfl, zwF fs hok.1, coherent_zero fs hok.2⟩
  | obj o =>
    simp only at h
    obtain ⟨vs, h1, h2⟩ := except_map_ok_inv _ _ _ h
    subst h2
    exact ⟨vs, rfl, ihF o vs hok.1 h1, coherent_of_dec fs o vs hok.2 h1⟩
  | bool b => simp only at h; cases h
  | num n => simp only at h; cases h
  | str x => simp only at h; cases h
  | arr xs => simp only at h; cases h

theorem im_leaf (k : Leaf) : IMt (.leaf k) := by
  intro j v _ h
  simp only [dec] at h
  obtain ⟨j', rfl, hc, hn⟩ := decLeaf_img k j v h
  exact ⟨by simp only [WFn]; exact hc, by simp only [enc]; exact hn⟩

theorem im_struct (fs : Flds) (ihF : IMf fs) : IMt (.struct fs) := by
  intro j v hok h
  simp only [TyOK] at hok
  simp only [dec] at h
  obtain ⟨vs, rfl, h1, h2⟩ := img_struct_core fs ihF hok j v h
  exact ⟨by simp only [WFn]; exact ⟨h1, h2⟩, by intro _; simp [enc, isNull]⟩

theorem im_ptr (t : Ty) (ih : IMt t) : IMt (.ptr t) := by
  intro j v hok h
  simp only [TyOK] at hok
  by_cases hj : isNull j = true
  · cases j <;> simp [isNull] at hj
    simp only [dec] at h
    cases h
    exact ⟨by simp [WFn], by simp [isNull]⟩
  · have hj' : isNull j = false := by simpa using hj
    rw [dec_ptr_nonnull t j hj'] at h
    obtain ⟨w, h1, rfl⟩ := except_map_ok_inv _ _ _ h
    obtain ⟨hw, hn⟩ := ih j w hok h1
    exact ⟨by simp only [WFn]; exact ⟨hw, hn hj'⟩, by intro _; simp only [enc]; exact hn hj'⟩

theorem im_slice (t : Ty) (ih : IMt t) : IMt (.slice t) := by
  intro j v hok h
  simp only [TyOK] at hok
  cases j with
  | null => simp only [dec] at h; cases h; exact ⟨by simp [WFn], by simp [isNull]⟩
  | arr xs =>
    simp only [dec] at h
    obtain ⟨vs, h1, rfl⟩ := except_map_ok_inv _ _ _ h
    refine ⟨?_, by intro _; simp [enc, isNull]⟩
    simp only [WFn]
    intro w hw
    obtain ⟨x, _, hx⟩ := mapM_ok_inv _ xs vs h1 w hw
    exact (ih x w hok hx).1
  | bool b => simp only [dec] at h; cases h
  | num n => simp only [dec] at h; cases h
  | str x => simp only [dec] at h; cases h
  | obj o => simp only [dec] at h; cases h

/-- the interface cases of `dec`, `decSpecial` share this -/
theorem img_iface_core (impls : Impls) (ihI : IMi impls) (hok : ImplsOK impls) (j : J) (v : Val)
    (h : (match j with
          | .null => (Except.ok .nilIface : Except Err Val)
          | .obj o =>
            match typenameOf o with
            | .error e => .error e
            | .ok tn => if tn == "" then .error .missingTypename else decImpl impls tn (.obj o)
          | _ => .error .typeMismatch) = .ok v) :
    v = .nilIface ∧ j = .null ∨ ∃ tn w, v = .iface tn w ∧ tn ≠ "" ∧ WFnImpl impls tn w ∧ isNull (encImpl impls tn w) = false := by
  cases j with
  | null => simp only at h; cases h; exact Or.inl ⟨rfl, rfl⟩
  | obj o =>
    right
    simp only at h
    cases ht : typenameOf o with
    | error e => rw [ht] at h; cases h
    | ok tn =>
      rw [ht] at h
      simp only at h
      by_cases he : (tn == "") = true
      · simp only [he, if_true] at h; cases h
      · simp only [he, Bool.false_eq_true, if_false] at h
        have hne : tn ≠ "" := by simpa using he
        obtain ⟨w, rfl, hw, hn⟩ := ihI tn o v hok (typenameOf_lookup o tn ht hne) h
        exact ⟨tn, w, rfl, hne, hw, hn⟩
  | bool b => simp only at h; cases h
  | num n => simp only at h; cases h
  | str x => simp only at h; cases h
  | arr xs => simp only at h; cases h

theorem im_iface (impls : Impls) (ihI : IMi impls) : IMt (.iface impls) := by
  intro j v hok h
  simp only [TyOK] at hok
  simp only [dec] at h
  rcases img_iface_core impls ihI hok j v h with ⟨rfl, rfl⟩ | ⟨tn, w, rfl, hne, hw, hn⟩
  · exact ⟨by simp [WFn], by simp [isNull]⟩
  · exact ⟨by simp only [WFn]; exact ⟨hne, hw⟩, by intro _; simp only [enc]; exact hn⟩

theorem ims_leaf (k : Leaf) : IMs (.leaf k) := by
  intro j v _ h
  simp only [decSpecial] at h
  obtain ⟨j', rfl, hc, _⟩ := decLeaf_img k j v h
  simp only [WFnSpecial]; exact hc

theorem ims_struct (fs : Flds) (ihF : IMf fs) : IMs (.struct fs) := by
  intro j v hok h
  simp only [TyOK] at hok
  simp only [decSpecial] at h
  obtain ⟨vs, rfl, h1, h2⟩ := img_struct_core fs ihF hok j v h
  simp only [WFnSpecial]; exact ⟨h1, h2⟩

theorem ims_ptr (t : Ty) (ih : IMt t) : IMs (.ptr t) := by
  intro j v hok h
  simp only [TyOK] at hok
  by_cases hj : isNull j = true
  · cases j <;> simp [isNull] at hj
    simp only [decSpecial] at h
    cases h
    simp [WFnSpecial]
  · have hj' : isNull j = false := by simpa using hj
    rw [decSpecial_ptr_nonnull t j hj'] at h
    obtain ⟨w, h1, rfl⟩ := except_map_ok_inv _ _ _ h
    obtain ⟨hw, hn⟩ := ih j w hok h1
    simp only [WFnSpecial]; exact ⟨hw, hn hj'⟩

theorem ims_slice (t : Ty) (ih : IMs t) : IMs (.slice t) := by
  intro j v hok h
  simp only [TyOK] at hok
  cases j with
  | null => simp only [decSpecial] at h; cases h; simp [WFnSpecial]
  | arr xs =>
    simp only [decSpecial] at h
    obtain ⟨vs, h1, rfl⟩ := except_map_ok_inv _ _ _ h
    simp only [WFnSpecial]
    intro w hw
    obtain ⟨x, _, hx⟩ := mapM_ok_inv _ xs vs h1 w hw
    exact ih x w hok hx
  | bool b => simp only [decSpecial] at h; cases h
  | num n => simp only [decSpecial] at h; cases h
  | str x => simp only [decSpecial] at h; cases h
  | obj o => simp only [decSpecial] at h; cases h

theorem ims_iface (impls : Impls) (ihI : IMi impls) : IMs (.iface impls) := by
  intro j v hok h
  simp only [TyOK] at hok
  simp only [decSpecial] at h
  rcases img_iface_core impls ihI hok j v h with ⟨rfl, _⟩ | ⟨tn, w, rfl, hne, hw, _⟩
  · simp [WFnSpecial]
  · simp only [WFnSpecial]; exact ⟨hne, hw⟩

theorem ime_struct (fs : Flds) (ihF : IMf fs) : IMe (.struct fs) := by
  intro o v hok _ h
  simp only [TyOK] at hok
  simp only [dec] at h
  obtain ⟨ws, h1, rfl⟩ := except_map_ok_inv _ _ _ h
  simp only [WFnEmb]
  exact ihF o ws hok.1 h1
theorem ime_other (t : Ty) (ht : ∀ fs, t ≠ .struct fs) : IMe t := by
  intro o v _ hs _
  cases t with
  | struct fs => exact absurd rfl (ht fs)
  | _ => simp [isStructTy] at hs

theorem imf_nil : IMf .nil := by
  intro o vs _ h
  simp only [decFields] at h
  cases h
  simp [WFnFields]

theorem imf_cons (n : String) (emb : Bool) (t : Ty) (rest : Flds) (ihE : IMe t) (ihS : IMs t) (ihT : IMt t) (ihR : IMf rest) :
    IMf (.cons n emb t rest) := by
  intro o vs hok h
  simp only [FldsOK] at hok
  simp only [decFields] at h
  by_cases hemb : emb = true
  · simp only [hemb, if_true] at h
    obtain ⟨v, h1, h⟩ := bind_ok_inv _ _ _ h
    obtain ⟨ws, h2, h⟩ := bind_ok_inv _ _ _ h
    cases h
    simp only [WFnFields, hemb, if_true]
    exact ⟨ihE o v hok.2.1 (hok.1 hemb) h1, ihR o ws hok.2.2 h2⟩
  · simp only [hemb, Bool.false_eq_true, if_false] at h
    by_cases hsp : special t = true
    · simp only [hsp, if_true] at h
      obtain ⟨v, h1, h⟩ := bind_ok_inv _ _ _ h
      obtain ⟨ws, h2, h⟩ := bind_ok_inv _ _ _ h
      cases h
      simp only [WFnFields, hemb, Bool.false_eq_true, if_false, hsp, if_true]
      exact ⟨ihS _ v hok.2.1 h1, ihR o ws hok.2.2 h2⟩
    · simp only [hsp, Bool.false_eq_true, if_false] at h
      cases hl : lookup o n with
      | none =>
        rw [hl] at h
        simp only at h
        obtain ⟨v, h1, h⟩ := bind_ok_inv _ _ _ h
        obtain ⟨ws, h2, h⟩ := bind_ok_inv _ _ _ h
        cases h
        cases h1
        simp only [WFnFields, hemb, Bool.false_eq_true, if_false, hsp]
        exact ⟨zwT t hok.2.1, ihR o ws hok.2.2 h2⟩
      | some j =>
        rw [hl] at h
        simp only at h
        obtain ⟨v, h1, h⟩ := bind_ok_inv _ _ _ h
        obtain ⟨ws, h2, h⟩ := bind_ok_inv _ _ _ h
        cases h
        simp only [WFnFields, hemb, Bool.false_eq_true, if_false, hsp]
        exact ⟨(ihT j v hok.2.1 h1).1, ihR o ws hok.2.2 h2⟩

theorem imi_nil : IMi .nil := by
  intro tn o r _ _ h
  simp [decImpl] at h

theorem imi_skip (n : String) (t : Ty) (rest : Impls) (ihR : IMi rest) (tn : String) (o : List (String × J)) (r : Val)
    (hok : ImplsOK rest) (hl : lookup o "__typename" = some (.str tn)) (hn : (n == tn) = false)
    (h : decImpl (.cons n t rest) tn (.obj o) = .ok r) :
    ∃ v, r = .iface tn v ∧ WFnImpl (.cons n t rest) tn v ∧ isNull (encImpl (.cons n t rest) tn v) = false := by
  simp only [decImpl, hn, Bool.false_eq_true, if_false] at h
  obtain ⟨v, rfl, hw, hnn⟩ := ihR tn o r hok hl h
  refine ⟨v, rfl, ?_, ?_⟩
  · simp only [WFnImpl]; exact Or.inr ⟨by simpa using hn, hw⟩
  · simp only [encImpl, hn, Bool.false_eq_true, if_false]; exact hnn

theorem imi_struct (n : String) (fs : Flds) (rest : Impls) (ihF : IMf fs) (ihR : IMi rest) : IMi (.cons n (.struct fs) rest) := by
  intro tn o r hok hl h
  simp only [ImplsOK, ImplTyOK] at hok
  by_cases hn : (n == tn) = true
  · simp only [decImpl, hn, if_true, dec] at h
    obtain ⟨w, h1, rfl⟩ := except_map_ok_inv _ _ _ h
    obtain ⟨vs, h2, rfl⟩ := except_map_ok_inv _ _ _ h1
    have hnt : n = tn := by simpa using hn
    refine ⟨.struct vs, rfl, ?_, ?_⟩
    · simp only [WFnImpl, WFnImplHead]
      exact Or.inl ⟨hnt, ihF o vs hok.1.1 h2, coherent_of_dec fs o vs hok.1.2.1 h2,
        typename_entries fs o vs tn hok.1.2.2 hl h2⟩
    · simp [encImpl, hn, encHead, isNull]
  · exact imi_skip n _ rest ihR tn o r hok.2 hl (by simpa using hn) h

theorem imi_other (n : String) (t : Ty) (rest : Impls) (ht : ∀ fs, t ≠ .struct fs) : IMi (.cons n t rest) := by
  intro tn o r hok _ _
  simp only [ImplsOK] at hok
  cases t with
  | struct fs => exact absurd rfl (ht fs)
  | _ => simp [ImplTyOK] at hok

mutual
theorem imT : ∀ t : Ty, IMt t
  | .leaf k => im_leaf k
  | .struct fs => im_struct fs (imF fs)
  | .ptr t => im_ptr t (imT t)
  | .slice t => im_slice t (imT t)
  | .iface impls => im_iface impls (imI impls)
theorem imS : ∀ t : Ty, IMs t
  | .leaf k => ims_leaf k
  | .struct fs => ims_struct fs (imF fs)
  | .ptr t => ims_ptr t (imT t)
  | .slice t => ims_slice t (imS t)
  | .iface impls => ims_iface impls (imI impls)
theorem imE : ∀ t : Ty, IMe t
  | .struct fs => ime_struct fs (imF fs)
  | .leaf _ => ime_other _ (by intro fs h; cases h)
  | .ptr _ => ime_other _ (by intro fs h; cases h)
  | .slice _ => ime_other _ (by intro fs h; cases h)
  | .iface _ => ime_other _ (by intro fs h; cases h)
theorem imF : ∀ fs : Flds, IMf fs
  | .nil => imf_nil
  | .cons n emb t rest => imf_cons n emb t rest (imE t) (imS t) (imT t) (imF rest)
theorem imI : ∀ impls : Impls, IMi impls
  | .nil => imi_nil
  | .cons n (.struct fs) rest => imi_struct n fs rest (imF fs) (imI rest)
  | .cons n (.leaf k) rest => imi_other n (.leaf k) rest (by intro fs h; cases h)
  | .cons n (.ptr t) rest => imi_other n (.ptr t) rest (by intro fs h; cases h)
  | .cons n (.slice t) rest => imi_other n (.slice t) rest (by intro fs h; cases h)
  | .cons n (.iface is) rest => imi_other n (.iface is) rest (by intro fs h; cases h)
end

/-- **every decoded value survives the round trip up to the F-02 normalisation** -/
theorem roundtrip_of_decoded (t : Ty) (j : J) (v : Val) (hok : TyOK t) (hf : noFoldTwins t = true)
    (h : dec t j = .ok v) : dec t (enc t v) = .ok (norm t v) :=
  rtn t v (imT t j v hok h).1 hf

end Genq.Codec
